"""C11 — the output grid computed for another CRS encloses the source.

Correspondence: coq/Model/OutGeobox.v against odc.geo.overlap.compute_output_geobox
(and GeoBox.to_crs), GeoBox.from_bbox, odc.geo.math.snap_grid/maybe_int, Python
round() and norm_crs('utm*').  The values that come out of shapely/pyproj (the
footprint bounding box B, the CRS it carries, the fitted pixel size, the UTM
candidate list) are *observed inside the real call* (GeoBox.from_bbox,
crs._pick_best_crs and the round_resolution hook are wrapped in this process)
and handed to the model, which must then reproduce the returned GeoBox exactly
(shape + six affine coefficients + CRS) in rational arithmetic.

Search: the property's clauses evaluated on the real code with pyproj as the
reference for "projected position of a source pixel".
"""
from __future__ import annotations

import itertools
import math
from fractions import Fraction

from vlib import core, crshist
from vlib.core import cbool, cq, ctuple, cz

ID = "C11"
ALLOWED_AXIOMS: list[str] = []

REQ = ["Base.Result", "Model.OutGeobox", "Model.OutGeoboxCases"]
F = Fraction


# ------------------------------------------------------------------ scenario <-> python objects
def mk_src(spec):
    from affine import Affine
    from odc.geo import wh_
    from odc.geo.geobox import GeoBox

    ny, nx = spec["shape"]
    return GeoBox(wh_(nx, ny), Affine(*spec["affine"]), spec["crs"])


def src_spec(g):
    return {"shape": [int(g.shape[0]), int(g.shape[1])], "affine": [float(v) for v in g.affine[:6]],
            "crs": str(g.crs)}


def py_anchor(a):
    from odc.geo import xy_
    from odc.geo.geobox import AnchorEnum

    kind, v = a
    if kind == "str":
        return v
    if kind == "enum":
        return getattr(AnchorEnum, v)
    if kind == "num":
        return v
    return xy_(float(v[0]), float(v[1]))


def py_resolution(r):
    from odc.geo import resxy_

    if isinstance(r, list):
        return resxy_(float(r[0]), float(r[1]))
    return r


def py_shape(s):
    return tuple(s) if isinstance(s, list) else s


RR_FUNS = {
    # name -> python callable on (avg_res, units)
    "pow2": lambda r, u: 2.0 ** round(math.log2(r)) if r > 0 else 1.0,
    "const": lambda r, u: 64.0,
    "ident": lambda r, u: r,
}


class Hook:
    """round_resolution callable that records what it was given / returned."""

    def __init__(self, kind):
        self.kind = kind
        self.seen = []

    def __call__(self, r, units):
        out = RR_FUNS[self.kind](r, units)
        self.seen.append((float(r), units, float(out)))
        return out


class Recorder:
    """Wraps GeoBox.from_bbox: records every call; optionally replaces the box of the
    *final* call of compute_output_geobox (the one carrying anchor= and tol=)."""

    def __init__(self, subst=None):
        self.subst = subst
        self.calls = []

    def __enter__(self):
        from odc.geo.geobox import GeoBox

        self.cls = GeoBox
        self.orig = GeoBox.__dict__["from_bbox"]
        fn = self.orig.__func__
        rec = self

        def wrapper(bbox, crs=None, **kw):
            final = "anchor" in kw and "tol" in kw and "resolution" in kw
            if final and rec.subst is not None:
                bbox = rec.subst(bbox, kw)
            rec.calls.append({"bbox": bbox, "crs": crs, "kw": dict(kw), "final": final})
            return fn(bbox, crs, **kw)

        GeoBox.from_bbox = staticmethod(wrapper)
        return self

    def __exit__(self, *a):
        self.cls.from_bbox = self.orig

    def final(self):
        ff = [c for c in self.calls if c["final"]]
        return ff[-1] if ff else None


def err_kind(e):
    if isinstance(e, AssertionError):
        return "assert"
    if isinstance(e, ValueError):
        return "value"
    return "other"


ERR_COQ = {"assert": "(Err (EAssert 0))", "value": "(Err EValue)", "other": "(Err EOther)"}


DOC_DEFAULTS = {"resolution": "auto", "shape": None, "tight": False, "anchor": ["str", "default"], "tol": 0.01, "rr": None}


def call_real(src, scn, rr=None, via_to_crs=False, xx=None):
    """entry points: the function compute_output_geobox (every keyword spelled out), the method GeoBox.to_crs and the
    xarray accessor .odc.output_geobox (keywords at their documented default are NOT passed, so that the entry
    point's own defaults are what is exercised)"""
    from odc.geo.overlap import compute_output_geobox

    kw = dict(resolution=py_resolution(scn["resolution"]), shape=py_shape(scn["shape"]), tight=scn["tight"],
              anchor=py_anchor(scn["anchor"]), tol=scn["tol"], round_resolution=rr)
    via = "method" if via_to_crs else scn.get("via", "function")
    if via == "function":
        return compute_output_geobox(src, scn["crs"], **kw)
    for k, name in (("resolution", "resolution"), ("shape", "shape"), ("tight", "tight"), ("anchor", "anchor"), ("tol", "tol")):
        if scn[k] == DOC_DEFAULTS[k]:
            kw.pop(name)
    if rr is None:
        kw.pop("round_resolution")
    if via == "method":
        return src.to_crs(scn["crs"], **kw)
    if xx is None:
        from odc.geo.xr import xr_zeros

        xx = xr_zeros(src, dtype="uint8")
    return xx.odc.output_geobox(scn["crs"], **kw)


# ------------------------------------------------------------------ CRS / units registry
class Registry:
    def __init__(self):
        self.crs = []
        self.units = []

    def crs_id(self, c):
        import pyproj

        pc = pyproj.CRS.from_user_input(c.to_wkt())
        for i, k in enumerate(self.crs):
            if k == c and pyproj.CRS.from_user_input(k.to_wkt()).equals(pc):
                return i
        self.crs.append(c)
        return len(self.crs) - 1

    def units_id(self, u):
        u = tuple(u)
        if u not in self.units:
            self.units.append(u)
        return self.units.index(u)


# ------------------------------------------------------------------ exactness domain
def representable(x: Fraction) -> bool:
    try:
        return F(float(x)) == x
    except OverflowError:
        return False


def low_bit_exp(x: Fraction) -> int:
    """e with x = odd * 2^e (x a non-zero dyadic rational)"""
    n, d = x.numerator, x.denominator
    e = 0
    if d != 1:
        return -(d.bit_length() - 1)
    while n % 2 == 0:
        n //= 2
        e += 1
    return e


def exact_domain(B, rx, ry, snap, shape_mode=None):
    """True when every binary64 operation of from_bbox/snap_grid on these inputs is exact:
    all quantities are multiples of a common power of two within 2^44 of the largest
    magnitude, and every quotient the code forms is itself representable."""
    l, b, r, t = B
    if rx == 0 or ry == 0 or not (l < r and b < t):
        return True                                   # error paths / guards: no arithmetic involved
    vals = [l, b, r, t, rx, ry]
    offs = (F(0), F(0))
    if snap is not None:
        offs = (snap[0] * abs(rx), snap[1] * abs(ry))
        if not (0 <= snap[0] < 1 and 0 <= snap[1] < 1):
            return True                               # assertion path
        vals += list(offs)
    for v in vals:
        if v.denominator & (v.denominator - 1):       # not dyadic
            return False
        if not representable(v):
            return False
    nz = [v for v in vals if v != 0]
    e = min(low_bit_exp(v) for v in nz)
    if max(abs(v) for v in nz) / F(2) ** e >= 2 ** 44:
        return False
    qs = [(l - offs[0]) / abs(rx), (r - offs[0]) / abs(rx), (r - l) / abs(rx),
          (b - offs[1]) / abs(ry), (t - offs[1]) / abs(ry), (t - b) / abs(ry)]
    for q in qs:
        if not representable(q) or abs(q) >= 2 ** 40:
            return False
    return True


def grid_round(v: Fraction, g: Fraction, up: bool) -> Fraction:
    k = v / g
    return (math.ceil(k) if up else math.floor(k)) * g


def pow2_at_least(x: Fraction) -> Fraction:
    e = 0
    p = F(1)
    while p < x:
        p *= 2
    while p / 2 >= x:
        p /= 2
    return p


def make_subst(log):
    """Replace the footprint box by a nearby one on a grid that keeps from_bbox exact
    (multiples of |res|/64, or spans that are shape * power of two)."""

    def subst(bbox, kw):
        from odc.geo.geom import BoundingBox
        from odc.geo.types import Resolution

        l, b, r, t = (F(v) for v in bbox.bbox)
        if not all(math.isfinite(v) for v in bbox.bbox) or not (l < r and b < t):
            return bbox
        res, shape = kw.get("resolution"), kw.get("shape")
        try:
            if shape is None and isinstance(res, (int, float)) and not isinstance(res, bool):
                res = Resolution(float(res))
            if shape is None and isinstance(res, Resolution):
                rx, ry = F(res.x), F(res.y)
                if rx == 0 or ry == 0:
                    return bbox
                gx, gy = abs(rx) / 64, abs(ry) / 64
                nb = (grid_round(l, gx, False), grid_round(b, gy, False), grid_round(r, gx, True),
                      grid_round(t, gy, True))
            elif isinstance(shape, int) and not isinstance(shape, bool) and shape > 0:
                p = pow2_at_least(max(r - l, t - b) / shape)
                g = p / 64
                l2, b2 = grid_round(l, g, False), grid_round(b, g, False)
                if r - l > t - b:
                    nb = (l2, b2, l2 + shape * p, grid_round(t, g, True))
                else:
                    nb = (l2, b2, grid_round(r, g, True), b2 + shape * p)
                if not (nb[2] - nb[0] != nb[3] - nb[1]):
                    return bbox
            elif isinstance(shape, tuple) and shape[0] > 0 and shape[1] > 0:
                ny, nx = shape
                px_, py_ = pow2_at_least((r - l) / nx), pow2_at_least((t - b) / ny)
                l2 = grid_round(l, px_ / 64, False)
                t2 = grid_round(t, py_ / 64, True)
                nb = (l2, t2 - ny * py_, l2 + nx * px_, t2)
            else:
                return bbox
        except (ZeroDivisionError, OverflowError):
            return bbox
        if not all(representable(v) for v in nb):
            return bbox
        log.append(nb)
        return BoundingBox(*[float(v) for v in nb], crs=bbox.crs)

    return subst


# ------------------------------------------------------------------ Coq literals
def c_anchor(a):
    kind, v = a
    if kind == "str":
        return {"default": "(AStr SDefault)", "edge": "(AStr SEdge)", "center": "(AStr SCenter)",
                "centre": "(AStr SCentre)", "floating": "(AStr SFloating)"}.get(v, "(AStr SOther)")
    if kind == "enum":
        return {"EDGE": "AEnumEdge", "CENTER": "AEnumCenter", "FLOATING": "AEnumFloating"}[v]
    if kind == "num":
        return f"(ANum {cq(F(v))})"
    return f"(AXY {cq(F(float(v[0])))} {cq(F(float(v[1])))})"


def c_resreq(r):
    if isinstance(r, str):
        return {"same": "RSame", "auto": "RAuto", "fit": "RFit"}.get(r, "RStr")
    if isinstance(r, list):
        return f"(RXY {cq(F(float(r[0])))} {cq(F(float(r[1])))})"
    return f"(RNum {cq(F(float(r)))})"


def c_shape(s):
    if s is None:
        return "None"
    if isinstance(s, list):
        return f"(Some (ShapeYX {cz(s[0])} {cz(s[1])}))"
    return f"(Some (ShapeN {cz(s)}))"


def c_box(B):
    return "(mkBox " + " ".join(cq(v) for v in B) + ")"


def c_gbox(g, reg):
    a = [F(float(v)) for v in g.affine[:6]]
    return (f"(mkG {cz(g.shape[0])} {cz(g.shape[1])} (mkAff " + " ".join(cq(v) for v in a) + f") {cz(reg.crs_id(g.crs))})")


def c_optpair(p):
    return "None" if p is None else f"(Some {ctuple(cq(p[0]), cq(p[1]))})"


# ------------------------------------------------------------------ sources and option tables
# CRSs defined by PROJ strings: no EPSG code on either side (MODIS sinusoidal, a custom Albers, a custom LAEA)
SINU = "+proj=sinu +lon_0=0 +x_0=0 +y_0=0 +R=6371007.181 +units=m +no_defs"
SINU_RESPELLED = "+proj=sinu +lon_0=0 +x_0=0 +y_0=0 +R=6371007.181 +units=m +no_defs +type=crs"
AEA_CUSTOM = "+proj=aea +lat_1=-18 +lat_2=-36 +lat_0=0 +lon_0=134 +x_0=0 +y_0=0 +ellps=WGS84 +units=m +no_defs"
LAEA_CUSTOM = "+proj=laea +lat_0=-25 +lon_0=134 +x_0=0 +y_0=0 +ellps=WGS84 +units=m +no_defs"
TMERC_CUSTOM = "+proj=tmerc +lat_0=0 +lon_0=15 +k=1 +x_0=0 +y_0=0 +ellps=GRS80 +units=m +no_defs"
NOEPSG_TARGETS = [SINU_RESPELLED, AEA_CUSTOM, LAEA_CUSTOM, "EPSG:4326", "EPSG:3577"]


def targets_of(src):
    return TARGETS.get(str(src.crs), NOEPSG_TARGETS)


def pyproj_same_crs(crs_obj, request) -> bool:
    """independent reference for 'the same CRS': pyproj's own strict equality on freshly built objects"""
    import pyproj

    return pyproj.CRS.from_user_input(crs_obj.to_wkt()).equals(pyproj.CRS.from_user_input(request))


def base_sources():
    """Small dyadic-friendly grids for the correspondence (north-up, south-up, 180-degree rotated)."""
    from affine import Affine
    from odc.geo import wh_
    from odc.geo.geobox import GeoBox

    out = []
    out.append(GeoBox.from_bbox([199980, 3890220, 199980 + 8192, 3890220 + 6144], "EPSG:32630", resolution=16))
    out.append(GeoBox.from_bbox([-6.5, 35.25, -5.25, 36.125], "EPSG:4326", resolution=2.0 ** -9))
    out.append(GeoBox.from_bbox([1440000, -4000000, 1440000 + 10240, -4000000 + 5120], "EPSG:3577", resolution=10))
    out.append(GeoBox.from_bbox([-700000, 4200000, -700000 + 4096, 4200000 + 4096], "EPSG:3857", resolution=8))
    # south-up, non-square pixels; mirrored (both components negative)
    out.append(GeoBox(wh_(256, 128), Affine(16, 0, 600000, 0, 8, 5000000), "EPSG:32633"))
    out.append(GeoBox(wh_(128, 128), Affine(-32, 0, 600000 + 4096, 0, -32, 5000000), "EPSG:32633"))
    # no EPSG code: MODIS-like sinusoidal tile over central Australia (targets: custom Albers / LAEA, own CRS respelled)
    out.append(GeoBox(wh_(64, 64), Affine(512, 0, 12500000 + 0, 0, -512, -2500000), SINU))
    out.append(GeoBox(wh_(96, 64), Affine(256, 0, 300000, 0, -256, -3200000), AEA_CUSTOM))
    # degree based, non-square pixels (degree -> degree targets keep the source's resolution pair)
    out.append(GeoBox(wh_(256, 128), Affine(2.0 ** -9, 0, 10.0, 0, -(2.0 ** -8), 50.0), "EPSG:4258"))
    return out


TARGETS = {
    "EPSG:32630": ["EPSG:32630", "EPSG:3857", "EPSG:4326", "EPSG:32631"],
    "EPSG:4326": ["EPSG:4326", "EPSG:4283", "EPSG:3857", "EPSG:32630"],
    "EPSG:3577": ["EPSG:3577", "EPSG:6933", "EPSG:4326", "EPSG:32755"],
    "EPSG:3857": ["epsg:3857", "EPSG:6933", "EPSG:4326", "EPSG:32629"],
    "EPSG:32633": ["EPSG:32633", "EPSG:3857", "EPSG:4326", "EPSG:3035"],
    "EPSG:4258": ["EPSG:4258", "EPSG:4326", "EPSG:3035", "EPSG:4283"],
}

RES_REQS = ["same", "auto", "fit", "bad", 32.0, 2.0 ** -8, [16.0, -8.0], [0.25, 0.5], -4.0]
ANCHORS = [["str", "default"], ["str", "edge"], ["enum", "EDGE"], ["str", "center"], ["enum", "CENTER"],
           ["str", "floating"], ["enum", "FLOATING"], ["num", 0], ["num", 0.5], ["num", 0.25],
           ["xy", [0.25, 0.75]], ["str", "centre"]]
SHAPES = [None, None, 8, 100, [4, 8], [16, 16], 1, [1, 1]]
TOLS = [0.01, 0.0, 0.25, 0.5, 2.0 ** -7]
RRS = [None, None, True, False, "pow2", "const"]
BAD = [dict(anchor=["str", "bogus"]), dict(anchor=["num", 1.5]), dict(anchor=["xy", [-0.25, 0.5]]),
       dict(resolution=0.0), dict(shape=0), dict(shape=[0, 4]), dict(shape=[4, 0]), dict(resolution="Auto"),
       dict(resolution=[0.0, 1.0]), dict(anchor=["num", 1.5], tight=True), dict(anchor=["str", "bogus"], shape=[2, 2])]


def scenario(crs, resolution="auto", shape=None, tight=False, anchor=("str", "default"), tol=0.01, rr=None):
    return {"crs": crs, "resolution": resolution, "shape": shape, "tight": tight, "anchor": list(anchor),
            "tol": tol, "rr": rr}


# ------------------------------------------------------------------ correspondence: compute_output_geobox
def observe_case(src, scn, reg, out, via_to_crs=False):
    """Run the real code on (src, scn) with the wrappers in place, build the Coq case."""
    from odc.geo.geobox import GeoBox

    fit_needed = scn["shape"] is None and scn["resolution"] in ("fit", "auto")
    fit = F(1)
    fit_seen = False
    if fit_needed:
        h0 = Hook("ident")
        try:
            call_real(src, dict(scn, tight=True, anchor=["str", "floating"], tol=0.01), rr=h0)
        except Exception:  # noqa: BLE001
            pass
        if h0.seen:
            fit = F(h0.seen[0][0])
            fit_seen = True
    hook = None
    rr = scn["rr"]
    if isinstance(rr, str):
        hook = Hook(rr)
        rr = hook
    sub_log = []
    rec = Recorder(make_subst(sub_log))
    err = None
    res = None
    with rec:
        try:
            res = call_real(src, scn, rr=rr, via_to_crs=via_to_crs)
        except Exception as e:  # noqa: BLE001
            err = err_kind(e)
    fin = rec.final()
    # the oracle values
    if fin is not None:
        Bf = tuple(F(v) for v in fin["bbox"].bbox)
        dst_crs = fin["bbox"].crs
    else:
        Bf = (F(0), F(0), F(1), F(1))
        # from_bbox was not reached (short-circuit or error): the CRS the footprint box carries, observed on
        # its own (NOT taken from the result: a wrongly short-circuited call returns the source CRS)
        dst_crs = src.footprint(scn["crs"], buffer=0.9, npoints=100).boundingbox.crs
    dst_id = reg.crs_id(dst_crs)
    du = reg.units_id(dst_crs.units)
    s_lit = (f"(mkSrc {cbool(isinstance(src, GeoBox))} {cz(reg.crs_id(src.crs))} {cz(reg.units_id(src.crs.units))} "
             f"{ctuple(cq(F(src.resolution.x)), cq(F(src.resolution.y)))})")
    # rounding hook literal
    if scn["rr"] is None:
        rr_lit = "RRNone"
    elif isinstance(scn["rr"], bool):
        rr_lit = f"(RRBool {cbool(scn['rr'])})"
    else:
        if hook.seen:
            raw, units, outv = hook.seen[0]
            ok_units = units == dst_crs.units[0] and len(hook.seen) == 1
            rr_lit = (f"(RRFun (fun x => if Qeq_bool x {cq(F(raw))} then {cq(F(outv)) if ok_units else cq(F(0))} "
                      f"else 0%Q))")
        else:
            rr_lit = "(RRFun (fun x => 0%Q))"
    # exactness of the numeric part
    exact = True
    same_obj = res is not None and res is src
    if fin is not None and err is None or (fin is not None and err == "assert"):
        kw = fin["kw"]
        res_kw = kw.get("resolution")
        shp = kw.get("shape")
        tight = kw.get("tight")
        a = scn["anchor"]
        snap = None
        if not tight:
            k, v = a
            if k == "str":
                snap = {"default": (F(0), F(0)), "edge": (F(0), F(0)), "center": (F(1, 2), F(1, 2)),
                        "centre": (F(1, 2), F(1, 2)), "floating": None}.get(v)
            elif k == "enum":
                snap = {"EDGE": (F(0), F(0)), "CENTER": (F(1, 2), F(1, 2)), "FLOATING": None}[v]
            elif k == "num":
                snap = (F(v), F(v))
            else:
                snap = (F(float(v[0])), F(float(v[1])))
        if shp is None and res_kw is not None:
            if isinstance(res_kw, (int, float)):          # from_bbox applies res_(): square, y inverted
                exact = exact_domain(Bf, F(float(res_kw)), -F(float(res_kw)), snap)
            else:
                exact = exact_domain(Bf, F(res_kw.x), F(res_kw.y), snap)
        elif isinstance(shp, int):
            if shp > 0:
                sx, sy = Bf[2] - Bf[0], Bf[3] - Bf[1]
                ratio = sx / sy
                r_ = (sx if ratio > 1 else sy) / shp
                exact = (abs(ratio - 1) > F(1, 10 ** 9) and representable(ratio) or ratio == 1) and representable(r_) \
                    and exact_domain(Bf, r_, -r_, snap)
        elif isinstance(shp, tuple):
            ny, nx = shp
            if ny > 0 and nx > 0:
                rx_, ry_ = (Bf[2] - Bf[0]) / nx, -(Bf[3] - Bf[1]) / ny
                exact = representable(rx_) and representable(ry_) and exact_domain(Bf, rx_, ry_, snap)
    if err is not None:
        exp = ERR_COQ[err]
        exp_res = ERR_COQ[err]
    elif same_obj:
        exp = "(Ok OSame)"
        exp_res = "(Ok None)"
    else:
        exp = f"(Ok (ONew {c_gbox(res, reg)}))"
        exp_res = f"(Ok (Some {ctuple(cq(F(float(res.affine.a))), cq(F(float(res.affine.e))))}))"
    args = (f"{s_lit} {cz(dst_id)} {cz(du)} {c_box(Bf)} {cq(fit)} {c_resreq(scn['resolution'])} "
            f"{c_shape(scn['shape'])} {cbool(scn['tight'])} {c_anchor(scn['anchor'])} {cq(F(scn['tol']))} {rr_lit}")
    if exact:
        text = f"COut {args} {exp}"
        kind = "out:exact"
    else:
        text = f"COutRes {args} {exp_res}"
        kind = "out:resolution-only(inexact-floats)"
    branch = ("err:" + err) if err else ("same-object" if same_obj else "new")
    info = {"op": "compute_output_geobox", "src": src_spec(src), "scn": scn, "observed_box": [str(v) for v in Bf],
            "fit": str(fit) if fit_seen else None, "result": exp[:400]}
    return text, kind, branch, info


def gen_out_cases(out, tier, reg):
    rng = core.rng("c11-out")
    cases, infos = [], []

    def add(src, scn, via=False):
        text, kind, branch, info = observe_case(src, scn, reg, out, via)
        cases.append(text)
        infos.append(info)
        out.count(kind)
        out.count("branch:" + branch)
        rq = scn["resolution"] if isinstance(scn["resolution"], str) else ("xy" if isinstance(scn["resolution"], list) else "num")
        out.count("resolution:" + rq)
        out.case(("out", src_spec(src), scn), True, info if len(out.samples) < 3 else None)

    srcs = base_sources()
    # 1. decision table: resolution mode x CRS relation x shape kind (default anchor), every source
    for src in srcs:
        for crs in targets_of(src):
            for rq in ["same", "auto", "fit", "bad", 32.0, [16.0, -8.0]]:
                for shp in [None, 8, [4, 8]]:
                    if tier == "quick" and src is not srcs[0] and rng.random() < (0.5 if src.crs.epsg is None else 0.8):
                        continue
                    add(src, scenario(crs, rq, shp))
    # 2. anchors x tight x shape kinds (resolution-driven with a dyadic resolution so the numbers are exact)
    n2 = 0
    for src in srcs:
        crs_list = targets_of(src)
        for a, tight, shp in itertools.product(ANCHORS, [False, True], [None, 8, [4, 8]]):
            if tier == "quick" and rng.random() < 0.8:
                continue
            crs = rng.choice(crs_list)
            rq = rng.choice(["same", "auto", 32.0, 2.0 ** -8, [16.0, -8.0], -4.0, [0.25, 0.5]])
            add(src, scenario(crs, rq, shp, tight, a, rng.choice(TOLS), None), via=rng.random() < 0.3)
            n2 += 1
    # 3. random over everything incl. rounding hooks
    n = 60 if tier == "quick" else 1200
    for _ in range(n):
        src = rng.choice(srcs)
        crs = rng.choice(targets_of(src))
        rq = rng.choice(RES_REQS)
        rr = rng.choice(RRS)
        if rr is not None and rng.random() < 0.7:
            rq = rng.choice(["fit", "auto"])
        add(src, scenario(crs, rq, rng.choice(SHAPES), rng.random() < 0.3, rng.choice(ANCHORS), rng.choice(TOLS), rr),
            via=rng.random() < 0.2)
    # 4. malformed stream
    for src in srcs[:2] if tier == "quick" else srcs:
        for crs in targets_of(src)[:3]:
            for bad in BAD:
                add(src, dict(scenario(crs, 32.0), **bad))
    return cases, infos


# ------------------------------------------------------------------ correspondence: leaf functions
def dy(rng, bits=10, scale=F(1)):
    return F(rng.randint(-(1 << bits), 1 << bits), 1 << rng.choice([0, 1, 2, 3, 6])) * scale


def py_call(f, *a, **k):
    try:
        return f(*a, **k), None
    except Exception as e:  # noqa: BLE001
        return None, err_kind(e)


def gen_leaf_cases(out, tier, reg):
    from odc.geo import resxy_
    from odc.geo.geobox import GeoBox
    from odc.geo.geom import BoundingBox
    from odc.geo.math import maybe_int, snap_grid

    rng = core.rng("c11-leaf")
    cases = []

    def add(kind, text, canon, nontrivial=True, sample=None):
        cases.append(text)
        out.count(kind)
        out.case((kind, canon), nontrivial, sample)

    tols = [F(0.01), F(0), F(1, 4), F(1, 2), F(2.0 ** -7), F(1e-6), F(3, 4)]
    # maybe_int: values at, just inside and just outside the tolerance, ties at .5
    for _ in range(300 if tier == "quick" else 3000):
        tol = rng.choice(tols)
        base = rng.randint(-40, 40)
        mode = rng.random()
        if mode < 0.5:
            eps = rng.choice([F(0), F(float(tol)), F(float(tol)) - F(1, 2 ** 20), F(float(tol)) + F(1, 2 ** 20),
                              F(1, 2), F(1, 2) - F(1, 2 ** 12), F(1, 2) + F(1, 2 ** 12)])
            x = base + rng.choice([-1, 1]) * eps
        else:
            x = dy(rng, 12)
        if not representable(x):
            continue
        got = maybe_int(float(x), float(tol))
        add("maybe_int", f"CMaybeInt {cq(x)} {cq(tol)} {cq(F(got))}", (str(x), str(tol)))
    # round(x, 0)
    for _ in range(200 if tier == "quick" else 2000):
        x = rng.choice([F(rng.randint(-50, 50)) + F(1, 2), dy(rng, 12), F(rng.uniform(-100, 100)), F(rng.uniform(0, 1))])
        add("round", f"CRound {cq(x)} {cz(int(round(float(x), 0)))}", str(x))
    # snap_grid
    nsnap = 700 if tier == "quick" else 8000
    for _ in range(nsnap):
        res = rng.choice([1, 1, 2, 8, 16, 10, 30, F(1, 4), F(1, 512), 3]) * rng.choice([1, 1, -1])
        res = F(res)
        off = rng.choice([None, None, F(0), F(0), F(0), F(1, 2), F(1, 2), F(1, 4), F(3, 4), F(1, 8), F(5, 16), F(1), F(-1, 4), F(3, 2)])
        tol = rng.choice(tols)
        g = abs(res) / 64
        k0 = rng.randint(-5000, 5000) * 64 + rng.choice([0, 0, 1, -1, 32, rng.randint(-63, 63)])
        span = rng.choice([0, 1, 2, 63, 64, 65, 64 * 7, 64 * 7 + 1, 64 * 7 - 1, rng.randint(0, 64 * 300), rng.randint(0, 64 * 300), rng.randint(0, 64 * 3000), -5])
        x0, x1 = k0 * g, (k0 + span) * g
        if rng.random() < 0.3:     # values right at the tolerance of an integer multiple
            d = F(float(tol)) * abs(res) + rng.choice([F(0), g / 1024, -g / 1024])
            x0 = rng.randint(-100, 100) * abs(res) + rng.choice([-1, 1]) * d
            x1 = x0 + rng.randint(0, 50) * abs(res) + rng.choice([F(0), d, -d, 2 * d])
        if rng.random() < 0.05:
            res = F(0)
        if not all(representable(v) for v in (x0, x1)):
            continue
        offs = None if off is None else (off, off)
        if off is not None and not (0 <= off < 1):
            pass
        elif res != 0 and x0 <= x1 and not exact_domain((x0, F(0), x1 if x1 > x0 else x0 + abs(res), F(1)), res, F(1), offs):
            out.count("snap_grid:discarded-inexact")
            continue
        got, err = py_call(snap_grid, float(x0), float(x1), float(res), None if off is None else float(off), float(tol))
        exp = ERR_COQ[err] if err else f"(Ok {ctuple(cq(F(got[0])), cz(got[1]))})"
        add("snap_grid:" + (err or "ok"), f"CSnap {cq(x0)} {cq(x1)} {cq(res)} {'None' if off is None else '(Some ' + cq(off) + ')'} {cq(tol)} {exp}",
            (str(x0), str(x1), str(res), str(off), str(tol)), True,
            {"op": "snap_grid", "args": [float(x0), float(x1), float(res), None if off is None else float(off), float(tol)],
             "result": exp} if len(out.samples) < 5 else None)
    # from_bbox directly
    crs = "EPSG:3857"
    cid = reg.crs_id(GeoBox.from_bbox((0, 0, 1, 1), crs, resolution=1).crs)
    nfb = 500 if tier == "quick" else 6000
    for _ in range(nfb):
        rx = F(rng.choice([1, 2, 8, 10, 30, F(1, 4), F(1, 256)])) * rng.choice([1, 1, 1, -1])
        ry = rng.choice([-rx, -rx, rx, F(rng.choice([1, 4, 10, F(1, 8)])) * rng.choice([1, -1])])
        gx, gy = abs(rx) / 64, abs(ry) / 64
        l = rng.randint(-3000, 3000) * 64 * gx + rng.choice([0, 0, 1, -1, 31, 33]) * gx
        b = rng.randint(-3000, 3000) * 64 * gy + rng.choice([0, 0, 1, -1, 31, 33]) * gy
        r = l + rng.choice([1, 64, 65, 640, 6400 + 1, rng.randint(1, 64 * 200)]) * gx
        t = b + rng.choice([1, 64, 63, 640, 6400 - 1, rng.randint(1, 64 * 200)]) * gy
        a = rng.choice(ANCHORS + ANCHORS + [["str", "bogus"], ["num", 1.25]])
        tight = rng.random() < 0.25
        tol = rng.choice(tols[:5])
        mode = rng.random()
        shp, resn = None, [float(rx), float(ry)]
        if mode < 0.2:
            shp, resn = rng.choice([1, 2, 8, 64, 3, 0]), None
        elif mode < 0.4:
            shp, resn = [rng.choice([1, 2, 4, 16, 0]), rng.choice([1, 2, 8, 32])], None
        elif mode < 0.45:
            shp, resn = None, None
        if isinstance(shp, int) and shp > 0:     # longest side must be shape * power of two
            p = pow2_at_least(max(r - l, t - b) / shp)
            if r - l > t - b:
                r = l + shp * p
            else:
                t = b + shp * p
            if r - l == t - b:
                t = t + p
        elif isinstance(shp, list) and shp[0] > 0 and shp[1] > 0:
            r = l + shp[1] * pow2_at_least((r - l) / shp[1])
            t = b + shp[0] * pow2_at_least((t - b) / shp[0])
        B = (l, b, r, t)
        if not all(representable(v) for v in B):
            continue
        kind, v = a
        snap = None
        if not tight:
            if kind == "str":
                snap = {"default": (F(0), F(0)), "edge": (F(0), F(0)), "center": (F(1, 2),) * 2, "centre": (F(1, 2),) * 2}.get(v)
            elif kind == "enum":
                snap = {"EDGE": (F(0), F(0)), "CENTER": (F(1, 2),) * 2, "FLOATING": None}[v]
            elif kind == "num":
                snap = (F(v), F(v))
            else:
                snap = (F(float(v[0])), F(float(v[1])))
        if isinstance(shp, int) and shp > 0:
            r_ = max(r - l, t - b) / shp
            ok = exact_domain(B, r_, -r_, snap)
        elif isinstance(shp, list) and shp[0] > 0 and shp[1] > 0:
            ok = exact_domain(B, (r - l) / shp[1], -(t - b) / shp[0], snap)
        elif resn is not None:
            ok = exact_domain(B, rx, ry, snap)
        else:
            ok = True
        if not ok:
            out.count("from_bbox:discarded-inexact")
            continue
        got, err = py_call(GeoBox.from_bbox, BoundingBox(*[float(v) for v in B], crs=crs), tight=tight,
                           shape=py_shape(shp), resolution=None if resn is None else resxy_(*resn),
                           anchor=py_anchor(a), tol=float(tol))
        exp = ERR_COQ[err] if err else f"(Ok {c_gbox(got, reg)})"
        add("from_bbox:" + (err or ("shape" if shp is not None else "resolution")),
            f"CFromBbox {c_box(B)} {cz(cid)} {cbool(tight)} {c_shape(shp)} {c_optpair(None if resn is None else (rx, ry))} "
            f"{c_anchor(a)} {cq(tol)} {exp}", (str(B), tight, str(shp), str(resn), a, str(tol)))
    return cases


# ------------------------------------------------------------------ correspondence: utm
UTM_SITES = [(-5.9, 35.7), (149.1, -35.3), (3.0, 0.0), (6.0, 0.2), (-60.0, -0.1), (10.0, 60.0), (7.0, 58.0),
             (21.0, 78.0), (179.5, -17.0), (-177.0, 20.0), (0.0, 51.5), (30.0, -1.0), (-72.0, -33.0), (102.0, 15.0)]


def observe_utm(lon, lat, w, h, req, reg):
    """norm_crs(req, ctx=geometry): candidates and overlaps observed inside the call."""
    from odc.geo import crs as C
    from odc.geo import geom

    poly = geom.box(lon - w / 2, lat - h / 2, lon + w / 2, lat + h / 2, "EPSG:4326")
    seen = []
    orig = C._pick_best_crs

    def wrapper(p, cands):
        seen.append((p, list(cands)))
        return orig(p, cands)

    C._pick_best_crs = wrapper
    try:
        got, err = py_call(C.norm_crs, req, poly)
    finally:
        C._pick_best_crs = orig
    if not seen:
        return None
    p, cands = seen[0]
    if p.crs is None:
        p = geom.Geometry(p.geom, "epsg:4326")
    area_big = p.area > 1e-9
    cl, letters = [], {}
    for c in cands:
        ov = F(float((c.valid_region & p).area / p.area)) if (len(cands) > 1 and area_big) else F(0)
        cl.append((int(c.epsg), ov))
    for e, _ in cl:
        for k in (e, e - 100, e + 100):
            try:
                z = C.CRS(k).proj.utm_zone
            except Exception:  # noqa: BLE001
                z = None
            letters[k] = "ZN" if z and z.endswith("N") else ("ZS" if z and z.endswith("S") else "ZOther")
    exp = ERR_COQ[err] if err else f"(Ok {cz(int(got.epsg))})"
    rq = {"utm": "Utm", "utm-n": "UtmN", "utm-s": "UtmS"}[req.lower()]
    text = (f"CUtm {rq} [{'; '.join(ctuple(cz(e), cq(o)) for e, o in cl)}] {cbool(area_big)} "
            f"[{'; '.join(ctuple(cz(k), v) for k, v in sorted(letters.items()))}] {exp}")
    return text, (None if err else int(got.epsg)), cl


def gen_utm_cases(out, tier, reg):
    rng = core.rng("c11-utm")
    cases = []
    sites = list(UTM_SITES)
    for _ in range(6 if tier == "quick" else 80):
        sites.append((round(rng.uniform(-179, 179), 2), round(rng.uniform(-79, 83), 2)))
    for lon, lat in sites:
        for req in ("utm", "utm-n", "utm-s", "UTM-S"):
            w, h = rng.choice([(0.5, 0.5), (1.0, 1.0), (4.0, 2.0), (9.0, 3.0), (0.0, 0.0)])
            if tier == "quick" and rng.random() < 0.5 and req != "utm-s":
                continue
            got = observe_utm(lon, lat, w, h, req, reg)
            if got is None:
                continue
            text, epsg, cl = got
            cases.append(text)
            out.count("utm:" + req.lower())
            out.count(f"utm:candidates={min(len(cl), 3)}{'+' if len(cl) > 3 else ''}")
            out.case(("utm", lon, lat, w, h, req), True,
                     {"op": "norm_crs", "req": req, "lonlat_box": [lon, lat, w, h], "candidates": [c for c, _ in cl], "result": epsg}
                     if len(cases) < 2 else None)
    return cases


# ------------------------------------------------------------------ correspondence: the footprint request
def gen_footprint_cases(out, tier, reg):
    """What compute_output_geobox asks of GeoBoxBase.footprint (buffer, npoints) and the distance
    footprint hands to Geometry.buffer, observed by wrapping both."""
    from affine import Affine
    from odc.geo import geom, wh_
    from odc.geo.geobox import GeoBox, GeoBoxBase
    from odc.geo.overlap import compute_output_geobox

    rng = core.rng("c11-footprint")
    cases = []
    seen_buf, seen_fp = [], []
    orig_buf, orig_fp = geom.Geometry.buffer, GeoBoxBase.footprint

    def w_buf(self, distance, *a, **k):
        seen_buf.append(float(distance))
        return orig_buf(self, distance, *a, **k)

    def w_fp(self, crs, buffer=0, npoints=100):
        seen_fp.append((float(buffer), int(npoints)))
        return orig_fp(self, crs, buffer, npoints)

    geom.Geometry.buffer = w_buf
    GeoBoxBase.footprint = w_fp
    try:
        res_list = [(16, -16), (-16, -16), (16, 16), (-16, 16), (8, -32), (32, -8), (-32, -8), (-8, -32), (-4, 8),
                    (0.25, -0.25), (-0.5, -0.125)]
        for rx, ry in res_list:
            g = GeoBox(wh_(40, 30), Affine(rx, 0, 600000, 0, ry, 5000000), "EPSG:32633")
            for b in (0.9, 0.5, 2.0, 0.75):
                del seen_buf[:]
                g.footprint(g.crs, buffer=b)
                want_exact = F(b) * max(abs(F(rx)), abs(F(ry)))
                if len(seen_buf) != 1 or not representable(want_exact):
                    out.count("buffer:discarded")
                    continue
                cases.append(f"CBuffer {cq(F(b))} {cq(F(rx))} {cq(F(ry))} {cq(F(seen_buf[0]))}")
                out.count("buffer")
                out.case(("buffer", rx, ry, b), True)
            # through compute_output_geobox: buffer argument and the distance it leads to
            del seen_buf[:], seen_fp[:]
            compute_output_geobox(g, g.crs, resolution=64.0)
            if len(seen_fp) == 1 and len(seen_buf) <= 1:
                dist = seen_buf[0] if seen_buf else 0.0      # footprint skips Geometry.buffer when buffer == 0
                cases.append(f"CBuffer {cq(F(seen_fp[0][0]))} {cq(F(rx))} {cq(F(ry))} {cq(F(dist))}")
                cases.append(f"CBuffer {cq(F(0.9))} {cq(F(rx))} {cq(F(ry))} {cq(F(dist))}")
                out.count("buffer:via-compute_output_geobox", 2)
        shapes = [(1, 1), (30, 40), (25599, 100), (100, 25600), (25855, 25856), (51199, 3), (51200, 51200), (2560000, 7),
                  (5, 2560255), (2560256, 2560256), (10 ** 7, 10 ** 6)]
        for _ in range(6 if tier == "quick" else 60):
            shapes.append((rng.randint(1, 3 * 10 ** 6), rng.randint(1, 3 * 10 ** 6)))
        for ny, nx in shapes:
            g = GeoBox(wh_(nx, ny), Affine(16, 0, 0, 0, -16, 0), "EPSG:3857")
            del seen_fp[:]
            compute_output_geobox(g, g.crs, resolution=4096.0)
            if len(seen_fp) != 1:
                continue
            cases.append(f"CNpoints {cz(ny)} {cz(nx)} {cz(seen_fp[0][1])}")
            out.count("npoints")
            out.case(("npoints", ny, nx), True, {"op": "footprint request", "shape": [ny, nx], "buffer": seen_fp[0][0],
                                                  "npoints": seen_fp[0][1]} if (ny, nx) == (51200, 51200) else None)
    finally:
        geom.Geometry.buffer = orig_buf
        GeoBoxBase.footprint = orig_fp
    return cases


# ------------------------------------------------------------------ search: the property on the implementation
def sample_source_points(src, k_edge, k_in):
    """Pixel-space sample: dense edge points, pixel corners, and pixel centres on a grid."""
    import numpy as np

    ny, nx = src.shape
    t = np.linspace(0.0, 1.0, k_edge)
    ex = np.concatenate([t * nx, np.full(k_edge, float(nx)), t * nx, np.zeros(k_edge)])
    ey = np.concatenate([np.zeros(k_edge), t * ny, np.full(k_edge, float(ny)), t * ny])
    cx = np.clip(np.floor(np.linspace(0, nx, k_in)), 0, nx - 1) + 0.5
    cy = np.clip(np.floor(np.linspace(0, ny, k_in)), 0, ny - 1) + 0.5
    gx, gy = np.meshgrid(np.unique(cx), np.unique(cy))
    # centres of the border pixels (all of them up to 4000 per side, else evenly spread)
    bx = (np.arange(nx) if nx <= 4000 else np.unique(np.floor(np.linspace(0, nx - 1, 4000)))) + 0.5
    by = (np.arange(ny) if ny <= 4000 else np.unique(np.floor(np.linspace(0, ny - 1, 4000)))) + 0.5
    bpx = np.concatenate([bx, bx, np.full(len(by), 0.5), np.full(len(by), nx - 0.5)])
    bpy = np.concatenate([np.full(len(bx), 0.5), np.full(len(bx), ny - 0.5), by, by])
    px = np.concatenate([ex, gx.ravel(), bpx])
    py = np.concatenate([ey, gy.ravel(), bpy])
    A = src.affine
    return A.a * px + A.b * py + A.c, A.d * px + A.e * py + A.f


_TR = {}


def project(src_crs, dst_crs, wx, wy):
    import numpy as np
    import pyproj

    key = (str(src_crs), str(dst_crs))
    if key not in _TR:
        _TR[key] = pyproj.Transformer.from_crs(src_crs.proj, dst_crs.proj, always_xy=True)
    x, y = _TR[key].transform(wx, wy)
    ok = np.isfinite(x) & np.isfinite(y)
    return x[ok], y[ok]


def ref_same_units(a, b) -> bool:
    """independent reference for 'the two CRSs share units': pyproj axis units of freshly built objects"""
    import pyproj

    def units(c):
        p = pyproj.CRS.from_user_input(c.to_wkt())
        return (p.is_geographic, tuple(sorted(ax.unit_name for ax in p.axis_info[:2])))

    return units(a) == units(b)


def projected_pixel_step(src, dst_crs):
    """largest length, in target units, of a one-pixel step of the source (corners and centre, both axes)"""
    import numpy as np

    ny, nx = src.shape
    pts = [(0, 0), (max(nx - 1, 0), 0), (0, max(ny - 1, 0)), (max(nx - 1, 0), max(ny - 1, 0)), (nx // 2, ny // 2)]
    px = np.array([[x, x + 1, x] for x, _ in pts], dtype="float64").ravel()
    py = np.array([[y, y, y + 1] for _, y in pts], dtype="float64").ravel()
    A = src.affine
    wx, wy = A.a * px + A.b * py + A.c, A.d * px + A.e * py + A.f
    import pyproj

    key = (str(src.crs), str(dst_crs))
    if key not in _TR:
        _TR[key] = pyproj.Transformer.from_crs(src.crs.proj, dst_crs.proj, always_xy=True)
    X, Y = _TR[key].transform(wx, wy)
    X, Y = X.reshape(-1, 3), Y.reshape(-1, 3)
    d = np.concatenate([np.hypot(X[:, 1] - X[:, 0], Y[:, 1] - Y[:, 0]), np.hypot(X[:, 2] - X[:, 0], Y[:, 2] - Y[:, 0])])
    d = d[np.isfinite(d)]
    return float(d.max()) if len(d) else None


def bounds_of(g):
    """exact bounding box of an axis aligned GeoBox from its affine and shape"""
    a, _, c, _, e, f = (F(float(v)) for v in g.affine[:6])
    ny, nx = g.shape
    xs, ys = (c, c + nx * a), (f, f + ny * e)
    return min(xs), min(ys), max(xs), max(ys), abs(a), abs(e)


def anchor_snap(scn):
    if scn["tight"]:
        return None
    k, v = scn["anchor"]
    if k == "str":
        return {"default": (F(0), F(0)), "edge": (F(0), F(0)), "center": (F(1, 2),) * 2, "centre": (F(1, 2),) * 2,
                "floating": None}[v]
    if k == "enum":
        return {"EDGE": (F(0), F(0)), "CENTER": (F(1, 2),) * 2, "FLOATING": None}[v]
    if k == "num":
        return (F(v), F(v))
    return (F(float(v[0])), F(float(v[1])))


def check_scenario(src_s, scn, k_edge=400, k_in=9, src_obj=None):
    """All clauses of the property that apply to one request.  Returns (failures, facts):
    failures = list of (clause, detail); facts = numbers for the evidence."""
    import numpy as np

    src = mk_src(src_s) if src_obj is None else src_obj
    fails, facts = [], {}
    rr = scn["rr"]
    hook = None
    if isinstance(rr, str):
        hook = Hook(rr)
        rr = hook
    xx = None
    if scn.get("via") == "accessor":
        # the raster is what the user holds: the source grid is the one the accessor recovers from its coordinates
        from odc.geo.xr import xr_zeros

        xx = xr_zeros(src, dtype="uint8")
        src = xx.odc.geobox
    rec = Recorder(None)
    with rec:
        dst = call_real(src, scn, rr=rr, xx=xx)
    fin = rec.final()
    is_utm = isinstance(scn["crs"], str) and scn["crs"].lower().startswith("utm")
    defaults = (scn["resolution"] in ("auto", "same") and scn["shape"] is None and scn["anchor"] == ["str", "default"])
    # --- identity
    if not is_utm:
        from odc.geo import CRS

        same_crs = pyproj_same_crs(src.crs, scn["crs"])
        if scn.get("via") == "accessor":      # the accessor rebuilds its GeoBox from the coordinates: judge by value
            same_obj = (tuple(dst.shape) == tuple(src.shape) and tuple(dst.affine[:6]) == tuple(src.affine[:6])
                        and pyproj_same_crs(dst.crs, str(src.crs)))
        else:
            same_obj = dst is src
        if same_crs and defaults and not same_obj:
            fails.append(("identity", f"same CRS and default options ({scn.get('via', 'function')} form) did not return the source "
                                      f"grid: got shape {tuple(dst.shape)} origin ({dst.affine.c}, {dst.affine.f}), source shape "
                                      f"{tuple(src.shape)} origin ({src.affine.c}, {src.affine.f})"))
        if same_obj:
            if not same_crs:
                fails.append(("identity", f"source object (CRS {str(src.crs)[:60]}) returned although the requested CRS "
                                          f"{scn['crs']} is a different one (pyproj equality): result is not in the requested CRS"))
            elif not defaults and scn.get("via") != "accessor":
                fails.append(("identity", "source object returned for a non-default request"))
            return fails, facts
    elif dst is src:
        return fails, facts
    A = dst.affine
    # --- axis aligned, requested CRS
    if A.b != 0 or A.d != 0:
        fails.append(("axis-aligned", f"affine has rotation/shear terms b={A.b} d={A.d}"))
    if not is_utm:
        from odc.geo import CRS

        if not pyproj_same_crs(dst.crs, scn["crs"]):
            fails.append(("crs", f"result CRS {str(dst.crs)[:80]} is not the requested {scn['crs']} (pyproj equality)"))
    L, Bm, R, T, ax, ay = bounds_of(dst)
    tol = F(scn["tol"])
    # --- enclosure of projected source pixels (resolution-driven and single-number shape)
    wx, wy = sample_source_points(src, k_edge, k_in)
    px, py = project(src.crs, dst.crs, wx, wy)
    facts["points"] = int(len(px))
    if len(px):
        xmin, xmax, ymin, ymax = (F(float(v)) for v in (px.min(), px.max(), py.min(), py.max()))
        if fin is not None:
            bl, bb, br, bt = (F(v) for v in fin["bbox"].bbox)
            # the geometric contract of the footprint oracle, margin in output pixels
            facts["contract_margin_px"] = float(min((xmin - bl) / ax, (br - xmax) / ax, (ymin - bb) / ay, (bt - ymax) / ay))
        slack = 1 if isinstance(scn["shape"], list) else 0     # explicit (ny, nx): displaced by < 1 pixel
        worst = min((xmin - L) / ax, (R - xmax) / ax, (ymin - Bm) / ay, (T - ymax) / ay)
        facts["enclosure_margin_px"] = float(worst)
        if worst < -(tol + slack):
            side = ["left", "right", "bottom", "top"][[(xmin - L) / ax, (R - xmax) / ax, (ymin - Bm) / ay, (T - ymax) / ay].index(worst)]
            fails.append(("encloses", f"a projected source pixel lies {float(-worst):.6g} output pixels outside the {side} edge "
                                      f"(allowed {float(tol + slack)}); result shape {tuple(dst.shape)} res ({float(ax)}, {float(ay)})"))
    # --- shape requests: displaced by less than one pixel from the projected footprint (pyproj reference).
    # The code's footprint is buffered by 0.9 source pixel; 1.5 projected source pixel steps are allowed for it.
    if scn["shape"] is not None and len(px):
        step = projected_pixel_step(src, dst.crs)
        if step is not None:
            allow = F(3, 2) * F(step)
            ex = {"left": ((xmin - L) - allow) / ax, "right": ((R - xmax) - allow) / ax,
                  "bottom": ((ymin - Bm) - allow) / ay, "top": ((T - ymax) - allow) / ay}
            if isinstance(scn["shape"], int):           # an axis clamped to its minimum of one pixel may exceed
                if dst.shape[1] == 1:
                    ex.pop("left"), ex.pop("right")
                if dst.shape[0] == 1:
                    ex.pop("bottom"), ex.pop("top")
            if ex:
                side = max(ex, key=lambda k: ex[k])
                facts["shape_excess_px"] = float(ex[side])
                if ex[side] >= 1:
                    fails.append(("shape", f"shape={scn['shape']}: the {side} edge of the result lies {float(ex[side]):.4g} output "
                                           f"pixels beyond the projected footprint (pyproj reference, buffer allowance removed); "
                                           f"result shape {tuple(dst.shape)} res ({float(ax):.6g}, {float(ay):.6g})"))
    # --- resolution
    if scn["shape"] is None:
        same_units = ref_same_units(src.crs, dst.crs)
        rq = scn["resolution"]
        want = None
        if rq == "same" or (rq == "auto" and same_units):
            want = (src.resolution.x, src.resolution.y)
        elif isinstance(rq, list):
            want = (float(rq[0]), float(rq[1]))
        elif isinstance(rq, (int, float)):
            want = (float(rq), -float(rq))
        if want is not None and (A.a, A.e) != want:
            fails.append(("resolution", f"pixel size ({A.a}, {A.e}) but the request means {want}"))
        if want is None:
            if A.a != -A.e or not A.a > 0:
                fails.append(("resolution", f"fitted pixel size ({A.a}, {A.e}) is not square with inverted y"))
            if scn["rr"] is True and A.a != round(A.a):
                fails.append(("resolution", f"round_resolution=True but pixel size {A.a}"))
            if hook is not None and (not hook.seen or A.a != hook.seen[-1][2]):
                fails.append(("resolution", f"round_resolution hook result not used: {hook.seen} vs {A.a}"))
    # --- alignment
    snap = anchor_snap(scn)
    ny, nx = dst.shape
    tx, ty = F(float(A.c)), F(float(A.f))
    if snap is not None:
        # every rounding of the origin computation is bounded by half an ulp of the larger grid edge;
        # four roundings at most (k*res, n*res, their sum, + anchor*res)
        for nm, o, res_, s, n, lo, hi in (("x", tx, ax, snap[0], nx, L, R), ("y", ty, ay, snap[1], ny, Bm, T)):
            q = o / res_ - s
            k = round(q)
            bound = 4 * F(2) ** -52 * max(abs(lo), abs(hi), res_) / res_
            if abs(q - k) > bound:
                fails.append(("alignment", f"{nm} origin {float(o)} is {float(q - k):.6g} pixel away from (integer + "
                                           f"{float(s)}) * {float(res_)} (float rounding allows {float(bound):.3g})"))
    elif fin is not None:
        bl, bb, br, bt = (F(v) for v in fin["bbox"].bbox)
        if isinstance(scn["shape"], list):
            want = (bl, bt)
        else:
            want = (bl if A.a > 0 else br, bb if A.e > 0 else bt)
        if (tx, ty) != want:
            fails.append(("alignment", f"unsnapped grid starts at ({float(tx)}, {float(ty)}), footprint box corner is "
                                       f"({float(want[0])}, {float(want[1])})"))
    # --- shape requests
    shp = scn["shape"]
    if isinstance(shp, list):
        if (ny, nx) != tuple(shp):
            fails.append(("shape", f"requested shape {shp}, got {(ny, nx)}"))
    elif isinstance(shp, int):
        if A.a != -A.e or not A.a > 0:
            fails.append(("shape", f"shape={shp}: pixels ({A.a}, {A.e}) not square / inverted y"))
        if fin is not None:
            bl, bb, br, bt = (F(v) for v in fin["bbox"].bbox)
            longest_x = (br - bl) > (bt - bb)
            cnt = nx if longest_x else ny
            span = (br - bl) if longest_x else (bt - bb)
            # unsnapped: exactly shp pixels.  The pixel size is the binary64 quotient span/shp, so span/res is shp up
            # to one rounding; with a stated tolerance below that rounding (tol = 0) the ceiling of a quotient that
            # came out as shp + 1 ulp is shp + 1 — binary64 rounding, outside the exact-arithmetic statement.
            allowed = {shp}
            if tol < F(shp) * F(2) ** -50:
                allowed.add(shp + 1)
            lo_ok = cnt in allowed if snap is None else shp <= cnt <= shp + 1
            if not lo_ok:
                fails.append(("shape", f"shape={shp}: {cnt} pixels along the longest side (snap={'off' if snap is None else 'on'})"))
            # the footprint spans `shp` pixels: |span / res - shp| within float rounding
            if abs(span / ax - shp) > F(shp) * F(2) ** -50:
                fails.append(("shape", f"shape={shp}: footprint spans {float(span / ax)} pixels along its longest side"))
    # --- utm requests
    if is_utm:
        e = dst.crs.epsg
        req = scn["crs"].lower()
        if e is None or not (32601 <= e <= 32660 or 32701 <= e <= 32760):
            fails.append(("utm", f"{scn['crs']} resolved to {dst.crs}, not a WGS84 UTM zone"))
        else:
            north = e < 32700
            zone = e % 100
            if (req == "utm-n" and not north) or (req == "utm-s" and north):
                fails.append(("utm", f"{scn['crs']} resolved to EPSG:{e}: wrong hemisphere"))
            ge = src.geographic_extent.boundingbox
            zw, zeast = -180 + 6 * (zone - 1), -180 + 6 * zone
            # Norway / Svalbard exceptions widen zones 31-37; allow the database's own area of use
            aou = dst.crs.proj.area_of_use
            west, east = min(zw, aou.west), max(zeast, aou.east)
            if ge.right < west or ge.left > east:
                fails.append(("utm", f"zone {zone} (lon {west}..{east}) does not overlap the raster lon {ge.left}..{ge.right}"))
            if req == "utm" and (ge.top < aou.south or ge.bottom > aou.north):
                fails.append(("utm", f"EPSG:{e} area of use lat {aou.south}..{aou.north} does not overlap the raster"))
    return fails, facts


def rot(deg):
    from affine import Affine

    return Affine.rotation(deg)


def search_sources(tier):
    """(label, src_spec, [target CRSs]) — north-up and rotated, metre and degree based, tiles to continents."""
    from affine import Affine
    from odc.geo import wh_
    from odc.geo.geobox import GeoBox

    out = []

    def add(label, g, targets):
        out.append((label, src_spec(g), targets))

    add("s2-tile-utm", GeoBox.from_bbox([199980, 3890220, 309780, 4000020], "EPSG:32630", resolution=10),
        ["EPSG:4326", "EPSG:3857", "EPSG:6933", "EPSG:32629", "EPSG:32630", "utm", "utm-n", "utm-s"])
    add("landsat-utm-south", GeoBox.from_bbox([600000, 6000000, 830000, 6230000], "EPSG:32755", resolution=30),
        ["EPSG:4326", "EPSG:3577", "EPSG:3857", "EPSG:32756", "utm", "utm-n", "utm-s"])
    add("small-4326", GeoBox.from_bbox([148.0, -36.0, 148.5, -35.5], "EPSG:4326", resolution=0.00025),
        ["EPSG:3577", "EPSG:32755", "EPSG:3857", "EPSG:6933", "EPSG:4326", "utm", "utm-s", "utm-n"])
    add("albers-tile", GeoBox.from_bbox([1500000, -4000000, 1600000, -3900000], "EPSG:3577", resolution=25),
        ["EPSG:4326", "EPSG:3857", "EPSG:32755", "EPSG:6933", "utm"])
    add("mercator-europe", GeoBox.from_bbox([0, 5000000, 1500000, 7000000], "EPSG:3857", resolution=200),
        ["EPSG:4326", "EPSG:6933", "EPSG:3035", "EPSG:32632"])
    add("equal-area-africa", GeoBox.from_bbox([-1500000, -3000000, 4500000, 3000000], "EPSG:6933", resolution=1000),
        ["EPSG:4326", "EPSG:3857"])
    add("continent-au-albers-100m", GeoBox.from_bbox([-2000000, -5000000, 2200000, -1000000], "EPSG:3577", resolution=100),
        ["EPSG:4326", "EPSG:3857", "EPSG:6933"])
    add("continent-au-albers-10m", GeoBox.from_bbox([-2000000, -5000000, 2200000, -1000000], "EPSG:3577", resolution=10),
        ["EPSG:4326", "EPSG:3857", "EPSG:6933"])
    add("continent-europe-laea-10m", GeoBox.from_bbox([2500000, 1400000, 7400000, 5500000], "EPSG:3035", resolution=10),
        ["EPSG:3857", "EPSG:4326", "EPSG:6933"])
    add("continent-au-4326", GeoBox.from_bbox([110, -45, 155, -10], "EPSG:4326", resolution=0.001),
        ["EPSG:3577", "EPSG:3857", "EPSG:6933"])
    add("world-4326", GeoBox.from_bbox([-179, -80, 179, 80], "EPSG:4326", resolution=0.05), ["EPSG:3857", "EPSG:6933"])
    # long thin strips of continental length, both orientations: the long edge curves in the target, the short side
    # says nothing about how densely the footprint has to be sampled
    add("continent-strip-ew-4326", GeoBox(wh_(800000, 300), Affine(0.00005, 0, 112.2, 0, -0.00005, -20.0), "EPSG:4326"),
        ["EPSG:3577", AEA_CUSTOM])
    add("continent-strip-ns-4326", GeoBox(wh_(300, 600000), Affine(0.00005, 0, 147.3, 0, -0.00005, -12.0), "EPSG:4326"),
        [LAEA_CUSTOM, "EPSG:3577"])
    add("continent-strip-ew-albers", GeoBox(wh_(400000, 256), Affine(10, 0, -1900000, 0, -10, -1500000), "EPSG:3577"),
        ["EPSG:4326", "EPSG:3857"])
    add("continent-strip-ns-albers", GeoBox(wh_(256, 380000), Affine(10, 0, 1500000, 0, -10, -1100000), "EPSG:3577"),
        ["EPSG:4326", "EPSG:6933"])
    # exactly vertical / horizontal source edges whose projected extreme is reached mid-edge (not at a corner):
    # equator-straddling grids into pseudo-cylindrical / equal-area targets, central-meridian-straddling grids into
    # transverse / conic ones.  Every edge of the footprint has to be densified, whatever its direction.
    add("midedge-eq-4326", GeoBox.from_bbox([20, -30, 40, 30], "EPSG:4326", resolution=0.01), ["EPSG:8857", "ESRI:54008"])
    add("midedge-eq-4326-tile", GeoBox.from_bbox([15.5, -3, 17.9, 3], "EPSG:4326", resolution=0.001),
        ["utm", "ESRI:54008", "EPSG:8857", "EPSG:32633"])
    add("midedge-eq-3857", GeoBox.from_bbox([-7000000, -3000000, -4000000, 3000000], "EPSG:3857", resolution=500),
        ["ESRI:54008", "EPSG:8857"])
    add("midedge-cm-4326", GeoBox.from_bbox([9, 40, 21, 55], "EPSG:4326", resolution=0.005),
        ["EPSG:32633", "EPSG:3035", TMERC_CUSTOM])
    add("midedge-cm-albers", GeoBox.from_bbox([-1500000, -4000000, 1500000, -2000000], "EPSG:3577", resolution=100),
        ["EPSG:4326", "ESRI:54008"])
    add("midedge-cm-4326-au", GeoBox.from_bbox([145.0, -38.0, 149.5, -34.5], "EPSG:4326", resolution=0.0005),
        ["utm", "EPSG:32755", "EPSG:3577"])
    add("midedge-cm-4326-1deg", GeoBox.from_bbox([14.4, 47.0, 15.7, 48.1], "EPSG:4326", resolution=0.0002),
        ["utm", "EPSG:32633", "EPSG:3035"])
    # polar stereographic CRSs (both axes point north / south) are metre based: metre -> metre keeps the resolution
    add("polar-antarctic", GeoBox.from_bbox([1900000, 400000, 2100000, 560000], "EPSG:3031", resolution=100),
        ["EPSG:3857", "EPSG:3976", "EPSG:6933", "EPSG:4326", "EPSG:3031"])
    add("polar-arctic", GeoBox.from_bbox([-400000, -2600000, -250000, -2480000], "EPSG:3413", resolution=50),
        ["EPSG:3995", "EPSG:3857", "EPSG:32622", "EPSG:3413"])
    add("mercator-to-polar", GeoBox.from_bbox([8000000, -11200000, 8400000, -10800000], "EPSG:3857", resolution=200),
        ["EPSG:3031", "EPSG:3976"])
    # no EPSG code on source or target
    add("modis-sinu", GeoBox(wh_(1200, 1200), Affine(463.3127165, 0, 12500000.0, 0, -463.3127165, -2500000.0), SINU),
        [AEA_CUSTOM, SINU_RESPELLED, LAEA_CUSTOM, "EPSG:4326", "EPSG:3577"])
    add("custom-albers", GeoBox(wh_(500, 400), Affine(100, 0, 300000, 0, -100, -3200000), AEA_CUSTOM),
        [SINU, LAEA_CUSTOM, AEA_CUSTOM, "EPSG:3577"])
    # rotated / south-up / mirrored
    for deg in (30, 90, 180, 217):
        A = Affine.translation(500000, 6000000) * rot(deg) * Affine.scale(10, -10)
        add(f"rot{deg}-utm", GeoBox(wh_(300, 200), A, "EPSG:32633"), ["EPSG:4326", "EPSG:3857", "EPSG:32633", "utm"])
    A = Affine.translation(10.0, 50.0) * rot(25) * Affine.scale(0.001, -0.001)
    add("rot25-4326", GeoBox(wh_(400, 300), A, "EPSG:4326"), ["EPSG:3857", "EPSG:32632", "EPSG:3035", "EPSG:4326"])
    add("south-up", GeoBox(wh_(200, 100), Affine(10, 0, 500000, 0, 10, 6000000), "EPSG:32633"),
        ["EPSG:4326", "EPSG:32633", "EPSG:32632", "EPSG:3857"])
    # non-square / south-up / x-mirrored pixels with same-units targets (metre -> metre, degree -> degree):
    # the default resolution is the source's (x, y) pair, signs and all
    add("non-square-10x20", GeoBox(wh_(300, 200), Affine(10, 0, 500000, 0, -20, 6000000), "EPSG:32633"),
        ["EPSG:3035", "EPSG:32632", TMERC_CUSTOM])
    add("non-square-deg", GeoBox(wh_(600, 400), Affine(0.001, 0, 148.0, 0, -0.002, -35.0), "EPSG:4326"),
        ["EPSG:4283", "EPSG:4258", "EPSG:3577"])
    add("south-up-deg", GeoBox(wh_(500, 400), Affine(0.001, 0, 10.0, 0, 0.001, 49.0), "EPSG:4326"), ["EPSG:4258", "EPSG:32632"])
    add("flipx-deg", GeoBox(wh_(500, 400), Affine(-0.002, 0, 11.0, 0, -0.001, 50.0), "EPSG:4326"), ["EPSG:4258", "EPSG:3035"])
    add("flipx", GeoBox(wh_(200, 100), Affine(-10, 0, 502000, 0, -10, 6000000), "EPSG:32633"),
        ["EPSG:4326", "EPSG:3857", "EPSG:32633"])
    add("non-square", GeoBox(wh_(200, 300), Affine(20, 0, 500000, 0, -5, 6000000), "EPSG:32633"),
        ["EPSG:4326", "EPSG:3857", "EPSG:32633"])
    return out


def search_requests(rng, n):
    """request options: the documented combinations first, then random ones"""
    fixed = [
        dict(), dict(resolution="same", tol=0.0, anchor=["str", "center"]),
        dict(tight=True, anchor=["xy", [0.25, 0.75]], resolution="fit"),
        dict(tol=0.0), dict(resolution="fit"), dict(resolution="same"), dict(resolution="fit", rr=True),
        dict(tight=True), dict(anchor=["str", "center"]), dict(anchor=["xy", [0.25, 0.75]]), dict(shape=64),
        dict(shape=64, tight=True), dict(shape=[50, 70]), dict(shape=[50, 70], tight=True),
        dict(anchor=["enum", "FLOATING"], tol=0.0), dict(anchor=["num", 0.3]), dict(resolution="fit", rr="pow2"),
    ]
    out = fixed[:n]
    while len(out) < n:
        out.append(dict(resolution=rng.choice(["auto", "auto", "fit", "same"]), shape=rng.choice([None, None, None, 17, 256, [33, 21]]),
                        tight=rng.random() < 0.3, anchor=rng.choice(ANCHORS + [["num", 0.3]]),
                        tol=rng.choice([0.01, 0.0, 0.25, 0.001]), rr=rng.choice([None, None, True, "pow2"])))
    return out


def explicit_resolution(src_s, crs, k):
    """an explicit resolution in the units of the target: k times the 'auto' one"""
    src = mk_src(src_s)
    g = call_real(src, scenario(crs, "fit"))
    return float(g.resolution.x) * k


def rounds_to_zero(src_s, scn):
    """round_resolution turns the fitted pixel size into 0 (e.g. True on a degree based target):
    resolution 0 is outside the property's domain"""
    if scn["rr"] is None or scn["shape"] is not None:
        return False
    h = Hook("ident")
    try:
        call_real(mk_src(src_s), dict(scn, tight=True), rr=h)
    except Exception:  # noqa: BLE001
        return False
    if not h.seen:
        return False
    raw = h.seen[0][0]
    val = round(raw, 0) if scn["rr"] is True else (raw if scn["rr"] is False else RR_FUNS[scn["rr"]](raw, ""))
    return val == 0


def extra_scenarios():
    """(label, src_spec, scenario): requests built so that one clause decides by a margin far above float noise.
    tol: the output pixel is 1000 source pixels and the footprint box starts 0.0049 output pixel below a grid
    line; with the stated tol=0 (or 0.001) that line must not be snapped to (4 source pixel columns would be cut)."""
    from affine import Affine
    from odc.geo import wh_
    from odc.geo.geobox import GeoBox

    out = []
    g = GeoBox(wh_(300, 200), Affine(10, 0, 499960, 0, -10, 6000040), "EPSG:32633")
    for tol in (0.0, 0.001):
        for a in (["str", "default"], ["enum", "EDGE"]):
            out.append(("tol-edge", src_spec(g), scenario("EPSG:32633", 10000.0, tol=tol, anchor=a)))
    g2 = GeoBox(wh_(300, 200), Affine(10, 0, 497040, 0, -10, 6002960), "EPSG:32633")    # far edges just above a grid line
    out.append(("tol-edge", src_spec(g2), scenario("EPSG:32633", 10000.0, tol=0.0)))
    return out


def p_scenario(src_s, scn, k_edge=1200):
    fails, facts = check_scenario(src_s, scn, k_edge=k_edge)
    return (not fails), "; ".join(f"[{c}] {d}" for c, d in fails) or f"holds {facts}"


def p_held(hist, specs, src_s, scns):
    """a long-lived source grid: the GeoBox (and so its CRS object) is built BEFORE the process history `hist`,
    the requests are made afterwards with that same object, towards CRSs the process has never seen"""
    src = mk_src(src_s)
    _ = src.geographic_extent
    crshist.perturb(tuple(hist), tuple(specs))
    from odc.geo.crs import CRS

    # the application builds its target CRS objects up front (and keeps them), then asks for the output grids
    targets = [CRS(scn["crs"]) for scn in scns]      # noqa: F841 - kept alive on purpose
    bad = []
    for scn in scns:
        try:
            fails, _facts = check_scenario(src_s, scn, k_edge=600, src_obj=src)
        except Exception as e:  # noqa: BLE001
            fails = [("raises", f"{type(e).__name__}: {e}")]
        if fails:
            bad.append(f"{scn['crs']}: " + "; ".join(f"[{c}] {d}" for c, d in fails))
    return (not bad), " | ".join(bad[:3]) or "holds"


def fresh_targets(lon, lat, n, salt):
    """n custom CRSs around (lon, lat) that nothing else in the process constructs"""
    out = []
    for i in range(n):
        if i % 2:
            out.append(f"+proj=tmerc +lat_0={lat + (i % 5)} +lon_0={lon + 0.25 * i - 1} +k=0.9999 +x_0={1000 + salt} +y_0={i} "
                       f"+ellps=WGS84 +units=m +no_defs")
        else:
            out.append(f"+proj=laea +lat_0={lat - (i % 3)} +lon_0={lon + 0.5 * i - 2} +x_0={salt} +y_0={i} +ellps=GRS80 +units=m +no_defs")
    return out


PREDICATES = {"scenario": p_scenario, "held": p_held}
PREDICATES["after_history"] = crshist.after_history(PREDICATES)

# CRS alphabets of the history blocks (spelled exactly as the cases spell them)
HIST_A_SPECS = ["EPSG:4326", "EPSG:3857", "EPSG:3577", "EPSG:32630", "EPSG:32755", "EPSG:6933", "EPSG:3035", "EPSG:32633"]
HIST_B_SPECS = ["EPSG:3577", "EPSG:32755", "EPSG:3857", "EPSG:4326", "EPSG:28355"]


def history_cases(tier):
    """cross-CRS requests re-run after process-history perturbations of the CRS layer.  Run FIRST in the process:
    a memo keyed too coarsely is decided by whoever asks first."""
    srcs = {l: s for l, s, _ in search_sources(tier)}
    a = [("s2-tile-utm", "EPSG:4326"), ("small-4326", "EPSG:3577"), ("small-4326", "EPSG:3857"), ("albers-tile", "EPSG:4326"),
         ("landsat-utm-south", "EPSG:4326"), ("mercator-europe", "EPSG:3035"), ("rot25-4326", "EPSG:32632")]
    # same units (metre) between an EPSG coded CRS and a custom one, and between custom ones: default resolution = source's
    b = [("albers-tile", AEA_CUSTOM), ("custom-albers", "EPSG:3577"), ("modis-sinu", AEA_CUSTOM), ("albers-tile", LAEA_CUSTOM),
         ("landsat-utm-south", "+proj=utm +zone=55 +south +ellps=GRS80 +units=m +no_defs"), ("custom-albers", SINU),
         ("small-4326", AEA_CUSTOM), ("landsat-utm-south", "EPSG:28355"), ("albers-tile", "EPSG:4326"), ("small-4326", "EPSG:32755")]
    out = []
    for hist, specs, pairs in ((("authority-order-first",), HIST_A_SPECS, a), (("queries-first", "churn"), HIST_B_SPECS, b)):
        cs = []
        for lbl, crs in pairs:
            for o in (dict(), dict(resolution="same", tol=0.0, anchor=["str", "center"])):
                cs.append((lbl, srcs[lbl], scenario(crs, **o)))
        out.append((hist, specs, cs))
    return out


def run_histories(out, tier):
    found = {}
    for hist, specs, cs in history_cases(tier):
        crshist.perturb(hist, specs)
        for lbl, src_s, scn in cs:
            try:
                ok, detail = PREDICATES["scenario"](src_s, scn)
            except Exception as e:  # noqa: BLE001
                ok, detail = False, f"raised {type(e).__name__}: {e}"
            out.count("after_history:" + "+".join(hist))
            out.case(("after", hist, src_s, scn), True)
            key = "c11:after_history:" + "+".join(hist)
            if not ok and key not in found:
                found[key] = True
                out.violation(key, f"after {hist}: {lbl} -> {scn['crs']} {scn}: {detail}",
                              {"predicate": "after_history", "args": [list(hist), list(specs), "scenario", [src_s, scn]],
                               "observed": detail})


def run_held(out, tier):
    """sources that outlive a process history (CRS churn beyond any cache bound), then requests to unseen CRSs"""
    srcs = {l: s for l, s, _ in search_sources(tier)}
    blocks = [("small-4326", 148.25, -35.75, 1), ("s2-tile-utm", -5.7, 35.6, 2)]
    if tier != "quick":
        blocks += [("albers-tile", 148.0, -35.0, 3), ("rot25-4326", 10.2, 49.9, 4)]
    for lbl, lon, lat, salt in blocks:
        scns = [scenario(t, resolution=rq) for t, rq in zip(fresh_targets(lon, lat, 12, salt), itertools.cycle(["auto", "fit", "same"]))]
        hist, specs = ["churn"], []
        ok, detail = p_held(hist, specs, srcs[lbl], scns)
        out.count("held-after-churn", len(scns))
        out.case(("held", lbl, salt), True)
        if not ok:
            out.violation("c11:held-source-after-history", f"{lbl} built before {hist}, then requests to new CRSs: {detail}",
                          {"predicate": "held", "args": [hist, specs, srcs[lbl], scns], "observed": detail})
            break


def search(out, tier):
    rng = core.rng("c11-search")
    found = {}
    margins = []
    contract = []

    def run(label, src_s, scn, k_edge=400):
        key = None
        try:
            fails, facts = check_scenario(src_s, scn, k_edge=k_edge)
        except Exception as e:  # noqa: BLE001 - inside the domain the call must succeed
            fails, facts = [("raises", f"{type(e).__name__}: {e}")], {}
            if rounds_to_zero(src_s, scn):
                out.count("search:outside-domain(resolution rounds to 0)")
                return
        out.count("search:" + label.split("-")[0])
        out.count("search-target:" + str(scn["crs"]).upper())
        out.count("entry:" + scn.get("via", "function"))
        out.case(("search", src_s, scn), True)
        if "enclosure_margin_px" in facts and not isinstance(scn["shape"], list):
            margins.append((facts["enclosure_margin_px"] + scn["tol"], label, scn["crs"]))
        if "contract_margin_px" in facts and scn["shape"] is None and scn["resolution"] in ("auto", "fit") \
                and not (scn["resolution"] == "auto" and label.startswith("non-square")):
            contract.append((facts["contract_margin_px"], label, scn["crs"]))
        for clause, detail in fails:
            key = f"c11:{'corpus:' if label.startswith('corpus:') else ''}{clause}"
            if key in found:
                continue
            found[key] = True
            out.violation(key, f"{label} -> {scn['crs']} {scn}: {detail}",
                          {"predicate": "scenario", "src": src_s, "scn": scn, "clause": clause, "observed": detail})

    for rp in core.corpus(ID):
        run("corpus:" + rp.get("_file", ""), rp["src"], rp["scn"], k_edge=2000)
    for label, src_s, scn in extra_scenarios():
        run(label, src_s, scn)
    srcs = search_sources(tier)
    nreq = 6 if tier == "quick" else 40
    for label, src_s, targets in srcs:
        big = label.startswith(("continent", "world"))
        reqs = search_requests(rng, 18)
        if tier == "quick":
            reqs = reqs[:3] + rng.sample(reqs[3:], nreq - 3)
        else:
            reqs = reqs + search_requests(rng, nreq)[18:]
        for crs in targets:
            is_utm = crs.lower().startswith("utm")
            for o in reqs:
                scn = scenario(crs, **o)
                if is_utm and scn["shape"] is not None and rng.random() < 0.5:
                    scn["shape"] = None
                run(label, src_s, scn, k_edge=1500 if big else 400)
            if not is_utm and not big:
                for k in (0.5, 3.0, 37.0):
                    try:
                        r = explicit_resolution(src_s, crs, k)
                    except Exception:  # noqa: BLE001
                        continue
                    run(label, src_s, scenario(crs, r, tol=rng.choice([0.01, 0.0])))
                    run(label, src_s, scenario(crs, [r, -r / 2], anchor=["str", "center"]))
    # alternative entry points with THEIR OWN defaults (keywords at the documented default are not passed): the method
    # GeoBox.to_crs and the xarray accessor .odc.output_geobox must behave like the function
    from odc.geo import CRS as _CRS

    for label, src_s, targets in srcs:
        own = str(mk_src(src_s).crs)
        ny_, nx_ = src_s["shape"]
        a_ = src_s["affine"]
        forms = ["method"]
        if ny_ * nx_ <= 4_000_000 and a_[1] == 0 and a_[3] == 0 and a_[0] > 0 and a_[4] < 0:
            forms.append("accessor")
        others = [c for c in targets if not c.lower().startswith("utm") and not pyproj_same_crs(_CRS(own), c)]
        for via in forms:
            for crs, o in [(own, dict()), (own, dict(resolution="same")), (own, dict(tight=True)), (own, dict(tol=0.0))] + \
                    [(c, dict()) for c in others[:1]] + [(c, dict(anchor=["str", "center"])) for c in others[1:2]]:
                run(label + "-" + via, src_s, dict(scenario(crs, **o), via=via), k_edge=1500 if label.startswith(("continent", "world")) else 400)
    # every resolution mode x tuple / single-number shape x tight: a shape request takes precedence over resolution=
    sweep = {"s2-tile-utm", "small-4326", "albers-tile", "rot30-utm", "modis-sinu", "non-square", "south-up", "flipx"}
    for label, src_s, targets in srcs:
        if label not in sweep:
            continue
        tg = [c for c in targets if not c.lower().startswith("utm")]
        if tier == "quick":
            tg = tg[:1] + tg[-1:]
        for crs in tg:
            try:
                r = explicit_resolution(src_s, crs, 3.0)
            except Exception:  # noqa: BLE001
                r = 7.0
            for rq, shp, tight in itertools.product(["same", "auto", "fit", r, [r, -r / 2]], [[30, 40], [7, 3], 25], [False, True]):
                if tier == "quick" and rq != "same" and rng.random() < 0.5:
                    continue
                run(label + "-shapesweep", src_s, scenario(crs, rq, shp, tight, rng.choice(ANCHORS[:10]), rng.choice([0.01, 0.0])))
    if margins:
        m = min(margins)
        out.notes.append(f"enclosure (testing): over {len(margins)} sampled requests every projected source sample point is inside "
                         f"the result up to tol; smallest (distance to the result's edge + tol) = {m[0]:.3g} output pixel "
                         f"({m[1]} -> {m[2]}; tiny values belong to requests whose output pixel is far larger than a source pixel)")
    if contract:
        m = min(contract)
        out.notes.append(f"footprint contract (testing): for auto/fit requests (output pixel ~ source pixel) the projected source "
                         f"samples lie inside the box handed to from_bbox with margin >= {m[0]:.3f} output pixel over "
                         f"{len(contract)} requests (worst: {m[1]} -> {m[2]}); the buffer is 0.9 source pixel")


# ------------------------------------------------------------------ entry points
def correspondence(out, tier, scratch):
    reg = Registry()
    leaf = gen_leaf_cases(out, tier, reg)
    utm = gen_utm_cases(out, tier, reg)
    fpc = gen_footprint_cases(out, tier, reg)
    outc, infos = gen_out_cases(out, tier, reg)
    cases = leaf + utm + fpc + outc
    fails, log = core.coq_eval_failures(REQ, "case", "check", cases, scratch, shard=250)
    detail = ""
    if fails:
        detail = "model and implementation differ on: " + " | ".join(cases[i][:1500] for i in fails[:4])
    out.oblige("correspondence:Model.OutGeobox vs odc.geo (overlap, geobox, math, crs)", "correspondence", not fails, detail)
    # a disagreeing compute_output_geobox case is judged by the property predicate as well: if it violates the
    # property the disagreement itself is the concrete replay
    off = len(leaf) + len(utm) + len(fpc)
    done = 0
    for i in fails:
        if i < off or done >= 12:
            continue
        info = infos[i - off]
        done += 1
        try:
            ok, why = p_scenario(info["src"], info["scn"])
        except Exception:  # noqa: BLE001
            ok, why = True, ""      # error paths of the malformed stream are not property violations
        if not ok:
            out.violation("c11:correspondence-case", f"{info['src']} {info['scn']}: {why}",
                          {"predicate": "scenario", "src": info["src"], "scn": info["scn"], "observed": why})
            break


def run(out, tier, scratch):
    out.rule = ("correspondence: (1) compute_output_geobox / GeoBox.to_crs on 4 real source grids x same CRS / same units / "
                "different units targets x resolution modes x shape kinds x anchors x tight x tol x rounding hooks, with the "
                "footprint box, its CRS, the fitted pixel size and the hook traffic observed inside the call; the box is "
                "replaced by a neighbouring one on the exactness grid so every float operation of from_bbox is exact, cases "
                "that still are not exact compare the pixel size only and are counted; (2) snap_grid / maybe_int / round / "
                "from_bbox on boundary-heavy dyadic inputs incl. error paths; (3) norm_crs('utm*') with the candidate list "
                "observed.  search: enclosure of pyproj-projected dense samples of the source (edges, corners, centres), "
                "alignment, resolution, shape, identity and utm clauses on north-up/rotated/mirrored grids from tiles to "
                "continents.  distinct = distinct (operation, inputs)")
    out.assumptions += [
        "footprint contract (oracle, validated by sampling in this run - testing): every projected source pixel lies in the "
        "bounding box of gbox.footprint(crs, buffer=0.9, npoints=...)",
        "pyproj CRS equality / units / UTM database answers are taken as observed (CRSs are integers in the model)",
        "exact rational model of binary64: correspondence inputs are restricted to values on which every float operation is exact",
    ]
    run_histories(out, tier)          # first: nothing else has touched the CRS layer of this process yet
    run_held(out, tier)
    try:
        correspondence(out, tier, scratch)
    except core.ModelEvalError as e:
        out.oblige("model-evaluation", "correspondence", False, e.log)
    except Exception:  # noqa: BLE001 - the search below still has to look for a concrete failing input
        import traceback

        out.oblige("correspondence:harness", "correspondence", False, traceback.format_exc())
    search(out, tier)


def replay(rp) -> int:
    if rp.get("predicate") in ("after_history", "held"):
        ok, detail = PREDICATES[rp["predicate"]](*rp["args"])
        print(f"replay {rp['predicate']} {rp['args'][0]}: {'holds' if ok else 'FAILS'}: {detail}")
        return 0 if ok else 1
    fails, facts = check_scenario(rp["src"], rp["scn"], k_edge=2000)
    print(f"replay {rp['src']} {rp['scn']}: {'holds' if not fails else 'FAILS'}: {fails} {facts}")
    return 0 if not fails else 1


META = {
    "text": ("Coq theorems (coq/Props/C11.v, closed under the global context) over a Gallina model of compute_output_geobox, "
             "GeoBox.from_bbox, snap_grid/maybe_int and the utm branch of norm_crs: identity exactly for same CRS + defaults; "
             "every result axis aligned in the requested CRS; resolution decision table (same / auto+same units -> source "
             "resolution, fit -> square rounded fit, explicit, invalid string -> ValueError); covering of the footprint box up "
             "to tol pixel per side with excess below one pixel; enclosure of every projected source pixel from the footprint "
             "contract; pixel edges at (integer + anchor) * pixel size, tight/floating start at the box; exact explicit shape "
             "with displacement < 1 pixel; single-number shape; totality in the domain; utm hemisphere table; the footprint "
             "request (buffer distance positive for every sign pattern - refuted for the unrepaired expression; 100..10000 "
             "points per side, segments < 256 pixels).  Tied to "
             "odc/geo/{overlap,geobox,math,crs}.py by exact differential execution with the oracle values observed inside the "
             "real calls, plus direct predicates (pyproj as reference) on tiles to continents."),
    "note": ("Trusted: Coq kernel; the hand-written model coq/Model/OutGeobox.v (validated by the correspondence of this run); "
             "exact-rational abstraction of binary64 (correspondence restricted to inputs where all float operations are exact; "
             "others compare the pixel size only).  Oracles, universally quantified in the theorems and observed in the "
             "harness: the bounding box B of gbox.footprint(crs, buffer=0.9, npoints) in the target CRS, the CRS/units it "
             "carries, the centre-pixel fitted resolution, the round_resolution callable, pyproj's UTM candidate list, overlap "
             "fractions and zone letters.  'Contains every projected source pixel' is proved FROM the contract 'every projected "
             "source pixel lies in B'; that contract is geometric (buffer and densification beat curvature) and is only TESTED "
             "here by dense sampling over CRS pairs and extents, margin reported in the evidence.  Theorem domains: l<r, b<t, "
             "tol>=0, positive shapes; anchors in [0,1) and non-zero resolution are implied by a successful result.  A single "
             "number shape n is proved as the code defines it: pixel = longest footprint side / n, n pixels when unsnapped, n or "
             "n+1 when the origin is snapped.  Two defects of the unchanged tree were found by the sampling and repaired in the "
             "repo branch (mirrored grids got a negative footprint buffer; 100 boundary points per side were too few for "
             "continental extents at <= 10 m pixels); their witnesses are in corpus/C11.  Not proved: projection accuracy, "
             "the UTM database contents, GCPGeoBox sources."),
    "technique": "Coq proof over hand-written Gallina model + exact differential correspondence (vm_compute) with oracle values observed inside the real calls + direct property predicates",
    "design_ref": "DESIGN.md section 5, C11 (and C08 for from_bbox)",
}
