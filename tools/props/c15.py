"""C15 — GeoTIFF/COG written through GDAL reads back identical.

Correspondence: the decision-logic model of coq/Model/RioCog.v against
odc/geo/cog/_rio.py — band-layout normalisation observed through real GDAL
writes of index arrays, block sizes, overview levels found in written files,
nodata precedence, and the overwrite guard on a real scratch directory.
Search: round trips through write_cog / to_cog / write_cog_layers read back
with rasterio (GDAL is the oracle: this part is testing), plus the overwrite
behaviour stated directly on the file system.
"""
from __future__ import annotations

import contextlib
import itertools
import json
import math
import os
import shutil
import tempfile
import warnings
from pathlib import Path

import logging

import numpy as np

from vlib import core
from vlib.core import cbool, clist, copt, ctuple, cz

logging.getLogger("tifffile").setLevel(logging.CRITICAL)
ID = "C15"
ALLOWED_AXIOMS: list[str] = []
NEW = 200          # content id of "a freshly written GeoTIFF"


def cpair(p) -> str:
    return ctuple(cz(p[0]), cz(p[1]))


def cfs(items) -> str:
    return "[" + "; ".join(cpair(i) for i in items) + "]"


def cres_unit(call):
    try:
        call()
    except ValueError:
        return "(Err EValue)", "ValueError"
    except AssertionError:
        return "(Err (EAssert 0))", "AssertionError"
    except OSError:
        return "(Err EIO)", "IOError"
    except Exception as e:
        return "(Err EOther)", type(e).__name__
    return "(Ok tt)", "ok"


def mk_gbox(shape, rotated=False, crs="epsg:32633", transform=None):
    from affine import Affine
    from odc.geo.geobox import GeoBox

    tr = Affine(3.0, 4.0, 10.0, 4.0, -3.0, 50.0) if rotated else Affine(4.0, 0.0, 1000.0, 0.0, -4.0, 2000.0)
    if transform is not None:
        tr = Affine(*transform)
    return GeoBox(tuple(shape), tr, crs)


def small_pixel_transform(pixel, angle_deg=0.0, shear=0.0, origin=(12.5, 47.25)):
    """rotated / sheared grid with a small pixel size in CRS units (degrees): plain trigonometry, no odc.geo helper"""
    import math

    a = math.radians(angle_deg)
    ca, sa = math.cos(a), math.sin(a)
    # translation * rotation(angle) * shear * scale(pixel, -pixel)
    m00, m01 = pixel * ca, pixel * (sa - shear * ca)
    m10, m11 = pixel * sa, -pixel * (ca + shear * sa)
    return [m00, m01, origin[0], m10, m11, origin[1]]


@contextlib.contextmanager
def ambient_gdal(cfg):
    """ambient GDAL configuration around a write: an enclosing rasterio.Env and / or os.environ"""
    import rasterio

    saved = {}
    for k, v in (cfg.get("os_env") or {}).items():
        saved[k] = os.environ.get(k)
        os.environ[k] = str(v)
    try:
        if cfg.get("gdal_env"):
            with rasterio.Env(**cfg["gdal_env"]):
                yield
        else:
            yield
    finally:
        for k, v in saved.items():
            if v is None:
                os.environ.pop(k, None)
            else:
                os.environ[k] = v


def read_mem(buf):
    from rasterio.io import MemoryFile

    with MemoryFile(buf) as m:
        with m.open() as f:
            r = read_ds(f)
        r["ovr_shapes"] = []
        for k in range(len(r["overviews"][0])):
            with m.open(overview_level=k) as f:
                r["ovr_shapes"].append((f.height, f.width))
        return r


def tiff_tiles(src):
    """(TileLength, TileWidth) per IFD read from the TIFF tags 323/322 (None for a stripped IFD)"""
    import io

    import tifffile

    fh = io.BytesIO(src) if isinstance(src, (bytes, bytearray)) else src
    with tifffile.TiffFile(fh) as tf:
        return [((int(p.tags[323].value), int(p.tags[322].value)) if 322 in p.tags else None) for p in tf.pages]


def read_ds(f):
    return {"pix": f.read(), "count": f.count, "shape": (f.height, f.width), "dtype": f.dtypes[0],
            "transform": tuple(f.transform)[:6], "crs": f.crs, "nodata": f.nodata, "blocks": f.block_shapes,
            "tiled": f.is_tiled, "overviews": [f.overviews(i) for i in range(1, f.count + 1)]}


# ---------------------------------------------------------------- correspondence cases
def gen_cases(out, tier, scratch):
    from odc.geo.cog import _rio as R
    from odc.geo.types import wh_

    rng = core.rng("c15")
    thorough = tier != "quick"
    cases = []
    problems = []

    def add(kind, text, canon, nontrivial=True, sample=None):
        cases.append(text)
        out.count(kind)
        out.case((kind, canon), nontrivial, sample)

    # ---- band layout through real GDAL writes of index arrays
    def sec_layout():
        dims = [1, 2, 3, 4]
        shapes = [(a, b) for a in dims for b in dims] + list(itertools.product(dims, repeat=3)) + [(5,), (1, 2, 3, 4), (2, 5, 7), (5, 7, 2), (5, 5, 5)]
        for sh in shapes:
            cands = {tuple(sh[:2]), tuple(sh[-2:]), (sh[0], sh[-1]), (2, 3)}
            cands = sorted(c for c in cands if len(c) == 2)
            if not thorough:
                cands = cands[:3]
            for g in cands:
                for ya in (None, 0, 1):
                    if len(sh) not in (2, 3) and ya == 1 and not thorough:
                        continue
                    pix = np.arange(int(np.prod(sh)), dtype="int32").reshape(sh)
                    gbox = mk_gbox(g)
                    try:
                        r = read_mem(R._write_cog(pix, gbox, ":mem:", yaxis=ya))
                        vals = [int(v) for v in r["pix"].ravel()]
                        t = f"(Ok {ctuple(ctuple(cz(r['count']), cz(r['shape'][0]), cz(r['shape'][1])), clist(vals))})"
                        kind = "ok"
                    except ValueError:
                        t, kind = "(Err EValue)", "ValueError"
                    except AssertionError:
                        t, kind = "(Err (EAssert 0))", "AssertionError"
                    add("layout:" + kind, f"CLayout {clist(sh)} {cpair(g)} {copt(ya)} {t}", (sh, g, ya), True,
                        {"op": "_write_cog(arange.reshape(shape)) read back", "shape": sh, "geobox_shape": g, "yaxis": ya,
                         "result": t[:120]} if (sh, g) == ((2, 3, 4), (2, 3)) else None)
        import xarray as xr
        from odc.geo.xr import xr_coords

        for n, m in [(2, 2), (3, 3), (4, 4), (2, 3), (4, 2)]:
            for lay in ("BYX", "YXB"):
                # n bands of m x m pixels (cube when n == m); with overviews the layers go through write_cog_layers
                g = mk_gbox((m, m))
                sh = (n, m, m) if lay == "BYX" else (m, m, n)
                dims = ("band", "y", "x") if lay == "BYX" else ("y", "x", "band")
                pix = np.arange(int(np.prod(sh)), dtype="int32").reshape(sh)
                xx = xr.DataArray(pix, dims=dims, coords=xr_coords(g))
                calls = {"write_cog": lambda: R.write_cog(xx, ":mem:"), "write_cog_layers": lambda: R.write_cog_layers([xx], ":mem:")}
                if m % 2 == 0:
                    gk = g.zoom_out(2)
                    osh = (n, m // 2, m // 2) if lay == "BYX" else (m // 2, m // 2, n)
                    ov = xr.DataArray(np.zeros(osh, "int32"), dims=dims, coords=xr_coords(gk))
                    calls["to_cog+overviews"] = lambda: R.to_cog(xx, overviews=[ov])
                for name, call in calls.items():
                    r = read_mem(call())
                    vals = [int(v) for v in r["pix"].ravel()]
                    t = f"(Ok {ctuple(ctuple(cz(r['count']), cz(r['shape'][0]), cz(r['shape'][1])), clist(vals))})"
                    add("layout:" + name, f"CLayout {clist(sh)} {cpair((m, m))} {copt(1 if lay == 'BYX' else 0)} {t}", (name, sh, lay))
        for sh in [(3, 4), (2, 3, 4), (4, 2, 3), (1, 1, 5)]:
            for idx in itertools.product(*[range(d) for d in sh]):
                add("ravel", f"CRavel {clist(sh)} {clist(idx)} {cz(int(np.ravel_multi_index(idx, sh)))}", (sh, idx))

    # ---- block sizes
    def sec_blocks():
        bss = [None, 1, 15, 16, 17, 31, 32, 33, 100, 128, 255, 256, 257, 512, 513, 1000]
        ds = [0, 1, 2, 15, 16, 17, 20, 31, 32, 33, 100, 255, 256, 257, 500, 511, 512, 513, 600, 5000]
        for b in bss:
            for w, h in (itertools.product(ds, ds) if thorough else rng.sample(list(itertools.product(ds, ds)), 60)):
                kw = {} if b is None else {"blocksize": b}
                o = R._default_cog_opts(shape=wh_(w, h), **kw)
                add("block", f"CBlock {copt(b)} {cz(w)} {cz(h)} {cpair((o['blockxsize'], o['blockysize']))}", (b, w, h),
                    0 < min(w, h) < (b or 512),
                    {"op": "_default_cog_opts", "blocksize": b, "w": w, "h": h, "result": [o["blockxsize"], o["blockysize"]]}
                    if (b, w, h) == (100, 20, 600) else None)

    # ---- overview levels as found in the written file
    def sec_ovr():
        sizes = [(511, 600), (512, 512), (513, 700), (600, 511), (512, 511), (100, 30), (40, 40), (512, 520), (600, 513)]
        big_all = {(512, 512), (512, 520), (600, 513), (511, 600)}     # explicit lists (incl. the empty one) on >= 512 px images
        if thorough:
            sizes += [(1024, 512), (511, 511), (2000, 513)]
        for (h, w) in sizes:
            reqs = [None, [], [2], [2, 4], [4, 2], [3]] if max(h, w) <= 300 else ([None, [], [2], [2, 4]] if (h, w) in big_all else [None])
            for req in reqs:
                pix = np.zeros((h, w), "uint8")
                with warnings.catch_warnings():
                    warnings.simplefilter("ignore")
                    r = read_mem(R._write_cog(pix, mk_gbox((h, w)), ":mem:", overview_levels=req))
                req_t = "None" if req is None else f"(Some {clist(req)})"
                add("overviews", f"COvr {req_t} {cz(w)} {cz(h)} {cfs(r['ovr_shapes'])}", (req, w, h), True,
                    {"op": "_write_cog overview shapes in file", "shape": [h, w], "requested": req, "found": r["ovr_shapes"]}
                    if (h, w) in ((511, 600), (512, 512)) else None)

    # ---- nodata precedence (write_cog)
    def sec_nodata():
        import xarray as xr
        from odc.geo.xr import xr_coords

        # every write path: write_cog, to_cog, write_cog with supplied overviews, write_cog_layers
        g = mk_gbox((4, 6))
        for kw, attr in itertools.product([None, 0, 7, -3], [None, 0, 9]):
            attrs = {} if attr is None else {"nodata": attr}
            xx = xr.DataArray(np.zeros((4, 6), "int16"), dims=("y", "x"), coords=xr_coords(g), attrs=attrs)
            ov = xr.DataArray(np.zeros((2, 3), "int16"), dims=("y", "x"), coords=xr_coords(g.zoom_out(2)), attrs=attrs)
            extra = {} if kw is None else {"nodata": kw}
            paths = {"write_cog": lambda: R.write_cog(xx, ":mem:", **extra),
                     "to_cog": lambda: R.to_cog(xx, **extra),
                     "to_cog+overviews": lambda: R.to_cog(xx, overviews=[ov], **extra),
                     "write_cog_layers": lambda: R.write_cog_layers([xx, ov], ":mem:", **extra)}
            for name, call in paths.items():
                r = read_mem(call())
                nd = None if r["nodata"] is None else int(r["nodata"])
                add("nodata:" + name, f"CNodata {copt(kw)} {copt(attr)} {copt(nd)}", (name, kw, attr), True,
                    {"op": name, "nodata_kw": kw, "attrs_nodata": attr, "read_back": nd} if (kw, attr) == (0, 9) else None)

    # ---- overwrite guard on a real directory
    def sec_fs():
        import xarray as xr
        from odc.geo.xr import xr_coords

        work = Path(tempfile.mkdtemp(prefix="verif-c15-", dir=str(scratch)))
        names = {1: work / "dest.tif", 2: work / "other.tif"}
        old = {1: b"old destination bytes", 2: b"unrelated file"}
        ids = {old[1]: 101, old[2]: 102}

        def setup(state):
            for k, p in names.items():
                if p.exists():
                    p.unlink()
                if k in state:
                    p.write_bytes(old[k])

        def observe():
            obs = []
            for k, p in names.items():
                if p.exists():
                    b = p.read_bytes()
                    obs.append((k, ids.get(b, NEW if b[:2] in (b"II", b"MM") else -1)))
            return obs

        def fs_txt(state):
            return cfs([(k, ids[old[k]]) for k in sorted(state)])

        g = mk_gbox((4, 5))
        xx = xr.DataArray(np.arange(20, dtype="int16").reshape(4, 5), dims=("y", "x"), coords=xr_coords(g))
        for state in ([], [1], [2], [1, 2]):
            for ow in (False, True):
                setup(state)
                t, kind = cres_unit(lambda: R.check_write_path(names[1], ow))
                add("check_write_path:" + kind,
                    f"CCheckPath {fs_txt(state)} {cz(1)} {cbool(ow)} {clist([1, 2])} {cfs(observe())} {t}", (state, ow), True,
                    {"op": "check_write_path", "exists": 1 in state, "overwrite": ow, "result": kind, "files_after": observe()})
                setup(state)
                t, kind = cres_unit(lambda: R.check_write_path(str(names[1]), ow))
                add("check_write_path_str:" + kind,
                    f"CCheckPath {fs_txt(state)} {cz(1)} {cbool(ow)} {clist([1, 2])} {cfs(observe())} {t}", (state, ow, "str"))
                # _write_cog with good / bad layouts, to the path and to memory
                for sh, gs, ya in [((4, 5), (4, 5), None), ((4, 5), (5, 4), None), ((2, 4, 5), (4, 5), None), ((2, 4, 5), (5, 4), None),
                                   ((4, 5, 2), (4, 5), 0), ((4, 5, 2), (5, 2), 0), ((7,), (7, 1), None)]:
                    for dest in (1, None):
                        setup(state)
                        pix = np.arange(int(np.prod(sh)), dtype="int16").reshape(sh)
                        t, kind = cres_unit(lambda: R._write_cog(pix, mk_gbox(gs), ":mem:" if dest is None else names[dest],
                                                                 overwrite=ow, yaxis=ya))
                        add("write_cog_fs:" + kind,
                            f"CWriteFs {fs_txt(state)} {clist(sh)} {cpair(gs)} {copt(ya)} {copt(dest)} {cbool(ow)} {cz(NEW)} "
                            f"{clist([1, 2])} {cfs(observe())} {t}", (state, ow, sh, gs, ya, dest))
                # write_cog_layers
                for nl in (0, 1, 2):
                    for dest in (1, None):
                        setup(state)
                        layers = [xx, xx.isel(y=slice(None, None, 2), x=slice(None, None, 2))][:nl]
                        layers = [xx] + [xr.DataArray(np.zeros((2, 3), "int16"), dims=("y", "x"),
                                                      coords=xr_coords(g.zoom_out(2)))] if nl == 2 else layers
                        t, kind = cres_unit(lambda: R.write_cog_layers(layers, ":mem:" if dest is None else str(names[dest]),
                                                                       overwrite=ow))
                        add("write_cog_layers_fs:" + kind,
                            f"CLayersFs {fs_txt(state)} {cz(nl)} {copt(dest)} {cbool(ow)} {cz(NEW)} {clist([1, 2])} "
                            f"{cfs(observe())} {t}", (state, ow, nl, dest))
        shutil.rmtree(work, ignore_errors=True)

    for name, fn in [("layout", sec_layout), ("blocks", sec_blocks), ("overviews", sec_ovr), ("nodata", sec_nodata),
                     ("filesystem", sec_fs)]:
        try:
            with warnings.catch_warnings():
                warnings.simplefilter("ignore")
                fn()
        except Exception as e:
            problems.append(f"{name}: {type(e).__name__}: {str(e)[:300]}")
    return cases, problems


# ---------------------------------------------------------------- property predicates on the implementation
def make_image(cfg):
    """Returns (DataArray, geobox or None, bands (B,H,W), expected transform).
    cfg["derive"]: None      - DataArray built with xr_coords(geobox)
                   "stride2" - a (2H, 2W) array decimated with [::2, ::2] (stale GeoTransform attribute, twice the pixel size)
                   "coarsen2"- a (2H, 2W) array coarsened by 2 (max)
                   "slice"   - a window [1:1+H, 2:2+W] of a larger array (stale GeoTransform origin)
                   "handbuilt" - x/y labels + .odc.assign_crs(), no GeoTransform at all
    For derived arrays the reference transform is computed from the coordinate labels with plain arithmetic."""
    import xarray as xr
    from affine import Affine
    from odc.geo.xr import xr_coords

    derive = cfg.get("derive")
    H, W, B, lay = cfg["H"], cfg["W"], cfg.get("B", 1), cfg["layout"]
    if derive in ("stride2", "coarsen2"):
        H, W = 2 * H, 2 * W
    elif derive == "slice":
        H, W = H + 3, W + 5
    dt = np.dtype(cfg["dtype"])
    spec = cfg.get("crs", "epsg:32633")
    g = mk_gbox((H, W), rotated=cfg.get("rotated", False), crs=spec, transform=cfg.get("transform"))
    yy, xx = np.meshgrid(np.arange(H), np.arange(W), indexing="ij")
    planes = []
    for b in range(B if lay not in ("YX", "XY") else 1):
        v = yy * 37 + xx * 5 + b * 1013 + 1
        if dt.kind == "f":
            v = v.astype(dt) * dt.type(0.25)
        elif dt.kind == "u":
            v = (v % (int(np.iinfo(dt).max) + 1)).astype(dt)
        else:
            span = int(np.iinfo(dt).max) - int(np.iinfo(dt).min) + 1
            v = ((v % span) + int(np.iinfo(dt).min)).astype(dt)
        if cfg.get("flat_tiles"):
            # whole blocks of one value: genuine zeros, and pixels equal to the nodata value (aligned to the block grid)
            t = cfg["flat_tiles"]
            nd = cfg.get("nodata_kw") if cfg.get("nodata_kw") is not None else cfg.get("nodata_attr")
            v = v.copy()
            v[0:t, 0:t] = 0
            v[t:2 * t, t:3 * t] = 0
            if nd is not None:
                v[0:t, 2 * t:3 * t] = dt.type(nd)
        planes.append(v)
    yx = tuple(g.dimensions)
    if lay == "YX":
        pix, dims = planes[0], yx
    elif lay == "XY":                              # 2-d array with dims ordered (x, y)
        pix, dims = np.ascontiguousarray(planes[0].T), (yx[1], yx[0])
    elif lay == "BYX":
        pix, dims = np.stack(planes, 0), ("band", *yx)
    else:
        pix, dims = np.stack(planes, -1), (*yx, "band")
    attrs = {}
    if cfg.get("nodata_attr") is not None:
        attrs["nodata"] = cfg["nodata_attr"]
    if derive == "handbuilt":
        # pixel centres from plain arithmetic: origin (1000, 2000), pixel 4 x -4 (the numbers of mk_gbox)
        coords = {yx[0]: 2000.0 - 4.0 * (np.arange(H) + 0.5), yx[1]: 1000.0 + 4.0 * (np.arange(W) + 0.5)}
        arr = xr.DataArray(pix, dims=dims, coords=coords, attrs=attrs).odc.assign_crs(spec)
    elif cfg.get("reassign"):
        # the array arrives with another CRS under a CRS coordinate called old_name (grid_mapping encoding pointing at
        # it, as after decoding a CF file); the user corrects the CRS with the public .odc.assign_crs()
        ra = cfg["reassign"]
        g_old = mk_gbox((H, W), rotated=cfg.get("rotated", False), crs=ra["old_crs"], transform=cfg.get("transform"))
        arr = xr.DataArray(pix, dims=dims, coords=xr_coords(g_old, crs_coord_name=ra.get("old_name", "spatial_ref")), attrs=attrs)
        arr.encoding["grid_mapping"] = ra.get("old_name", "spatial_ref")
        arr = arr.odc.assign_crs(spec, **({"crs_coord_name": ra["new_name"]} if ra.get("new_name") else {}))
    else:
        arr = xr.DataArray(pix, dims=dims, coords=xr_coords(g), attrs=attrs)
    if derive == "stride2":
        arr = arr.isel({yx[0]: slice(None, None, 2), yx[1]: slice(None, None, 2)})
    elif derive == "coarsen2":
        arr = arr.coarsen({yx[0]: 2, yx[1]: 2}).max().astype(dt)
        arr.attrs.update(attrs)
    elif derive == "slice":
        arr = arr.isel({yx[0]: slice(1, 1 + cfg["H"]), yx[1]: slice(2, 2 + cfg["W"])})
    if derive:
        ys, xs = arr[yx[0]].values, arr[yx[1]].values
        dx, dy = float(xs[1] - xs[0]), float(ys[1] - ys[0])
        want_tr = tuple(Affine(dx, 0.0, float(xs[0]) - dx / 2, 0.0, dy, float(ys[0]) - dy / 2))[:6]
        g = None
    else:
        want_tr = tuple(g.transform)[:6]
    vals = np.asarray(arr.values)
    if lay == "XY":
        bands = vals.T[np.newaxis]
    else:
        bands = vals[np.newaxis] if lay == "YX" else (vals if lay == "BYX" else vals.transpose(2, 0, 1))
    return arr, g, bands, want_tr


def apply_history(xx, names, spec):
    """read-only queries on the array's CRS before (re)writing: the outcome of a write must not depend on them"""
    from vlib import crshist

    for h in names:
        c = xx.odc.crs
        if h == "epsg":
            _ = c.epsg
        elif h == "to_epsg":
            c.to_epsg()
        elif h == "str_hash":
            _ = (str(c), hash(c), c.to_wkt())
        elif h == "geobox":
            gb = xx.odc.geobox
            _ = (gb.crs.epsg, gb.crs.units, str(gb.crs))
        elif h.startswith("crshist:"):
            crshist.perturb((h.split(":", 1)[1],), specs=(spec,) + tuple(crshist.DEFAULT_SPECS[:3]))
        else:
            raise ValueError(h)


def p_roundtrip(cfg):
    """write with write_cog / to_cog (optionally with external overviews), read back with rasterio"""
    import rasterio
    import xarray as xr
    from odc.geo.cog import _rio as R
    from odc.geo.xr import xr_coords

    import pyproj

    xx, g, bands, want_tr = make_image(cfg)
    H, W = cfg["H"], cfg["W"]
    spec = cfg.get("crs", "epsg:32633")
    ref_crs = pyproj.CRS(spec)              # the reference is pyproj on the original definition, not odc.geo.crs
    kw = {}
    for k in ("blocksize", "ovr_blocksize", "overview_levels", "use_windowed_writes", "intermediate_compression",
              "overview_resampling"):
        if cfg.get(k) is not None:
            kw[k] = cfg[k]
    if cfg.get("nodata_kw") is not None:
        kw["nodata"] = cfg["nodata_kw"]
    ext = None
    if cfg.get("external_overviews"):
        ext = []
        for k in cfg["external_overviews"]:
            gk = g.zoom_out(k)
            sh = gk.shape
            ov = (np.arange(sh[0] * sh[1]).reshape(sh) + 1000 * k) % 120
            ov = ov.astype(cfg["dtype"])
            if cfg["layout"] == "XY":
                ov = np.ascontiguousarray(ov.T)
            elif cfg["layout"] == "BYX":
                ov = np.stack([ov + b for b in range(cfg.get("B", 1))], 0).astype(cfg["dtype"])
            elif cfg["layout"] == "YXB":
                ov = np.stack([ov + b for b in range(cfg.get("B", 1))], -1).astype(cfg["dtype"])
            ext.append(xr.DataArray(ov, dims=xx.dims, coords=xr_coords(gk), attrs=dict(xx.attrs)))
        kw["overviews"] = ext
        kw.pop("overview_levels", None)
    # passes: [history, write, examine] and, with "rewrite_after", [more queries, write again, examine again]
    passes = [list(cfg.get("history", []))]
    if cfg.get("rewrite_after") is not None:
        passes.append(list(cfg["rewrite_after"]))
    msgs = []
    for n_pass, hist in enumerate(passes):
        apply_history(xx, hist, spec)
        m = roundtrip_pass(cfg, xx, g, bands, want_tr, ref_crs, kw, ext)
        if m:
            msgs += [(f"write {n_pass + 1} (after {hist}): " if len(passes) > 1 or hist else "") + x for x in m]
            break
    return not msgs, "; ".join(msgs[:3]) or f"{bands.shape} {cfg['dtype']} ok"


def roundtrip_pass(cfg, xx, g, bands, want_tr, ref_crs, kw, ext):
    import pyproj
    import rasterio
    from odc.geo.cog import _rio as R

    H, W = cfg["H"], cfg["W"]
    work = None
    msgs = []
    try:
        with warnings.catch_warnings(), ambient_gdal(cfg):
            warnings.simplefilter("ignore")
            if cfg.get("dest", "mem") == "mem":
                buf = R.to_cog(xx, **kw)
                tiles = tiff_tiles(buf)
                opener = lambda **o: rasterio.io.MemoryFile(buf).open(**o)
            else:
                work = tempfile.mkdtemp(prefix="verif-c15-")
                path = os.path.join(work, "out.tif")
                ret = R.write_cog(xx, path, **kw)
                if str(ret) != path:
                    return [f"write_cog returned {ret!r}"]
                tiles = tiff_tiles(path)
                opener = lambda **o: rasterio.open(path, **o)
        with opener() as f:
            r = read_ds(f)
        if r["count"] != bands.shape[0] or r["shape"] != (H, W) or r["dtype"] != cfg["dtype"]:
            msgs.append(f"read back count/shape/dtype {r['count']} {r['shape']} {r['dtype']}")
        elif not np.array_equal(r["pix"], bands, equal_nan=bands.dtype.kind == "f"):
            bad = np.argwhere(~((r["pix"] == bands) | ((r["pix"] != r["pix"]) & (bands != bands))))[0].tolist()
            msgs.append(f"band {bad[0] + 1} row {bad[1]} col {bad[2]}: read {r['pix'][tuple(bad)]!r}, wrote {bands[tuple(bad)]!r}")
        if cfg.get("transform") is not None:
            # small pixels: judge by how far the image corners move, in pixels of the input grid
            from affine import Affine
            a_in, a_got = Affine(*want_tr), Affine(*r["transform"])
            moved = max(math.hypot(*(p - q for p, q in zip(~a_in * (a_got * c), c))) for c in [(0, 0), (W, 0), (0, H), (W, H)])
            if not moved <= 1e-6:
                msgs.append(f"transform {r['transform']} != {want_tr}: image corners move by up to {moved:.3g} px")
        elif r["transform"] != want_tr:
            msgs.append(f"transform {r['transform']} != {want_tr}")
        got_crs = None if r["crs"] is None else pyproj.CRS.from_wkt(r["crs"].to_wkt())
        if got_crs is None or not got_crs.equals(ref_crs, ignore_axis_order=True):
            msgs.append(f"crs read back {got_crs.name if got_crs is not None else None!r} (datum {got_crs.datum.name if got_crs is not None else None!r}) "
                        f"is not the CRS written {ref_crs.name!r} (datum {ref_crs.datum.name!r})")
        want_nd = cfg.get("nodata_kw") if cfg.get("nodata_kw") is not None else cfg.get("nodata_attr")
        same_nd = (want_nd is None and r["nodata"] is None) or (
            want_nd is not None and r["nodata"] is not None and
            (float(r["nodata"]) == float(want_nd) or (np.isnan(float(r["nodata"])) and np.isnan(float(want_nd)))))
        if not same_nd:
            msgs.append(f"nodata {r['nodata']} != {want_nd}")
        if any(t is None or t[0] % 16 or t[1] % 16 or min(t) <= 0 for t in tiles):
            msgs.append(f"not internally tiled with multiples of 16 in every IFD: {tiles}")
        if any(b[0] % 16 or b[1] % 16 for b in r["blocks"]):
            msgs.append(f"block shapes {r['blocks']} not multiples of 16")
        bs = cfg.get("blocksize") or 512
        want_block = tuple(-(-min(d, bs) // 16) * 16 if d < bs else -(-bs // 16) * 16 for d in (H, W))
        if any(tuple(b) != want_block for b in r["blocks"]):
            msgs.append(f"block shapes {r['blocks']} != {want_block}")
        if ext is not None:
            want_ovr = list(cfg["external_overviews"])
        elif cfg.get("overview_levels") is not None:
            want_ovr = list(cfg["overview_levels"])
        else:
            want_ovr = [] if min(H, W) < 512 else [2, 4, 8, 16, 32]
        if any(len(o) != len(want_ovr) for o in r["overviews"]):
            msgs.append(f"overview levels {r['overviews']} != requested {want_ovr}")
        for k in range(len(want_ovr) if not msgs else 0):
            with opener(overview_level=k) as f:
                if (f.height, f.width) != (-(-H // want_ovr[k]), -(-W // want_ovr[k])):
                    msgs.append(f"overview {k} is {(f.height, f.width)}, requested factor {want_ovr[k]} of {(H, W)}")
                if any(b[0] % 16 or b[1] % 16 for b in f.block_shapes):
                    msgs.append(f"overview {k} blocks {f.block_shapes}")
                if ext is not None:
                    got = f.read()
                    want = ext[k].data
                    if cfg["layout"] == "XY":
                        want = want.T
                    want = want[np.newaxis] if want.ndim == 2 else (want if cfg["layout"] == "BYX" else want.transpose(2, 0, 1))
                    if got.shape != want.shape or not np.array_equal(got, want):
                        msgs.append(f"external overview {k} not preserved")
    finally:
        if work:
            shutil.rmtree(work, ignore_errors=True)
    return msgs


def p_overwrite(exists, overwrite, api):
    """an existing destination is replaced only when overwriting was requested, otherwise untouched + error"""
    import xarray as xr
    from odc.geo.cog import _rio as R
    from odc.geo.xr import xr_coords

    g = mk_gbox((6, 9))
    xx = xr.DataArray(np.arange(54, dtype="uint8").reshape(6, 9), dims=("y", "x"), coords=xr_coords(g))
    work = tempfile.mkdtemp(prefix="verif-c15-")
    try:
        p = Path(work) / "dest.tif"
        q = Path(work) / "other.bin"
        q.write_bytes(b"other")
        if exists:
            p.write_bytes(b"precious")
        err = None
        try:
            with warnings.catch_warnings():
                warnings.simplefilter("ignore")
                if api == "write_cog":
                    R.write_cog(xx, p, overwrite=overwrite)
                elif api == "write_cog_str":
                    R.write_cog(xx, str(p), overwrite=overwrite)
                else:
                    R.write_cog_layers([xx], p, overwrite=overwrite)
        except OSError as e:
            err = e
        after = p.read_bytes() if p.exists() else None
        if q.read_bytes() != b"other":
            return False, "an unrelated file changed"
        if exists and not overwrite:
            ok = err is not None and after == b"precious"
            return ok, f"error={err!r} destination {'untouched' if after == b'precious' else 'CHANGED'}"
        ok = err is None and after is not None and after[:2] in (b"II", b"MM")
        if ok:
            r = read_mem(after)
            ok = np.array_equal(r["pix"][0], xx.data)
        return ok, f"error={err!r} destination is {'the new image' if ok else 'not the new image'}"
    finally:
        shutil.rmtree(work, ignore_errors=True)


def p_blocks(blocksize, w, h):
    from odc.geo.cog._rio import _default_cog_opts
    from odc.geo.types import wh_

    o = _default_cog_opts(blocksize=blocksize, shape=wh_(w, h))
    msgs = []
    for name, d in (("blockxsize", w), ("blockysize", h)):
        v = o[name]
        want = -(-d // 16) * 16 if 0 < d < blocksize else -(-blocksize // 16) * 16
        if v <= 0 or v % 16 or v != want:
            msgs.append(f"{name}={v} for dim {d}, blocksize {blocksize} (want {want})")
    return not msgs, "; ".join(msgs) or str((o["blockxsize"], o["blockysize"]))


def p_reject(shape, gshape):
    """an array whose shape does not match the GeoBox is rejected (3-d: ValueError) and nothing is written"""
    from odc.geo.cog import _rio as R

    pix = np.zeros(tuple(shape), "uint8")
    work = tempfile.mkdtemp(prefix="verif-c15-")
    try:
        p = Path(work) / "dest.tif"
        p.write_bytes(b"precious")
        err = None
        try:
            with warnings.catch_warnings():
                warnings.simplefilter("ignore")
                R._write_cog(pix, mk_gbox(gshape), p, overwrite=True)
        except Exception as e:
            err = e
        kind_ok = isinstance(err, ValueError) if len(shape) != 2 else isinstance(err, (ValueError, AssertionError))
        untouched = p.read_bytes() == b"precious"
        return kind_ok and untouched, f"raised {type(err).__name__ if err else None}; destination {'untouched' if untouched else 'CHANGED'}"
    finally:
        shutil.rmtree(work, ignore_errors=True)


PREDICATES = {"roundtrip": p_roundtrip, "overwrite": p_overwrite, "blocks": p_blocks, "reject": p_reject}
from vlib import crshist as _crshist  # noqa: E402
PREDICATES["after_history"] = _crshist.after_history(PREDICATES)


# custom (non-EPSG) definitions; pyproj identifies the first four only approximately (>= 70 % confidence) with an
# EPSG code that is a DIFFERENT CRS (other datum), the others have no code at all
CUSTOM_CRS = ["+proj=utm +zone=55 +south +ellps=GRS80 +units=m +no_defs",
              "+proj=utm +zone=33 +ellps=WGS84 +units=m +no_defs",
              "+proj=tmerc +lat_0=0 +lon_0=15 +k=0.9996 +x_0=500000 +y_0=0 +ellps=GRS80 +units=m +no_defs",
              "+proj=aea +lat_0=0 +lon_0=132 +lat_1=-18 +lat_2=-36 +x_0=0 +y_0=0 +ellps=GRS80 +units=m +no_defs",
              "+proj=lcc +lat_1=33 +lat_2=45 +lat_0=39 +lon_0=-96 +x_0=0 +y_0=0 +datum=NAD83 +units=m +no_defs",
              "+proj=sinu +lon_0=0 +x_0=0 +y_0=0 +R=6371007.181 +units=m +no_defs",
              "+proj=longlat +ellps=GRS80 +no_defs"]
HISTORIES = [["epsg"], ["to_epsg"], ["geobox"], ["str_hash", "epsg"], ["crshist:queries-first", "epsg"], ["crshist:churn", "to_epsg"]]


def roundtrip_configs(tier):
    rng = core.rng("c15-rt")
    base = dict(layout="YX", H=20, W=30, B=1, dtype="int16")
    cfgs = [
        # custom CRSs, written fresh, after read-only queries on the array's CRS, and written again after such queries
        dict(base, crs=CUSTOM_CRS[0]),
        dict(base, crs=CUSTOM_CRS[0], history=["epsg"]),
        dict(base, crs=CUSTOM_CRS[0], rewrite_after=["epsg"], nodata_attr=-999),
        dict(base, crs=CUSTOM_CRS[1], history=["to_epsg"], dest="file"),
        dict(base, crs=CUSTOM_CRS[2], rewrite_after=["geobox"], layout="BYX", B=2),
        dict(base, crs=CUSTOM_CRS[3], history=["crshist:queries-first", "epsg"], overview_levels=[2]),
        dict(base, crs=CUSTOM_CRS[4], history=["epsg", "str_hash"]),
        dict(base, crs=CUSTOM_CRS[5], rewrite_after=["to_epsg"], dest="file"),
        dict(base, crs=CUSTOM_CRS[6], history=["epsg"]),
        dict(base, crs="epsg:3577", history=["epsg", "str_hash"], rewrite_after=["geobox"]),
        dict(base, crs=CUSTOM_CRS[0], history=["epsg"], H=16, W=24, external_overviews=[2]),
        # rotated / sheared grids with SMALL pixels in CRS units (degrees): the rotation must survive
        *[dict(dict(base, H=30, W=40, crs="epsg:4326", dtype="uint8", transform=small_pixel_transform(px, ang, sh)), **extra)
          for px, ang, sh, extra in [(1e-4, 3.0, 0.0, {}), (1e-5, 3.0, 0.0, {"dest": "file"}), (1e-5, 0.5, 0.0, {"layout": "BYX", "B": 2}),
                                     (1e-6, 3.0, 0.0, {}), (1e-6, 30.0, 0.0, {"overview_levels": [2]}), (1e-7, 1.0, 0.0, {}),
                                     (1e-5, 0.0, 0.2, {}), (1e-6, 0.0, -0.05, {"layout": "YXB", "B": 2}), (1e-7, 10.0, 0.1, {"dest": "file"}),
                                     (3e-4, 0.2, 0.0, {"H": 300, "W": 400})]],
        dict(base, H=30, W=40, crs=CUSTOM_CRS[6], transform=small_pixel_transform(1e-5, 2.0)),
        # the result must not depend on the ambient GDAL configuration (enclosing rasterio.Env / os.environ)
        *[dict(base, H=64, W=96, blocksize=32, **what, **env)
          for what in [{"external_overviews": [2, 4]}, {"external_overviews": [2], "dest": "file", "layout": "BYX", "B": 2},
                       {"overview_levels": [2, 4]}, {"dest": "file"}]
          for env in [{"gdal_env": {"GDAL_DISABLE_READDIR_ON_OPEN": "EMPTY_DIR"}}, {"os_env": {"GDAL_DISABLE_READDIR_ON_OPEN": "EMPTY_DIR"}},
                      {"gdal_env": {"GDAL_DISABLE_READDIR_ON_OPEN": "TRUE"}},
                      {"gdal_env": {"GDAL_CACHEMAX": 1, "GDAL_NUM_THREADS": 2, "CPL_VSIL_CURL_ALLOWED_EXTENSIONS": ".tif"}},
                      {"os_env": {"GDAL_NUM_THREADS": "ALL_CPUS", "VSI_CACHE": "TRUE", "GDAL_TIFF_OVR_BLOCKSIZE": "256"}}]],
        # whole blocks of zeros (and of the nodata value) with a non-zero / NaN nodata, windowed writes on and off
        *[dict(base, H=48, W=64, blocksize=16, flat_tiles=16, **nd, **opt)
          for nd in [{"nodata_attr": -999}, {"nodata_kw": 255, "dtype": "uint8"}, {"nodata_attr": float("nan"), "dtype": "float32"},
                     {"nodata_attr": 7, "nodata_kw": -1, "layout": "BYX", "B": 2}]
          for opt in [{"use_windowed_writes": True}, {}, {"use_windowed_writes": True, "overview_levels": [2]},
                      {"use_windowed_writes": True, "dest": "file", "intermediate_compression": True, "overview_levels": [2, 4]}]],
        dict(base, H=48, W=64, blocksize=16, flat_tiles=16, use_windowed_writes=True),                 # no nodata at all
        dict(base, H=64, W=96, blocksize=32, flat_tiles=32, use_windowed_writes=True, nodata_attr=-999, external_overviews=[2]),
        dict(base, H=48, W=64, blocksize=16, flat_tiles=16, use_windowed_writes=True, nodata_attr=-999, layout="YXB", B=3, dtype="float64"),
        # one-row / one-column / one-pixel images on rotated grids (pixel-space labels, single label per axis)
        dict(base, H=1, W=30, rotated=True), dict(base, H=30, W=1, rotated=True, dest="file"), dict(base, H=1, W=1, rotated=True),
        dict(base, H=1, W=12, rotated=True, layout="BYX", B=2), dict(base, H=1, W=9, rotated=True, layout="YXB", B=3, overview_levels=[]),
        dict(base, H=1, W=30, crs="epsg:4326", dtype="uint8", transform=small_pixel_transform(1e-5, 3.0)),
        dict(base, H=1, W=20, crs="epsg:4326", dtype="uint8", transform=small_pixel_transform(1e-4, 0.0, 0.2), dest="file"),
        # CRS corrected with .odc.assign_crs() on an array that already carries a CRS coordinate / grid_mapping encoding
        dict(base, reassign={"old_crs": "epsg:32634", "old_name": "crs"}),
        dict(base, reassign={"old_crs": "epsg:32634", "old_name": "crs", "new_name": "spatial_ref"}, dest="file"),
        dict(base, reassign={"old_crs": "epsg:32634", "old_name": "spatial_ref"}, layout="BYX", B=2),
        dict(base, reassign={"old_crs": "epsg:3577", "old_name": "proj", "new_name": "crs"}, H=16, W=24, external_overviews=[2]),
        dict(base, reassign={"old_crs": "epsg:32634", "old_name": "crs", "new_name": "crs"}, crs=CUSTOM_CRS[0]),
        dict(base, reassign={"old_crs": CUSTOM_CRS[0], "old_name": "crs"}, crs="epsg:32755", overview_levels=[2]),
        # 2-d arrays with dims ordered (x, y)
        dict(base, layout="XY"), dict(base, layout="XY", H=16, W=16, dtype="uint8"), dict(base, layout="XY", H=40, W=50, blocksize=16, use_windowed_writes=True),
        dict(base, layout="XY", H=64, W=96, blocksize=32, external_overviews=[2, 4], dest="file"), dict(base, layout="XY", H=33, W=17, overview_levels=[2], rotated=True),
        # images exactly two pixels tall / wide; arrays whose registration lives in the coordinate labels only
        dict(base, H=2, W=32), dict(base, H=32, W=2, layout="BYX", B=2), dict(base, H=2, W=2, dtype="uint8"),
        dict(base, H=2, W=32, derive="stride2"),
        dict(base, H=16, W=2, derive="stride2", layout="YXB", B=2),
        dict(base, H=2, W=8, derive="coarsen2", dtype="uint8"),
        dict(base, H=2, W=7, derive="slice", dest="file"),
        dict(base, H=2, W=48, derive="handbuilt", dtype="float64", nodata_attr=float("nan")),
        dict(base, H=5, W=2, derive="handbuilt", layout="BYX", B=3),
        dict(base, H=2, W=2, derive="handbuilt", dtype="uint8", nodata_kw=0),
        dict(base, H=3, W=3, derive="stride2"), dict(base, H=17, W=40, derive="stride2", overview_levels=[2]),
        dict(base, H=12, W=9, derive="coarsen2", layout="BYX", B=2), dict(base, H=9, W=21, derive="slice", crs="epsg:4326"),
        dict(base, H=20, W=30, derive="handbuilt", crs=CUSTOM_CRS[0], history=["epsg"]),
        dict(base),
        dict(base, layout="BYX", B=3),
        dict(base, layout="YXB", B=3),
        dict(base, layout="YXB", B=2, dtype="uint8"),
        dict(base, layout="BYX", B=4, H=4, W=4),                 # cube, band-first
        dict(base, layout="YXB", B=4, H=4, W=4),                 # cube, band-last
        dict(base, layout="BYX", B=2, H=5, W=3),
        dict(base, dtype="int8", nodata_attr=-5),
        dict(base, dtype="float64", rotated=True, nodata_kw=-1.5),
        dict(base, dtype="float32", blocksize=16, overview_levels=[2, 4]),
        dict(base, H=100, W=70, blocksize=32, overview_levels=[2], dest="file"),
        dict(base, H=100, W=70, blocksize=100, overview_levels=[2, 4], use_windowed_writes=True, layout="BYX", B=2),
        dict(base, H=64, W=96, blocksize=32, external_overviews=[2, 4]),
        dict(base, H=64, W=96, blocksize=32, external_overviews=[2], layout="BYX", B=2, dest="file"),
        # supplied overviews (write_cog_layers) with cube-shaped arrays, band-first and band-last
        dict(base, layout="BYX", B=16, H=16, W=16, external_overviews=[2, 4]),
        dict(base, layout="YXB", B=16, H=16, W=16, external_overviews=[2, 4], dest="file"),
        dict(base, layout="BYX", B=8, H=8, W=8, external_overviews=[2], dtype="uint8", dest="file"),
        dict(base, layout="YXB", B=4, H=4, W=4, external_overviews=[2], dtype="float32"),
        dict(base, layout="BYX", B=4, H=8, W=8, external_overviews=[2]),       # the overview layer is the cube
        dict(base, layout="YXB", B=4, H=8, W=8, external_overviews=[2]),
        # nodata precedence with supplied overviews: keyword vs attribute vs none
        dict(base, H=16, W=24, dtype="uint8", external_overviews=[2], nodata_attr=255, nodata_kw=0),
        dict(base, H=16, W=24, dtype="uint8", external_overviews=[2], nodata_kw=7, dest="file"),
        dict(base, H=16, W=24, dtype="uint8", external_overviews=[2, 4], nodata_attr=255),
        dict(base, H=16, W=24, dtype="int16", external_overviews=[2], layout="BYX", B=2, nodata_attr=-1, nodata_kw=-9999),
        dict(base, H=16, W=24, dtype="uint8", nodata_attr=255, nodata_kw=0, dest="file"),
        dict(base, H=16, W=24, dtype="uint8", overview_levels=[2], nodata_attr=255, nodata_kw=0),
        dict(base, H=512, W=512, dtype="uint8"),                 # default overview table
        # >= 512 px on both sides: the file must hold exactly the requested levels, also the empty list
        dict(base, H=512, W=520, dtype="uint8", overview_levels=[]),
        dict(base, H=512, W=520, dtype="uint8", overview_levels=[2]),
        dict(base, H=520, W=512, dtype="uint8", overview_levels=[2, 4], dest="file"),
        dict(base, H=512, W=520, dtype="uint8"),
        dict(base, H=512, W=520, dtype="uint8", external_overviews=[2, 4]),
        dict(base, H=520, W=512, dtype="uint8", external_overviews=[2], layout="BYX", B=2, dest="file"),
        dict(base, H=516, W=512, dtype="uint8", overview_levels=[], layout="YXB", B=2, use_windowed_writes=True),
        # windowed writes on images larger than one block, every array rank / band count
        dict(base, H=40, W=50, blocksize=16, use_windowed_writes=True),
        dict(base, H=40, W=50, blocksize=16, use_windowed_writes=True, layout="BYX", B=1),
        dict(base, H=40, W=50, blocksize=16, use_windowed_writes=True, layout="YXB", B=1),
        dict(base, H=40, W=50, blocksize=16, use_windowed_writes=True, layout="BYX", B=3, dest="file"),
        dict(base, H=40, W=50, blocksize=16, use_windowed_writes=True, layout="YXB", B=2),
        dict(base, H=40, W=50, blocksize=16, use_windowed_writes=True, layout="BYX", B=1, overview_levels=[2],
             intermediate_compression=True),
        dict(base, H=40, W=50, blocksize=32, use_windowed_writes=True, layout="YXB", B=1, overview_levels=[2, 4],
             intermediate_compression="zstd", dest="file"),
        dict(base, H=40, W=48, blocksize=16, use_windowed_writes=True, layout="BYX", B=1, external_overviews=[2]),
        dict(base, H=40, W=50, blocksize=16, use_windowed_writes=True, overview_levels=[2], intermediate_compression={"compress": "lzw"}),
        dict(base, H=511, W=600, dtype="uint8"),
        dict(base, H=1, W=1),
        dict(base, H=1, W=40, layout="YXB", B=5),
        dict(base, H=33, W=17, blocksize=1),
        dict(base, H=40, W=50, overview_levels=[2, 4], intermediate_compression=True, nodata_attr=3, nodata_kw=9),
        dict(base, H=40, W=50, overview_levels=[2], intermediate_compression="zstd", crs="epsg:4326"),
    ]
    for i in range(80 if tier == "quick" else 600):
        lay = rng.choice(["YX", "BYX", "YXB"])
        c = dict(layout=lay, H=rng.choice([1, 2, 3, 5, 16, 17, 31, 33, 64, 100]), W=rng.choice([1, 2, 4, 7, 16, 20, 48, 65, 130]),
                 B=1 if lay == "YX" else rng.choice([1, 2, 3, 4, 5]),
                 dtype=rng.choice(["uint8", "int8", "uint16", "int16", "int32", "uint32", "float32", "float64"]),
                 rotated=rng.random() < 0.3, dest=rng.choice(["mem", "mem", "file"]))
        r2 = rng.random()
        if r2 < 0.2:
            c["crs"] = rng.choice(CUSTOM_CRS)
            c[rng.choice(["history", "rewrite_after"])] = rng.choice(HISTORIES)
        elif r2 < 0.3:
            c["crs"] = rng.choice(["epsg:4326", "epsg:3577", "epsg:3857"])
        if r2 >= 0.3 and rng.random() < 0.15 and min(c["H"], c["W"]) >= 2:
            c["crs"] = "epsg:4326"
            c["rotated"] = False
            c["transform"] = small_pixel_transform(rng.choice([1e-4, 1e-5, 1e-6, 1e-7]), rng.choice([0.5, 1.0, 3.0, 45.0]),
                                                   rng.choice([0.0, 0.0, 0.1]))
        elif rng.random() < 0.25 and min(c["H"], c["W"]) >= 2:
            c["derive"] = rng.choice(["stride2", "coarsen2", "slice", "handbuilt"])
            c["rotated"] = False
            if rng.random() < 0.4:
                c[rng.choice(["H", "W"])] = 2
        if lay == "YX" and rng.random() < 0.12 and "derive" not in c:
            c["layout"] = "XY"
        # (a one-label axis has no pixel size of its own, and assign_crs does not carry the GeoTransform over: >= 2 labels)
        if rng.random() < 0.1 and "derive" not in c and min(c["H"], c["W"]) >= 2 \
                and c.get("crs", "epsg:32633") not in ("epsg:4326", CUSTOM_CRS[6]):
            c["reassign"] = {"old_crs": rng.choice(["epsg:32634", "epsg:3577", CUSTOM_CRS[0]]), "old_name": rng.choice(["crs", "spatial_ref", "proj"]),
                             "new_name": rng.choice([None, None, "spatial_ref", "crs", "georef"])}
        if rng.random() < 0.5:
            c["blocksize"] = rng.choice([16, 17, 32, 48, 100, 256])
        r = rng.random()
        if r < 0.3 and min(c["H"], c["W"]) >= 8:
            c["overview_levels"] = rng.choice([[2], [2, 4], [4], []])
        elif r < 0.55 and c["H"] % 4 == 0 and c["W"] % 4 == 0 and min(c["H"], c["W"]) >= 8:
            if "derive" not in c:
                c["external_overviews"] = rng.choice([[2], [2, 4]])
            if "external_overviews" in c and lay != "YX" and rng.random() < 0.4:
                c["B"] = c["W"] = c["H"]                   # cube
        if rng.random() < 0.3:
            c["nodata_attr"] = rng.choice([0, 1, 100])
        if rng.random() < 0.2:
            c["nodata_kw"] = rng.choice([0, 5])
        if rng.random() < 0.2 and min(c["H"], c["W"]) >= 32 and "derive" not in c:
            c.update(flat_tiles=16, blocksize=16, use_windowed_writes=rng.random() < 0.7)
            if c.get("nodata_attr") is None and rng.random() < 0.8:
                c["nodata_attr"] = float("nan") if (np.dtype(c["dtype"]).kind == "f" and rng.random() < 0.5) else 100
        if rng.random() < 0.35:
            c["use_windowed_writes"] = True
            if rng.random() < 0.6:
                c["blocksize"] = 16                         # several blocks per image
        if rng.random() < 0.15:
            c["intermediate_compression"] = rng.choice([True, "deflate", "zstd"])
        if rng.random() < 0.2:
            c[rng.choice(["gdal_env", "os_env"])] = rng.choice([{"GDAL_DISABLE_READDIR_ON_OPEN": "EMPTY_DIR"}, {"GDAL_DISABLE_READDIR_ON_OPEN": "TRUE"},
                                                                 {"GDAL_CACHEMAX": 1}, {"GDAL_NUM_THREADS": 2}])
        cfgs.append(c)
    return cfgs


def search(out, tier):
    found = {}

    def run(name, *args):
        try:
            ok, detail = PREDICATES[name](*args)
        except Exception as e:
            ok, detail = False, f"raised {type(e).__name__}: {e}"
        out.count("predicate:" + name)
        out.case(("pred", name, json.dumps(args, sort_keys=True, default=str)), True)
        if not ok and name not in found:
            found[name] = True
            out.violation(f"c15:{name}", f"{name}{json.dumps(args, default=str)[:400]}: {detail}",
                          {"predicate": name, "args": list(args), "observed": detail})

    for rp in core.corpus(ID):
        run(rp["predicate"], *rp["args"])
    for cfg in roundtrip_configs(tier):
        run("roundtrip", cfg)
        out.count(f"roundtrip:layout:{cfg['layout']}")
        out.count(f"roundtrip:dtype:{cfg['dtype']}")
        out.count(f"roundtrip:dest:{cfg.get('dest', 'mem')}")
    # the same round trips after process histories that fill the CRS layer's caches and lazy fields
    rng = core.rng("c15-hist")
    hist_cfgs = [dict(layout="YX", H=8, W=12, B=1, dtype="int16", crs=sp) for sp in CUSTOM_CRS[:4]]
    hist_cfgs += [dict(layout="BYX", H=8, W=12, B=2, dtype="uint8", crs=sp, history=["epsg"]) for sp in rng.sample(CUSTOM_CRS, 2)]
    for names in (["queries-first"], ["authority-order-first", "queries-first", "churn"]):
        for cfg in hist_cfgs:
            run("after_history", names, [cfg["crs"], "epsg:4326", "epsg:32755"], "roundtrip", [cfg])
    for exists, ow, api in itertools.product([False, True], [False, True], ["write_cog", "write_cog_str", "write_cog_layers"]):
        run("overwrite", exists, ow, api)
    for sh, gs in [((5, 7), (7, 5)), ((5, 7), (5, 8)), ((2, 5, 7), (7, 5)), ((5, 7, 2), (7, 5)), ((1, 1, 3), (2, 3)), ((3, 4, 5), (3, 5)),
                   ((2, 2, 2), (2, 3)), ((7,), (7, 1)), ((1, 2, 5, 7), (5, 7)), ((4, 5, 6), (6, 4))]:
        run("reject", sh, gs)
    for bs in [1, 15, 16, 17, 100, 256, 500, 512, 1000]:
        for w, h in [(0, 0), (1, 1), (15, 16), (17, 300), (255, 257), (511, 512), (513, 20), (5000, 3)]:
            run("blocks", bs, w, h)


# ---------------------------------------------------------------- entry points
def run(out, tier, scratch):
    out.rule = ("correspondence: _write_cog on arange(prod shape).reshape(shape) for every 2-d/3-d shape with dims 1..4 (plus 1-d, "
                "4-d and mismatching GeoBoxes), yaxis None/0/1, read back with rasterio and compared sample by sample with the "
                "model's layout map; numpy ravel_multi_index against the model's ravel; _default_cog_opts over block sizes x "
                "dims; overview factors found in files of 511..513 pixel images and explicit lists; nodata keyword x attribute; "
                "check_write_path / _write_cog / write_cog_layers on a scratch directory for every (existing files, overwrite, "
                "good/bad layout, file/memory destination).  search: write_cog/to_cog/write_cog_layers round trips (layouts, dtypes "
                "incl. int8/float64, rotated transforms, file vs memory, computed and external overviews, block sizes, nodata, "
                "windowed writes, intermediate compression) and the overwrite statement on the file system")
    out.assumptions += [
        "GDAL/rasterio GeoTIFF encode + decode is an oracle (Section hypothesis gdal_roundtrip of C15_readback_is_input); its "
        "contract is validated by the round-trip runs of this check - that is testing, not proof",
        "numpy row-major indexing / transpose semantics as formalised by Model.RioCog.ravel and src_index (validated against numpy "
        "and through GDAL read-back on every run)",
    ]
    cases, problems = gen_cases(out, tier, scratch)
    out.oblige("harness:every implementation call of the case generator returned", "correspondence", not problems,
               " | ".join(problems))
    fails, log = core.coq_eval_failures(["Base.Result", "Model.CogLayout", "Model.RioCog", "Model.RioCogCases"], "case", "check",
                                        cases, scratch, shard=250)
    out.oblige("correspondence:Model.RioCog vs odc.geo.cog._rio", "correspondence", not fails,
               "model and implementation differ on: " + " | ".join(cases[i][:400] for i in fails[:4]) if fails else "")
    search(out, tier)


def replay(rp) -> int:
    name = rp["predicate"]
    args = rp["args"]
    try:
        ok, detail = PREDICATES[name](*args)
    except Exception as e:
        ok, detail = False, f"raised {type(e).__name__}: {e}"
    print(f"replay {name}{json.dumps(args, default=str)[:300]}: {'holds' if ok else 'FAILS'}: {detail}")
    return 0 if ok else 1


META = {
    "text": ("Coq theorems (coq/Props/C15.v, all closed under the global context) over a Gallina model of the decision logic of "
             "odc/geo/cog/_rio.py: the band-layout normalisation accepts exactly 2-d (Y,X), band-first and band-last arrays whose "
             "shape matches the GeoBox (complete decision table incl. which error kind each rejected input gets), sends input "
             "sample (y,x,b) to band b,row y,column x, and is a bijection between output samples and input positions; block sizes "
             "are positive multiples of 16, equal to align_up(dim,16) exactly when 0<dim<blocksize; requested overview levels are "
             "the caller's list or [] / [2,4,8,16,32] by min(w,h)<512; nodata keyword wins over the attribute; check_write_path "
             "unlinks iff the file exists and overwrite is set, otherwise IOError with the file system unchanged, and _write_cog "
             "touches nothing when the layout is rejected.  Read-back equality is proved conditional on the GDAL encode/decode "
             "contract, which this check validates by round trips through write_cog/to_cog/write_cog_layers."),
    "note": ("Trusted: Coq kernel; hand-written model coq/Model/RioCog.v (validated by correspondence through real GDAL writes); "
             "harness.  Oracle (testing only, never proved): GDAL/rasterio GeoTIFF encode/decode incl. overview construction, "
             "copy_src_overviews, tiling, georeferencing and nodata tags; numpy transpose/row-major semantics are formalised by "
             "ravel/src_index and validated against numpy.  Domain restrictions in the theorems: block size >= 1; non-negative "
             "dims for surjectivity; with the shape-only guess (yaxis=None, raw _write_cog) a cube-shaped band-first array is "
             "taken for band-last (C15_layout_guess_ambiguous_refuted) - write_cog/write_cog_layers pass the Y axis since fix "
             "1cabe7b and have no such restriction.  Overview block sizes and pixel values are GDAL's (tested: multiples of 16; "
             "external overviews preserved).  A failure of GDAL after the guard unlinked the old file is not modelled.  No axioms."),
    "technique": "Coq proof over hand-written Gallina model + differential correspondence through real GDAL writes (vm_compute) + round-trip testing of the GDAL oracle + leaf functions regenerated from source by py2v on every run and proved equal to the model (source_is_model theorem)",
    "design_ref": "DESIGN.md section 5, C15",
}
