"""C10 — the paste shortcut is pixel-identical to a nearest-neighbour warp.

Correspondence: Model/Paste.v (paste as an array function, the NN warp
contract) against numpy and against rasterio/GDAL through
odc.geo.warp.rio_reproject for every dtype; the planned paste of the model
against the real warp end to end.  Search: paste per the implementation's plan
against the real warp, pixel by pixel; the paste decision rule with exact
Fraction arithmetic.
"""
from __future__ import annotations

import math
import warnings
from fractions import Fraction as Fr

import numpy as np

from vlib import core
from vlib import overlapgen as G
from vlib.core import cbool, cq, ctuple, cz

ID = "C10"
ALLOWED_AXIOMS: list[str] = []
REQ = ["Base.Result", "Model.Roi", "Model.Overlap", "Model.Paste", "Model.PasteCases"]
DTYPES = ["uint8", "int8", "int16", "uint16", "int32", "float32", "float64", "bool"]
STOLS = [1e-3, 2.0 ** -10, 2.0 ** -6]
TTOLS = [0.05, 2.0 ** -5, 2.0 ** -3, 0.25]


def crows(a) -> str:
    return "[" + "; ".join("[" + "; ".join(cz(int(v)) for v in row) + "]" for row in a) + "]"


def mk_image(shape, dtype, rng, vary_nodata=False):
    """distinct values 1..ny*nx (bool: random); the nodata value lies outside the data range because GDAL
    nudges valid pixels that equal dst_nodata"""
    ny, nx = shape
    if dtype == "bool":
        im = np.array([[rng.random() < 0.5 for _ in range(nx)] for _ in range(ny)], dtype=bool).reshape(ny, nx)
        return im, (rng.random() < 0.5 if vary_nodata else False)
    im = (np.arange(ny * nx).reshape(ny, nx) + 1).astype(dtype)     # distinct values, <= 144
    nodata = 0 if dtype.startswith("u") else -1
    if vary_nodata and rng.random() < 0.5:
        nodata = 200 if dtype.startswith("u") else -7
    return im, nodata


def real_warp(im, nodata, src, dst, src_nodata=None, unset_if_default=False):
    """rio_reproject(..., 'nearest'); the destination starts from a value different from nodata.
    unset_if_default: leave dst_nodata unset when the requested fill is what the warp uses by itself
    (False for bool, 0 for integers)."""
    from odc.geo.warp import rio_reproject
    init = (not nodata) if im.dtype == bool else (77 if nodata != 77 else 78)
    out = np.full(dst.shape, init, dtype=im.dtype)
    dn = nodata
    if unset_if_default and im.dtype.kind in "bui" and not nodata:
        dn = None
    with warnings.catch_warnings():
        warnings.simplefilter("ignore")
        rio_reproject(im, out, src, dst, "nearest", src_nodata=src_nodata, dst_nodata=dn)
    return out


def paste_by_plan(im, nodata, r, dst_shape, flipy, flipx):
    out = np.full(dst_shape, nodata, dtype=im.dtype)
    block = im[r.roi_src]
    if flipy:
        block = block[::-1, :]
    if flipx:
        block = block[:, ::-1]
    out[r.roi_dst] = block
    return out


def unit_family(rng, ns, nd, ttol, stol, small_dev=True, placements=G.PLACEMENTS):
    """dst->src affine: unit scale (mirrored or not), whole-pixel shift, sub-pixel residue on either
    side of ttol, scale deviation on either side of stol; every placement"""
    sx, sy = rng.choice([1, 1, -1]), rng.choice([1, 1, -1])
    offs = []
    for j, s in ((1, sx), (0, sy)):
        o = G.place(rng, rng.choice(placements), ns[j], nd[j])
        offs.append(Fr(o + (nd[j] if s < 0 else 0)))
    tt = Fr(ttol)
    st = Fr(stol)
    e_in = [Fr(0), Fr(0), Fr(1, 128), Fr(-1, 128), tt / 2, -tt / 2, tt - Fr(1, 2 ** 20), -tt + Fr(1, 2 ** 20)]
    e_out = [tt, -tt, tt + Fr(1, 2 ** 20), -tt - Fr(1, 2 ** 20), Fr(3, 8), Fr(-3, 8)]
    d_in = [Fr(0), Fr(0), Fr(0), st / 2, -st / 2, st - Fr(1, 2 ** 24), -st + Fr(1, 2 ** 24)]
    d_out = [st, -st, st + Fr(1, 2 ** 24), -st - Fr(1, 2 ** 24)]
    eps = lambda: rng.choice(e_in if rng.random() < 0.8 else e_out)
    dl = rng.choice(d_in if rng.random() < 0.8 else d_out) if small_dev else Fr(0)
    dl2 = rng.choice([dl, Fr(0), -dl])
    if small_dev and rng.random() < 0.4:
        # anisotropic: each axis independently inside / on / outside stol of the integer, incl. pairs that agree
        # with each other within stol while one of them is up to 2*stol off
        mult = [Fr(4, 5), Fr(8, 5), Fr(6, 5), Fr(-7, 10), Fr(-3, 2), Fr(1, 2), Fr(9, 5), Fr(-6, 5), Fr(1), Fr(-1), Fr(0)]
        dl, dl2 = st * rng.choice(mult), st * rng.choice(mult)
    return [sx * (1 + dl), Fr(0), offs[0] + eps(), Fr(0), sy * (1 + dl2), offs[1] + eps()]


def tie_free(A6, dst_shape, lim=Fr(1, 10 ** 6)) -> bool:
    """no destination pixel centre maps closer than lim to a source pixel edge (GDAL adds 1e-10 there)"""
    for dy in range(dst_shape[0]):
        for dx in range(dst_shape[1]):
            px, py = G.aapply(A6, (dx + Fr(1, 2), dy + Fr(1, 2)))
            if abs(px - round(px)) < lim or abs(py - round(py)) < lim:
                return False
    return True


# ---------------------------------------------------------------- correspondence cases
def gen_cases(out, tier, rng):
    from affine import Affine
    from odc.geo.overlap import compute_reproject_roi

    cases = []

    def add(kind, text, canon, nontrivial=True, sample=None):
        cases.append(text)
        out.count(kind)
        out.case((kind, canon), nontrivial, sample)

    # (1) paste as an array operation against numpy
    for i in range(120 if tier == "quick" else 1200):
        ns = (rng.randint(1, 9), rng.randint(1, 9))
        nd = (rng.randint(1, 9), rng.randint(1, 9))
        h, w = rng.randint(0, min(ns[0], nd[0])), rng.randint(0, min(ns[1], nd[1]))
        sy0, sx0 = rng.randint(0, ns[0] - h), rng.randint(0, ns[1] - w)
        dy0, dx0 = rng.randint(0, nd[0] - h), rng.randint(0, nd[1] - w)
        fy, fx = rng.random() < 0.4, rng.random() < 0.4
        im, nod = mk_image(ns, "int16", rng)

        class R:
            roi_src = (slice(sy0, sy0 + h), slice(sx0, sx0 + w))
            roi_dst = (slice(dy0, dy0 + h), slice(dx0, dx0 + w))
        exp = paste_by_plan(im, nod, R, nd, fy, fx)
        add("paste:numpy", f"CPaste {crows(im)} {cz(nod)} {G.croi(R.roi_src)} {G.croi(R.roi_dst)} {cbool(fy)} {cbool(fx)} "
            f"{G.cpair(nd)} {crows(exp)}", (ns, nd, sy0, sx0, dy0, dx0, h, w, fy, fx), h * w > 0)

    # (2) the NN warp contract against rasterio/GDAL, every dtype, general affines
    n2 = 160 if tier == "quick" else 1600
    shown = 0
    for i in range(n2):
        dtype = DTYPES[i % len(DTYPES)]
        ns = (rng.randint(1, 12), rng.randint(1, 12))
        nd = (rng.randint(1, 12), rng.randint(1, 12))
        fam = rng.choice(["unit", "unit", "unit", "scale", "rot90", "shear"])
        if fam == "unit":
            A6 = unit_family(rng, ns, nd, rng.choice(TTOLS), rng.choice(STOLS), small_dev=False)
        elif fam == "scale":
            s = rng.choice([Fr(2), Fr(1, 2), Fr(3), Fr(3, 2), Fr(1, 4)])
            A6 = [s * rng.choice([1, -1]), Fr(0), G.dyadic(rng, -3, ns[1] + 3, 3), Fr(0), s * rng.choice([1, -1]), G.dyadic(rng, -3, ns[0] + 3, 3)]
        elif fam == "rot90":
            kk = rng.choice([Fr(1), Fr(2), Fr(1, 2)])
            R = rng.choice([(0, -1, 1, 0), (-1, 0, 0, -1), (0, 1, -1, 0)])
            A6 = [R[0] * kk, R[1] * kk, G.dyadic(rng, -2, ns[1] + 2, 3), R[2] * kk, R[3] * kk, G.dyadic(rng, -2, ns[0] + 2, 3)]
        else:
            A6 = [Fr(1), rng.choice([Fr(1, 2), Fr(-1, 4)]), G.dyadic(rng, -2, ns[1], 3), Fr(0), rng.choice([Fr(1), Fr(-1)]), G.dyadic(rng, -2, ns[0] + 2, 3)]
        if not tie_free(A6, nd):
            out.count("warp:tie-skipped")
            continue
        A = Affine(*[float(v) for v in A6])
        src, dst = G.mk_pair(ns, nd, A)
        T = G.true_A(src, dst)
        if T != tuple(A6):
            out.count("warp:generator-escape")
            continue
        im, nod = mk_image(ns, dtype, rng, vary_nodata=True)
        res = real_warp(im, nod, src, dst, unset_if_default=rng.random() < 0.5)
        out.count(f"warp-nodata:{dtype}:{nod}")
        sample = None
        if shown < 2 and fam == "unit":
            shown += 1
            sample = {"op": "rio_reproject nearest", "dtype": dtype, "src": im.astype(int).tolist(),
                      "A_dst_to_src": [str(v) for v in A6], "result": res.astype(int).tolist()}
        add(f"warp-contract:{dtype}", f"CWarp {crows(im.astype(int))} {cz(int(nod))} {G.cpair(ns)} {G.caff(A)} {G.cpair(nd)} "
            f"{crows(res.astype(int))}", (dtype, ns, nd, str(A6)), bool((res != nod).any()), sample)
        out.count("warp-family:" + fam)

    # (3) end to end: the model plans and pastes, the real warp is the reference
    n3 = 500 if tier == "quick" else 5000
    for i in range(n3):
        dtype = DTYPES[i % len(DTYPES)]
        ns = (rng.randint(1, 12), rng.randint(1, 12))
        nd = (rng.randint(1, 12), rng.randint(1, 12))
        ttol, stol = rng.choice(TTOLS), rng.choice(STOLS)
        A6 = unit_family(rng, ns, nd, ttol, stol)
        if not all(G.is_f64(v) for v in A6):
            continue
        A = Affine(*[float(v) for v in A6])
        src, dst = G.mk_pair(ns, nd, A)
        with warnings.catch_warnings():
            warnings.simplefilter("ignore")
            r = compute_reproject_roi(src, dst, ttol=ttol, stol=stol)
        if not (r.paste_ok and r.read_shrink == 1):
            out.count("plan-paste:not-eligible")
            continue
        Ai, Fi = r.transform.back.linear, r.transform.linear
        if not tie_free(G.true_A(src, dst), nd):
            out.count("plan-paste:tie-skipped")
            continue
        im, nod = mk_image(ns, dtype, rng, vary_nodata=True)
        res = real_warp(im, nod, src, dst, unset_if_default=rng.random() < 0.5)
        add(f"plan-paste:{dtype}", f"CPlanPaste {G.cconsts()} {crows(im.astype(int))} {cz(int(nod))} {G.cpair(ns)} {G.cpair(nd)} "
            f"{G.caff(Ai)} {G.caff(Fi)} {cq(Fr(ttol))} {cq(Fr(stol))} {crows(res.astype(int))}",
            (dtype, ns, nd, str(G.aff6(Ai)), ttol, stol), bool((res != nod).any()))
    return cases


# ---------------------------------------------------------------- property predicates on the implementation
def p_paste_warp(src_shape, dst_shape, A, kw, dtype, seed):
    """plan with compute_reproject_roi; when paste_ok: read_shrink == 1 -> pasted image == real NN warp
    at every pixel; read_shrink == k -> roi_src is roi_dst scaled by k; and the decision rule."""
    from affine import Affine
    from odc.geo.overlap import compute_reproject_roi
    rng = core.rng(f"c10-img-{seed}")
    src, dst = G.mk_pair(tuple(src_shape), tuple(dst_shape), Affine(*[float(Fr(v)) for v in A]))
    with warnings.catch_warnings():
        warnings.simplefilter("ignore")
        r = compute_reproject_roi(src, dst, **kw)
    T = G.true_A(src, dst)
    a, b, tx, d, e, ty = T
    k = r.read_shrink
    why = f"roi_src={r.roi_src} roi_dst={r.roi_dst} paste_ok={r.paste_ok} read_shrink={k}"
    if not r.paste_ok:
        return True, "no paste planned"
    stol, ttol = Fr(kw.get("stol", 1e-3)), Fr(kw.get("ttol", 0.05))
    # decision rule: only for scale + translation, integer scale, whole-pixel shift, within the tolerances
    # binary64 noise of the implementation's own inverse affine and of the division by a read scale
    # that is not a power of two; exact comparison otherwise (so that a '<' vs '<=' slip is visible)
    exact = G.aff6(r.transform.back.linear) == tuple(T) and k & (k - 1) == 0
    noise = Fr(0) if exact else Fr(1, 10 ** 12)
    if abs(b) >= Fr(1e-10) + noise or abs(d) >= Fr(1e-10) + noise:
        return False, why + ": paste planned for a transform with rotation/shear"
    if abs(abs(a) / k - 1) >= stol + noise or abs(abs(e) / k - 1) >= stol + noise:
        return False, why + f": paste planned although an axis scale ({float(a)}, {float(e)}) is not within stol of read_shrink"
    for t in (tx / k, ty / k):
        if abs(t - round(t)) >= ttol + noise:
            return False, why + f": paste planned although the shift {float(t)} is not within ttol of a whole pixel"
    (sy0, sy1), (sx0, sx1) = [(s.start, s.stop) for s in r.roi_src]
    (dy0, dy1), (dx0, dx1) = [(s.start, s.stop) for s in r.roi_dst]
    if (sy1 - sy0, sx1 - sx0) != (k * (dy1 - dy0), k * (dx1 - dx0)) or any(v % k for v in (sy0, sy1, sx0, sx1)):
        return False, why + ": roi_src is not roi_dst scaled by read_shrink"
    # regions inside the images (source: up to the next multiple of k), and roi_dst = exactly the destination
    # pixels whose centre falls into a pixel of the k-fold overview, each matched with its k x k source block
    (ny, nx), (my, mx) = src.shape, dst.shape
    oy, ox = -(-ny // k), -(-nx // k)
    if not (0 <= dy0 <= dy1 <= my and 0 <= dx0 <= dx1 <= mx and 0 <= sy0 <= sy1 <= k * oy and 0 <= sx0 <= sx1 <= k * ox):
        return False, why + f": planned regions reach outside the images (source {ny}x{nx}, overview {oy}x{ox}, destination {my}x{mx})"
    for dy in range(my):
        for dx in range(mx):
            px, py = G.aapply(T, (dx + Fr(1, 2), dy + Fr(1, 2)))
            hx, hy = math.floor(px / k), math.floor(py / k)
            covered = 0 <= hx < ox and 0 <= hy < oy
            inside = dx0 <= dx < dx1 and dy0 <= dy < dy1
            if covered != inside:
                return False, why + (f": destination pixel (x={dx},y={dy}) maps to overview pixel (x={hx},y={hy}) of a {oy}x{ox} overview "
                                     f"but is {'inside' if inside else 'outside'} roi_dst")
            if inside:
                wx = sx0 // k + (dx - dx0) if a > 0 else sx1 // k - 1 - (dx - dx0)
                wy = sy0 // k + (dy - dy0) if e > 0 else sy1 // k - 1 - (dy - dy0)
                if (wx, wy) != (hx, hy):
                    return False, why + f": destination pixel (x={dx},y={dy}) is paired with overview pixel (x={wx},y={wy}) instead of (x={hx},y={hy})"
    if k != 1:
        return True, why
    im, nodata = mk_image(tuple(src_shape), dtype, rng)
    want = real_warp(im, nodata, src, dst)
    try:
        got = paste_by_plan(im, nodata, r, tuple(dst_shape), e < 0, a < 0)
    except ValueError as ex:
        return False, why + f": the planned regions cannot be pasted ({ex})"
    if not np.array_equal(got, want):
        return False, why + f": pasted image {got.astype(int).tolist()} differs from the nearest-neighbour warp {want.astype(int).tolist()}"
    return True, why


def p_can_paste(A, stol, ttol):
    """_can_paste on a bare affine: acceptance implies the decision rule (exact arithmetic)"""
    from affine import Affine
    from odc.geo.overlap import _can_paste, _pick_read_scale
    A6 = [Fr(v) for v in A]
    ok, reason = _can_paste(Affine(*[float(v) for v in A6]), stol=stol, ttol=ttol)
    why = f"_can_paste -> {(ok, reason)}"
    a, b, tx, d, e, ty = A6
    if abs(b) >= Fr(1e-10) or abs(d) >= Fr(1e-10):
        return (not ok), why + (": accepted a rotation/shear" if ok else "")
    if not ok:
        return True, why
    if b != 0 or d != 0:
        return True, why      # scale involves a square root: outside exact arithmetic
    sc = min(abs(a), abs(e))
    k = _pick_read_scale(float(sc))
    noise = Fr(0) if k & (k - 1) == 0 else Fr(1, 10 ** 12)   # 1/k is inexact in binary64 unless k is a power of two
    if abs(sc - round(sc)) >= Fr(stol):
        return False, why + ": accepted a fractional scale"
    if abs(abs(a) / k - 1) >= Fr(stol) + noise or abs(abs(e) / k - 1) >= Fr(stol) + noise:
        return False, why + ": accepted an axis scale not within stol of the read scale (snap_affine will not snap it)"
    for t in (tx / k, ty / k):
        if abs(t - round(t)) >= Fr(ttol) + noise:
            return False, why + ": accepted a sub-pixel shift not within ttol"
    return True, why


def nodata_candidates(dtype):
    """(src_nodata values, dst_nodata values); None = unset; all values outside the data range 1..100
    (bool has no such value: there a source pixel equal to src_nodata is invalid and yields the fill)"""
    if dtype == "bool":
        return [None, False, True], [None, False, True]
    if dtype.startswith("float"):
        return [None, -5.0], [None, "nan", -1.0, 0.0, 120.0]
    if dtype.startswith("u"):
        return [None, 200], [None, 0, 120]
    return [None, -9], [None, 0, 120, -7]


def p_warp_nodata(src_shape, dst_shape, A, dtype, src_nodata, dst_nodata, seed):
    """pixel identity incl. the nodata fill, for every dtype and every way of giving src_nodata / dst_nodata:
    warp(src) == planned paste + fill elsewhere, fill = dst_nodata if given, else NaN for floats, else
    src_nodata if given, else 0 / False (the documented defaults of rio_reproject / rasterio)."""
    from affine import Affine
    from odc.geo.overlap import compute_reproject_roi
    from odc.geo.warp import rio_reproject
    rng = core.rng(f"c10-nodata-{seed}")
    src, dst = G.mk_pair(tuple(src_shape), tuple(dst_shape), Affine(*[float(Fr(v)) for v in A]))
    with warnings.catch_warnings():
        warnings.simplefilter("ignore")
        r = compute_reproject_roi(src, dst)
    if not (r.paste_ok and r.read_shrink == 1):
        return True, "no paste planned"
    T = G.true_A(src, dst)
    dn = float("nan") if dst_nodata == "nan" else dst_nodata
    im, _ = mk_image(tuple(src_shape), dtype, rng)
    if dn is not None:
        fill = dn
    elif dtype.startswith("float"):
        fill = float("nan")
    elif src_nodata is not None:
        fill = src_nodata
    else:
        fill = False if dtype == "bool" else 0
    want = np.full(tuple(dst_shape), fill, dtype=im.dtype)
    block = im[r.roi_src]
    if T[4] < 0:
        block = block[::-1, :]
    if T[0] < 0:
        block = block[:, ::-1]
    if src_nodata is not None:
        block = np.where(block == src_nodata, np.array(fill, dtype=im.dtype), block)
    want[r.roi_dst] = block
    init = (not fill) if dtype == "bool" else 77
    got = np.full(tuple(dst_shape), init, dtype=im.dtype)
    with warnings.catch_warnings():
        warnings.simplefilter("ignore")
        rio_reproject(im, got, src, dst, "nearest", src_nodata=src_nodata, dst_nodata=dn)
    cov = int(np.prod([s.stop - s.start for s in r.roi_dst]))
    why = f"roi_src={r.roi_src} roi_dst={r.roi_dst} covered {cov} of {want.size} pixels, fill={fill}"
    if not np.array_equal(got, want, equal_nan=dtype.startswith("float")):
        return False, why + f": warp gives {got.tolist()} but pasted region + nodata elsewhere is {want.tolist()}"
    return True, why


def p_warp_accumulate(dst_shape, tiles, dtype, fill, seed):
    """several pasteable source tiles loaded one after the other into ONE destination raster: the first warp
    initialises the destination with the fill, the later ones run with init_dest_nodata=False and must keep
    what is already there.  Expected: fill everywhere, then each tile's planned paste in turn."""
    from affine import Affine
    from odc.geo.overlap import compute_reproject_roi
    from odc.geo.warp import rio_reproject
    rng = core.rng(f"c10-acc-{seed}")
    dshape = tuple(dst_shape)
    got = np.full(dshape, (not fill) if dtype == "bool" else 77, dtype=dtype)
    want = np.full(dshape, fill, dtype=dtype)
    why = ""
    for t, (src_shape, A) in enumerate(tiles):
        src, dst = G.mk_pair(tuple(src_shape), dshape, Affine(*[float(Fr(v)) for v in A]))
        with warnings.catch_warnings():
            warnings.simplefilter("ignore")
            r = compute_reproject_roi(src, dst)
        if not (r.paste_ok and r.read_shrink == 1):
            return True, "no paste planned"
        T = G.true_A(src, dst)
        ny, nx = src_shape
        if dtype == "bool":
            im = np.array([[rng.random() < 0.5 for _ in range(nx)] for _ in range(ny)], dtype=bool).reshape(ny, nx)
        else:
            im = (np.arange(ny * nx).reshape(ny, nx) + 1 + 50 * t).astype(dtype)     # <= 100, distinct per tile
        block = im[r.roi_src]
        if T[4] < 0:
            block = block[::-1, :]
        if T[0] < 0:
            block = block[:, ::-1]
        want[r.roi_dst] = block
        kw = {} if t == 0 else {"init_dest_nodata": False}
        with warnings.catch_warnings():
            warnings.simplefilter("ignore")
            rio_reproject(im, got, src, dst, "nearest", dst_nodata=fill, **kw)
        why += f" tile{t}: roi_src={r.roi_src} roi_dst={r.roi_dst};"
    if not np.array_equal(got, want):
        return False, why + f" accumulated warps give {got.tolist()} but the accumulated pastes are {want.tolist()}"
    return True, why


MIXED_POOL = {"int8": [0, 1, 5, 100, 126, 127, 3, 60, 90, 120], "default": [0, 1, 5, 100, 126, 127, 128, 129, 200, 250]}


def p_warp_mixed(src_shape, dst_shape, A, src_dtype, dst_dtype, dst_nodata, seed):
    """source and destination of different pixel types (incl. bool on either side) through the public
    rio_reproject(..., 'nearest'): the warp AND the planned paste must both equal the exact nearest-neighbour
    reference - dst[d] = src[floor(T(d + 1/2))] in exact Fractions, cast the way numpy casts to the destination
    type - on a canvas of the fill (dst_nodata if given, else NaN for a float DESTINATION, else 0 / False)."""
    from affine import Affine
    from odc.geo.overlap import compute_reproject_roi
    from odc.geo.warp import rio_reproject
    src, dst = G.mk_pair(tuple(src_shape), tuple(dst_shape), Affine(*[float(Fr(v)) for v in A]))
    with warnings.catch_warnings():
        warnings.simplefilter("ignore")
        r = compute_reproject_roi(src, dst)
    if not (r.paste_ok and r.read_shrink == 1):
        return True, "no paste planned"
    T = G.true_A(src, dst)
    ny, nx = src_shape
    rng = core.rng(f"c10-mixed-{seed}")
    if src_dtype == "bool":
        im = np.array([[rng.random() < 0.5 for _ in range(nx)] for _ in range(ny)], dtype=bool).reshape(ny, nx)
    elif dst_dtype == "bool":
        pool = MIXED_POOL.get(src_dtype, MIXED_POOL["default"])
        im = np.array([[rng.choice(pool) for _ in range(nx)] for _ in range(ny)]).reshape(ny, nx).astype(src_dtype)
    else:
        im = (np.arange(ny * nx).reshape(ny, nx) + 1).astype(src_dtype)       # 1..100
    dn = float("nan") if dst_nodata == "nan" else dst_nodata
    fill = dn if dn is not None else (float("nan") if dst_dtype.startswith("float") else 0)
    # exact nearest-neighbour reference
    ref = np.full(tuple(dst_shape), fill, dtype=dst_dtype)
    cast = im.astype(dst_dtype)
    for dy in range(dst_shape[0]):
        for dx in range(dst_shape[1]):
            px, py = G.aapply(T, (dx + Fr(1, 2), dy + Fr(1, 2)))
            kx, ky = math.floor(px), math.floor(py)
            if 0 <= kx < nx and 0 <= ky < ny:
                ref[dy, dx] = cast[ky, kx]
    # the planned paste
    pasted = np.full(tuple(dst_shape), fill, dtype=dst_dtype)
    block = im[r.roi_src]
    if T[4] < 0:
        block = block[::-1, :]
    if T[0] < 0:
        block = block[:, ::-1]
    pasted[r.roi_dst] = block
    got = np.full(tuple(dst_shape), True if dst_dtype == "bool" and not fill else 77, dtype=dst_dtype)
    with warnings.catch_warnings():
        warnings.simplefilter("ignore")
        rio_reproject(im, got, src, dst, "nearest", dst_nodata=dn)
    cov = int(np.prod([s.stop - s.start for s in r.roi_dst]))
    why = f"roi_src={r.roi_src} roi_dst={r.roi_dst} covered {cov} of {ref.size} pixels, fill={fill}"
    nan_ok = dst_dtype.startswith("float")
    if not np.array_equal(pasted, ref, equal_nan=nan_ok):
        return False, why + f": {src_dtype} -> {dst_dtype} planned paste gives {pasted.tolist()} but the exact nearest-neighbour image is {ref.tolist()}"
    if not np.array_equal(got, ref, equal_nan=nan_ok):
        return False, why + f": {src_dtype} -> {dst_dtype} warp of {im.tolist()} gives {got.tolist()} but the exact nearest-neighbour image is {ref.tolist()}"
    return True, why


def exact_nn(im2d, T, dst_shape, fill, dtype, src_nodata=None):
    """exact nearest-neighbour reference of one 2-d plane: dst[d] = src[floor(T(d + 1/2))] (Fractions), fill outside
    the source and where the source pixel equals src_nodata"""
    ny, nx = im2d.shape
    ref = np.full(tuple(dst_shape), fill, dtype=dtype)
    for dy in range(dst_shape[0]):
        for dx in range(dst_shape[1]):
            px, py = G.aapply(T, (dx + Fr(1, 2), dy + Fr(1, 2)))
            kx, ky = math.floor(px), math.floor(py)
            if 0 <= kx < nx and 0 <= ky < ny and not (src_nodata is not None and im2d[ky, kx] == src_nodata):
                ref[dy, dx] = im2d[ky, kx]
    return ref


def nd_source(layout, src_shape, nb, dtype):
    """n-d source with distinct values per plane; layout: 'yx', 'byx' (planes first), 'yxb' (planes last),
    'tyxb' (one leading and one trailing axis).  Returns (array, ydim, list of (index tuple, 2-d plane))"""
    ny, nx = src_shape
    planes = [((np.arange(ny * nx).reshape(ny, nx) * (b + 1) + 1 + 7 * b) % 100 + 1).astype(dtype) for b in range(nb)]
    if layout == "yx":
        return planes[0], None, [((), planes[0])]
    if layout == "byx":
        return np.stack(planes, axis=0), 1, [((b,), planes[b]) for b in range(nb)]
    if layout == "yxb":
        return np.stack(planes, axis=-1), 0, [((b,), planes[b]) for b in range(nb)]
    t2 = [np.stack(planes, axis=-1), np.stack(planes[::-1], axis=-1)]
    return np.stack(t2, axis=0), 1, [((t, b), (planes if t == 0 else planes[::-1])[b]) for t in range(2) for b in range(nb)]


def plane_of(arr, layout, idx):
    if layout == "yx":
        return arr
    if layout == "byx":
        return arr[idx[0]]
    if layout == "yxb":
        return arr[..., idx[0]]
    return arr[idx[0], :, :, idx[1]]


def p_warp_nd(src_shape, dst_shape, A, dtype, layout, nb, ydim_mode, dst_nodata):
    """rio_reproject on stacks of planes in every axis layout ((band,y,x), (y,x,band), (time,y,x,band)) with ydim
    left to the default or passed explicitly (0 included): every plane must equal the exact nearest-neighbour
    image of the corresponding source plane"""
    from affine import Affine
    from odc.geo.warp import rio_reproject
    src, dst = G.mk_pair(tuple(src_shape), tuple(dst_shape), Affine(*[float(Fr(v)) for v in A]))
    T = G.true_A(src, dst)
    arr, ydim, planes = nd_source(layout, tuple(src_shape), nb, dtype)
    if ydim_mode == "default":
        if layout in ("yxb", "tyxb"):
            return True, "layout needs an explicit ydim"
        kw = {}
    else:
        kw = {"ydim": ydim} if ydim is not None else {}
    dshape = list(arr.shape)
    if layout != "yx":
        dshape[ydim], dshape[ydim + 1] = dst_shape
    else:
        dshape = list(dst_shape)
    fill = dst_nodata if dst_nodata is not None else (float("nan") if dtype.startswith("float") else 0)
    got = np.full(tuple(dshape), 77, dtype=dtype)
    with warnings.catch_warnings():
        warnings.simplefilter("ignore")
        rio_reproject(arr, got, src, dst, "nearest", dst_nodata=dst_nodata, **kw)
    for idx, pl in planes:
        ref = exact_nn(pl, T, dst_shape, fill, dtype)
        g = plane_of(got, layout, idx)
        if not np.array_equal(g, ref, equal_nan=dtype.startswith("float")):
            return False, (f"layout {layout} ydim={kw.get('ydim', 'default')}: plane {idx} of the warped stack is {g.tolist()} but the exact "
                           f"nearest-neighbour image of source plane {idx} is {ref.tolist()}")
    return True, f"{len(planes)} planes"


def p_xr_reproject(src_shape, dst_shape, A, dtype, layout, nb, src_nodata, dst_nodata, chunks):
    """the public xarray entry point (xr_reproject / .odc.reproject) on numpy-backed and dask-backed arrays, every
    axis layout, source nodata attribute and dst_nodata given or not: every plane must equal the exact
    nearest-neighbour image on a canvas of the fill (dst_nodata, else the source nodata, else NaN / 0), also in
    destination chunks that do not touch the source"""
    from affine import Affine
    from odc.geo.xr import wrap_xr, xr_reproject
    src, dst = G.mk_pair(tuple(src_shape), tuple(dst_shape), Affine(*[float(Fr(v)) for v in A]))
    T = G.true_A(src, dst)
    arr, _, planes = nd_source(layout, tuple(src_shape), nb, dtype)
    if layout == "byx":
        xx = wrap_xr(arr, src, nodata=src_nodata, time=[f"2020-01-{b + 1:02d}" for b in range(nb)])
    elif layout == "tyxb":
        xx = wrap_xr(arr, src, nodata=src_nodata, time=["2020-01-01", "2020-01-02"])
    else:
        xx = wrap_xr(arr, src, nodata=src_nodata)
    if chunks is not None:
        cy, cx = chunks
        xx = xx.chunk({"y": cy, "x": cx})
    kw = {"dst_nodata": dst_nodata} if dst_nodata is not None else {}
    if chunks is not None:
        kw["chunks"] = tuple(chunks)
    with warnings.catch_warnings():
        warnings.simplefilter("ignore")
        out = xr_reproject(xx, dst, resampling="nearest", **kw)
        got = np.asarray(out.values)
    fill = dst_nodata if dst_nodata is not None else (src_nodata if src_nodata is not None else (float("nan") if dtype.startswith("float") else 0))
    why = f"result dims {out.dims} shape {got.shape}"
    for idx, pl in planes:
        ref = exact_nn(pl, T, dst_shape, fill, dtype, src_nodata)
        g = plane_of(got, layout, idx)
        if g.shape != ref.shape or not np.array_equal(g, ref, equal_nan=dtype.startswith("float")):
            return False, why + (f": plane {idx} ({'dask chunks ' + str(chunks) if chunks else 'numpy'}) is {g.tolist()} but the exact nearest-neighbour "
                                 f"image on a canvas of {fill} is {ref.tolist()}")
    return True, why


PREDICATES = {"paste_warp": p_paste_warp, "can_paste": p_can_paste, "warp_nodata": p_warp_nodata,
              "warp_accumulate": p_warp_accumulate, "warp_mixed": p_warp_mixed, "warp_nd": p_warp_nd,
              "xr_reproject": p_xr_reproject}


def search(out, tier):
    rng = core.rng("c10-search")
    found = {}

    def run(name, *args):
        try:
            ok, detail = PREDICATES[name](*args)
        except Exception as e:
            ok, detail = False, f"raised {type(e).__name__}: {e}"
        out.count("predicate:" + name)
        out.case(("pred", name, repr(args)), True)
        if name == "paste_warp":
            out.count("search:no-paste" if detail == "no paste planned" else
                      ("search:paste-shrink-1" if "read_shrink=1" in detail else "search:paste-shrink-k"))
        if not ok and name not in found:
            found[name] = True
            out.violation(f"c10:{name}", f"{name}{args}: {detail}", {"predicate": name, "args": list(args), "observed": detail})

    for rp in core.corpus(ID):
        run(rp["predicate"], *rp["args"])
    n = 800 if tier == "quick" else 8000
    for i in range(n):
        dtype = DTYPES[i % len(DTYPES)]
        ns = (rng.randint(1, 12), rng.randint(1, 12))
        nd = (rng.randint(1, 12), rng.randint(1, 12))
        ttol, stol = rng.choice(TTOLS), rng.choice(STOLS)
        k = rng.choice([1, 1, 1, 2, 4, 3])
        A6 = unit_family(rng, (max(1, ns[0] // k), max(1, ns[1] // k)), nd, ttol, stol)
        if rng.random() < 0.08:      # a shear on either side of the 1e-10 tolerance
            A6[rng.choice([1, 3])] = rng.choice([Fr(1e-10) / 2, Fr(1e-10) * 2, Fr(1, 2 ** 20)])
        A6 = [v * k for v in A6]
        if not tie_free(A6, nd):
            out.count("search:tie-skipped")
            continue
        kw = {"ttol": ttol, "stol": stol}
        if rng.random() < 0.15:
            kw["padding"] = rng.choice([0, None])
            kw["align"] = rng.choice([0, None])
        run("paste_warp", list(ns), list(nd), [str(v) for v in A6], kw, dtype, i)
    # integer shrink >= 2 with destinations that overhang / only partly overlap the source footprint
    for i in range(150 if tier == "quick" else 1500):
        k = rng.choice([2, 2, 3, 4, 5])
        ov = (rng.randint(1, 6), rng.randint(1, 6))                      # overview size
        ns = tuple(max(1, k * o - rng.randint(0, k - 1)) for o in ov)    # every remainder of the source size mod k
        nd = (rng.randint(1, 9), rng.randint(1, 9))
        ttol, stol = rng.choice(TTOLS), rng.choice(STOLS)
        A6 = unit_family(rng, ov, nd, ttol, stol, placements=("left", "right", "cover", "left", "right", "touch_lo", "touch_hi", "inside"))
        A6 = [v * k for v in A6]
        if not tie_free(A6, nd):
            continue
        out.count("search:shrink-overhang")
        run("paste_warp", list(ns), list(nd), [str(v) for v in A6], {"ttol": ttol, "stol": stol}, "int16", 100000 + i)
    # two pasteable tiles accumulated into one destination (second warp with init_dest_nodata=False), every dtype
    for i in range(6 * len(DTYPES) if tier == "quick" else 60 * len(DTYPES)):
        dtype = DTYPES[i % len(DTYPES)]
        nd = (rng.randint(3, 9), rng.randint(3, 9))
        tiles = []
        for _ in range(2):
            ns = (rng.randint(2, 6), rng.randint(2, 6))
            A6 = unit_family(rng, ns, nd, 0.05, 1e-3, small_dev=False, placements=("inside", "left", "right", "cover"))
            A6[2], A6[5] = Fr(round(A6[2])), Fr(round(A6[5]))      # whole-pixel shifts: no ties, always pasteable
            tiles.append([list(ns), [str(v) for v in A6]])
        fill = rng.choice([False, True]) if dtype == "bool" else rng.choice([0, 120] if dtype.startswith("u") else [-1, 120, 0])
        out.count(f"accumulate:{dtype}")
        run("warp_accumulate", list(nd), tiles, dtype, fill, i)
    # stacks of planes in every axis layout through rio_reproject (ydim default / explicit, 0 included) and through
    # the public xarray entry point, numpy- and dask-backed (destination chunks outside the source included)
    lay = ["byx", "yxb", "tyxb", "yx"]
    for i in range(24 if tier == "quick" else 240):
        layout = lay[i % 4]
        dtype = ["uint8", "int16", "float32", "int8"][(i // 4) % 4]
        ns = (rng.randint(2, 7), rng.randint(2, 7))
        nd = (rng.randint(2, 7), rng.randint(2, 7))
        A6 = unit_family(rng, ns, nd, 0.05, 1e-3, small_dev=False, placements=("left", "right", "inside", "cover", "disjoint_hi"))
        A6[2], A6[5] = Fr(round(A6[2])) + rng.choice([Fr(0), Fr(1, 64)]), Fr(round(A6[5])) + rng.choice([Fr(0), Fr(-1, 64)])
        dn = rng.choice([None, 120] if not dtype.startswith("float") else [None, -1.0])
        out.count(f"warp-nd:{layout}")
        run("warp_nd", list(ns), list(nd), [str(v) for v in A6], dtype, layout, rng.randint(2, 3), rng.choice(["default", "explicit", "explicit"]), dn)
    for i in range(24 if tier == "quick" else 240):
        layout = lay[i % 4]
        dtype = ["uint8", "int16", "float32", "uint16"][(i // 4) % 4]
        ns = (rng.randint(3, 8), rng.randint(3, 8))
        nd = (rng.randint(6, 12), rng.randint(6, 12))
        A6 = unit_family(rng, ns, nd, 0.05, 1e-3, small_dev=False, placements=("left", "right", "inside", "disjoint_hi", "inside"))
        A6[2], A6[5] = Fr(round(A6[2])), Fr(round(A6[5]))
        sn = rng.choice([None, 200, 200] if dtype != "float32" else [None, -5.0, -5.0])
        dn = rng.choice([None, 120, 120] if dtype != "float32" else [None, -1.0, -1.0])
        chunks = rng.choice([None, [3, 3], [4, 2], [2, 5]])
        out.count(f"xr-reproject:{layout}:{'dask' if chunks else 'numpy'}")
        run("xr_reproject", list(ns), list(nd), [str(v) for v in A6], dtype, layout, 2, sn, dn, chunks)
    # mixed pixel types: integer / float sources into float / integer destinations, dst_nodata omitted or given,
    # placements inside / partial / touching / disjoint
    mixed = [(s_, d_) for s_ in ("uint8", "int16", "uint16", "int32", "float32") for d_ in ("float32", "float64", "int32", "int16")
             if s_ != d_]
    others = ("int8", "uint8", "int16", "uint16", "float32")
    mixed += [("bool", d_) for d_ in others] + [(s_, "bool") for s_ in others]
    for i in range((3 if tier == "quick" else 20) * len(mixed)):
        sdt, ddt = mixed[i % len(mixed)]
        ns = (rng.randint(2, 10), rng.randint(2, 10))
        nd = (rng.randint(2, 10), rng.randint(2, 10))
        A6 = unit_family(rng, ns, nd, 0.05, 1e-3, small_dev=False,
                         placements=("left", "right", "inside", "cover", "disjoint_lo", "disjoint_hi", "touch_hi", "left", "right"))
        A6[2], A6[5] = Fr(round(A6[2])) + rng.choice([Fr(0), Fr(1, 64)]), Fr(round(A6[5])) + rng.choice([Fr(0), Fr(-1, 64)])
        cands = [None, None, "nan", -1.0, 120.0] if ddt.startswith("float") else [None, 0, 120, -7]
        if ddt == "bool":
            cands = [None, None, True]          # not False: GDAL nudges valid zeros that equal dst_nodata
        elif sdt == "bool":
            cands = [None, "nan", -1.0, 120.0] if ddt.startswith("float") else ([None, 120] if ddt.startswith("u") else [None, 120, -7])
        out.count(f"mixed:{sdt}->{ddt}")
        run("warp_mixed", list(ns), list(nd), [str(v) for v in A6], sdt, ddt, rng.choice(cands), i)
    # every dtype x every way of giving src_nodata / dst_nodata, destinations only partly covered by the source
    reps = 2 if tier == "quick" else 12
    seq = 0
    for dtype in DTYPES:
        sn, dn = nodata_candidates(dtype)
        for s_nd in sn:
            for d_nd in dn:
                for _ in range(reps):
                    ns = (rng.randint(2, 10), rng.randint(2, 10))
                    nd = (rng.randint(2, 10), rng.randint(2, 10))
                    sx, sy = rng.choice([1, -1]), rng.choice([1, -1])
                    # shift so that the destination sticks out of the source on at least one side
                    ox = rng.choice([-rng.randint(1, nd[1] - 1), ns[1] - rng.randint(1, nd[1] - 1) if nd[1] > 1 else ns[1] - 1])
                    oy = rng.randint(-nd[0] + 1, ns[0] - 1)
                    ex, ey = rng.choice([Fr(0), Fr(1, 64), Fr(-1, 32)]), rng.choice([Fr(0), Fr(-1, 64), Fr(1, 32)])
                    A6 = [Fr(sx), Fr(0), Fr(ox + (nd[1] if sx < 0 else 0)) + ex, Fr(0), Fr(sy), Fr(oy + (nd[0] if sy < 0 else 0)) + ey]
                    seq += 1
                    out.count(f"nodata:{dtype}:src={s_nd}:dst={d_nd}")
                    run("warp_nodata", list(ns), list(nd), [str(v) for v in A6], dtype, s_nd, d_nd, seq)
    for i in range(600 if tier == "quick" else 6000):
        ttol, stol = rng.choice(TTOLS), rng.choice(STOLS)
        k = rng.choice([1, 1, 2, 3, 4, 2, 4, 7, 10])
        A6 = unit_family(rng, (8, 8), (6, 6), ttol, stol)
        A6 = [v * k for v in A6]
        r = rng.random()
        if r < 0.1:
            A6[rng.choice([1, 3])] = rng.choice([Fr(1e-10), Fr(1e-10) / 2, -Fr(1e-10) * 2, Fr(1, 8)])
        elif r < 0.2:
            A6[0] = A6[0] * rng.choice([2, Fr(1, 2), Fr(3, 2)])
        elif r < 0.3:
            f = rng.choice([Fr(1, 2), Fr(5, 4), Fr(2, 3)])
            A6[0], A6[4] = A6[0] * f, A6[4] * f
        run("can_paste", [str(Fr(float(v))) for v in A6], stol, ttol)


# ---------------------------------------------------------------- entry points
def run(out, tier, scratch):
    out.rule = ("correspondence: (1) paste as array operation vs numpy (random regions, both mirrors); (2) the NN warp contract "
                "warp[d] = src[floor(A(d+1/2))] vs rasterio/GDAL for 8 dtypes (int8/bool detours included) over unit, integer and "
                "fractional scale, mirror, rot90, shear transforms; (3) model plan + model paste vs the real warp on unit-scale "
                "pairs with sub-pixel residue / scale deviation on both sides of ttol / stol; images <= 12x12 with distinct values; "
                "non-trivial = at least one destination pixel receives data; cases in which a pixel centre maps within 1e-6 of a "
                "source pixel edge are skipped (GDAL biases ties by 1e-10). search: paste per the implementation's plan vs the real "
                "warp, exact pixel comparison; the paste decision rule in exact arithmetic")
    out.assumptions += [
        "GDAL nearest-neighbour warp meets the contract dst[d] = src[floor(A(d+1/2))] if inside else nodata (validated on every run, all dtypes)",
        "numpy slicing semantics of dst[roi_dst] = src[roi_src][::-1] (validated by the CPaste cases)",
        "stacks: rio_reproject / xr_reproject warp every 2-d plane of an n-d array independently (ydim names the Y axis); the dask path "
        "fills destination chunks that do not touch the source with the same fill as the warped ones",
        "mixed pixel types: rio_reproject casts source values to the destination type and fills uncovered pixels with dst_nodata, else NaN "
        "for float destinations, else 0 (validated for 16 source/destination type pairs)",
        "accumulating warps: rio_reproject(..., init_dest_nodata=False) writes only covered pixels and keeps the rest of dst (validated for 8 dtypes)",
        "nodata fill of rio_reproject: dst_nodata if given, else NaN for floats, else src_nodata if given, else 0/False; source pixels equal "
        "to src_nodata are invalid (validated for 8 dtypes x every src_nodata/dst_nodata combination on partly covered destinations)",
        "binary64 arithmetic abstracted to exact rationals",
    ]
    rng = core.rng("c10")
    cases = gen_cases(out, tier, rng)
    fails, log = core.coq_eval_failures(REQ, "case", "check", cases, scratch, shard=60)
    detail = ""
    if fails:
        detail = "model and implementation differ on: " + " | ".join(cases[i][:1500] for i in fails[:3])
    out.oblige("correspondence:Model.Paste (paste, NN-warp contract, plan+paste) vs numpy / rasterio / compute_reproject_roi",
               "correspondence", not fails, detail)
    search(out, tier)


def replay(rp) -> int:
    name = rp["predicate"]
    ok, detail = PREDICATES[name](*rp["args"])
    print(f"replay {name}{rp['args']}: {'holds' if ok else 'FAILS'}: {detail}")
    return 0 if ok else 1


META = {
    "text": ("Coq theorems (coq/Props/C10.v, 9 statements, all closed under the global context): for every value type, every "
             "source image and every same-CRS plan with paste_ok and read_shrink = 1, the pasted image (fill with nodata, copy "
             "roi_src into roi_dst, reversed along mirrored axes) equals the nearest-neighbour warp image at EVERY destination "
             "pixel, for any true pixel mapping within half a pixel of the snapped transform - in particular for the true affine "
             "when its scale is exactly +-1 and its sub-pixel residue is accepted by ttol <= 1/2; the per-axis identity "
             "floor(+-(d+1/2)+T+eps) = +-d+T(-1); for read_shrink = k the source region is k times the destination region "
             "(sizes, multiples of k, block structure incl. mirroring); _can_paste = True implies no rotation/shear beyond 1e-10, "
             "near-integer scale, both axis scales within stol (relative) of the read scale, sub-pixel shift below ttol, AND that "
             "snap_affine then yields exactly (+-1, whole-pixel shift) - the tolerance tests agree with the snap; never for "
             "rotation/shear.  The nearest-neighbour warp contract and the paste operation are validated against rasterio/GDAL "
             "and numpy for 8 dtypes (int8/bool detours) with exact pixel comparison; the planned paste is compared with the real "
             "warp end to end."),
    "note": ("Trusted: Coq kernel; hand-written models coq/Model/Overlap.v, coq/Model/Paste.v; exact-rational abstraction of "
             "binary64.  Oracle contract (validated by testing on every run, not proved): GDAL's nearest-neighbour warp assigns "
             "dst[d] = src[floor(A(d+1/2))] when inside, else nodata, for every dtype through odc.geo.warp.rio_reproject; cases in "
             "which a pixel centre maps within 1e-6 of a source pixel edge are excluded (GDAL biases exact ties by 1e-10; the "
             "theorem's hypothesis |eps| < 1/2 excludes ties too).  numpy semantics of reversed-slice assignment is validated by "
             "the CPaste cases.  Domain restriction in the theorem: the true mapping must stay within half a pixel of the snapped "
             "one (a tolerated scale deviation stol accumulates to more than half a pixel on images larger than about 1/(2 stol) "
             "pixels - that is how the tolerance is defined, the statement makes it explicit).  Irrational scales under the 1e-10 "
             "shear tolerance are outside the executable model.  The model follows the code after the repair of the '> stol' test "
             "(witness in corpus/C10)."),
    "technique": "Coq proof over hand-written Gallina model + exact differential correspondence (vm_compute) against numpy/rasterio + exact pixel comparison search + leaf functions regenerated from source by py2v on every run and proved equal to the model (source_is_model theorem)",
    "design_ref": "DESIGN.md section 5, C10",
}
