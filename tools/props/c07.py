"""C07 — geometry reprojection and densification are faithful.

Correspondence: coq/Model/Densify.v against odc.geo.geom.densify,
Geometry.segmented, _auto_resolution and Geometry.to_crs.  Densification cases
are drawn from an exactness domain on which every float operation of the code
(and of GEOS' length / interpolate) is exact, so results are compared as exact
rationals; a float shadow recomputation discards (and counts) any case on which
an operation would round.  to_crs cases instantiate the projection oracle with
pyproj's own outputs, point by point.  Search: the property's clauses evaluated
directly on the implementation in Fraction arithmetic.
"""
from __future__ import annotations

import math
import signal
from fractions import Fraction as F

from vlib import core, crshist
from vlib.core import cbool, clist, copt, cq, ctuple, cz

ID = "C07"
ALLOWED_AXIOMS: list[str] = []

PYTH = [(3, 4, 5), (4, 3, 5), (5, 12, 13), (12, 5, 13), (8, 15, 17), (15, 8, 17)]


# ------------------------------------------------------------------ geometry representation (plain data)
# ["Point",[x,y]] | ["MultiPoint",[pts]] | ["Line",[pts]] | ["Ring",[pts]] | ["Polygon",ext,[holes]]
# | ["Multi", "MLine"|"MPolygon"|"MCollection", [parts]]
def to_shapely(g):
    from shapely import geometry as sg

    t = g[0]
    if t == "Point":
        return sg.Point(g[1])
    if t == "MultiPoint":
        return sg.MultiPoint([tuple(p) for p in g[1]])
    if t == "Line":
        return sg.LineString([tuple(p) for p in g[1]])
    if t == "Ring":
        return sg.LinearRing([tuple(p) for p in g[1]])
    if t == "Polygon":
        return sg.Polygon([tuple(p) for p in g[1]], [[tuple(p) for p in h] for h in g[2]])
    parts = [to_shapely(p) for p in g[2]]
    return {"MLine": sg.MultiLineString, "MPolygon": sg.MultiPolygon, "MCollection": sg.GeometryCollection}[g[1]](parts)


def from_shapely(s):
    t = s.geom_type
    cs = lambda c: [[float(x), float(y)] for x, y in c]
    if t == "Point":
        return ["Point", cs(s.coords)[0]]
    if t == "MultiPoint":
        return ["MultiPoint", [cs(p.coords)[0] for p in s.geoms]]
    if t == "LineString":
        return ["Line", cs(s.coords)]
    if t == "LinearRing":
        return ["Ring", cs(s.coords)]
    if t == "Polygon":
        return ["Polygon", cs(s.exterior.coords), [cs(i.coords) for i in s.interiors]]
    kind = {"MultiLineString": "MLine", "MultiPolygon": "MPolygon", "GeometryCollection": "MCollection"}[t]
    return ["Multi", kind, [from_shapely(p) for p in s.geoms]]


def seqs(g):
    """all coordinate sequences in order (a point is a one-vertex sequence)"""
    t = g[0]
    if t == "Point":
        return [[g[1]]]
    if t == "MultiPoint":
        return [[p] for p in g[1]]
    if t in ("Line", "Ring"):
        return [g[1]]
    if t == "Polygon":
        return [g[1]] + list(g[2])
    return [s for p in g[2] for s in seqs(p)]


def verts(g):
    return [p for s in seqs(g) for p in s]


def skeleton(g, counts=True):
    t = g[0]
    if t == "Point":
        return ("Point",)
    if t == "MultiPoint":
        return (t, len(g[1]))
    if t in ("Line", "Ring"):
        return (t, len(g[1]) if counts else 0)
    if t == "Polygon":
        return (t, len(g[1]) if counts else 0, tuple(len(h) if counts else 0 for h in g[2]))
    return (t, g[1], tuple(skeleton(p, counts) for p in g[2]))


def gkinds(g):
    return [g[0] if g[0] != "Multi" else g[1]] + ([k for p in g[2] for k in gkinds(p)] if g[0] == "Multi" else [])


def cpt(p):
    return ctuple(cq(F(p[0])), cq(F(p[1])))


def cpts(ps):
    return clist(ps, cpt)


def cgeom(g):
    t = g[0]
    if t == "Point":
        return f"(Point {cpt(g[1])})"
    if t == "MultiPoint":
        return f"(MultiPoint {cpts(g[1])})"
    if t == "Line":
        return f"(Line {cpts(g[1])})"
    if t == "Ring":
        return f"(Ring {cpts(g[1])})"
    if t == "Polygon":
        return f"(Polygon {cpts(g[1])} {clist(g[2], cpts)})"
    return f"(Multi {g[1]} {clist(g[2], cgeom)})"


class Hang(Exception):
    pass


HUNG: list = []   # non-empty once a call did not return: further hang-prone calls are skipped (each costs a time-out)


def cres(f, call):
    try:
        v = call()
    except ValueError:
        return "(Err EValue)", "ValueError"
    except IndexError:
        return "(Err EIndex)", "IndexError"
    except Hang:
        HUNG.append(1)
        return "(Err ERuntime)", "no-return"
    except Exception as e:  # noqa: BLE001 - any other exception: the model has no such outcome, the case will disagree
        return "(Err EOther)", type(e).__name__
    return f"(Ok {f(v)})", "ok"


# ------------------------------------------------------------------ exactness: float shadow of densify
def fexact(op, a, b):
    """float result of `a op b` and whether it is exact"""
    fa, fb = F(a), F(b)
    if op == "+":
        r, e = a + b, fa + fb
    elif op == "-":
        r, e = a - b, fa - fb
    elif op == "*":
        r, e = a * b, fa * fb
    else:
        r, e = a / b, fa / fb
    return r, F(r) == e


def isqrt_frac(x: F):
    n, d = x.numerator, x.denominator
    if n < 0:
        return None
    a, b = math.isqrt(n), math.isqrt(d)
    return F(a, b) if a * a == n and b * b == d else None


def shadow_densify(coords, res):
    """Recompute densify in floats mirroring the code and GEOS (length = sqrt(dx*dx+dy*dy),
    interpolate = p0 + (d/L)*(p1-p0)) and check that no operation rounds.  Returns
    (exact: bool, expected: list of Fraction points or None)."""
    ok = True
    out = [(F(coords[0][0]), F(coords[0][1]))] if coords else []
    d2, e = fexact("*", res, res) if abs(res) < 1e150 else (math.inf, True)   # a huge resolution: every edge is short
    ok &= e
    for p1, p2 in zip(coords[:-1], coords[1:]):
        dx, e1 = fexact("-", p1[0], p2[0])
        dy, e2 = fexact("-", p1[1], p2[1])
        xx, e3 = fexact("*", dx, dx)
        yy, e4 = fexact("*", dy, dy)
        sq, e5 = fexact("+", xx, yy)
        ok &= e1 and e2 and e3 and e4 and e5
        if not sq < d2:
            root = isqrt_frac(F(sq))
            if root is None or F(float(root)) != root:
                return False, None
            L = float(root)
            ex, e6 = fexact("-", p2[0], p1[0])
            ey, e7 = fexact("-", p2[1], p1[1])
            ok &= e6 and e7
            d = res
            while d < L:
                fr, e8 = fexact("/", d, L)
                mx, e9 = fexact("*", fr, ex)
                my, e10 = fexact("*", fr, ey)
                x, e11 = fexact("+", p1[0], mx)
                y, e12 = fexact("+", p1[1], my)
                ok &= e8 and e9 and e10 and e11 and e12
                out.append((F(x), F(y)))
                d, e13 = fexact("+", d, res)
                ok &= e13
                if len(out) > 200000:
                    return False, None
        out.append((F(p2[0]), F(p2[1])))
    return ok, out


def shadow_geom(g, res):
    return all(shadow_densify([tuple(map(float, p)) for p in s], float(res))[0] for s in seqs(g) if len(s) > 1)


# ------------------------------------------------------------------ generators (exactness domain)
def gen_polyline(rng, closed=False, nseg=None):
    """A polyline whose long edges have rational length h*k*u in axis / Pythagorean
    directions and a resolution m*h*u/2^j, so that every interpolation fraction is dyadic."""
    a, b, h = rng.choice(PYTH + [(1, 0, 1)] * 3)
    u = F(2) ** rng.randint(-3, 4)
    j = rng.randint(0, 2)
    m = rng.choice([1, 1, 2, 3, 3, 4, 5, 6, 7, 8])
    res = m * h * u / 2 ** j
    origin = rng.choice([(0, 0), (0, 0), (3, -2), (-1000, 0), (0, 2 ** 20), (2 ** 20, -(2 ** 19)), (-5, 7), (1, 1)])
    x, y = F(origin[0]) * u, F(origin[1]) * u
    pts = [(x, y)]
    nseg = nseg or rng.choice([1, 1, 2, 3, 4, 6])
    for _ in range(nseg):
        mode = rng.random()
        if mode < 0.55:      # long edge, Pythagorean or axis direction
            if h == 1 or rng.random() < 0.3:
                dx, dy = rng.choice([(1, 0), (-1, 0), (0, 1), (0, -1)])
                dx, dy = dx * h, dy * h
            else:
                dx, dy = a * rng.choice([-1, 1]), b * rng.choice([-1, 1])
            k = rng.choice([1, 1, 2, 4, 8, 16, 32])
            while k * 2 ** j > 64 * m:
                k //= 2
            k = max(k, 1)
            x, y = x + dx * k * u, y + dy * k * u
        elif mode < 0.7:     # exactly at the boundary: length == resolution (not short, nothing inserted)
            if h == 1:
                dx, dy = rng.choice([(1, 0), (-1, 0), (0, 1), (0, -1)])
                x, y = x + dx * res, y + dy * res
            else:
                x, y = x + a * res / h * rng.choice([-1, 1]), y + b * res / h * rng.choice([-1, 1])
        elif mode < 0.95:    # short edge in an arbitrary direction
            q = res / 8
            dx, dy = rng.randint(-5, 5), rng.randint(-5, 5)   # length^2 <= 50/64 res^2
            x, y = x + dx * q, y + dy * q
        else:                # repeated vertex
            pass
        pts.append((x, y))
    if closed:
        pts.append(pts[0])
    return [[float(px), float(py)] for px, py in pts], float(res)


def rect(x0, y0, w, h, cw=True):
    r = [[x0, y0], [x0, y0 + h], [x0 + w, y0 + h], [x0 + w, y0], [x0, y0]]
    return r if cw else r[::-1]


def diamond(x0, y0, a, b):
    """rhombus with sides of length hyp(a, b)"""
    return [[x0, y0], [x0 + a, y0 + b], [x0, y0 + 2 * b], [x0 - a, y0 + b], [x0, y0]]


def gen_geom(rng, depth=0):
    """geometry of any kind on the exactness domain and a compatible resolution"""
    u = float(F(2) ** rng.randint(-2, 3))
    m = rng.choice([1, 2, 3, 4, 5, 8])
    j = rng.randint(0, 2)
    res = 5 * m * u / 2 ** j
    ox, oy = rng.choice([(0.0, 0.0), (-37.0 * u, 11.0 * u), (2.0 ** 18, -(2.0 ** 17)), (5.0 * u, 5.0 * u)])

    def line():
        a, b, _ = rng.choice(PYTH[:2])
        k = rng.choice([1, 2, 4, 8])
        p = [[ox, oy], [ox + a * k * u, oy + b * k * u], [ox + a * k * u + 5 * u * rng.choice([1, 2, 4]), oy + b * k * u]]
        return ["Line", p[: rng.choice([2, 3])]]

    def polygon():
        k = rng.choice([2, 4, 8])
        ext = rect(ox, oy, 5 * 4 * k * u, 5 * 2 * k * u, cw=rng.random() < 0.5)
        holes = []
        if rng.random() < 0.6:
            holes.append(rect(ox + 5 * u, oy + 5 * u, 5 * k * u, 5 * u * rng.choice([1, k]), cw=rng.random() < 0.5))
        if rng.random() < 0.4:
            holes.append(diamond(ox + 5 * 3 * k * u, oy + u, 3 * k * u / 2, 2 * k * u))
        return ["Polygon", ext, holes]

    def point():
        return ["Point", [ox + rng.randint(-9, 9) * u, oy + rng.randint(-9, 9) * u]]

    def ring():
        k = rng.choice([1, 2, 4])
        return ["Ring", diamond(ox, oy, 4 * u * k, 3 * u * k)]

    kinds = ["point", "multipoint", "line", "ring", "polygon", "mline", "mpolygon", "collection"]
    k = rng.choice(kinds if depth == 0 else kinds[:5] + ["collection"])
    if k == "point":
        g = point()
    elif k == "multipoint":
        g = ["MultiPoint", [point()[1] for _ in range(rng.randint(1, 3))]]
    elif k == "line":
        g = line()
    elif k == "ring":
        g = ring()
    elif k == "polygon":
        g = polygon()
    elif k == "mline":
        g = ["Multi", "MLine", [line() for _ in range(rng.randint(1, 3))]]
    elif k == "mpolygon":
        p1 = polygon()
        p2 = ["Polygon", [[x + 2.0 ** 10 * u, y] for x, y in p1[1]], []]
        g = ["Multi", "MPolygon", [p1, p2][: rng.randint(1, 2)]]
    else:
        n = rng.randint(0, 3) if depth == 0 else rng.randint(0, 2)
        # parts are drawn with their own power-of-two unit; the shadow check decides whether `res` suits all of them
        g = ["Multi", "MCollection", [gen_geom(rng, depth + 1)[0] for _ in range(n)]] if depth < 2 else point()
    return g, res


def subdivide(ring, piece):
    """axis-aligned ring with every edge cut into pieces of length `piece` (which divides every edge)"""
    out = [list(ring[0])]
    for (x1, y1), (x2, y2) in zip(ring[:-1], ring[1:]):
        n = int(round((abs(x2 - x1) + abs(y2 - y1)) / piece))
        for i in range(1, n + 1):
            out.append([x1 + (x2 - x1) * i / n, y1 + (y2 - y1) * i / n])
    return out


def gen_fine_coarse(rng):
    """mixes of finely digitised (every edge < resolution) and coarse (edges >= resolution) rings / parts:
    fine shell + coarse holes, coarse shell + fine holes, multi-part mixes.  Exactness domain."""
    u = float(F(2) ** rng.randint(-2, 3))
    m = rng.choice([1, 2, 3, 4])
    j = rng.randint(1, 2)
    res = 5 * m * u / 2 ** j                      # 5u/4 <= res <= 10u
    piece = 5 * u / 8                             # < res: a ring cut into such pieces needs no densification
    ox, oy = rng.choice([(0.0, 0.0), (-37.0 * u, 11.0 * u), (2.0 ** 18, -(2.0 ** 17))])

    def shell(dx=0.0):
        return rect(ox + dx, oy, 5 * 8 * u, 5 * 4 * u, cw=rng.random() < 0.5)

    def hole(i, dx=0.0):                          # edges 20u/10u >= res: coarse
        return rect(ox + dx + 5 * u + i * 15 * u, oy + 5 * u, 5 * 2 * u, 5 * 2 * u * rng.choice([1, 1, 0.5]) * 1.0,
                    cw=rng.random() < 0.5)

    def poly(fine_shell, fine_holes, nholes, dx=0.0):
        e = shell(dx)
        hs = [hole(i, dx) for i in range(nholes)]
        if fine_shell:
            e = subdivide(e, piece)
        hs = [subdivide(h, piece) if f else h for h, f in zip(hs, fine_holes)]
        return ["Polygon", e, hs]

    def line(fine, dy):
        p = [[ox, oy + dy], [ox + 5 * 8 * u, oy + dy]]
        return ["Line", subdivide(p, piece) if fine else p]

    v = rng.choice(["fine-shell", "fine-holes", "mixed-holes", "mpolygon", "collection", "mline"])
    if v == "fine-shell":
        g = poly(True, [False, False], rng.randint(1, 2))
    elif v == "fine-holes":
        g = poly(False, [True, True], rng.randint(1, 2))
    elif v == "mixed-holes":
        g = poly(rng.random() < 0.5, [True, False], 2)
    elif v == "mpolygon":
        g = ["Multi", "MPolygon", [poly(True, [False], 1), poly(False, [True], 1, dx=2.0 ** 9 * u)][:: rng.choice([1, -1])]]
    elif v == "mline":
        g = ["Multi", "MLine", [line(True, 0.0), line(False, 5 * u), line(True, 10 * u)]]
    else:
        g = ["Multi", "MCollection", [line(True, -5 * u), poly(True, [False], 1), ["Multi", "MPolygon", [poly(True, [False, True], 2)]],
                                      line(False, -10 * u)]]
    return g, res, v


def ref_segmented(g, res):
    """independent reference for Geometry.segmented on the exactness domain: the Fraction recomputation of the
    float shadow.  Returns (exact, geometry with float coordinates)"""
    exact = [True]

    def dn(cs):
        if len(cs) < 1:
            return []
        ok, out_ = shadow_densify([tuple(map(float, p)) for p in cs], float(res))
        if not ok:
            exact[0] = False
            return [list(p) for p in cs]
        return [[float(x), float(y)] for x, y in out_]

    def walk(g):
        t = g[0]
        if t in ("Point", "MultiPoint"):
            return g
        if t in ("Line", "Ring"):
            return [t, dn(g[1])]
        if t == "Polygon":
            return [t, dn(g[1]), [dn(h) for h in g[2]]]
        return [t, g[1], [walk(p) for p in g[2]]]

    r = walk(g)
    return exact[0], r


def auto_polygon(r, x0=0.0, y0=0.0):
    """area = (32r)^2 - (256+128+8+4+2+1) r^2 = (25 r)^2, all sides r * 2^k: _auto_resolution = r exactly"""
    R = lambda a, b, w, h: rect(x0 + a * r, y0 + b * r, w * r, h * r)
    return ["Polygon", rect(x0, y0, 32 * r, 32 * r),
            [R(1, 1, 16, 16), R(18, 1, 8, 16), R(27, 1, 4, 2), R(27, 4, 2, 2), R(27, 7, 2, 1), R(27, 9, 1, 1)]]


# ------------------------------------------------------------------ correspondence cases
def real_segmented(g, res):
    from odc.geo.geom import Geometry

    return from_shapely(Geometry(to_shapely(g), "EPSG:3857").segmented(res).geom)


# custom CRSs without an EPSG code (PROJ strings and the WKT of one of them): `crs.epsg` is None for all three
SINU = "+proj=sinu +lon_0=0 +x_0=0 +y_0=0 +R=6371007.181 +units=m +no_defs"
LAEA_C = "+proj=laea +lat_0=50 +lon_0=12 +x_0=0 +y_0=0 +ellps=GRS80 +units=m +no_defs"
SINU_WKT = ('PROJCRS["unknown",BASEGEOGCRS["unknown",DATUM["unknown",ELLIPSOID["unknown",6371007.181,0,LENGTHUNIT["metre",1,'
            'ID["EPSG",9001]]]],PRIMEM["Greenwich",0,ANGLEUNIT["degree",0.0174532925199433],ID["EPSG",8901]]],'
            'CONVERSION["unknown",METHOD["Sinusoidal"],PARAMETER["Longitude of natural origin",0,'
            'ANGLEUNIT["degree",0.0174532925199433],ID["EPSG",8802]],PARAMETER["False easting",0,LENGTHUNIT["metre",1],'
            'ID["EPSG",8806]],PARAMETER["False northing",0,LENGTHUNIT["metre",1],ID["EPSG",8807]]],CS[Cartesian,2],'
            'AXIS["(E)",east,ORDER[1],LENGTHUNIT["metre",1,ID["EPSG",9001]]],AXIS["(N)",north,ORDER[2],'
            'LENGTHUNIT["metre",1,ID["EPSG",9001]]]]')
# EPSG:4258 (ETRS89) and EPSG:4269 (NAD83) are geographic like EPSG:4326: geographic -> geographic pairs
CRS_SPECS = ["EPSG:4326", "epsg:4326", "EPSG:3857", "EPSG:32633", "EPSG:3035", "EPSG:6933", SINU, LAEA_C, SINU_WKT,
             "EPSG:4258", "EPSG:4269"]
# vertices well inside the area of use of every CRS of the alphabet that is paired with the source
AREA = {"EPSG:4326": (12.0, 50.0, 2.0 ** -3), "epsg:4326": (12.0, 50.0, 2.0 ** -3), "EPSG:3857": (1441792.0, 6553600.0, 1024.0),
        "EPSG:32633": (409600.0, 5570560.0, 512.0), "EPSG:6933": (1179648.0, 5242880.0, 1024.0),
        "EPSG:3035": (4456448.0, 3014656.0, 1024.0),
        "EPSG:4258": (12.0, 50.0, 2.0 ** -3), "EPSG:4269": (12.0, 50.0, 2.0 ** -3),
        SINU: (851968.0, 5570560.0, 1024.0), SINU_WKT: (851968.0, 5570560.0, 1024.0), LAEA_C: (65536.0, 32768.0, 1024.0)}


def crs_classes():
    from odc.geo.crs import CRS

    objs = [CRS(s) for s in CRS_SPECS]
    cls = []
    for i, o in enumerate(objs):
        for j in range(i):
            if objs[j] == o:
                cls.append(cls[j])
                break
        else:
            cls.append(i + 1)
    return dict(zip(CRS_SPECS, cls)), dict(zip(CRS_SPECS, objs))


def pyproj_tr(src, dst):
    import pyproj

    return pyproj.Transformer.from_crs(pyproj.CRS.from_user_input(src), pyproj.CRS.from_user_input(dst), always_xy=True)


def geom_in(src, rng, kind=None):
    """a geometry of any kind on the exactness domain inside the valid area of `src`"""
    x0, y0, u = AREA[src]
    g, res = gen_geom(rng)
    # rescale: generator coordinates are multiples of its own unit; map to the area of `src`
    vs = verts(g)
    if vs:
        mx = max(max(abs(v[0]), abs(v[1])) for v in vs) or 1.0
    else:
        mx = 1.0
    s = 2.0 ** math.floor(math.log2(64 * u / mx)) if mx > 0 else 1.0

    def mv(p):
        return [x0 + p[0] * s, y0 + p[1] * s]

    def walk(g):
        t = g[0]
        if t == "Point":
            return [t, mv(g[1])]
        if t in ("MultiPoint", "Line", "Ring"):
            return [t, [mv(p) for p in g[1]]]
        if t == "Polygon":
            return [t, [mv(p) for p in g[1]], [[mv(p) for p in h] for h in g[2]]]
        return [t, g[1], [walk(p) for p in g[2]]]

    return walk(g), res * s


def cresolution(r):
    if r is None:
        return "RNone"
    if r == "auto":
        return "RAuto"
    if not math.isfinite(r):
        return "RNonFinite"
    return f"(RNum {cq(F(r))})"


def gen_cases(out, tier):
    from odc.geo import geom as G
    from odc.geo.geom import Geometry, densify
    from shapely import geometry as sg

    rng = core.rng("c07")
    cases = []
    preds = []
    escapes = 0

    def add(kind, text, canon, nontrivial=True, sample=None, pred=None):
        cases.append(text)
        preds.append(pred)      # the property predicate that judges this very input, should model and code disagree
        out.count(kind)
        out.case((kind, canon), nontrivial, sample)

    # --- oracle contracts: shapely length / interpolate on rational-length segments
    for a, b, h in PYTH + [(1, 0, 1), (0, 1, 1)]:
        for sx, sy in ((1, 1), (-1, 1), (1, -1), (-1, -1)):
            for k, org in ((1, (0.0, 0.0)), (4, (-3.5, 2.25)), (16, (2.0 ** 20, -7.0)), (0.5, (1.0, 1.0))):
                p1 = [org[0], org[1]]
                p2 = [org[0] + sx * a * k, org[1] + sy * b * k]
                seg = sg.LineString([p1, p2])
                add("oracle:length", f"CLength {cpt(p1)} {cpt(p2)} {cq(F(seg.length))}", (p1, p2))
                for num in (1, 3, 4, 7):
                    d = h * k * num / 8
                    (q,) = seg.interpolate(d).coords
                    fr, e = fexact("/", d, seg.length)
                    if not e:
                        escapes += 1
                        continue
                    add("oracle:interpolate", f"CInterp {cpt(p1)} {cpt(p2)} {cq(F(d))} {cpt(q)}", (p1, p2, d))

    # --- densify on polylines
    n = 500 if tier == "quick" else 6000
    for i in range(n):
        coords, res = gen_polyline(rng, closed=rng.random() < 0.25)
        ok, _ = shadow_densify([tuple(p) for p in coords], res)
        if not ok:
            escapes += 1
            continue
        t, kind = cres(cpts, lambda: densify([tuple(p) for p in coords], res))
        got = densify([tuple(p) for p in coords], res)
        add("densify:" + kind, f"CDensify {cpts(coords)} {cq(F(res))} {t}", (coords, res), len(got) > len(coords),
            {"op": "densify", "coords": coords, "resolution": res, "result": [list(p) for p in got]} if i < 2 else None,
            pred=("densify", coords, res))
        out.count("densify:inserted=%s" % ("0" if len(got) == len(coords) else "1-9" if len(got) - len(coords) < 10 else ">=10"))
    # free-form small-integer polylines; only those the shadow finds exact are used
    for i in range(300 if tier == "quick" else 3000):
        coords = [[float(rng.randint(-12, 12)), float(rng.randint(-12, 12))] for _ in range(rng.randint(2, 4))]
        res = float(rng.choice([1, 2, 2.5, 4, 5, 8, 0.5, 10, 13]))
        ok, _ = shadow_densify([tuple(p) for p in coords], res)
        if not ok:
            escapes += 1
            continue
        t, kind = cres(cpts, lambda: densify([tuple(p) for p in coords], res))
        add("densify-free:" + kind, f"CDensify {cpts(coords)} {cq(F(res))} {t}", (coords, res))
    # malformed / boundary: non-positive resolution, empty list, single vertex
    for coords in ([], [[1.0, 2.0]], [[0.0, 0.0], [3.0, 4.0]], [[0.0, 0.0], [0.0, 0.0]]):
        for res in (1.0, 5.0, 0.0, -1.0, -0.0, 2.0 ** -20, 2.0 ** 30) + HUGE:
            if res > 0 and not shadow_densify([tuple(p) for p in coords], res)[0]:
                escapes += 1
                continue
            if res > 0 and len(coords) == 2 and coords[0] != coords[1] and 5.0 / res > 100:
                continue
            if res <= 0 and HUNG:
                continue
            t, kind = cres(cpts, lambda: with_timeout(15, lambda: densify([tuple(p) for p in coords], res)))
            add("densify-edge:" + kind, f"CDensify {cpts(coords)} {cq(F(res))} {t}", (coords, res))

    # --- segmented on every geometry kind
    n = 250 if tier == "quick" else 2500
    for i in range(n):
        g, res = gen_geom(rng)
        if rng.random() < 0.1 and not HUNG:
            res = rng.choice([0.0, -2.0])
        elif rng.random() < 0.08:
            res = rng.choice(HUGE)
        if res > 0 and not shadow_geom(g, res):
            escapes += 1
            continue
        try:
            if res > 0 and sum(len(s) for s in seqs(real_segmented(g, res))) > 600:
                continue
        except Exception:  # noqa: BLE001 - recorded by the case itself just below
            pass
        t, kind = cres(cgeom, lambda: with_timeout(15, lambda: real_segmented(g, res)))
        for k in set(gkinds(g)):
            out.count("segmented-kind:" + k)
        add("segmented:" + kind, f"CSegmented {cgeom(g)} {cq(F(res))} {t}", (g, res), True,
            {"op": "segmented", "geom": g, "resolution": res} if i < 1 else None,
            pred=("segmented", g, res) if res > 0 else ("nonpositive", g, res))
    for i in range(40 if tier == "quick" else 400):
        g, res, v = gen_fine_coarse(rng)
        if not shadow_geom(g, res):
            escapes += 1
            continue
        t, kind = cres(cgeom, lambda: with_timeout(15, lambda: real_segmented(g, res)))
        add("segmented-fine/coarse:" + v, f"CSegmented {cgeom(g)} {cq(F(res))} {t}", (g, res), pred=("segmented", g, res))
    for g in (["Line", []], ["Polygon", [], []], ["Multi", "MCollection", []], ["Multi", "MLine", []],
              ["Multi", "MCollection", [["Line", []], ["Point", [1.0, 1.0]]]]):
        t, kind = cres(cgeom, lambda: real_segmented(g, 1.0))
        add("segmented-empty:" + kind, f"CSegmented {cgeom(g)} {cq(1)} {t}", g)

    # --- area, length, auto resolution
    for i in range(60 if tier == "quick" else 400):
        g, _ = gen_geom(rng)
        s = to_shapely(g)
        add("area", f"CArea {cgeom(g)} {cq(F(s.area))}", g, s.area > 0)
        ln = s.length
        want = F(0)
        exact = True
        for sq_ in seqs(g):
            for p, q in zip(sq_[:-1], sq_[1:]):
                r = isqrt_frac((F(p[0]) - F(q[0])) ** 2 + (F(p[1]) - F(q[1])) ** 2)
                if r is None:
                    exact = False
                else:
                    want += r
        if exact and F(ln) == want:
            add("length", f"CGeomLength {cgeom(g)} {cq(F(ln))}", g, ln > 0)
        else:
            escapes += 1
    for r in (1.0, 0.5, 2.0 ** -3, 4.0, 1024.0, 3.0):
        for org in ((0.0, 0.0), (-64.0 * r, 8.0 * r)):
            g = auto_polygon(r, *org)
            a = G._auto_resolution(Geometry(to_shapely(g), "EPSG:3857"))
            add("auto", f"CAuto {cgeom(g)} {cq(F(a))}", (g,), True)
    for side in (25.0, 100.0, 12.5, 50.0 * 1024):
        g = ["Polygon", rect(3.0, -7.0, side, side), []]
        a = G._auto_resolution(Geometry(to_shapely(g), "EPSG:3857"))
        add("auto", f"CAuto {cgeom(g)} {cq(F(a))}", (g,), True)
    for g in (["Line", [[0.0, 0.0], [3.0, 4.0]]], ["Point", [1.0, 1.0]], ["Multi", "MCollection", []]):
        a = G._auto_resolution(Geometry(to_shapely(g), "EPSG:3857"))
        add("auto-zero-area", f"CAuto {cgeom(g)} {cq(F(a))}", (g,), True)

    # --- to_crs
    cls, objs = crs_classes()
    n = 160 if tier == "quick" else 1500
    specs = CRS_SPECS
    for i in range(n):
        src = rng.choice(specs + [None] if rng.random() < 0.15 else specs)
        dst = rng.choice(specs + [None] if rng.random() < 0.15 else specs)
        if rng.random() < 0.2 and src is not None:
            dst = rng.choice([s for s in specs if cls[s] == cls[src]])
        base = src or "EPSG:3857"
        mode = rng.random()
        if mode < 0.12:
            u = AREA[base][2]
            g = auto_polygon(u / 4, AREA[base][0], AREA[base][1])
            res = "auto"
            r_eff = u / 4
        elif mode < 0.2:
            g, _ = geom_in(base, rng)
            if gkinds(g)[0] == "Polygon" or "Polygon" in gkinds(g):
                g = ["Line", [[AREA[base][0], AREA[base][1]], [AREA[base][0] + 3 * AREA[base][2], AREA[base][1] + 4 * AREA[base][2]]]]
            res = "auto"      # zero-area geometry: no densification
            r_eff = None
        else:
            g, r0 = geom_in(base, rng)
            res = rng.choice([None, None, r0, r0, 2 * r0, float("inf"), float("nan"), 0.0, -r0] + list(HUGE[i % 2::2]))
            r_eff = res if (res is not None and math.isfinite(res) and res > 0) else None
        if r_eff is not None and not shadow_geom(g, r_eff):
            escapes += 1
            continue
        wrap = rng.random() < 0.2
        cf = rng.random() < 0.2
        geo = bool(dst is not None and objs[dst].geographic)
        # wrapdateline with a geographic target is kept: the whole alphabet lives in central Europe, where
        # chop_along_antimeridian and clip_lon180 must be the identity (the oracle instantiation of the cases);
        # geometries near / across the antimeridian are judged by the `wrapdateline` search predicate
        G0 = Geometry(to_shapely(g), src)
        try:
            got = with_timeout(25, lambda: G0.to_crs(dst, resolution=res, wrapdateline=wrap, check_and_fix=cf))
        except (Hang, ArithmeticError, TypeError, IndexError, AssertionError) as e:
            # no such outcome in the model: the case disagrees and is then judged by the predicate
            add("to_crs:" + type(e).__name__, f"CToCrs {copt(cls.get(src))} {cgeom(g)} {copt(cls.get(dst))} {cresolution(res)} "
                f"{cbool(wrap)} {cbool(cf)} {cbool(geo)} true [] (Err EOther)", (src, g, dst, str(res)),
                pred=("to_crs", src, g, dst, res, wrap, cf))
            continue
        except ValueError:
            add("to_crs:ValueError", f"CToCrs {copt(cls.get(src))} {cgeom(g)} {copt(cls.get(dst))} {cresolution(res)} "
                f"{cbool(wrap)} {cbool(cf)} {cbool(geo)} true [] (Err EValue)", (src, g, dst, str(res)),
                pred=("to_crs", src, g, dst, res, wrap, cf))
            continue
        if got is G0:
            add("to_crs:same-object", f"CToCrs {copt(cls.get(src))} {cgeom(g)} {copt(cls.get(dst))} {cresolution(res)} "
                f"{cbool(wrap)} {cbool(cf)} {cbool(geo)} true [] (Ok None)", (src, g, dst, str(res)),
                pred=("to_crs", src, g, dst, res, wrap, cf))
            continue
        dense = from_shapely(G0.segmented(r_eff).geom) if r_eff is not None else g
        vs = verts(dense)
        if len(vs) > 400:
            continue
        tr = pyproj_tr(src, dst)
        tab = []
        seen = set()
        finite = True
        for v in vs:
            key = (v[0], v[1])
            if key in seen:
                continue
            seen.add(key)
            x, y = tr.transform(v[0], v[1])
            finite &= math.isfinite(x) and math.isfinite(y)
            tab.append((v, [x, y]))
        result = from_shapely(got.geom)
        if not finite or not all(math.isfinite(c) for p in verts(result) for c in p):
            escapes += 1
            continue
        valid = bool(got.is_valid)
        if cf and not Geometry(to_shapely(dense), src)._to_crs(objs[dst]).is_valid:
            continue
        rcls = [k for k, o in objs.items() if o == got.crs]
        exp = f"(Ok (Some ({cgeom(result)}, {cz(cls[rcls[0]])})))"
        add("to_crs:projected" + (":auto" if res == "auto" else ":densified" if r_eff else ""),
            f"CToCrs {copt(cls.get(src))} {cgeom(g)} {copt(cls.get(dst))} {cresolution(res)} "
            f"{cbool(wrap)} {cbool(cf)} {cbool(geo)} {cbool(valid)} "
            f"{clist(tab, lambda e: ctuple(cpt(e[0]), cpt(e[1])))} {exp}", (src, g, dst, str(res), wrap, cf), True,
            {"op": "to_crs", "src": src, "dst": dst, "resolution": str(res), "geom": g} if i < 3 else None,
            pred=("to_crs", src, g, dst, res, wrap, cf))
        for k in set(gkinds(g)):
            out.count("to_crs-kind:" + k)
    out.count("generator-escapes(float-inexact, discarded)", escapes)
    return cases, preds


# ------------------------------------------------------------------ time-outs (non-termination is one of the defects)
def with_timeout(seconds, fn):
    def h(*a):
        raise Hang()

    old = signal.signal(signal.SIGALRM, h)
    signal.setitimer(signal.ITIMER_REAL, seconds)
    try:
        return fn()
    finally:
        signal.setitimer(signal.ITIMER_REAL, 0)
        signal.signal(signal.SIGALRM, old)


# ------------------------------------------------------------------ property predicates on the implementation
def fr(p):
    return (F(p[0]), F(p[1]))


def check_refinement(cs, out_, res):
    """cs, out_: lists of float points; exact Fraction evaluation of the property's clauses.
    Returns (ok, detail)."""
    if not cs:
        return (out_ == []), f"empty input gave {out_}"
    r2 = F(res) ** 2
    O = [fr(p) for p in out_]
    C = [fr(p) for p in cs]
    for a, b in zip(O[:-1], O[1:]):
        if (a[0] - b[0]) ** 2 + (a[1] - b[1]) ** 2 > r2:
            return False, f"consecutive output points {tuple(map(float, a))} {tuple(map(float, b))} are further apart than {res}"
    if not O or O[0] != C[0] or O[-1] != C[-1]:
        return False, "first/last vertex changed"
    # match the original vertices in order; what lies between two matches was inserted on that edge
    i = 1
    between = []
    k = 1
    while k < len(C):
        if i >= len(O):
            return False, f"original vertex {cs[k]} not retained (in order)"
        if O[i] == C[k]:
            p1, p2 = C[k - 1], C[k]
            dx, dy = p2[0] - p1[0], p2[1] - p1[1]
            n2 = dx * dx + dy * dy
            last_t = F(0)
            for q in between:
                cr = (q[0] - p1[0]) * dy - (q[1] - p1[1]) * dx
                if cr != 0 or n2 == 0:
                    return False, f"inserted point {tuple(map(float, q))} is not on the edge {cs[k - 1]} - {cs[k]}"
                t = ((q[0] - p1[0]) * dx + (q[1] - p1[1]) * dy) / n2
                if not (last_t < t < 1):
                    return False, f"inserted point {tuple(map(float, q))} is not strictly inside / not in order on edge {cs[k - 1]} - {cs[k]} (t={float(t)})"
                last_t = t
            between = []
            k += 1
        else:
            between.append(O[i])
        i += 1
    if i != len(O):
        return False, f"extra points after the last vertex: {out_[i:]}"
    return True, "ok"


def shoelace2(ps):
    P = [fr(p) for p in ps]
    return sum(a[0] * b[1] - b[0] * a[1] for a, b in zip(P[:-1], P[1:]))


def p_densify(coords, res):
    """densify on an exactness-domain polyline: gap, retention, on-edge, shoelace"""
    from odc.geo.geom import densify

    cs = [tuple(map(float, p)) for p in coords]
    try:
        got = with_timeout(25, lambda: densify(cs, float(res)))
    except Hang:
        return False, "densify did not return within 5 s"
    ok, detail = check_refinement(cs, got, res)
    if ok and shoelace2(got) != shoelace2(cs):
        return False, "shoelace sum changed"
    return ok, detail + f" result={core.short(got, 200)}"


def p_segmented(g, res):
    """Geometry.segmented on any geometry kind: type/structure, every sequence refined, area"""
    from odc.geo.geom import Geometry

    G0 = Geometry(to_shapely(g), "EPSG:3857")
    try:
        G1 = with_timeout(25, lambda: G0.segmented(float(res)))
    except Hang:
        return False, "segmented did not return within 5 s"
    g1 = from_shapely(G1.geom)
    if skeleton(g1, counts=False) != skeleton(g, counts=False) or G1.crs != G0.crs:
        return False, f"type/structure/crs changed: {skeleton(g, False)} -> {skeleton(g1, False)}"
    for a, b in zip(seqs(g), seqs(g1)):
        ok, detail = check_refinement([tuple(p) for p in a], [tuple(p) for p in b], res)
        if not ok:
            return False, detail
        if shoelace2(a) != shoelace2(b):
            return False, "ring area changed"
    return True, "ok"


def p_retain(coords, res):
    """arbitrary floats: original vertices retained in order, first/last kept, type unchanged
    (no arithmetic on the inserted points: immune to rounding)"""
    from odc.geo.geom import densify

    cs = [tuple(map(float, p)) for p in coords]
    got = with_timeout(30, lambda: densify(cs, float(res)))
    it = iter(got)
    ok = all(any(q == p for q in it) for p in cs) and got[0] == cs[0] and got[-1] == cs[-1]
    return ok, f"result has {len(got)} points"


def p_nonpositive(g, res):
    """a non-positive resolution must not hang: ValueError (or unchanged for point kinds)"""
    from odc.geo.geom import Geometry

    G0 = Geometry(to_shapely(g), "EPSG:3857")
    try:
        G1 = with_timeout(15, lambda: G0.segmented(res))
    except Hang:
        return False, f"segmented({res}) did not return within 3 s (unbounded loop)"
    except ValueError:
        return True, "ValueError"
    return from_shapely(G1.geom) == g, "returned a geometry"


def p_tocrs(src, g, dst, res, wrap=False, cf=False):
    """to_crs: errors, identity object, type/structure, every vertex = pyproj's image of that vertex
    (of the densified geometry when a positive resolution is given)"""
    from odc.geo.crs import CRS
    from odc.geo.geom import Geometry

    res_ = res
    if isinstance(res, str) and res != "auto":
        res_ = float(res)
    res_obj = res_
    if isinstance(res, (list, tuple)):       # [representation, value]: the same number in another numeric type
        res_obj = mk_resolution(res[0], res[1])
        res_ = float(res[1])
    G0 = Geometry(to_shapely(g), src)
    try:
        got = with_timeout(25, lambda: G0.to_crs(dst, resolution=res_obj, wrapdateline=wrap, check_and_fix=cf))
    except Hang:
        return False, "to_crs did not return within 25 s"
    except ValueError as e:
        return (src is None or dst is None), f"ValueError: {e}"
    if src is None or dst is None:
        return False, "no ValueError for a missing CRS"
    import pyproj

    # "already in the target CRS" judged by pyproj itself, not by the wrapper's comparison
    same = pyproj.CRS.from_user_input(src) == pyproj.CRS.from_user_input(dst)
    if same or got is G0:
        return (got is G0) == same, (f"pyproj says the CRSs are {'equal' if same else 'different'}, to_crs "
                                     f"{'returned self' if got is G0 else 'returned a new geometry'} (crs={got.crs})")
    if got.crs != CRS(dst):
        return False, f"result crs {got.crs}"
    base = G0
    r_eff = None
    if res_ == "auto":
        r_eff = math.sqrt(G0.geom.area) * 4 / 100
    elif res_ is not None:
        r_eff = res_
    b = None
    if r_eff is not None and math.isfinite(r_eff) and r_eff > 0:
        exact, ref = ref_segmented(g, r_eff)      # independent of Geometry.segmented wherever no float op rounds
        if exact:
            b = ref
        else:
            base = G0.segmented(r_eff)
    if b is None:
        b = from_shapely(base.geom)
    r = from_shapely(got.geom)
    if r_eff is not None and math.isfinite(r_eff) and r_eff > 0:
        # independent of any densification reference: pull the result back with pyproj and measure the edges
        bk = pyproj_tr(dst, src)
        scale = 1 + max([abs(c) for v in verts(g) for c in v] or [0.0])
        bound = r_eff * (1 + 1e-6) + 1e-9 * scale
        for path in paths_of(r):
            pts_ = [bk.transform(w[0], w[1]) for w in path]
            for a_, b_ in zip(pts_[:-1], pts_[1:]):
                d_ = math.hypot(a_[0] - b_[0], a_[1] - b_[1])
                if d_ > bound:
                    return False, (f"resolution {res!r}: after mapping the result back with pyproj an edge is {d_:.6g} source "
                                   f"units long (bound {bound:.9g} = r(1+1e-6) + 1e-9(1+max|coordinate|))")
    if skeleton(b) != skeleton(r):
        return False, f"type/structure/vertex count changed: {skeleton(b)} -> {skeleton(r)}"
    tr = pyproj_tr(src, dst)
    for v, w in zip(verts(b), verts(r)):
        x, y = tr.transform(v[0], v[1])
        if math.isnan(x) or math.isnan(y):
            if not (math.isnan(w[0]) and math.isnan(w[1])):
                return False, f"vertex {v}: pyproj gives NaN, to_crs gives {w}"
        elif (x, y) != (w[0], w[1]):
            return False, f"vertex {v} maps to {w}, pyproj maps it to {(x, y)}"
    return True, "ok"


HUGE = (1e150, 1e200, 1e308, 1.7976931348623157e308)    # finite, but the square overflows (repair e4c938b)


RES_KINDS = ["int", "float", "np.float64", "np.float32", "np.float16", "np.int64", "np.int32",
             "0d-float64", "0d-float32", "0d-int64"]


def mk_resolution(kind, value):
    import numpy as np

    if kind == "int":
        return int(value)
    if kind == "float":
        return float(value)
    if kind.startswith("np."):
        return getattr(np, kind[3:])(value)
    return np.array(value, dtype=kind[3:])


def p_many_crs(n, salt, lonlat):
    """a process that deals with many CRSs: the same small geometry (lon/lat `lonlat`, offsets from each central
    meridian) is reprojected into n distinct custom transverse-mercator CRSs and back, twice over; every vertex of
    every result must be exactly what a FRESH pyproj Transformer gives for that pair"""
    import gc

    import pyproj
    from odc.geo.geom import Geometry

    for rnd in range(2):
        for k in range(n):
            lon0 = -170 + ((k * 7 + salt * 3) % 340) + (k % 8) / 8
            spec = f"+proj=tmerc +lat_0=0 +lon_0={lon0!r} +k=0.9996 +x_0={500000 + k} +y_0={salt} +ellps=GRS80 +units=m +no_defs"
            ll = [[lon0 + p[0], p[1]] for p in lonlat]
            G0 = Geometry(to_shapely(["Line", ll] if len(ll) > 1 else ["Point", ll[0]]), "EPSG:4326")
            got = G0.to_crs(spec)
            ref = pyproj.Transformer.from_crs("EPSG:4326", pyproj.CRS.from_user_input(spec), always_xy=True)
            for v, w in zip(ll, verts(from_shapely(got.geom))):
                if tuple(ref.transform(v[0], v[1])) != (w[0], w[1]):
                    return False, (f"round {rnd}, CRS number {k} ({spec}): vertex {v} maps to {w}, a fresh pyproj Transformer "
                                   f"maps it to {ref.transform(v[0], v[1])}")
            back = got.to_crs("EPSG:4326")
            refb = pyproj.Transformer.from_crs(pyproj.CRS.from_user_input(spec), "EPSG:4326", always_xy=True)
            for v, w in zip(verts(from_shapely(got.geom)), verts(from_shapely(back.geom))):
                if tuple(refb.transform(v[0], v[1])) != (w[0], w[1]):
                    return False, (f"round {rnd}, CRS number {k} ({spec}) back to EPSG:4326: vertex {v} maps to {w}, a fresh "
                                   f"pyproj Transformer maps it to {refb.transform(v[0], v[1])}")
            del G0, got, back
        gc.collect()
    return True, f"{2 * n} conversions there and back agree with pyproj"


def p_pickled(src, g, dst, res, z=None):
    """alternative entry point: a geometry that travelled through pickle (dask worker, cache) is the same geometry
    (kind, structure, every coordinate incl. Z, CRS) and converts exactly like the original (repair 454889d:
    GeometryCollections could not be pickled, Z was dropped)"""
    import pickle

    from odc.geo.geom import Geometry

    shp = to_shapely(g)
    if z is not None and not verts(g):
        z = None
    if z is not None:                      # a 3-D line / point through all vertices
        from shapely import geometry as sg
        pts3 = [(p[0], p[1], float(z) + i) for i, p in enumerate(verts(g))]
        shp = sg.LineString(pts3) if len(pts3) > 1 else sg.Point(pts3[0])
    G0 = Geometry(shp, src)
    G1 = pickle.loads(pickle.dumps(G0))
    if G1.geom.geom_type != shp.geom_type or G1.geom.has_z != shp.has_z or G1.crs != G0.crs:
        return False, f"unpickled: {G1.geom.geom_type} has_z={G1.geom.has_z} crs={G1.crs}; original {shp.geom_type} has_z={shp.has_z}"
    if z is not None:
        ok = list(G1.geom.coords) == list(shp.coords)
        return ok, f"unpickled 3-D coordinates {list(G1.geom.coords)[:3]}"
    # reference: shapely's own pickling of the bare shape (WKB based: a LinearRing nested in a collection comes back
    # as a LineString - shapely's behaviour, not the wrapper's)
    ref_shape = pickle.loads(pickle.dumps(shp))
    if from_shapely(G1.geom) != from_shapely(ref_shape):
        return False, f"unpickled geometry differs from the pickled bare shape: {core.short(from_shapely(G1.geom), 200)}"
    a = Geometry(ref_shape, src).to_crs(dst, resolution=res)
    b = G1.to_crs(dst, resolution=res)
    same = from_shapely(a.geom) == from_shapely(b.geom) and a.crs == b.crs
    return same, "to_crs of the unpickled geometry " + ("equals" if same else "differs from") + " to_crs of the original"


def p_roundtrip(src, g, dst):
    """there and back: measured (PROJ oracle clause, not proved); bound 1e-6 * (1 + |coordinate|)"""
    from odc.geo.geom import Geometry

    G0 = Geometry(to_shapely(g), src)
    back = G0.to_crs(dst).to_crs(src)
    worst = 0.0
    for v, w in zip(verts(g), verts(from_shapely(back.geom))):
        for a, b in zip(v, w):
            worst = max(worst, abs(a - b) / (1 + abs(a)))
    return worst <= 1e-6, f"max relative round-trip error {worst:.3e}"


def p_transformer(src, dst, pts):
    """CRS.transformer_to_crs on numpy arrays: every point exactly as pyproj maps that point; a point for
    which pyproj returns NaN in either coordinate comes back as (NaN, NaN) (crs.py NaN harmonisation)"""
    import numpy as np
    from odc.geo.crs import CRS

    f = CRS(src).transformer_to_crs(CRS(dst))
    xs = np.array([float(p[0]) for p in pts])
    ys = np.array([float(p[1]) for p in pts])
    rx, ry = f(xs.copy(), ys.copy())
    tr = pyproj_tr(src, dst)
    for p, a, b in zip(pts, rx.tolist(), ry.tolist()):
        x, y = tr.transform(float(p[0]), float(p[1]))
        if math.isnan(x) or math.isnan(y):
            if not (math.isnan(a) and math.isnan(b)):
                return False, f"point {p}: pyproj gives {(x, y)}, transformer gives {(a, b)} (expected NaN, NaN)"
        elif (x, y) != (a, b):
            return False, f"point {p}: pyproj gives {(x, y)}, transformer gives {(a, b)}"
    sx, sy = f(float(pts[0][0]), float(pts[0][1]))
    x, y = tr.transform(float(pts[0][0]), float(pts[0][1]))
    same = (sx == x or (math.isnan(sx) and math.isnan(x))) and (sy == y or (math.isnan(sy) and math.isnan(y)))
    return same, f"scalar call on {pts[0]}: {(sx, sy)} vs pyproj {(x, y)}"


SNAP_DEG = 1e-4   # `eps` of Geometry.to_crs: longitudes within 1e-4 deg of +-180 may be snapped onto +-180


def p_wrap(src, g, dst):
    """to_crs(dst, wrapdateline=True) with a geographic target, geometry near or across the antimeridian.
    Every original vertex must come out exactly where pyproj puts it; the only allowed deviation is the
    documented snapping: a longitude with |lon| >= 180 - 1e-4 may be returned as exactly +-180.
    Geometry that does not cross keeps its type, structure and vertex order; a crossing one may be split
    (extra cut vertices are not judged) but every original vertex must still be present."""
    from odc.geo.geom import Geometry

    G0 = Geometry(to_shapely(g), src)
    got = with_timeout(30, lambda: G0.to_crs(dst, wrapdateline=True))
    tr = pyproj_tr(src, dst)
    imgs = [tr.transform(v[0], v[1]) for v in verts(g)]
    thresh = 180 - SNAP_DEG

    def agrees(img, w):
        if img[1] != w[1]:
            return False
        return img[0] == w[0] or (abs(img[0]) >= thresh and abs(w[0]) == 180.0)

    r = from_shapely(got.geom)
    crossing = any(i[0] > 90 for i in imgs) and any(i[0] < -90 for i in imgs)
    if not crossing:
        if skeleton(r) != skeleton(g):
            return False, f"geometry does not cross the antimeridian but type/structure changed: {skeleton(g)} -> {skeleton(r)}"
        for v, img, w in zip(verts(g), imgs, verts(r)):
            if not agrees(img, w):
                return False, (f"vertex {v}: pyproj maps it to {img}, to_crs(wrapdateline=True) gives {w} "
                               f"({180 - abs(img[0]):.6f} deg from the antimeridian; snapping allowed only within {SNAP_DEG})")
        return True, "ok"
    outv = verts(r)
    for v, img in zip(verts(g), imgs):
        if not any(agrees(img, w) for w in outv):
            near = min(outv, key=lambda w: abs(w[0] - img[0]) + abs(w[1] - img[1]))
            return False, (f"crossing geometry: original vertex {v} -> pyproj {img} is missing from the output "
                           f"(nearest output vertex {near}; snapping allowed only within {SNAP_DEG} deg of +-180)")
    return True, "ok"


def paths_of(g):
    return [sq_ for sq_ in seqs(g) if len(sq_) > 1]


def p_wrap_res(src, g, dst, R):
    """option combination to_crs(geographic, resolution=R, wrapdateline=True) near / across the antimeridian.
    Output vertices are mapped back to the source CRS with pyproj directly: no edge may be longer than
    R * (1 + 1e-6) + 30 source units (30 m: twice the documented 1e-4 deg snapping onto +-180, plus PROJ round-trip
    noise); edges between two vertices that both sit exactly on +-180 are edges of the antimeridian cut line, not
    of the geometry, and are not judged.  Every original vertex must be present where pyproj puts it (snapping
    within 1e-4 deg allowed)."""
    from odc.geo.geom import Geometry

    G0 = Geometry(to_shapely(g), src)
    got = with_timeout(30, lambda: G0.to_crs(dst, resolution=float(R), wrapdateline=True))
    r = from_shapely(got.geom)
    tr = pyproj_tr(src, dst)
    back = pyproj_tr(dst, src)
    thresh = 180 - SNAP_DEG
    imgs = [tr.transform(v[0], v[1]) for v in verts(g)]
    outv = verts(r)
    for v, img in zip(verts(g), imgs):
        if not any(img[1] == w[1] and (img[0] == w[0] or (abs(img[0]) >= thresh and abs(w[0]) == 180.0)) for w in outv):
            return False, f"original vertex {v} -> pyproj {img} is missing from the output"
    bound = float(R) * (1 + 1e-6) + 30.0
    worst = 0.0
    for path in paths_of(r):
        bk = [back.transform(w[0], w[1]) for w in path]
        for (w1, b1), (w2, b2) in zip(zip(path[:-1], bk[:-1]), zip(path[1:], bk[1:])):
            if abs(w1[0]) == 180.0 and abs(w2[0]) == 180.0:
                continue
            d = math.hypot(b1[0] - b2[0], b1[1] - b2[1])
            worst = max(worst, d)
            if d > bound:
                return False, (f"edge {w1} - {w2} of the result is {d:.1f} source units long after mapping back with pyproj; "
                               f"requested resolution {R} (bound {bound:.1f})")
    return True, f"longest edge {worst:.1f} <= {bound:.1f}"


def gen_am_dense(rng, src, side):
    """line / box / box with hole / polygon with a hole across the antimeridian, in `src` coordinates, and a
    resolution several times shorter than its longest edge"""
    to_src = pyproj_tr("EPSG:4326", src)
    lat0 = rng.uniform(5, 22)
    if src not in ("EPSG:32660", "EPSG:32601") and rng.random() < 0.5:
        lat0 = -lat0 - 1

    def pt(lon, dlat):
        lon = lon if lon <= 180 else lon - 360
        x, y = to_src.transform(lon, lat0 + dlat)
        return [x, y]

    def box(l0, l1, a0, a1):
        return [pt(l0, a0), pt(l0, a1), pt(l1, a1), pt(l1, a0), pt(l0, a0)]

    d_in = rng.choice([5e-4, 2e-3, 0.01, 0.05, 0.09])
    if side == "west":
        l0, l1 = 180 - rng.choice([0.6, 1.2]), 180 - d_in
    elif side == "east":
        l0, l1 = 180 + d_in, 180 + rng.choice([0.6, 1.2])
    else:
        l0, l1 = 180 - rng.choice([0.4, 0.8]), 180 + rng.choice([0.3, 0.7])
    w = l1 - l0
    kind = rng.choice(["line", "box", "boxhole", "boxhole"])
    if kind == "line":
        g = ["Line", [pt(l0, 0.0), pt(l0 + w / 2, 0.3), pt(l1, 0.1)]]
    elif kind == "box":
        g = ["Polygon", box(l0, l1, 0.0, 0.5), []]
    else:
        if side == "cross" and rng.random() < 0.5:
            h = box(l0 + w * 0.2, l0 + w * 0.8, 0.1, 0.4)       # the hole crosses too
        else:
            h = box(l0 + w * 0.1, l0 + w * 0.35, 0.1, 0.4)
        g = ["Polygon", box(l0, l1, 0.0, 0.5), [h[::-1]]]
    longest = max(math.hypot(a[0] - b[0], a[1] - b[1]) for pth in paths_of(g) for a, b in zip(pth[:-1], pth[1:]))
    return g, longest / rng.choice([2.5, 4.0, 7.3])


HIST_N = [0]


def fresh_crs(rng):
    """a CRS spelled as never before in this process: its pyproj object (and so every transformer-cache key
    that involves it) is new"""
    HIST_N[0] += 1
    lon0 = 12 + rng.randrange(1, 10 ** 6) / 10 ** 7 + HIST_N[0] / 10 ** 9
    if rng.random() < 0.5:
        return f"+proj=laea +lat_0=50 +lon_0={lon0!r} +x_0=0 +y_0=0 +ellps=GRS80 +units=m +no_defs"
    return f"+proj=tmerc +lat_0=0 +lon_0={lon0!r} +k=0.9996 +x_0=500000 +y_0=0 +ellps=GRS80 +units=m +no_defs"


def p_history(src, dst, hist, lonlat):
    """histories on the SAME CRS objects the geometry carries: earlier transformer_to_crs calls (`hist`: list of
    ["fwd"|"rev", always_xy]) must not influence a later Geometry.to_crs, nor each other.  Every transformer output
    is judged against pyproj.Transformer.from_crs(..., always_xy=<as requested>) built directly, every vertex of
    to_crs and of the way back against always_xy=True."""
    import pyproj
    from odc.geo.crs import CRS
    from odc.geo.geom import Geometry

    A, B = CRS(src), CRS(dst)
    pa, pb = pyproj.CRS.from_user_input(src), pyproj.CRS.from_user_input(dst)
    pts = [pyproj.Transformer.from_crs("EPSG:4326", pa, always_xy=True).transform(lo, la) for lo, la in lonlat]
    ptsb = [pyproj.Transformer.from_crs("EPSG:4326", pb, always_xy=True).transform(lo, la) for lo, la in lonlat]

    def probe(direction, xy):
        X, Y, P, Q, q = (A, B, pa, pb, pts[0]) if direction == "fwd" else (B, A, pb, pa, ptsb[0])
        a = q if xy or not P.is_geographic or P.axis_info[0].direction == "east" else (q[1], q[0])
        want = pyproj.Transformer.from_crs(P, Q, always_xy=bool(xy)).transform(a[0], a[1])
        gotp = X.transformer_to_crs(Y, always_xy=bool(xy))(a[0], a[1])
        return tuple(gotp) == tuple(want), f"transformer_to_crs({direction}, always_xy={xy})({a}) = {tuple(gotp)}, pyproj: {tuple(want)}"

    for k, (direction, xy) in enumerate(hist):
        ok, d = probe(direction, xy)
        if not ok:
            return False, f"history step {k}: {d}"
    G0 = Geometry(to_shapely(["Line", [list(p) for p in pts]] if len(pts) > 1 else ["Point", list(pts[0])]), A)
    got = G0.to_crs(B)
    tr = pyproj.Transformer.from_crs(pa, pb, always_xy=True)
    for v, w in zip(pts, verts(from_shapely(got.geom))):
        if tuple(tr.transform(v[0], v[1])) != (w[0], w[1]):
            return False, f"after history {hist}: vertex {v} maps to {w}, pyproj(always_xy=True) maps it to {tr.transform(v[0], v[1])}"
    back = got.to_crs(A)
    trb = pyproj.Transformer.from_crs(pb, pa, always_xy=True)
    for v, w in zip(verts(from_shapely(got.geom)), verts(from_shapely(back.geom))):
        if tuple(trb.transform(v[0], v[1])) != (w[0], w[1]):
            return False, f"after history {hist}: way back: vertex {v} maps to {w}, pyproj(always_xy=True) maps it to {trb.transform(v[0], v[1])}"
    for direction, xy in hist[::-1]:          # the earlier-built transformers must still be what was asked for
        ok, d = probe(direction, xy)
        if not ok:
            return False, f"after to_crs: {d}"
    return True, "ok"


# CRS alphabets of the after-history block (Australia; used nowhere else in this check), one per history so that
# each perturbation is the first use of its pairs
HIST_SPECS = {"authority-order-first": ["EPSG:4283", "EPSG:3577", "EPSG:32755", "EPSG:28355"],
              "queries-first": ["EPSG:7844", "EPSG:3112", "EPSG:32754", "EPSG:28354"]}
HIST_AREA = (146.0, -35.0)


AM_SOURCES = [("EPSG:32660", "west"), ("EPSG:3832", "west"), ("EPSG:3832", "east"), ("EPSG:3857", "west"),
              ("EPSG:3857", "east"), ("EPSG:32601", "east"), ("EPSG:32660", "cross"), ("EPSG:3832", "cross")]


def gen_antimeridian(rng, src, side):
    """geometry given in `src` coordinates whose vertices lie at chosen distances from lon = +-180"""
    to_src = pyproj_tr("EPSG:4326", src)
    lat0 = rng.choice([-1, 1]) * rng.uniform(5, 25)
    if src in ("EPSG:32660", "EPSG:32601"):
        lat0 = abs(lat0)
    dists = [3e-5, 5e-4, 2e-3, 0.01, 0.05, 0.09, 0.3, 1.2]

    def pt(sd, d, dlat):
        lon = 180 - d if sd == "west" else -180 + d
        x, y = to_src.transform(lon, lat0 + dlat)
        return [x, y]

    if side != "cross":
        n = rng.randint(3, 5)
        ps = [pt(side, rng.choice(dists), 0.04 * i + rng.uniform(0, 0.02)) for i in range(n)]
        ps[rng.randrange(n)] = pt(side, rng.choice([5e-4, 2e-3, 0.01, 0.05, 0.09]), 0.25)
        kind = rng.choice(["Point", "MultiPoint", "Line", "Polygon", "MLine", "MCollection"])
        if kind == "Point":
            return ["Point", ps[-1]] if rng.random() < 0.5 else ["Point", ps[0]]
        if kind == "MultiPoint":
            return ["MultiPoint", ps]
        if kind == "Line":
            return ["Line", ps]
        if kind == "Polygon":
            return ["Polygon", ps[:3] + [ps[0]], []]
        if kind == "MLine":
            return ["Multi", "MLine", [["Line", ps[:2]], ["Line", ps[1:]]]]
        return ["Multi", "MCollection", [["Point", ps[0]], ["Line", ps[1:]]]]
    da, db, dc = (rng.choice([5e-4, 2e-3, 0.01, 0.05, 0.09, 0.3]) for _ in range(3))
    if rng.random() < 0.3:
        return ["Line", [pt("west", 0.6, 0.0), pt("west", da, 0.05), pt("east", db, 0.1), pt("east", 0.7, 0.12)]]
    return ["Polygon", [pt("west", 0.8, 0.0), pt("west", da, -0.05), pt("east", db, 0.0), pt("east", 0.7, 0.3),
                        pt("west", dc, 0.35), pt("west", 0.8, 0.3), pt("west", 0.8, 0.0)], []]


PREDICATES = {"transformer": p_transformer, "densify": p_densify, "segmented": p_segmented, "retain": p_retain, "nonpositive": p_nonpositive,
              "to_crs": p_tocrs, "roundtrip": p_roundtrip, "wrapdateline": p_wrap, "wrapdateline+resolution": p_wrap_res,
              "history": p_history, "many_crs": p_many_crs, "pickled": p_pickled}
PREDICATES["after_history"] = crshist.after_history(PREDICATES)


def search(out, tier, first=()):
    rng = core.rng("c07-search")
    found = {}
    worst_rt = [0.0]

    def run(name, *args):
        if name in found and name in ("nonpositive", "to_crs", "segmented", "densify") and "did not return" in found[name]:
            return        # every further hang would cost another time-out
        try:
            ok, detail = PREDICATES[name](*args)
        except Exception as e:  # noqa: BLE001 - inside the property's domain nothing may raise
            ok, detail = False, f"raised {type(e).__name__}: {e}"
        out.count("predicate:" + name)
        out.case(("pred", name, args), True)
        if name == "roundtrip" and "error" in detail:
            worst_rt[0] = max(worst_rt[0], float(detail.split()[-1]))
        if not ok and name not in found:
            found[name] = detail
            out.violation(f"c07:{name}", f"{name}{core.short(args, 400)}: {detail}",
                          {"predicate": name, "args": list(args), "observed": detail})

    for rp in core.corpus(ID):
        run(rp["predicate"], *rp["args"])
    for pr in first:
        run(*pr)
    # densify / segmented on the exactness domain (no float operation rounds: checked by the shadow)
    n = 600 if tier == "quick" else 8000
    used = 0
    for _ in range(n):
        coords, res = gen_polyline(rng, closed=rng.random() < 0.3)
        if not shadow_densify([tuple(p) for p in coords], res)[0]:
            continue
        used += 1
        run("densify", coords, res)
    for a, b, h in PYTH + [(1, 0, 1), (0, 1, 1)]:      # every direction, near and far from the axes
        for sx, sy in ((1, 1), (-1, 1), (1, -1), (-1, -1)):
            for org in ((0.0, 0.0), (0.0, 2.0 ** 20), (2.0 ** 20, 0.0), (-7.0, 3.0), (-(2.0 ** 16), -(2.0 ** 16))):
                for k, res in ((8, h * 1.0), (8, h * 3.0), (1, h * 1.0), (1, h * 0.5), (4, h * 4.0), (4, h * 5.0), (2, h * 0.25)):
                    coords = [[org[0], org[1]], [org[0] + sx * a * k, org[1] + sy * b * k]]
                    if shadow_densify([tuple(p) for p in coords], res)[0]:
                        run("densify", coords, res)
                        run("densify", coords[::-1], res)
    for _ in range(150 if tier == "quick" else 2000):
        g, res = gen_geom(rng)
        if shadow_geom(g, res):
            run("segmented", g, res)
        run("nonpositive", g, rng.choice([0.0, -1.0, -0.0]))
    # finely digitised and coarse rings / parts mixed, directly and through to_crs(resolution=)
    for i in range(40 if tier == "quick" else 400):
        g, res, _ = gen_fine_coarse(rng)
        if shadow_geom(g, res):
            run("segmented", g, res)
            if i % 4 == 0:
                run("to_crs", "EPSG:3857", g, rng.choice(["EPSG:4326", "EPSG:3035"]), res, rng.random() < 0.5)
    # huge finite resolutions (their square overflows): nothing is longer than that, the geometry stays as it is
    for i in range(24 if tier == "quick" else 200):
        g, _ = gen_geom(rng)
        run("segmented", g, HUGE[i % len(HUGE)])
        if i % 3 == 0:
            coords, _ = gen_polyline(rng)
            run("densify", coords, HUGE[(i // 3) % len(HUGE)])
    # very long edges: edge length / resolution between 1e4 and 1e5 (few cases, they are big); exactness domain
    # (length = 2^k * unit, resolution = unit or 3 * unit), judged by the longest gap, retention and the vertex count
    big = [(2 ** 14, 1, (1, 0)), (2 ** 15, 3, (0, -1)), (2 ** 14, 1, (3, 4))] + ([(2 ** 16, 1, (-1, 0))] if tier != "quick" else [])
    for k, (n, m, (ax, ay)) in enumerate(big):
        u = 2.0 ** rng.randint(-12, -6)
        h = 5 if (ax, ay) == (3, 4) else 1
        x0, y0 = rng.choice([(0.0, 0.0), (12.0, 50.0), (-3.0, 7.5)])
        coords = [[x0, y0], [x0 + ax * n * u, y0 + ay * n * u], [x0 + ax * n * u + u, y0 + ay * n * u]]
        res = m * h * u
        if shadow_densify([tuple(p) for p in coords], res)[0]:
            run("densify", coords, res)
            if k == 0:
                run("segmented", ["Polygon", rect(x0, y0, n * u, 4 * u), [rect(x0 + u, y0 + u, 2 * u, 2 * u)]], res)
                run("to_crs", "EPSG:4326", ["Line", [[12.0, 50.0], [12.0 + n * 2.0 ** -13, 50.0]]], "EPSG:4258", 2.0 ** -13)
    # arbitrary floats: retention only
    for _ in range(200 if tier == "quick" else 3000):
        coords = [[rng.uniform(-1e3, 1e3), rng.uniform(-1e3, 1e3)] for _ in range(rng.randint(1, 5))]
        run("retain", coords, rng.choice([rng.uniform(1, 500), 1e9, 37.5]))
    # to_crs on arbitrary float vertices inside the valid areas
    specs = CRS_SPECS
    for i in range(150 if tier == "quick" else 2000):
        src = rng.choice(specs + [None] if rng.random() < 0.1 else specs)
        dst = rng.choice(specs + [None] if rng.random() < 0.1 else specs)
        base = src or "EPSG:3857"
        x0, y0, u = AREA[base]
        g, r0 = geom_in(base, rng)
        if rng.random() < 0.5:
            def jig(p):
                return [p[0] + rng.uniform(-u, u), p[1] + rng.uniform(-u, u)]
            t = g[0]
            if t == "Point":
                g = [t, jig(g[1])]
            elif t in ("MultiPoint", "Line"):
                g = [t, [jig(p) for p in g[1]]]
        res = rng.choice([None, None, r0, "auto", float("inf"), 0.0, HUGE[i % len(HUGE)]]) if rng.random() < 0.6 else None
        # option combinations: the whole alphabet lives in central Europe, where wrapdateline must not change anything
        run("to_crs", src, g, dst, res, rng.random() < 0.4)
        if src and dst and i % 6 == 0:
            run("pickled", src, g, dst, res if isinstance(res, float) and math.isfinite(res) and res > 0 else None,
                1.5 if i % 12 == 0 else None)
        if src and dst and tier != "quick" or (src and dst and i % 5 == 0):
            run("roundtrip", src, g, dst)
    # wrapdateline=True to a geographic CRS: near (both sides) and across the antimeridian
    for i in range(64 if tier == "quick" else 800):
        src, side = AM_SOURCES[i % len(AM_SOURCES)]
        run("wrapdateline", src, gen_antimeridian(rng, src, side), rng.choice(["EPSG:4326", "epsg:4326"]))
    # option combination resolution + wrapdateline near / across the antimeridian, judged in the source CRS via pyproj
    am = [("EPSG:32660", "west"), ("EPSG:3832", "west"), ("EPSG:3832", "east"), ("EPSG:32601", "east"),
          ("EPSG:32660", "cross"), ("EPSG:3832", "cross")]
    for i in range(36 if tier == "quick" else 360):
        src, side = am[i % len(am)]
        g, R = gen_am_dense(rng, src, side)
        run("wrapdateline+resolution", src, g, rng.choice(["EPSG:4326", "epsg:4326"]), R)
    # histories of transformer_to_crs calls (always_xy False / True, both directions) before to_crs, on CRS objects
    # that are new to the process (so that the first transformer built for the pair is the one of the history)
    for i in range(40 if tier == "quick" else 400):
        new = fresh_crs(rng)
        other = rng.choice(["EPSG:4326", "EPSG:4326", "epsg:4326", "EPSG:4258", "EPSG:3857"])
        src, dst = (new, other) if rng.random() < 0.5 else (other, new)
        hist = [[rng.choice(["fwd", "rev"]), rng.random() < 0.35] for _ in range(rng.randint(0, 3))]
        if i % 2 == 0:
            hist = [[rng.choice(["fwd", "rev"]), False]] + hist[:2]
        lonlat = [[12 + rng.uniform(-2, 2), 50 + rng.uniform(-2, 2)] for _ in range(rng.randint(1, 3))]
        run("history", src, dst, hist, lonlat)
    # the resolution in every numeric representation (exactness domain: axis-aligned box with a hole whose edges are
    # resolution * 2^k, values exactly representable - also when accumulated - in the narrowest type, float16)
    for i in range(40 if tier == "quick" else 300):
        kind = RES_KINDS[i % len(RES_KINDS)]
        src = rng.choice(["EPSG:3857", "EPSG:32633", SINU, "EPSG:3035"])
        x0, y0, _ = AREA[src]
        v = float(rng.choice([4, 8, 16, 64] if ("int" in kind or rng.random() < 0.5) else [2.5, 0.5, 12.0, 96.0]))
        g = ["Polygon", rect(x0, y0, 32 * v, 16 * v, cw=rng.random() < 0.5), [rect(x0 + 4 * v, y0 + 4 * v, 8 * v, 4 * v)]]
        if rng.random() < 0.3:
            g = ["Multi", "MCollection", [["Line", [[x0, y0 - 8 * v], [x0 + 16 * v, y0 - 8 * v]]], g]]
        if shadow_geom(g, v):
            run("to_crs", src, g, rng.choice(["EPSG:4326", "EPSG:3857", LAEA_C]), [kind, v], rng.random() < 0.3)
    # a process that deals with more CRSs than any plausible cache bound (self-contained history)
    run("many_crs", 150 if tier == "quick" else 400, rng.randrange(1000),
        [[rng.uniform(-1, 1), rng.uniform(5, 60)] for _ in range(rng.randint(1, 3))])
    # cross-CRS cases re-run after the shared process-history perturbations; recorded through "after_history" so that a
    # hit replays in a fresh process.  The CRS alphabet of this block is used nowhere else in the check, so the
    # perturbation really is the first thing the process does with these pairs.
    def run_after(hist, specs, name, *args):
        try:
            ok, detail = PREDICATES[name](*args)
        except Exception as e:  # noqa: BLE001
            ok, detail = False, f"raised {type(e).__name__}: {e}"
        out.count("predicate:after_history:" + "+".join(hist) + ":" + name)
        out.case(("after", hist, name, args), True)
        key = "after_history:" + "+".join(hist)
        if not ok and key not in found:
            found[key] = detail
            out.violation(f"c07:{key}", f"after {hist}: {name}{core.short(args, 300)}: {detail}",
                          {"predicate": "after_history", "args": [list(hist), list(specs), name, list(args)], "observed": detail})

    def cross_cases(specs, k):
        for _ in range(k):
            src, dst = rng.sample(specs, 2)
            lon, lat = HIST_AREA
            to_src = pyproj_tr("EPSG:4326", src)
            pts = [list(to_src.transform(lon + rng.uniform(-1, 1), lat + rng.uniform(-1, 1))) for _ in range(rng.randint(2, 4))]
            g = rng.choice([["Line", pts], ["MultiPoint", pts], ["Polygon", pts[:3] + [pts[0]], []] if len(pts) >= 3 else ["Point", pts[0]]])
            yield src, g, dst

    for hist in (("authority-order-first",), ("queries-first", "churn")):
        specs = HIST_SPECS[hist[0]]
        crshist.perturb(hist, specs)
        for src, g, dst in cross_cases(specs, 12 if tier == "quick" else 60):
            run_after(hist, specs, "to_crs", src, g, dst, None)
            run_after(hist, specs, "roundtrip", src, g, dst)
    # geographic -> geographic pairs with a resolution (the Australian datums only here, after their histories)
    for i in range(8 if tier == "quick" else 60):
        a_, b_ = rng.choice([("EPSG:4326", "EPSG:4283"), ("EPSG:4283", "EPSG:4326"), ("EPSG:4326", "EPSG:7844"),
                             ("EPSG:7844", "EPSG:4283"), ("EPSG:4269", "EPSG:4258"), ("EPSG:4258", "epsg:4326")])
        x0, y0 = (146.0, -35.0) if "4283" in a_ + b_ or "7844" in a_ + b_ else (12.0, 50.0)
        u = 2.0 ** -3
        g = rng.choice([["Polygon", rect(x0, y0, 8 * u, 4 * u), [rect(x0 + u, y0 + u, 2 * u, u)]],
                        ["Line", [[x0, y0], [x0 + 16 * u, y0], [x0 + 16 * u, y0 + 4 * u]]],
                        ["Multi", "MLine", [["Line", [[x0, y0], [x0, y0 + 8 * u]]], ["Line", [[x0 + u, y0], [x0 + 5 * u, y0]]]]]])
        run("to_crs", a_, g, b_, rng.choice([u / 4, u, 3 * u / 2]), rng.random() < 0.3)
    # the transformer itself (numpy path, NaN harmonisation); 4326 -> 4258 is a no-op pipeline that lets a NaN through per axis
    nan = float("nan")
    for src, dst in [("EPSG:4326", "EPSG:4258"), ("EPSG:4326", "EPSG:3857"), ("EPSG:3857", "EPSG:4326"),
                     ("EPSG:32633", "EPSG:3035"), ("EPSG:6933", "epsg:4326")]:
        x0, y0, u = AREA[src]
        for _ in range(4 if tier == "quick" else 40):
            pts = [[x0 + rng.uniform(-4, 4) * u, y0 + rng.uniform(-4, 4) * u] for _ in range(rng.randint(1, 6))]
            k = rng.randrange(len(pts) + 1)
            pts.insert(k, rng.choice([[nan, y0], [x0, nan], [nan, nan]]))
            if rng.random() < 0.5:
                pts.append([x0, nan])
            run("transformer", src, dst, pts)
    # "auto" on zero-area geometries must terminate and equal the plain conversion
    for g in (["Line", [[1441792.0, 6553600.0], [1441795.0, 6553604.0]]],
              ["Ring", [[1441792.0, 6553600.0], [1441795.0, 6553604.0], [1441792.0, 6553700.0], [1441792.0, 6553600.0]]],
              ["Multi", "MLine", [["Line", [[1441792.0, 6553600.0], [1441795.0, 6553604.0]]]]],
              ["Polygon", [[1441792.0, 6553600.0], [1441795.0, 6553604.0], [1441798.0, 6553608.0], [1441792.0, 6553600.0]], []]):
        run("to_crs", "EPSG:3857", g, "EPSG:4326", "auto")
    out.notes.append(f"search: densify predicate evaluated on {used} exactness-domain polylines; "
                     f"round trip (PROJ oracle clause, measured, not proved): worst relative error {worst_rt[0]:.3e}")


# ------------------------------------------------------------------ entry points
def run(out, tier, scratch):
    out.rule = ("correspondence: (a) shapely length/interpolate oracle contracts on Pythagorean and axis segments in all four "
                "quadrants near/far from the origin; (b) densify on polylines whose long edges have rational length h*k*u in "
                "axis/3-4-5/5-12-13/8-15-17 directions, resolutions m*h*u/2^j dividing and not dividing the length, edges of "
                "length exactly == resolution, short edges in arbitrary directions, repeated vertices, plus free-form small "
                "integer polylines filtered by a float shadow (inexact cases discarded and counted), empty/one-vertex lists and "
                "non-positive resolutions; (c) Geometry.segmented on every geometry kind incl. nested collections and empty "
                "parts; (d) shapely area/length and _auto_resolution; (e) Geometry.to_crs over a 6-spec CRS alphabet (+None) x "
                "all geometry kinds x resolution None/number/auto/inf/nan/0/negative x wrapdateline/check_and_fix where they "
                "have no effect, with the projection oracle instantiated by pyproj's scalar outputs; the alphabet includes "
                "three CRSs without EPSG code (PROJ strings, WKT); search additionally: wrapdateline=True near/across the "
                "antimeridian judged against pyproj with the 1e-4 deg snapping as only allowed deviation.  A case is non-trivial "
                "when it inserts points, reaches an error branch or projects; distinct = distinct canonical (operation, inputs). "
                "search: property clauses evaluated in Fraction arithmetic on the implementation (exactness-domain inputs for "
                "clauses that involve inserted points, arbitrary floats for retention and for the vertex-wise pyproj identity)")
    out.assumptions += [
        "shapely LineString.length = sqrt(dx^2+dy^2) and interpolate(d) = p1 + (d/L)(p2-p1) (validated on every CLength/CInterp case)",
        "shapely.ops.transform applies the function to the coordinates of every part in order (modelled as a structural map; validated by the to_crs cases)",
        "pyproj's transform is a point-wise function of (source CRS, target CRS, point) (array call == scalar call, validated on every to_crs case)",
        "CRS.__eq__ decides 'already in the target CRS' (oracle; property C19)",
        "exact rational model of binary64 coordinates (inputs restricted to an exactness domain; escapes are discarded and counted)",
    ]
    try:
        cases, preds = gen_cases(out, tier)
    except Exception:  # noqa: BLE001 - the implementation raised where the generator did not expect it: still search
        import traceback
        out.oblige("harness:case generation", "correspondence", False, traceback.format_exc())
        search(out, tier)
        return
    fails, log = core.coq_eval_failures(["Base.Result", "Model.Densify", "Model.DensifyCases"], "case", "check", cases,
                                        scratch, shard=60)
    detail = ""
    if fails:
        detail = "model and implementation differ on: " + " | ".join(core.short(cases[i], 700) for i in fails[:4])
    out.oblige("correspondence:Model.Densify vs odc.geo.geom (densify, segmented, _auto_resolution, to_crs)",
               "correspondence", not fails, detail)
    # a disagreeing case is judged by the property predicate on that very input: if it is a property violation the
    # disagreement itself becomes the concrete replay
    search(out, tier, first=[preds[i] for i in fails if preds[i] is not None][:12])


def replay(rp) -> int:
    name = rp["predicate"]
    ok, detail = PREDICATES[name](*rp["args"])
    print(f"replay {name}{core.short(rp['args'], 300)}: {'holds' if ok else 'FAILS'}: {detail}")
    return 0 if ok else 1


META = {
    "text": ("Coq theorems (coq/Props/C07.v, all closed under the global context) over a Gallina model of densify / "
             "Geometry.segmented / _auto_resolution / Geometry.to_crs.  Densification, for every coordinate list, every "
             "positive resolution and every square-root function returning non-negative roots: consecutive output points are "
             "at most the resolution apart (squared distances), the output is the input with points p1+t(p2-p1), "
             "0<t1<...<tn<1, inserted between consecutive vertices, hence original vertices retained in order, first/last "
             "kept, shoelace area and polyline length unchanged; the loop terminates; error table (ValueError iff resolution "
             "<= 0).  Lifted by structural induction to points, multi-points, lines, rings, polygons with holes, multi-"
             "geometries and nested collections: same constructor and part/ring structure, every sequence refined, no edge "
             "longer than the resolution, area and length unchanged.  to_crs, for arbitrary projection / CRS-equality / "
             "validity oracles: ValueError for a missing target or source CRS, the same object iff the CRSs are equal, "
             "otherwise the structural point-wise image (constructor, part/ring structure, vertex count and order preserved, "
             "vertex i mapped to proj(vertex i)) of the geometry or of its densification; 'auto' = sqrt(area)*4/100.  Four "
             "_refuted theorems document the defects repaired under this property."),
    "note": ("Trusted: Coq kernel; the hand-written model coq/Model/Densify.v (tied to the code by the exact correspondence run); "
             "the spec predicates of coq/Model/DensifySpec.v.  Oracles (modelled, validated by testing only): shapely "
             "LineString.length / interpolate replaced by their definitions sqrt(dx^2+dy^2) and p1+(d/L)(p2-p1); "
             "shapely.ops.transform as the structural map of a point function; shapely area as |shoelace|/2 minus holes; "
             "pyproj as an arbitrary point-wise function of (source, target, point); CRS.__eq__, is_valid, dropna/buffer(0), "
             "chop_along_antimeridian, clip_lon180 as uninterpreted functions (theorems about results are stated for "
             "wrapdateline/check_and_fix without effect: not (wrapdateline and target geographic), and not check_and_fix or "
             "projected geometry valid).  Floats are exact rationals: rounding in d += resolution, d/L and the interpolation is "
             "NOT modelled, so on the real code a gap may exceed the resolution by an ulp; the correspondence and the "
             "search predicates that involve inserted points therefore run only on inputs where a float shadow shows every "
             "operation to be exact.  The executable model takes roots through exact_sqrt (rational squares only; Err EOther "
             "otherwise); the theorems quantify over every sqrt function meeting sqrt_spec and, per segment, over the root as "
             "a variable L with L*L == dx^2+dy^2, but remain statements about rational coordinates and rational lengths "
             "(an edge of irrational length that needs densifying is outside the theorems' domain).  2-D geometries only "
             "(to_crs raises TypeError on 3-D coordinates: observed, outside the model).  NaN/inf coordinates and the NaN "
             "harmonisation of transformer_to_crs are not modelled (the vertex predicate checks them on the real code).  NOT "
             "proved (PROJ oracle clause): 'there and back returns the original to numerical precision' - only measured by "
             "the search harness (bound 1e-6 relative).  Non-termination is modelled as running out of fuel (Err ERuntime) and "
             "detected on the real code by a timer."),
    "technique": "Coq proof over hand-written Gallina model (root as universally quantified variable) + exact differential correspondence (vm_compute) on a float-exactness domain",
    "design_ref": "DESIGN.md section 5, C07; section 3 (number model, exact_sqrt)",
}
