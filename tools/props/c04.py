"""C04 — tilings are exact partitions and blocks reassemble the mosaic.

Correspondence: coq/Model/Tiles.v and coq/Model/Blocks.v against odc.geo.roi
(Tiles, VariableSizedTiles, clip_tiles), odc.geo.geobox.GeoboxTiles and
odc.geo._blocks.BlockAssembler: exhaustive over small base/tile sizes and all
compositions of small totals, boundary-heavy index sets, a malformed stream and
random large sizes.  Search: the property's clauses evaluated directly on the
implementation (pixel by pixel; numpy builds the reference mosaic).
"""
from __future__ import annotations

import itertools

import numpy as np

from vlib import core
from vlib.core import clist, copt, ctuple, cz

ID = "C04"
ALLOWED_AXIOMS: list[str] = []

REQ_T = ["Base.Result", "Model.Roi", "Model.Tiles", "Model.TilesCases"]
REQ_B = ["Base.Result", "Model.Roi", "Model.Tiles", "Model.Blocks", "Model.BlocksCases"]


# ---------------------------------------------------------------- encoding
def enc(s):
    if isinstance(s, slice):
        return {"slice": [s.start, s.stop, s.step]}
    if isinstance(s, (tuple, list)):
        return [enc(x) for x in s]
    if isinstance(s, (np.integer,)):
        return int(s)
    return s


def dec(s):
    if isinstance(s, dict) and "slice" in s:
        return slice(*s["slice"])
    if isinstance(s, list):
        return tuple(dec(x) for x in s)
    return s


def csl(s) -> str:
    if isinstance(s, slice):
        return f"(SSl {copt(s.start)} {copt(s.stop)} {copt(s.step)})"
    return f"(SInt {cz(s)})"


def cpair(p) -> str:
    return ctuple(cz(p[0]), cz(p[1]))


def cidx(idx) -> str:
    return ctuple(csl(idx[0]), csl(idx[1]))


def croi(r) -> str:
    return ctuple(cpair((r[0].start, r[0].stop)), cpair((r[1].start, r[1].stop)))


def cchunks(ch) -> str:
    return ctuple(clist(ch[0]), clist(ch[1]))


def chow(how) -> str:
    if isinstance(how[0], (tuple, list)):
        return f"(inr {cchunks(how)})"
    return f"(inl {cpair(how)})"


ERRS = {ValueError: "(Err EValue)", IndexError: "(Err EIndex)", AssertionError: "(Err (EAssert 0))",
        ZeroDivisionError: "(Err EOther)", OverflowError: "(Err EOther)"}


def cres(f, call):
    """Run call(); render Ok/Err as Coq text using f for the value."""
    try:
        v = call()
    except tuple(ERRS) as e:
        for k, t in ERRS.items():
            if isinstance(e, k):
                return t, k.__name__
    return f"(Ok {f(v)})", "ok"


def canon_arg(x):
    """structural snapshot of an argument object (contents, types, dtypes, dict order)"""
    if isinstance(x, np.ndarray):
        return ("ndarray", str(x.dtype), x.shape, x.tobytes())
    if isinstance(x, np.generic):
        return ("npscalar", type(x).__name__, x.item())
    if isinstance(x, dict):
        return ("dict", [(canon_arg(k), canon_arg(v)) for k, v in x.items()])
    if isinstance(x, (list, tuple)):
        return (type(x).__name__, [canon_arg(v) for v in x])
    if isinstance(x, slice):
        return ("slice", canon_arg(x.start), canon_arg(x.stop), canon_arg(x.step))
    return ("obj", repr(x))


class ArgsChanged(Exception):
    pass


def frozen(what, call, **named):
    """run call(); an operation must not modify its arguments: compare them with snapshots taken before"""
    before = {k: canon_arg(v) for k, v in named.items()}
    res = call()
    for k, v in named.items():
        if canon_arg(v) != before[k]:
            shown = v.tolist() if isinstance(v, np.ndarray) else v
            raise ArgsChanged(f"{what} modified its argument `{k}`: it now reads {core.short(shown, 200)}")
    return res


SEL_FORMS = ["list", "tuple", "int64", "int32", "argwhere", "readonly", "fortran"]


def sel_in_form(sel, form):
    """the tile selection `sel` (list of (r, c)) as the object a caller may pass"""
    sel = [tuple(int(v) for v in s) for s in sel]
    if form == "list":
        return list(sel)
    if form == "tuple":
        return tuple(sel)
    if form == "argwhere":      # what np.argwhere(mask) returns: the distinct cells in row-major order
        mask = np.zeros((max(s[0] for s in sel) + 1, max(s[1] for s in sel) + 1), dtype=bool)
        for r, c in sel:
            mask[r, c] = True
        return np.argwhere(mask)
    a = np.array(sel, dtype="int32" if form == "int32" else "int64").reshape(-1, 2)
    if form == "fortran":
        a = np.asfortranarray(a)
    if form == "readonly":
        a.setflags(write=False)
    return a


def sel_as_list(x):
    return [tuple(int(v) for v in s) for s in (x.tolist() if isinstance(x, np.ndarray) else x)]


def index_forms(r, c, ints_only=False):
    """every form in which the API accepts the tile index / pixel (r, c): name -> object"""
    from odc.geo.types import Index2d, ixy_, iyx_, xy_, yx_
    forms = {"tuple": (r, c), "iyx_": iyx_(r, c), "ixy_": ixy_(c, r), "Index2d": Index2d(x=c, y=r),
             "yx_": yx_(r, c), "xy_": xy_(c, r), "iyx_(tuple)": iyx_((r, c)), "ixy_(tuple)": ixy_((c, r))}
    # numpy integers: what np.argwhere rows and clip_tiles of an ndarray selection hand back
    if max(abs(r), abs(c)) < 2 ** 62:
        forms["(np.int64,np.int64)"] = (np.int64(r), np.int64(c))
        forms["argwhere row"] = tuple(np.array([[r, c]], dtype=np.intp)[0])       # a row of np.argwhere(mask)
        forms["iyx_(np.int64)"] = iyx_((np.int64(r), np.int64(c)))
    if max(abs(r), abs(c)) < 2 ** 31 - 1:
        forms["(np.int32,int)"] = (np.int32(r), c)
    if 0 <= r < 255 and 0 <= c < 255:
        forms["(np.uint8,np.uint8)"] = (np.uint8(r), np.uint8(c))
    if not ints_only:
        if max(abs(r), abs(c)) < 2 ** 62:
            forms["(np.int64,slice)"] = (np.int64(r), slice(c, c + 1))
            forms["(slice,np.intp)"] = (slice(r, r + 1), np.intp(c))
        forms["(int,slice)"] = (r, slice(c, c + 1))
        forms["(slice,int)"] = (slice(r, r + 1), c)
        forms["(slice,slice)"] = (slice(r, r + 1), slice(c, c + 1))
    return forms


FORM_NAMES = ["tuple", "iyx_", "ixy_", "Index2d", "yx_", "xy_", "(np.int64,np.int64)", "(np.int32,int)"]


def as_form(idx, k):
    """the (r, c) pair in the k-th accepted object form (the model sees the same pair)"""
    forms = index_forms(idx[0], idx[1], ints_only=True)
    return forms.get(FORM_NAMES[k % len(FORM_NAMES)], forms["tuple"])


def tiles_desc(t) -> list[int]:
    from odc.geo.roi import Tiles
    if isinstance(t, Tiles):
        return [0, *t._base_shape.yx, *t._tile_shape.yx, *t._shape.yx]
    oy, ox = (o.tolist() for o in t._offsets)
    return [1, *oy, -1, *ox]


def mk_tiles(base, how):
    from odc.geo.roi import roi_tiles
    return roi_tiles(base, how)


RES = 4.0


def mk_root(base):
    from affine import Affine
    from odc.geo.geobox import GeoBox
    return GeoBox(tuple(base), Affine(RES, 0, 1024.0, 0, -RES, 4096.0), "epsg:3857")


def gbox_desc(g, root) -> list[int]:
    """pixel window of g inside root: must be an exact integer translation"""
    A = (~root.affine) * g.affine
    vals = [A.a, A.b, A.c, A.d, A.e, A.f]
    assert vals[0] == 1 and vals[4] == 1 and vals[1] == 0 and vals[3] == 0, vals
    assert float(vals[2]).is_integer() and float(vals[5]).is_integer(), vals
    assert g.crs == root.crs
    return [int(vals[5]), int(vals[2]), int(g.shape[0]), int(g.shape[1])]


def compositions(n, maxparts=None):
    """all tuples of positive ints summing to n"""
    if n == 0:
        yield ()
        return
    for first in range(1, n + 1):
        for rest in compositions(n - first):
            yield (first, *rest)


# ---------------------------------------------------------------- tiles cases
def idx_fields(S, ext=2):
    return [None] + list(range(-(S + ext), S + ext + 1))


def axis_indices(S, rng, tier):
    """int and slice indices for an axis with S tiles: every int in [-S-2, S+2], every slice over the same fields"""
    ints = list(range(-(S + 2), S + 3))
    ff = idx_fields(S, 1)
    sl = [slice(a, b) for a in ff for b in ff]
    if tier == "quick" and len(sl) > 14:
        keep = [s for s in sl if (s.start in (None, S - 1, S) and s.stop in (None, 0, S, S + 1))
                or (s.start in (-1, -S - 1) and s.stop in (None, -1))]
        sl = keep + rng.sample(sl, 4)
    elif len(sl) > 60:
        keep = [s for s in sl if (s.start in (None, 0, S - 1, S) and s.stop in (None, 0, 1, S, S + 1, -1))
                or (s.start in (-1, -S - 1) and s.stop in (None, S))]
        sl = keep + rng.sample(sl, 30)
    return ints, sl


def gen_tiles_cases(out, tier, judges=None):
    from odc.geo.geobox import GeoboxTiles
    from odc.geo.roi import clip_tiles

    rng = core.rng("c04-tiles")
    cases: list[str] = []

    def add(kind, text, canon, nontrivial=True, sample=None, judge=None):
        if judge is not None and judges is not None:
            judges[len(cases)] = judge
        cases.append(text)
        out.count(kind)
        out.case((kind, canon), nontrivial, sample)

    counter = [0]

    def ops_for(base, how, ex_axis, light=False):
        """all cases for one tiling; ex_axis is the axis whose index set is exhaustive;
        in the quick tier the GeoboxTiles counterparts are generated for every fourth tiling"""
        counter[0] += 1
        geo = not light and (tier != "quick" or counter[0] % 4 == 0)
        hb = f"{cpair(base)} {chow(how)}"
        key = (tuple(base), enc(how))
        t, kind = cres(lambda t: clist(tiles_desc(t)), lambda: mk_tiles(base, how))
        add("init:" + kind, f"CInit {hb} {t}", key)
        if kind != "ok":
            return
        T = mk_tiles(base, how)
        S = T.shape.yx
        tb, _ = cres(cpair, lambda: T.base.yx)
        tc, kc = cres(cchunks, lambda: T.chunks)
        add("info:" + kc, f"CInfo {hb} {cpair(S)} {tb} {tc}", key, True,
            {"op": "chunks", "base": list(base), "how": enc(how), "shape": list(S), "result": tc})
        root = mk_root(base)
        G = GeoboxTiles(root, how)
        add("g_chunks:" + kc, f"CGChunks {hb} {cres(cchunks, lambda: G.chunks)[0]}", key)
        o = 1 - ex_axis
        ints, sl = axis_indices(S[ex_axis], rng, tier)
        oth_ints = [0, S[o] - 1, -1, S[o], -S[o] - 1]
        oth_sl = [slice(None), slice(0, S[o]), slice(0, 1), slice(S[o] - 1, None), slice(0, S[o] + 1), slice(1, 1)]

        def two(a, b):
            return (a, b) if ex_axis == 0 else (b, a)

        for k, i in enumerate(ints):
            j = oth_ints[k % len(oth_ints)] if k % 3 else 0
            idx = two(i, j)
            fk = counter[0] + k          # the implementation gets the pair as tuple / iyx_ / ixy_ / Index2d / yx_ / xy_
            fname = FORM_NAMES[fk % len(FORM_NAMES)]
            t, kind = cres(croi, lambda: T[as_form(idx, fk)])
            add(f"get_int[{fname}]:" + kind, f"CGet {hb} {cidx(idx)} {t}", (key, idx), True,
                {"op": "getitem", "base": list(base), "how": enc(how), "idx": list(idx), "form": fname, "result": t}
                if k == 3 else None, judge=("index", base, how, idx))
            t, kind = cres(cpair, lambda: T.tile_shape(as_form(idx, fk + 1)).yx)
            add("tile_shape:" + kind, f"CTileShape {hb} {cpair(idx)} {t}", (key, idx), judge=("index", base, how, idx))
            if tier != "quick" or k % 2 == 0:
                t, kind = cres(lambda c: clist(tiles_desc(c)), lambda: T.crop(idx))   # crop is declared for ROI tuples only
                add("crop_int:" + kind, f"CCrop {hb} {cidx(idx)} {t}", (key, idx))
            if not geo:
                continue
            t, kind = cres(cpair, lambda: G.chunk_shape(as_form(idx, fk + 3)).yx)
            add("g_chunk_shape:" + kind, f"CGChunkShape {hb} {cpair(idx)} {t}", (key, idx))
            t, kind = cres(lambda g: clist(gbox_desc(g, root)), lambda: G[as_form(idx, fk + 4)])
            add(f"g_get[{FORM_NAMES[(fk + 4) % len(FORM_NAMES)]}]:" + kind, f"CGGet {hb} {cidx(idx)} {t}", (key, idx),
                judge=("index_forms", base, how, idx) if min(idx) >= 0 else ("index", base, how, idx))
        for k, s in enumerate(sl):
            other = oth_sl[k % len(oth_sl)] if k % 2 else oth_ints[k % len(oth_ints)]
            idx = two(s, other)
            t, kind = cres(croi, lambda: T[idx])
            blk = None
            if all(isinstance(v, slice) and isinstance(v.start, int) and isinstance(v.stop, int)
                   and 0 <= v.start <= v.stop for v in idx):
                blk = ((idx[0].start, idx[0].stop), (idx[1].start, idx[1].stop))
            add("get_slice:" + kind, f"CGet {hb} {cidx(idx)} {t}", (key, enc(idx)),
                judge=("block", base, how, blk) if blk else None)
            t, kind = cres(lambda c: clist(tiles_desc(c)), lambda: T.crop(idx))
            add("crop:" + kind, f"CCrop {hb} {cidx(idx)} {t}", (key, enc(idx)), True,
                {"op": "crop", "base": list(base), "how": enc(how), "roi": enc(idx), "result": t} if k == 5 else None,
                judge=("crop", base, how, blk) if blk and not light and blk[0][0] < blk[0][1] <= S[0]
                and blk[1][0] < blk[1][1] <= S[1] else None)
            if not geo:
                continue
            t, kind = cres(lambda g: clist(gbox_desc(g, root)), lambda: G[idx])
            add("g_get_slice:" + kind, f"CGGet {hb} {cidx(idx)} {t}", (key, enc(idx)))
            t, kind = cres(lambda g: ctuple(clist(gbox_desc(g.base, root)), clist(tiles_desc(g.roi))), lambda: G.crop[idx])
            add("g_crop:" + kind, f"CGCrop {hb} {cidx(idx)} {t}", (key, enc(idx)))
            if kind == "ok" and k % 2 == 0:
                Gc = G.crop[idx]
                subs = [(0, 0), (-1, -1), (Gc.shape.y - 1, 0), (Gc.shape.y, 0), (slice(None), slice(0, 1))]
                for sub in (subs if tier != "quick" else [subs[k % 5], subs[(k + 2) % 5]]):
                    t, kind2 = cres(lambda g: clist(gbox_desc(g, root)), lambda: G.crop[idx][sub])
                    add("g_crop_get:" + kind2, f"CGCropGet {hb} {cidx(idx)} {cidx(sub)} {t}", (key, enc(idx), enc(sub)))
        # locate: every pixel coordinate of the exhaustive axis from -1 to N
        B = base if not isinstance(how[0], (tuple, list)) else T.base.yx
        for p in range(-1, B[ex_axis] + 2):
            q = [0, B[o] - 1, B[o], -1][(p + 1) % 4] if p % 5 == 4 else rng.randint(0, max(0, B[o] - 1))
            pix = two(p, q)
            t, kind = cres(cpair, lambda: T.locate(as_form(pix, p + counter[0])))
            add("locate:" + kind, f"CLocate {hb} {cpair(pix)} {t}", (key, pix), judge=("locate_roundtrip", base, how, pix))
        # clip: selections inside (and sometimes outside) the tile grid
        nsel = 3 if light else 8
        for k in range(nsel):
            m = rng.choice([1, 1, 2, 3, 5])
            hi = [max(0, S[0] - 1 + (k == 5)), max(0, S[1] - 1 + (k == 6))]
            sel = [(rng.randint(0, hi[0]), rng.randint(0, hi[1])) for _ in range(m)] if k != 7 else []
            f = lambda v: ctuple(ctuple(clist(tiles_desc(v[0])), croi(v[1])), clist(v[2], cpair))
            sform = SEL_FORMS[(k + counter[0]) % len(SEL_FORMS)] if sel else "list"
            sel_arg = sel_in_form(sel, sform) if sform != "argwhere" else np.array(sel, dtype="int64").reshape(-1, 2)
            cjudge = ("clip", base, how, sel, sform) if sel and not light and all(
                0 <= r < S[0] and 0 <= c < S[1] for r, c in sel) else None
            t, kind = cres(f, lambda: clip_tiles(T, sel_arg))
            add("clip:" + kind, f"CClip {hb} {clist(sel, cpair)} {t}", (key, tuple(sel)), True,
                {"op": "clip_tiles", "base": list(base), "how": enc(how), "selection": sel, "form": sform, "result": t}
                if k == 1 else None, judge=cjudge)
            if light:      # offsets beyond 2**53 are not exact in the float affine of a GeoBox
                continue
            g = lambda v: ctuple(ctuple(clist(gbox_desc(v[0].base, root)), clist(tiles_desc(v[0].roi))), clist(v[1], cpair))
            t, kind = cres(g, lambda: G.clip(sel_arg))     # the same selection object a second time
            add("g_clip:" + kind, f"CGClip {hb} {clist(sel, cpair)} {t}", (key, tuple(sel)), judge=cjudge)

    # regular tilings: exhaustive on one axis
    nmax = 6 if tier == "quick" else 10
    other_axes = [(5, 2), (1, 1), (7, 7), (3, 4), (0, 2), (6, 3), (9, 4)]
    k = 0
    for N in range(0, nmax + 1):
        for n in range(1, N + 3):
            M, m = other_axes[k % len(other_axes)]
            ex = k % 2
            k += 1
            base, tile = ((N, M), (n, m)) if ex == 0 else ((M, N), (m, n))
            ops_for(base, tile, ex)
    # variable tilings: all compositions of small totals on one axis
    tmax = 5 if tier == "quick" else 7
    other_ch = [(2, 3), (1,), (4, 1, 2), (1, 1, 1), (5,), (2, 2)]
    for total in range(0, tmax + 1):
        for comp in compositions(total):
            oc = other_ch[k % len(other_ch)]
            ex = k % 2
            k += 1
            how = (comp, oc) if ex == 0 else (oc, comp)
            base = (sum(how[0]), sum(how[1]))
            ops_for(base, how, ex)
    # zero-sized chunks (dask produces them), tile size larger than the base, 1-pixel tiles
    for how in [((3, 0, 2), (1, 2)), ((0, 4), (0, 0, 1)), ((2, 3), (0,)), ((1, 1, 1, 1), (1, 1))]:
        ops_for((sum(how[0]), sum(how[1])), how, k % 2)
        k += 1
    # random larger sizes (incl. beyond 2**31 and 2**53)
    for _ in range(10 if tier == "quick" else 80):
        big = rng.choice([10 ** 3, 10 ** 6, 2 ** 31 + 7, 2 ** 53 + 1, 2 ** 64 + 3])
        N, M = rng.randint(1, big), rng.randint(1, 50)
        n, m = rng.randint(1, max(1, N // rng.choice([1, 2, 3, 5]))), rng.randint(1, 60)
        ex = k % 2
        k += 1
        base, tile = ((N, M), (n, m)) if ex == 0 else ((M, N), (m, n))
        hb = f"{cpair(base)} {chow(tile)}"
        T = mk_tiles(base, tile)
        add("init:big", f"CInit {hb} (Ok {clist(tiles_desc(T))})", (base, tile))
        S = T.shape.yx
        for i in [0, 1, S[ex] - 2, S[ex] - 1, S[ex], -1, -S[ex], -S[ex] - 1, rng.randint(0, S[ex])]:
            idx = (i, 0) if ex == 0 else (0, i)
            t, kind = cres(croi, lambda: T[idx])
            add("get_int_big:" + kind, f"CGet {hb} {cidx(idx)} {t}", (base, tile, idx))
            t, kind = cres(cpair, lambda: T.tile_shape(idx).yx)
            add("tile_shape_big:" + kind, f"CTileShape {hb} {cpair(idx)} {t}", (base, tile, idx))
        for p in [0, n - 1, n, N - 1, N, N - n, rng.randint(0, N - 1), (S[ex] - 1) * (n if ex == 0 else tile[1]) - 1]:
            pix = (p, 0) if ex == 0 else (0, p)
            t, kind = cres(cpair, lambda: T.locate(pix))
            add("locate_big:" + kind, f"CLocate {hb} {cpair(pix)} {t}", (base, tile, pix))
        a, b = sorted([rng.randint(0, S[ex]), rng.randint(0, S[ex])])
        roi = (slice(a, b), slice(None)) if ex == 0 else (slice(None), slice(a, b))
        t, kind = cres(lambda c: clist(tiles_desc(c)), lambda: T.crop(roi))
        add("crop_big:" + kind, f"CCrop {hb} {cidx(roi)} {t}", (base, tile, enc(roi)))
    for _ in range(10 if tier == "quick" else 80):
        big = rng.choice([100, 10 ** 6, 2 ** 31, 2 ** 40, 2 ** 61])
        how = (tuple(rng.randint(0 if rng.random() < 0.1 else 1, big) for _ in range(rng.randint(1, 5))),
               tuple(rng.randint(1, 9) for _ in range(rng.randint(1, 3))))
        if k % 2:
            how = how[::-1]
        k += 1
        ops_for((sum(how[0]), sum(how[1])), how, k % 2, light=True)
        T = mk_tiles((0, 0), how)
        hb = f"{cpair((0, 0))} {chow(how)}"
        offs = [o.tolist() for o in T._offsets]
        for ax in (0, 1):
            for p in sorted(set(offs[ax] + [v - 1 for v in offs[ax]] + [rng.randint(0, max(0, offs[ax][-1] - 1))])):
                pix = (p, 0) if ax == 0 else (0, p)
                t, kind = cres(cpair, lambda: T.locate(pix))
                add("locate_big:" + kind, f"CLocate {hb} {cpair(pix)} {t}", (enc(how), pix))
    # malformed stream: same error kind in model and code
    for base, how in [((5, 5), (0, 3)), ((5, 5), (3, 0)), ((0, 0), (1, 1)), ((4, 4), ((2 ** 63, 1), (4,))),
                      ((4, 4), ((2, 2), (-(2 ** 63) - 1,))), ((4, 4), ((2 ** 62, 2 ** 62, 2 ** 62), (4,))),
                      ((4, 4), ((), ())), ((4, 4), ((), (4,)))]:
        ex = k % 2
        k += 1
        if isinstance(how[0], (tuple, list)) and max([abs(v) for c in how for v in c] + [0]) >= 2 ** 62 and \
                sum(how[0]) >= 2 ** 63:
            # int64 wrap inside cumsum: compared on construction only
            t, kind = cres(lambda t: clist(tiles_desc(t)), lambda: mk_tiles(base, how))
            add("init:wrap:" + kind, f"CInit {cpair(base)} {chow(how)} {t}", (base, enc(how)))
            continue
        ops_for(base, how, ex)
    return cases


# ---------------------------------------------------------------- assembler cases
def block_val_array(key, pre, post, ny, nx):
    """the array the harness stores in block `key` (formula shared with Model/BlocksCases.v)"""
    esh = tuple(pre) + tuple(post)
    full = esh + (ny, nx)
    idx = np.indices(full, dtype=np.int64) if full else []
    dot = np.zeros(full, dtype=np.int64)
    for k in range(len(esh)):
        dot = dot * 7 + idx[k]
    y, x = idx[len(esh)], idx[len(esh) + 1]
    v = 1 + key[0] * 3 + key[1] * 5 + 100 * (y * 40 + x) + 1000000 * dot
    # move Y, X to their place: (pre..., Y, X, post...)
    a = len(pre)
    order = list(range(a)) + [len(esh), len(esh) + 1] + list(range(a, len(esh)))
    return np.ascontiguousarray(np.transpose(v, order))


def rand_chunks(rng, zero=False):
    n = rng.choice([1, 1, 2, 2, 3, 4])
    lo = 0 if zero else 1
    return tuple(rng.choice([lo, 1, 1, 2, 3, 4, 5]) if zero else rng.choice([1, 1, 2, 3, 4, 5]) for _ in range(n))


def rand_layout(rng):
    chy, chx = rand_chunks(rng), rand_chunks(rng)
    mode = rng.choice(["YX", "YX", "SYX", "YXS", "SYXS", "SSYX"])
    pre = {"YX": (), "SYX": (rng.randint(1, 3),), "YXS": (), "SYXS": (rng.randint(1, 2),),
           "SSYX": (rng.randint(1, 2), rng.randint(1, 3))}[mode]
    post = (rng.randint(1, 3),) if mode in ("YXS", "SYXS") else ()
    keys = [(iy, ix) for iy in range(len(chy)) for ix in range(len(chx))]
    frac = rng.choice([0.0, 0.3, 0.6, 1.0])
    present = [k for k in keys if rng.random() < frac]
    rng.shuffle(present)
    return chy, chx, pre, post, present, mode


def rand_axis_slice(rng, n, allow_int=True, allow_out=True):
    r = rng.random()
    if r < 0.15 and allow_int and n > 0:
        return rng.randint(0, n - 1)
    if r < 0.22 and allow_int and n > 0:
        return rng.randint(-n, -1)
    if r < 0.3:
        return slice(None)
    a, b = sorted([rng.randint(0, n), rng.randint(0, n)])
    if r < 0.38:
        return slice(a, None)
    if r < 0.46:
        return slice(None, b)
    if r < 0.52:
        return slice(a - n - 1 if a <= n else None, b - n if b < n else None) if n else slice(None)
    if r < 0.58 and allow_out:
        return slice(a, n + rng.randint(1, 3))
    return slice(a, b)


def rand_roi(rng, shape, axis, malformed=False):
    nd = len(shape)
    r = rng.random()
    if r < 0.08:
        return None
    if r < 0.45:       # 2-tuple: Y/X window whatever the number of axes
        return (rand_axis_slice(rng, shape[axis]), rand_axis_slice(rng, shape[axis + 1]))
    if r < 0.55:       # single item
        return rand_axis_slice(rng, shape[0], allow_out=(axis == 0))
    if malformed and r < 0.62:
        return tuple(slice(None) for _ in range(nd + 1))
    k = nd if r < 0.9 else rng.randint(1, nd)
    return tuple(rand_axis_slice(rng, shape[i], allow_out=(i in (axis, axis + 1))) for i in range(k))


DTYPES = ("uint8", "uint16", "uint32", "uint64", "int8", "int16", "int32", "int64", "float32", "float64")


def cdtype(d) -> str:
    d = np.dtype(d)
    return f"({ {'u': 'DU', 'i': 'DI', 'f': 'DF'}[d.kind]} {cz(d.itemsize * 8)})"


def croi_opt(roi) -> str:
    if roi is None:
        return "None"
    if not isinstance(roi, tuple):
        roi = (roi,)
    return "(Some [" + "; ".join(csl(s) for s in roi) + "])"


def cblocks(bl) -> str:
    return "[" + "; ".join(ctuple(cpair(k), clist(sh)) for k, sh in bl) + "]"


def gen_block_cases(out, tier, judges=None):
    from odc.geo._blocks import BlockAssembler
    from odc.geo.roi import roi_shape

    rng = core.rng("c04-blocks")
    cases: list[str] = []

    def add(kind, text, canon, nontrivial=True, sample=None, judge=None):
        if judge is not None and judges is not None:
            judges[len(cases)] = judge
        cases.append(text)
        out.count(kind)
        out.case((kind, canon), nontrivial, sample)

    n_layout = 120 if tier == "quick" else 900
    for li in range(n_layout):
        chy, chx, pre, post, present, mode = rand_layout(rng)
        axis = len(pre)
        shapes = [(k, (*pre, chy[k[0]], chx[k[1]], *post)) for k in present]
        bad = rng.random() < 0.3
        ax_used = axis
        if bad and shapes:
            j = rng.randrange(len(shapes))
            k, sh = shapes[j]
            what = rng.choice(["yx", "ndim", "extra", "key", "negkey", "axis", "axis_hi"])
            if what == "yx":
                sh = list(sh)
                sh[axis + rng.randint(0, 1)] += rng.choice([-1, 1])
                sh = tuple(max(0, v) for v in sh)
            elif what == "ndim":
                sh = sh + (1,) if rng.random() < 0.5 else sh[1:]
            elif what == "extra" and (pre or post):
                sh = list(sh)
                pos = rng.choice([i for i in range(len(sh)) if i not in (axis, axis + 1)])
                sh[pos] += 1
                sh = tuple(sh)
            elif what == "key":
                k = (k[0] + len(chy), k[1]) if rng.random() < 0.5 else (k[0], len(chx))
            elif what == "negkey":
                k = (k[0] - len(chy), k[1] - len(chx))
            elif what == "axis":
                ax_used = max(0, axis - 1) if axis else 1
            elif what == "axis_hi":
                ax_used = axis + rng.randint(1, 2)
            shapes[j] = (k, tuple(sh))
        elif bad:
            ax_used = rng.choice([0, 1, 2])
        blocks = {k: np.zeros(sh, dtype="uint8") for k, sh in shapes}
        bl = list((k, sh) for k, sh in shapes)
        head = f"{cblocks(bl)} {clist(chy)} {clist(chx)} {cz(ax_used)}"
        t, kind = cres(clist, lambda: BlockAssembler(blocks, (chy, chx), axis=ax_used).shape)
        add("ba_init:" + kind, f"CBInit {head} {t}", (tuple(bl), chy, chx, ax_used), True,
            {"op": "BlockAssembler.shape", "blocks": [[list(k), list(s)] for k, s in bl], "chunks": [chy, chx],
             "axis": ax_used, "result": t} if li < 2 else None)
        if kind != "ok":
            continue
        ba = BlockAssembler(blocks, (chy, chx), axis=ax_used)
        for _ in range(4):
            roi = rand_roi(rng, ba.shape, ax_used, malformed=True)
            f = lambda v: ctuple(clist([(s.start, s.stop) for s in v[0]], cpair), clist(v[1]))
            t, kind = cres(f, lambda: ba._norm_roi(roi))
            add("ba_norm_roi:" + kind, f"CBNorm {head} {croi_opt(roi)} {t}", (tuple(bl), chy, chx, ax_used, enc(roi)))
            if kind == "ok" and blocks:
                # keep numpy's own broadcasting/indexing failures on the extra axes out of the comparison
                nroi, _ = ba._norm_roi(roi)
                if any(not (0 <= s.start <= s.stop <= n) for i, (s, n) in enumerate(zip(nroi, ba.shape))
                       if i not in (ax_used, ax_used + 1)):
                    out.count("ba_out_shape:skipped-extra-axis-out-of-range")
                    continue
            t, kind = cres(clist, lambda: ba.extract(roi=roi).shape)
            add("ba_out_shape:" + kind, f"CBOutShape {head} {croi_opt(roi)} {t}", (tuple(bl), chy, chx, ax_used, enc(roi)))

    # working dtype: every pair, random lists in every insertion order, each kind of fill value
    dts = list(DTYPES)
    lists = [()] + [(a,) for a in dts] + [(a, b) for a in dts for b in dts]
    for _ in range(120 if tier == "quick" else 1500):
        lists.append(tuple(rng.choice(dts) for _ in range(rng.randint(3, 5))))
    for di, dl in enumerate(lists):
        blocks = {(0, j): np.zeros((1, 1), dtype=d) for j, d in enumerate(dl)}
        ba = BlockAssembler(blocks, ((1,), (1,) * max(1, len(dl))))
        kind, fill = [("FillNone", None), ("FillInt", 7), ("FillFloat", 0.5), ("FillFloat", float("nan")),
                      ("FillInt", -1)][di % 5]
        if kind == "FillInt" and fill < 0 and any(d.startswith("u") for d in dl) and not any(
                d.startswith("i") or d.startswith("f") for d in dl):
            fill = 7
        try:
            got = ba.extract(fill).dtype
        except Exception:     # reported by the search (assembler_mixed); here the case simply differs from the model
            got = np.dtype("uint8") if ba.dtype != np.dtype("uint8") else np.dtype("int8")
        add("ba_dtype:" + kind, f"CBDtype {clist(dl, cdtype)} {kind} {cdtype(ba.dtype)} {cdtype(got)}",
            (dl, kind), len(set(dl)) > 1,
            {"op": "BlockAssembler.dtype", "block_dtypes": list(dl), "fill": repr(fill), "dtype": str(ba.dtype),
             "extract_dtype": str(got)} if di == 37 else None)

    # extract(fill, dtype=req): every requested dtype the blocks can be cast to, with every kind of fill value
    fills = [("FillNone", None), ("FillInt", 7), ("FillFloat", 77.0), ("FillFloat", 0.5), ("FillInt", np.int16(3)),
             ("FillFloat", np.float32(2.0))]
    qi = 0
    for bd in dts:
        for req in [None] + dts:
            if req is not None and not np.can_cast(bd, req, "same_kind"):
                continue
            qi += 1
            if tier == "quick" and qi % 2:
                continue
            kind, fill = fills[qi // 2 % len(fills)]
            ba = BlockAssembler({(0, 0): np.ones((1, 1), dtype=bd)}, ((1,), (1,)))
            try:
                got = ba.extract(fill, dtype=req).dtype
            except Exception:
                got = np.dtype("uint8") if np.dtype(req or bd) != np.dtype("uint8") else np.dtype("int8")
            creq = "None" if req is None else f"(Some {cdtype(req)})"
            add("ba_dtype_req:" + kind, f"CBDtypeReq [{cdtype(bd)}] {kind} {creq} {cdtype(got)}", (bd, req, kind, repr(fill)),
                True, None, judge=("assembler_options", ((1,), (1,)), (), (), [(0, 0)], bd, req,
                                   fill_spec(fill), None, qi))

    n_val = 150 if tier == "quick" else 1200
    for vi in range(n_val):
        chy, chx, pre, post, present, mode = rand_layout(rng)
        if vi % 7 == 0:
            chy = rand_chunks(rng, zero=True)
            keys = [(iy, ix) for iy in range(len(chy)) for ix in range(len(chx))]
            present = [k for k in keys if rng.random() < 0.7]
        if not present:
            pre, post = (), ()
        axis = len(pre)
        blocks = {k: block_val_array(k, pre, post, chy[k[0]], chx[k[1]]) for k in present}
        ba = BlockAssembler(blocks, (chy, chx), axis=axis)
        shape = ba.shape
        fill = rng.choice([-1, -7, 0])
        for _ in range(3):
            roi = tuple(rand_axis_slice(rng, n, allow_out=(i in (axis, axis + 1))) for i, n in enumerate(shape))
            if rng.random() < 0.3:
                roi = roi[axis:axis + 2]
            nroi, sq = ba._norm_roi(roi)
            if any(s.stop < s.start for s in nroi):
                continue
            try:
                res = ba.extract(fill, roi=roi, dtype="int64")
            except Exception as e:  # in-range window of a well-formed assembler: nothing may raise
                if not any(v["key"] == "c04:assembler-raises" for v in out.violations):
                    out.violation("c04:assembler-raises", f"extract(roi={roi}) raised {type(e).__name__}: {e}",
                                  {"predicate": "assembler",
                                   "args": enc([[chy, chx], pre, post, present, "int64", fill, roi, vi]),
                                   "observed": f"raised {type(e).__name__}: {e}"})
                add("ba_extract:raised", "CBExtract [] [] [] [] [] (((0)%Z, (0)%Z), ((0)%Z, (0)%Z)) (0)%Z (Err EOther)", (vi, enc(roi)))
                continue
            full = roi_shape(nroi)
            res = res.reshape(full)
            nd = len(full)
            order = [i for i in range(nd) if i not in (axis, axis + 1)] + [axis, axis + 1]
            flat = np.transpose(res, order).reshape(-1).tolist()
            es = [nroi[i].start for i in range(nd) if i not in (axis, axis + 1)]
            esh = [full[i] for i in range(nd) if i not in (axis, axis + 1)]
            w = (nroi[axis], nroi[axis + 1])
            text = (f"CBExtract {clist(chy)} {clist(chx)} {clist(present, cpair)} {clist(es)} {clist(esh)} "
                    f"{croi(w)} {cz(fill)} (Ok {clist(flat)})")
            add("ba_extract:" + mode, text, (chy, chx, tuple(present), tuple(es), tuple(esh), enc(w), fill), bool(flat),
                {"op": "BlockAssembler.extract", "chunks": [chy, chx], "present": present, "roi": enc(roi),
                 "fill": fill, "result_head": flat[:12]} if vi < 2 else None,
                judge=("assembler", (chy, chx), pre, post, present, "int64", fill, roi, vi))
    return cases


# ---------------------------------------------------------------- property predicates on the implementation
def _err(call):
    try:
        return ("ok", call())
    except (IndexError, ValueError, AssertionError, ZeroDivisionError, OverflowError) as e:
        return (type(e).__name__, None)


def _in(r, p):
    return r[0].start <= p[0] < r[0].stop and r[1].start <= p[1] < r[1].stop


def p_partition(base, how):
    """every pixel lies in exactly one tile, namely locate(pixel); tile_shape/chunks/shape/base agree with the regions"""
    T = mk_tiles(tuple(base), how)
    var = isinstance(how[0], (tuple, list))
    B = T.base.yx
    if not var and tuple(B) != tuple(base):
        return False, f"base {B} != {base}"
    S = T.shape.yx
    regions = {}
    for r in range(S[0]):
        for c in range(S[1]):
            ry, rx = T[r, c]
            regions[r, c] = (ry, rx)
            sh = T.tile_shape((r, c)).yx
            if (ry.stop - ry.start, rx.stop - rx.start) != tuple(sh):
                return False, f"tile_shape({r},{c})={sh} but region {ry},{rx}"
            if not (0 <= ry.start <= ry.stop <= B[0] and 0 <= rx.start <= rx.stop <= B[1]):
                return False, f"tile ({r},{c}) region {ry},{rx} leaves the rectangle {B}"
            if not var and (ry.stop <= ry.start or rx.stop <= rx.start):
                return False, f"empty tile ({r},{c}): {ry},{rx}"
    cover = np.zeros(B, dtype=np.int64)
    for (ry, rx) in regions.values():
        cover[ry, rx] += 1
    if (cover != 1).any():
        bad = np.argwhere(cover != 1)[0].tolist()
        return False, f"pixel {bad} is covered by {int(cover[tuple(bad)])} tiles"
    for y in range(B[0]):
        for x in range(B[1]):
            rc = T.locate((y, x))
            if rc not in regions or not _in(regions[rc], (y, x)):
                return False, f"locate({y},{x})={rc} but that tile covers {regions.get(rc)}"
    if S[0] and S[1]:
        ch = T.chunks
        want = (tuple(regions[r, 0][0].stop - regions[r, 0][0].start for r in range(S[0])),
                tuple(regions[0, c][1].stop - regions[0, c][1].start for c in range(S[1])))
        if (tuple(ch[0]), tuple(ch[1])) != want or sum(ch[0]) != B[0] or sum(ch[1]) != B[1]:
            return False, f"chunks={ch} regions give {want} base={B}"
    for p in [(-1, 0), (0, -1), (B[0], 0), (0, B[1])]:
        if _err(lambda: T.locate(p))[0] != "IndexError":
            return False, f"locate{p} outside the rectangle did not raise IndexError"
    return True, f"shape={S} base={B}"


def p_index(base, how, idx):
    """numpy-style tile indices: -S <= i < S valid (negative from the right), anything else IndexError"""
    T = mk_tiles(tuple(base), how)
    S = T.shape.yx
    valid = all(-n <= i < n for i, n in zip(idx, S))
    g = _err(lambda: T[tuple(idx)])
    s = _err(lambda: T.tile_shape(tuple(idx)).yx)
    c = _err(lambda: (lambda C: (tuple(C.shape.yx), tuple(C.base.yx)))(T.crop(tuple(idx))))
    if not valid:
        ok = g[0] == "IndexError" and s[0] == "IndexError"
        if any(i < -n for i, n in zip(idx, S)):
            # an index below -shape must not wrap around to some other tile
            ok = ok and c[0] == "IndexError"
        return ok, f"out of range index {idx} for shape {S}: getitem -> {g}, tile_shape -> {s}, crop -> {c}"
    pos = tuple(i % n for i, n in zip(idx, S))
    g2 = _err(lambda: T[pos])
    ok = g[0] == "ok" and g == g2 and s[0] == "ok" and \
        tuple(s[1]) == (g[1][0].stop - g[1][0].start, g[1][1].stop - g[1][1].start) and \
        c == ("ok", ((1, 1), tuple(s[1])))
    return ok, (f"index {idx} (normalised {pos}) for shape {S}: getitem -> {g}, normalised -> {g2}, "
                f"tile_shape -> {s}, crop (shape, base) -> {c}")


def ref_bounds(base, how):
    """tile boundaries per axis from first principles (no odc.geo code)"""
    if isinstance(how[0], (tuple, list)):
        return [[sum(ch[:i]) for i in range(len(ch) + 1)] for ch in how]
    out = []
    for N, n in zip(base, how):
        S = -(-N // n)
        out.append([min(i * n, N) for i in range(S + 1)])
    return out


def p_index_forms(base, how, rc):
    """the same tile (r, c) / pixel, given in every accepted form (tuple, iyx_, ixy_, Index2d, XY, int/slice mixes),
    must give the region, shape, GeoBox and locate result computed from first principles"""
    from odc.geo.geobox import GeoboxTiles
    r, c = rc
    T = mk_tiles(tuple(base), how)
    By, Bx = ref_bounds(base, how)
    Sy, Sx = len(By) - 1, len(Bx) - 1
    root = mk_root((By[-1], Bx[-1]))
    G = GeoboxTiles(root, how)
    inside = 0 <= r < Sy and 0 <= c < Sx
    if not inside:
        for name, f in index_forms(r, c).items():
            got = _err(lambda: T[f])
            empty_at_end = "slice" in name and isinstance(how[0], (tuple, list))
            if got[0] != "IndexError" and not empty_at_end:
                return False, f"tiles[{name} of {(r, c)}] outside the {(Sy, Sx)} grid -> {got}"
        return True, "outside"
    want = (By[r], By[r + 1], Bx[c], Bx[c + 1])
    wshape = (want[1] - want[0], want[3] - want[2])
    for name, f in index_forms(r, c).items():
        got = _err(lambda: T[f])
        if got[0] != "ok" or (got[1][0].start, got[1][0].stop, got[1][1].start, got[1][1].stop) != want:
            return False, f"tiles[{name} of {(r, c)}] -> {got}, tile {(r, c)} is rows {want[:2]} cols {want[2:]}"
        g = _err(lambda: gbox_desc(G[f], root))
        if g != ("ok", [want[0], want[2], wshape[0], wshape[1]]):
            return False, f"GeoboxTiles[{name} of {(r, c)}] sits at {g}, tile {(r, c)} is rows {want[:2]} cols {want[2:]}"
        bb = _err(lambda: tuple(G.pix_bbox(f).bbox))
        if bb != ("ok", (want[2], want[0], want[3], want[1])):
            return False, f"GeoboxTiles.pix_bbox({name} of {(r, c)}) = {bb}"
        if not isinstance(f, tuple):
            continue          # crop is declared for ROI tuples only (VariableSizedTiles.crop rejects Index2d/XY objects)
        cr = _err(lambda: tuple(T.crop(f).base.yx))
        if cr != ("ok", wshape):
            return False, f"tiles.crop({name} of {(r, c)}).base = {cr}, tile shape is {wshape}"
        gc = _err(lambda: gbox_desc(G.crop[f].base, root))
        if gc != ("ok", [want[0], want[2], wshape[0], wshape[1]]):
            return False, f"GeoboxTiles.crop[{name} of {(r, c)}].base sits at {gc}"
    ints = index_forms(r, c, ints_only=True)
    ints["numpy ints"] = (np.int64(r), np.int32(c))
    for name, f in ints.items():
        for what, call in (("tile_shape", lambda: tuple(T.tile_shape(f).yx)), ("chunk_shape", lambda: tuple(G.chunk_shape(f).yx))):
            got = _err(call)
            if got != ("ok", wshape):
                return False, f"{what}({name} of {(r, c)}) -> {got}, tile {(r, c)} has shape {wshape}"
    if wshape[0] > 0 and wshape[1] > 0:
        for (y, x) in {(want[0], want[2]), (want[1] - 1, want[3] - 1), (want[0], want[3] - 1)}:
            pix = index_forms(y, x, ints_only=True)
            pix["numpy ints"] = (np.int64(y), np.int32(x))
            for name, f in pix.items():
                got = _err(lambda: tuple(int(v) for v in T.locate(f)))
                if got != ("ok", (r, c)):
                    return False, f"locate({name} of pixel {(y, x)}) -> {got}, the pixel lies in tile {(r, c)}"
    return True, f"tile {(r, c)} = rows {want[:2]} cols {want[2:]}"


def p_no_mutation(base, how, block, sel, form):
    """no operation modifies its arguments (chunk lists, selections, windows) or the tiling it is called on, and
    repeating a call gives the same answer"""
    from odc.geo.geobox import GeoboxTiles
    from odc.geo.roi import clip_tiles
    var = isinstance(how[0], (tuple, list))
    how_m = [list(h) for h in how] if var else list(how)          # mutable spellings of the arguments
    base_m = list(base)
    (a, b), (c, d) = block
    roi = (slice(a, b), slice(c, d))
    arg = sel_in_form(sel, form)
    try:
        T = frozen("roi_tiles", lambda: mk_tiles(base_m, how_m), shape=base_m, how=how_m)
        desc0 = tiles_desc(T)
        first = None
        for rep in (1, 2):
            got = [
                canon_arg(frozen("tiles[roi]", lambda: T[roi], roi=roi)),
                tiles_desc(frozen("tiles.crop", lambda: T.crop(roi), roi=roi)),
                canon_arg(T.chunks), tuple(T.shape.yx), tuple(T.base.yx),
                canon_arg(frozen("tile_shape", lambda: tuple(T.tile_shape((a, c)).yx))),
                canon_arg(tuple(int(v) for v in T.locate((T[a, c][0].start, T[a, c][1].start)))),
            ]
            Cc, r_, n_ = frozen("clip_tiles", lambda: clip_tiles(T, arg), selection=arg)
            got += [tiles_desc(Cc), canon_arg(r_), sel_as_list(n_)]
            if tiles_desc(T) != desc0:
                return False, f"the tiling changed state after lookup/crop/clip calls: {desc0} -> {tiles_desc(T)}"
            if canon_arg((base_m, how_m)) != canon_arg((list(base), [list(h) for h in how] if var else list(how))):
                return False, f"constructor arguments modified: shape {base_m}, how {how_m}"
            if first is None:
                first = got
            elif got != first:
                k = [i for i, (x, y) in enumerate(zip(first, got)) if x != y][0]
                return False, f"the same calls repeated on the same tiling give a different answer (item {k}): {got[k]} vs {first[k]}"
        root = mk_root(T.base.yx)
        G = frozen("GeoboxTiles", lambda: GeoboxTiles(root, how_m), how=how_m)
        g1 = frozen("GeoboxTiles.crop", lambda: G.crop[roi], roi=roi)
        c1 = frozen("GeoboxTiles.clip", lambda: G.clip(arg), selection=arg)
        c2 = frozen("GeoboxTiles.clip (second call)", lambda: G.clip(arg), selection=arg)
        if (tiles_desc(c1[0].roi), gbox_desc(c1[0].base, root), sel_as_list(c1[1])) != \
                (tiles_desc(c2[0].roi), gbox_desc(c2[0].base, root), sel_as_list(c2[1])):
            return False, f"GeoboxTiles.clip of the same selection {sel_as_list(arg)} twice gives different results"
        if tiles_desc(G.roi) != tiles_desc(mk_tiles(tuple(base), how)) or gbox_desc(G.base, root) != [0, 0, *T.base.yx]:
            return False, "GeoboxTiles changed state after crop/clip"
        del g1
    except ArgsChanged as e:
        return False, str(e)
    return True, "arguments and tilings unchanged"


def p_block(base, how, block):
    """tiles[a:b, c:d] is the union of the selected tiles; a selection reaching beyond the grid raises IndexError"""
    (a, b), (c, d) = block
    T = mk_tiles(tuple(base), how)
    S = T.shape.yx
    var = isinstance(how[0], (tuple, list))
    got = _err(lambda: T[a:b, c:d])
    if b > S[0] or d > S[1] or a > S[0] or c > S[1]:
        return got[0] == "IndexError", f"tiles[{a}:{b},{c}:{d}] on a {S} grid -> {got}"
    if (a == S[0] or c == S[1]) and not var:
        return True, "empty selection at the very end of a regular tiling: IndexError by design"
    if got[0] != "ok":
        return False, f"tiles[{a}:{b},{c}:{d}] on a {S} grid -> {got}"
    ry, rx = got[1]
    B = T.base.yx
    want = []
    for (lo, hi, ax) in ((a, b, 0), (c, d, 1)):
        if lo < hi:
            first = T[(lo, 0)][0] if ax == 0 else T[(0, lo)][1]
            last = T[(hi - 1, 0)][0] if ax == 0 else T[(0, hi - 1)][1]
            want.append((first.start, last.stop))
        else:
            st = (T[(lo, 0)][0] if ax == 0 else T[(0, lo)][1]).start if lo < S[ax] else B[ax]
            want.append((st, st))
    ok = [(ry.start, ry.stop), (rx.start, rx.stop)] == want
    return ok, f"tiles[{a}:{b},{c}:{d}] = {(ry, rx)}, tiles give {want}"


def p_locate_roundtrip(base, how, pix):
    """usable for huge sizes: locate(pix) is a valid index and its region contains pix"""
    T = mk_tiles(tuple(base), how)
    S, B = T.shape.yx, T.base.yx
    want = (sum(how[0]), sum(how[1])) if isinstance(how[0], (tuple, list)) else tuple(base)
    if tuple(B) != want:
        return False, f"base {B} but the tiled rectangle is {want}"
    if not (0 <= pix[0] < B[0] and 0 <= pix[1] < B[1]):
        return True, "pixel outside the rectangle"
    rc = T.locate(tuple(pix))
    if not (0 <= rc[0] < S[0] and 0 <= rc[1] < S[1]):
        return False, f"locate{tuple(pix)}={rc} is not an index of a {S} tiling (base {B})"
    r = T[rc]
    sh = T.tile_shape(rc).yx
    ok = _in(r, pix) and tuple(sh) == (r[0].stop - r[0].start, r[1].stop - r[1].start)
    return ok, f"locate{tuple(pix)}={rc} region={r} tile_shape={sh} shape={S} base={B}"


def p_crop(base, how, block):
    """crop to tiles [r0:r1, c0:c1] = tiling of the cropped rectangle, indices shifted by (r0, c0)"""
    (r0, r1), (c0, c1) = block
    T = mk_tiles(tuple(base), how)
    roi = (slice(r0, r1), slice(c0, c1))
    whole = T[roi]
    C = T.crop(roi)
    oy, ox = whole[0].start, whole[1].start
    if tuple(C.shape.yx) != (r1 - r0, c1 - c0):
        return False, f"crop{block} has shape {C.shape.yx}"
    if tuple(C.base.yx) != (whole[0].stop - oy, whole[1].stop - ox):
        return False, f"crop{block} has base {C.base.yx} but region is {whole}"
    for i in range(r1 - r0):
        for j in range(c1 - c0):
            a, b = C[i, j], T[r0 + i, c0 + j]
            if (a[0].start + oy, a[0].stop + oy, a[1].start + ox, a[1].stop + ox) != \
                    (b[0].start, b[0].stop, b[1].start, b[1].stop):
                return False, f"crop{block}[{i},{j}]={a} + origin ({oy},{ox}) != tiles[{r0 + i},{c0 + j}]={b}"
            if tuple(C.tile_shape((i, j)).yx) != tuple(T.tile_shape((r0 + i, c0 + j)).yx):
                return False, f"tile_shape differs at [{i},{j}]"
    ok, why = p_partition(C.base.yx, C.chunks if (r1 > r0 and c1 > c0) else ((), ())) \
        if isinstance(how[0], (tuple, list)) else (True, "")
    return ok, why or f"crop{block} ok"


def p_clip(base, how, sel, form="list"):
    """clip to a selection = crop to its bounding block with re-based indices; the selection may be a list, a tuple
    or an integer ndarray (np.argwhere output, int32/int64, read-only); it is not modified, and using the same
    selection object again (second clip, second tiling, GeoboxTiles.clip) gives the same answer"""
    from odc.geo.geobox import GeoboxTiles
    from odc.geo.roi import clip_tiles
    T = mk_tiles(tuple(base), how)
    arg = sel_in_form(sel, form)
    sel = sel_as_list(arg)                      # pristine copy: what the caller asked for
    want_roi = (min(s[0] for s in sel), max(s[0] for s in sel) + 1, min(s[1] for s in sel), max(s[1] for s in sel) + 1)
    r0, c0 = want_roi[0], want_roi[2]
    desc0 = tiles_desc(T)
    try:
        C, roi, new = frozen("clip_tiles", lambda: clip_tiles(T, arg), selection=arg)
        C2, roi2, new2 = frozen("clip_tiles (second call)", lambda: clip_tiles(T, arg), selection=arg)
        T2 = mk_tiles(tuple(base), how)
        C3, roi3, new3 = frozen("clip_tiles (second tiling)", lambda: clip_tiles(T2, arg), selection=arg)
    except ArgsChanged as e:
        return False, f"selection {sel} given as {form}: {e}"
    if tiles_desc(T) != desc0:
        return False, "clip_tiles changed the tiling it was applied to"
    new_raw, seen = list(new), []
    new = sel_as_list(new)
    if (roi[0].start, roi[0].stop, roi[1].start, roi[1].stop) != want_roi:
        return False, f"roi {roi} is not the bounding block of {sel} (given as {form})"
    for what, (Cn, roin, newn) in (("second call", (C2, roi2, new2)), ("second tiling", (C3, roi3, new3))):
        if canon_arg((roin, sel_as_list(newn), tiles_desc(Cn))) != canon_arg((roi, new, tiles_desc(C))):
            return False, (f"the same selection {sel} (given as {form}) clipped again ({what}) gives roi {roin}, "
                           f"indices {sel_as_list(newn)} instead of {roi}, {new}")
    if len(new) != len(sel):
        return False, "selection length changed"
    whole = T[roi]
    oy, ox = whole[0].start, whole[1].start
    root = mk_root(T.base.yx)
    G = GeoboxTiles(root, how)
    try:
        GC, gnew = frozen("GeoboxTiles.clip", lambda: G.clip(arg), selection=arg)
    except ArgsChanged as e:
        return False, f"selection {sel} given as {form}: {e}"
    graw = list(gnew)
    if sel_as_list(gnew) != new:
        return False, f"GeoboxTiles.clip indices {sel_as_list(gnew)} != clip_tiles indices {new} for {sel} (given as {form})"
    if gbox_desc(GC.base, root) != [oy, ox, whole[0].stop - oy, whole[1].stop - ox]:
        return False, f"GeoboxTiles.clip of {sel}: base sits at {gbox_desc(GC.base, root)}, block region is {whole}"
    for (r, c), (i, j) in zip(sel, new):
        if (i, j) != (r - r0, c - c0):
            return False, f"index {(r, c)} re-based to {(i, j)} with block origin {(r0, c0)}"
        a, b = C[i, j], T[r, c]
        raw = tuple(new_raw[len(seen)])          # the index exactly as clip_tiles returned it (numpy ints for ndarrays)
        seen.append(raw)
        if _err(lambda: C[raw]) != ("ok", a) or _err(lambda: tuple(C.tile_shape(raw).yx))[0] != "ok" or \
                _err(lambda: GC[tuple(graw[len(seen) - 1])]) != ("ok", GC[i, j]):
            return False, (f"the index {raw!r} returned by clip_tiles for {(r, c)} (selection given as {form}) "
                           f"cannot be used on the clipped tiling: {_err(lambda: C[raw])}")
        if (a[0].start + oy, a[0].stop + oy, a[1].start + ox, a[1].stop + ox) != \
                (b[0].start, b[0].stop, b[1].start, b[1].stop):
            return False, f"clipped[{i},{j}]={a} + origin ({oy},{ox}) != tiles[{r},{c}]={b}"
        if GC[i, j] != G[r, c]:
            return False, f"GeoboxTiles.clip: tile {(i, j)} of the clipped grid is {GC[i, j]!r}, expected {G[r, c]!r}"
    return True, f"roi={roi} new={new}"


def p_geoboxtiles(base, how):
    """tile (r,c) of a tiled GeoBox is the parent cropped to Tiles[r,c]; crop keeps absolute positions"""
    from odc.geo.geobox import GeoboxTiles
    T = mk_tiles(tuple(base), how)
    root = mk_root(T.base.yx)
    G = GeoboxTiles(root, how)
    S = T.shape.yx
    if tuple(G.shape.yx) != tuple(S):
        return False, f"shape {G.shape} vs {S}"
    if S[0] and S[1] and (tuple(map(tuple, G.chunks)) != tuple(map(tuple, T.chunks))):
        return False, "chunks differ"
    for r in range(S[0]):
        for c in range(S[1]):
            g = G[r, c]
            if g != root[T[r, c]]:
                return False, f"G[{r},{c}]={g!r} != base[{T[r, c]}]"
            if tuple(g.shape) != tuple(G.chunk_shape((r, c)).yx):
                return False, f"chunk_shape({r},{c})={G.chunk_shape((r, c))} but tile has shape {g.shape}"
            d = gbox_desc(g, root)
            ry, rx = T[r, c]
            if d != [ry.start, rx.start, ry.stop - ry.start, rx.stop - rx.start]:
                return False, f"G[{r},{c}] sits at {d}, region is {ry},{rx}"
    for r0 in range(S[0]):
        for c0 in range(S[1]):
            r1, c1 = min(S[0], r0 + 2), min(S[1], c0 + 3)
            GC = G.crop[r0:r1, c0:c1]
            if tuple(GC.shape.yx) != (r1 - r0, c1 - c0):
                return False, f"crop[{r0}:{r1},{c0}:{c1}] has shape {GC.shape}"
            if GC.base != root[T[r0:r1, c0:c1]]:
                return False, f"crop[{r0}:{r1},{c0}:{c1}].base = {GC.base!r}"
            for i in range(r1 - r0):
                for j in range(c1 - c0):
                    if GC[i, j] != G[r0 + i, c0 + j]:
                        return False, f"crop[{r0}:{r1},{c0}:{c1}][{i},{j}]={GC[i, j]!r} != G[{r0 + i},{c0 + j}]={G[r0 + i, c0 + j]!r}"
    return True, f"shape={S}"


def build_mosaic(chunks, pre, post, blocks, fill, dtype):
    """reference: numpy pastes every present block at its offset into a fill-initialised array"""
    chy, chx = chunks
    oy = [sum(chy[:i]) for i in range(len(chy) + 1)]
    ox = [sum(chx[:i]) for i in range(len(chx) + 1)]
    full = np.full((*pre, oy[-1], ox[-1], *post), fill, dtype=dtype)
    a = len(pre)
    for (iy, ix), b in blocks.items():
        sl = (slice(None),) * a + (slice(oy[iy], oy[iy + 1]), slice(ox[ix], ox[ix + 1]))
        full[sl] = b
    return full


def ref_roi(roi, shape, axis):
    """the numpy index selecting the same window: BlockAssembler keeps the Y/X axes when they are
    indexed with an int (documented: only non Y/X axes are squeezed)"""
    if roi is None:
        return None
    items = roi if isinstance(roi, tuple) else (roi,)
    yx = (0, 1) if len(items) == 2 else (axis, axis + 1)
    dims = (shape[axis], shape[axis + 1]) if len(items) == 2 else shape
    outl = []
    for k, it in enumerate(items):
        if k in yx and not isinstance(it, slice):
            n = dims[k]
            it = slice(it % n, it % n + 1)
        outl.append(it)
    if len(items) == 2:
        return (slice(None),) * axis + tuple(outl)
    return tuple(outl)


def p_assembler(chunks, pre, post, present, dtype, fill, roi, seed):
    from odc.geo._blocks import BlockAssembler
    chy, chx = (tuple(c) for c in chunks)
    present = [tuple(k) for k in present]
    pre, post = (tuple(pre), tuple(post)) if present else ((), ())
    r = np.random.RandomState(seed)
    blocks = {}
    for k in present:
        sh = (*pre, chy[k[0]], chx[k[1]], *post)
        blocks[k] = (r.randint(1, 100, size=sh)).astype(dtype)
    axis = len(pre)
    if seed % 3 == 0:        # block keys / int window items as numpy integers (np.argwhere, clip_tiles of an ndarray)
        npi = [np.int64, np.int32, np.uint8][seed // 3 % 3]
        blocks = {(npi(k[0]), npi(k[1])): b for k, b in blocks.items()}
        if isinstance(roi, tuple):
            roi = tuple(np.int64(v) if isinstance(v, int) and not isinstance(v, bool) else v for v in roi)
        elif isinstance(roi, int):
            roi = np.int64(roi)
    chunks_m = [list(chy), list(chx)]              # the arguments in mutable spellings: none may be modified
    odt = dtype if blocks else "float32"
    fillv = np.dtype(odt).type(fill)
    ref = build_mosaic((chy, chx), pre if blocks else (), post if blocks else (), blocks, fillv, odt)
    try:
        ba = frozen("BlockAssembler()", lambda: BlockAssembler(blocks, chunks_m, axis=axis), blocks=blocks, chunks=chunks_m)
        got = frozen("BlockAssembler.extract", lambda: ba.extract(fillv, roi=roi, dtype=odt), blocks=blocks,
                     chunks=chunks_m, roi=roi)
        again = frozen("BlockAssembler.extract", lambda: ba.extract(fillv, roi=roi, dtype=odt), blocks=blocks, roi=roi)
    except ArgsChanged as e:
        return False, str(e)
    if blocks and ba.shape != (*pre, sum(chy), sum(chx), *post):
        return False, f"shape {ba.shape}"
    if canon_arg(again) != canon_arg(got):
        return False, f"extract(roi={roi}) called twice on the same assembler gives different arrays"
    snap = canon_arg(blocks)
    got[...] = fillv                     # the result is the caller's: writing to it must not reach the blocks
    if canon_arg(blocks) != snap or canon_arg(ba.extract(fillv, roi=roi, dtype=odt)) != canon_arg(again):
        return False, "writing into the array returned by extract changed what the assembler returns next"
    got = again
    nroi = ref_roi(roi, ref.shape, axis if blocks else 0)
    want = ref[nroi] if roi is not None else ref
    if got.shape != want.shape or got.dtype != want.dtype or not np.array_equal(got, want):
        where = ""
        if got.shape == want.shape:
            bad = np.argwhere(got != want)
            where = f" first difference at {bad[0].tolist()}: got {got[tuple(bad[0])]} want {want[tuple(bad[0])]}"
        return False, f"extract(roi={roi}) shape {got.shape} vs mosaic window {want.shape}{where}"
    # default fill: 0 for integers, nan for floats; __getitem__; every Y/X plane
    if blocks:
        got = ba[roi] if roi is not None else ba.extract()
        dflt = np.nan if np.issubdtype(np.dtype(dtype), np.floating) else 0
        ref0 = build_mosaic((chy, chx), pre, post, blocks, dflt, dtype)
        want = ref0[nroi] if roi is not None else ref0
        if got.shape != want.shape or not np.array_equal(got, want, equal_nan=np.issubdtype(np.dtype(dtype), np.floating)):
            return False, f"ba[{roi}] differs from the mosaic window with the default fill"
        for plane in ba.planes_yx():
            if not np.array_equal(ba.extract(fillv, roi=plane), ref[plane]):
                return False, f"plane {plane} differs"
    return True, f"shape={ba.shape} roi={roi}"


def fill_spec(fill):
    """JSON-able description of a fill value: how it was spelled matters (python float vs numpy scalar)"""
    if fill is None:
        return ["none"]
    if isinstance(fill, np.generic):
        return ["np", str(fill.dtype), fill.item()]
    if isinstance(fill, float):
        return ["nan"] if fill != fill else ["float", fill]
    return ["int", int(fill)]


def fill_from_spec(spec):
    if spec[0] == "none":
        return None
    if spec[0] == "nan":
        return float("nan")
    if spec[0] == "np":
        return np.dtype(spec[1]).type(spec[2])
    return float(spec[1]) if spec[0] == "float" else int(spec[1])


def p_assembler_options(chunks, pre, post, present, block_dtype, req_dtype, fspec, roi, seed):
    """extract(fill_value, dtype=...) for every pair of options: an explicitly requested dtype is the dtype of the
    result whatever the fill value; without one a floating fill value upgrades an integer mosaic to float64; the pixels
    are the window of the mosaic held in that dtype with that fill (default: nan for floats, 0 otherwise)"""
    from odc.geo._blocks import BlockAssembler
    chy, chx = (tuple(c) for c in chunks)
    present = [tuple(k) for k in present]
    pre, post = tuple(pre), tuple(post)
    r = np.random.RandomState(seed)
    blocks = {k: r.randint(1, 100, size=(*pre, chy[k[0]], chx[k[1]], *post)).astype(block_dtype) for k in present}
    fill = fill_from_spec(fspec)
    ba = BlockAssembler(blocks, (chy, chx), axis=len(pre))
    working = np.dtype(block_dtype)
    if req_dtype is not None:
        want_dt = np.dtype(req_dtype)
    elif fill is not None and np.dtype(type(fill) if isinstance(fill, np.generic) else np.min_scalar_type(fill)).kind == "f" \
            and working.kind != "f":
        want_dt = np.dtype("float64")
    else:
        want_dt = working
    fillv = fill if fill is not None else (np.nan if want_dt.kind == "f" else 0)
    got = ba.extract(fill, dtype=req_dtype, roi=roi)
    ref = np.full((*pre, sum(chy), sum(chx), *post), fillv, dtype=want_dt)
    oy = [sum(chy[:i]) for i in range(len(chy) + 1)]
    ox = [sum(chx[:i]) for i in range(len(chx) + 1)]
    for (iy, ix), b in blocks.items():
        ref[(slice(None),) * len(pre) + (slice(oy[iy], oy[iy + 1]), slice(ox[ix], ox[ix + 1]))] = b
    want = ref[ref_roi(roi, ref.shape, len(pre))] if roi is not None else ref
    call = f"extract({fill!r}, dtype={req_dtype!r}, roi={roi}) on {block_dtype} blocks"
    if got.dtype != want_dt:
        return False, f"{call} returned dtype {got.dtype}, expected {want_dt}"
    if got.shape != want.shape or not np.array_equal(got, want, equal_nan=(want_dt.kind == "f")):
        return False, f"{call}: pixels differ from the {want_dt} mosaic window (shape {got.shape} vs {want.shape})"
    return True, f"{call} -> {got.dtype}{got.shape}"


def p_assembler_bad_step(chunks, present, roi):
    """a window with a zero or negative step is rejected (ValueError), never answered with other pixels"""
    from odc.geo._blocks import BlockAssembler
    chy, chx = (tuple(c) for c in chunks)
    blocks = {tuple(k): np.full((chy[k[0]], chx[k[1]]), 1 + k[0] * 7 + k[1], dtype="int16") for k in present}
    ba = BlockAssembler(blocks, (chy, chx))
    got = _err(lambda: ba.extract(0, roi=roi))
    if got[0] == "ValueError":
        return True, "rejected"
    ref = build_mosaic((chy, chx), (), (), blocks, 0, "int16")
    try:
        want = ref[roi]
    except Exception:
        want = None
    ok = got[0] == "ok" and want is not None and got[1].shape == want.shape and np.array_equal(got[1], want)
    return ok, f"extract(roi={roi}) -> {got[0]} shape {getattr(got[1], 'shape', None)}; numpy gives {None if want is None else want.shape}"


def limit_values(dtype, shape, r):
    """values at and near the limits of the dtype (plus a few ordinary ones)"""
    dt = np.dtype(dtype)
    if dt.kind == "f":
        fi = np.finfo(dt)
        pool = [fi.max, -fi.max, fi.tiny, 0.1, -2.5, 1.0 + fi.eps, 0.0, 12345.678]
    else:
        ii = np.iinfo(dt)
        pool = [ii.max, ii.max - 1, ii.min, ii.min + 1, 0, 1, ii.max // 2 + 1, 200]
        pool = [v for v in pool if ii.min <= v <= ii.max]
    a = np.array(pool, dtype=dt)
    return a[r.randint(0, len(a), size=shape)]


def p_assembler_mixed(chunks, pre, post, order, fill, roi, seed):
    """blocks of different dtypes, inserted in `order` = [(key, dtype), ...], values at the dtype limits:
    the result must be the window of the mosaic held in the promoted dtype np.result_type(all blocks), exactly"""
    from odc.geo._blocks import BlockAssembler
    chy, chx = (tuple(c) for c in chunks)
    pre, post = tuple(pre), tuple(post)
    order = [(tuple(k), d) for k, d in order]
    r = np.random.RandomState(seed)
    data = {k: limit_values(d, (*pre, chy[k[0]], chx[k[1]], *post), r) for k, d in sorted(order)}
    blocks = {k: data[k] for k, _ in order}         # dict order = insertion order under test
    axis = len(pre)
    ba = BlockAssembler(blocks, (chy, chx), axis=axis)
    want_dt = np.result_type(*[b.dtype for b in blocks.values()])
    dt_note = ""
    if ba.dtype != want_dt:
        dt_note = f"dtype {ba.dtype} but the blocks {[str(b.dtype) for b in blocks.values()]} need {want_dt}; "
    if fill is None:
        fillv = np.nan if want_dt.kind == "f" else 0
        got = ba.extract(roi=roi)
    else:
        fillv = want_dt.type(fill)
        got = ba.extract(fillv, roi=roi)
    ref = build_mosaic((chy, chx), pre, post, blocks, fillv, want_dt)
    want = ref[ref_roi(roi, ref.shape, axis)] if roi is not None else ref
    if got.dtype != want_dt:
        dt_note += f"extract gave dtype {got.dtype}, the promoted dtype of the blocks is {want_dt}; "
    if got.shape != want.shape or not np.array_equal(got, want, equal_nan=(want_dt.kind == "f")):
        where = ""
        if got.shape == want.shape:
            bad = np.argwhere(~((got == want) | ((got != got) & (want != want))))
            where = f": first difference at {bad[0].tolist()}: got {got[tuple(bad[0])]!r} want {want[tuple(bad[0])]!r}"
        return False, (f"{dt_note}blocks {[(k, str(b.dtype)) for k, b in blocks.items()]} (insertion order): "
                       f"extract(roi={roi}) is not the window of the {want_dt} mosaic{where}")
    if dt_note:
        return False, dt_note
    return True, f"dtype={want_dt} shape={got.shape}"


PREDICATES = {"assembler_options": p_assembler_options, "assembler_bad_step": p_assembler_bad_step,
              "no_mutation": p_no_mutation, "assembler_mixed": p_assembler_mixed, "index_forms": p_index_forms, "partition": p_partition, "index": p_index, "block": p_block, "locate_roundtrip": p_locate_roundtrip, "crop": p_crop,
              "clip": p_clip, "geoboxtiles": p_geoboxtiles, "assembler": p_assembler}


def make_runner(out):
    found = {}

    def run(name, *args):
        try:
            ok, detail = PREDICATES[name](*args)
        except Exception as e:  # inside the property's domain nothing may raise
            ok, detail = False, f"raised {type(e).__name__}: {e}"
        out.count("predicate:" + name)
        out.case(("pred", name, enc(args)), True)
        if not ok and name not in found:
            found[name] = True
            out.violation(f"c04:{name}", f"{name}{enc(args)}: {detail}",
                          {"predicate": name, "args": enc(list(args)), "observed": detail})
        return ok

    return run


def search(out, tier, run):
    rng = core.rng("c04-search")

    for rp in core.corpus(ID):
        run(rp["predicate"], *[dec(a) for a in rp["args"]])

    nmax = 8 if tier == "quick" else 11
    layouts = []
    k = 0
    for N in range(1, nmax + 1):
        for n in range(1, N + 2):
            M, m = [(5, 2), (1, 1), (7, 3), (4, 4), (6, 7)][k % 5]
            k += 1
            layouts.append(((N, M), (n, m)) if k % 2 else ((M, N), (m, n)))
    tmax = 5 if tier == "quick" else 7
    others = [(2, 3), (1,), (4, 1, 2), (1, 1, 1)]
    for total in range(1, tmax + 1):
        for comp in compositions(total):
            oc = others[k % len(others)]
            k += 1
            how = (comp, oc) if k % 2 else (oc, comp)
            layouts.append(((sum(how[0]), sum(how[1])), how))
    for base, how in layouts:
        run("partition", base, how)
        S = mk_tiles(base, how).shape.yx
        cells = [(r, c) for r in range(S[0]) for c in range(S[1])]
        for rc in (cells if len(cells) <= 6 else rng.sample(cells, 6)) + [(S[0], 0), (0, S[1]), (S[0] - 1, S[1])]:
            run("index_forms", base, how, rc)
        for i in range(-S[0] - 2, S[0] + 2):
            run("index", base, how, (i, rng.randint(-S[1], S[1] - 1)))
        for j in range(-S[1] - 2, S[1] + 2):
            run("index", base, how, (rng.randint(-S[0], S[0] - 1), j))
        for a in range(0, S[0] + 2):
            for b in range(a, S[0] + 3):
                c = rng.randint(0, S[1] - 1)
                run("block", base, how, ((a, b), (c, rng.randint(c, S[1]))))
        for c in range(0, S[1] + 2):
            for d in range(c, S[1] + 3):
                a = rng.randint(0, S[0] - 1)
                run("block", base, how, ((a, rng.randint(a, S[0])), (c, d)))
        blocks = [((r0, r1), (c0, c1)) for r0 in range(S[0]) for r1 in range(r0 + 1, S[0] + 1)
                  for c0 in range(S[1]) for c1 in range(c0 + 1, S[1] + 1)]
        if len(blocks) > 12:
            blocks = rng.sample(blocks, 12)
        for b in blocks:
            run("crop", base, how, b)
        for q in range(4):
            lo = (rng.randint(0, S[0] - 1) if q % 2 else min(1, S[0] - 1), rng.randint(0, S[1] - 1) if q % 2 else min(1, S[1] - 1))
            sel = [(rng.randint(lo[0], S[0] - 1), rng.randint(lo[1], S[1] - 1)) for _ in range(rng.randint(1, 4))]
            form = SEL_FORMS[(len(sel) + q + S[0] + S[1]) % len(SEL_FORMS)]
            run("clip", base, how, sel, form)
            if q == 0:
                blk = rng.choice(blocks) if blocks else ((0, 1), (0, 1))
                run("no_mutation", base, how, blk, sel, SEL_FORMS[(q + S[0] * 3 + S[1]) % len(SEL_FORMS)])
    for base, how in (layouts if tier != "quick" else layouts[::4]):
        run("geoboxtiles", base, how)
    # large sizes: tile counts beyond float precision, offsets beyond int32
    for _ in range(40 if tier == "quick" else 400):
        N = rng.choice([2 ** 31, 2 ** 53, 2 ** 60]) + rng.randint(-3, 3)
        n = rng.choice([1, 2, 3, 7, 2 ** 20 + 1, N - 1, N, N + 1])
        p = rng.choice([0, N - 1, N - 2, (N // n) * n - 1, min(N - 1, (N // n) * n), rng.randint(0, N - 1)])
        if rng.random() < 0.5:
            run("locate_roundtrip", (N, 3), (n, 2), (p, 1))
        else:
            run("locate_roundtrip", (3, N), (2, n), (1, p))
        parts = [rng.randint(1, 2 ** 31) for _ in range(rng.randint(2, 4))]
        q = rng.choice([sum(parts) - 1, parts[0], parts[0] - 1, sum(parts[:2]), rng.randint(0, sum(parts) - 1)])
        run("locate_roundtrip", (0, 0), (tuple(parts), (1, 2)), (q, 2))
        run("index", (0, 0), (tuple(parts), (1, 2)), (rng.randint(-len(parts) - 2, len(parts) + 1), rng.randint(-3, 2)))
    # block assembly against numpy
    dtypes = ["uint8", "int16", "int32", "float32", "float64", "uint16"]
    for i in range(250 if tier == "quick" else 2500):
        chy, chx, pre, post, present, mode = rand_layout(rng)
        shape = (*pre, sum(chy), sum(chx), *post) if present else (sum(chy), sum(chx))
        axis = len(pre) if present else 0
        r = rng.random()
        if r < 0.1:
            roi = None
        elif r < 0.55:
            roi = (rand_axis_slice(rng, shape[axis], allow_out=False), rand_axis_slice(rng, shape[axis + 1], allow_out=False))
        else:
            roi = tuple(rand_axis_slice(rng, n, allow_out=False) for n in shape)
        dtype = rng.choice(dtypes)
        fill = rng.choice([0, 101, 255] if dtype == "uint8" else [0, -1, 101, 255])
        if dtype.startswith("u") and fill < 0:
            fill = 0
        run("assembler", (chy, chx), pre, post, present, dtype, fill, roi, i)
    # windows with steps (positive on any axis: numpy semantics; zero/negative: rejected)
    def stepped(item, n):
        if isinstance(item, slice) and rng.random() < 0.7:
            return slice(item.start, item.stop, rng.choice([1, 2, 2, 3, n + 1]))
        return item

    for i in range(60 if tier == "quick" else 600):
        chy, chx, pre, post, present, mode = rand_layout(rng)
        shape = (*pre, sum(chy), sum(chx), *post) if present else (sum(chy), sum(chx))
        axis = len(pre) if present else 0
        if i % 2:
            roi = tuple(stepped(rand_axis_slice(rng, n, allow_out=False), n) for n in (shape[axis], shape[axis + 1]))
        else:
            roi = tuple(stepped(rand_axis_slice(rng, n, allow_out=False), n) for n in shape)
        run("assembler", (chy, chx), pre, post, present, rng.choice(dtypes), 0, roi, 1000 + i)
        if i % 6 == 0:
            bad = (slice(None, None, rng.choice([-1, -2, 0])), slice(0, sum(chx))) if i % 12 else \
                (slice(0, sum(chy)), slice(sum(chx), None, -1))
            run("assembler_bad_step", (chy, chx), [k for k in present], bad)
    # extract(fill, dtype=...): option pairs
    spellings = [None, 0, -9999, -9999.0, 0.5, float("nan"), np.int16(-5), np.float32(1.0), np.float64(-9999.0)]
    for i in range(80 if tier == "quick" else 800):
        chy, chx, pre, post, present, mode = rand_layout(rng)
        bd = rng.choice(DTYPES)
        reqs = [None] + [d for d in DTYPES if np.can_cast(bd, d, "same_kind")]
        req = reqs[i % len(reqs)]
        out_dt = np.dtype(req or bd)
        fill = spellings[(i // 2) % len(spellings)]
        if fill is not None and out_dt.kind != "f":
            if isinstance(fill, float) and (fill != fill or fill != int(fill)) and req is not None:
                fill = -9999.0        # a non-integral/nan fill cannot be stored in a requested integer dtype
            if out_dt.kind == "u" or out_dt.itemsize == 1:
                fill = type(fill)(abs(fill) % 100) if not isinstance(fill, np.generic) and fill == fill else fill
                if isinstance(fill, np.generic):
                    fill = 7.0 if fill.dtype.kind == "f" else 7
        if not present:
            pre, post = (), ()
            bd = "float32" if req is None else bd
        shape = (*pre, sum(chy), sum(chx), *post)
        roi = None if i % 3 else tuple(rand_axis_slice(rng, n, allow_int=False, allow_out=False) for n in shape)
        if not present and req is None and fill is not None and not (isinstance(fill, float) or getattr(fill, "dtype", np.dtype("i1")).kind == "f"):
            fill = float(fill)
        run("assembler_options", (chy, chx), pre, post, present, bd, req, fill_spec(fill), roi, i)
    # heterogeneous block dtypes, every insertion order (all permutations up to 3 blocks)
    families = [("uint8", "uint16", "uint32"), ("int8", "int16", "int32"), ("float32", "float64"),
                ("uint8", "int16", "float32"), ("uint16", "int16", "int32"), ("uint8", "uint16", "float64"),
                ("int16", "uint16", "float32"), ("uint32", "int32", "int64"), ("uint8", "uint64"), ("int32", "float64")]
    for i in range(60 if tier == "quick" else 600):
        chy, chx, pre, post, present, mode = rand_layout(rng)
        keys = [(iy, ix) for iy in range(len(chy)) for ix in range(len(chx))]
        present = rng.sample(keys, min(len(keys), rng.choice([2, 2, 3, 3, 4])))
        if len(present) < 2:
            chx = chx + (2,)
            present = [(0, len(chx) - 2), (0, len(chx) - 1)]
        fam = families[i % len(families)]
        dts = [fam[j % len(fam)] for j in range(len(present))]
        rng.shuffle(dts)
        pairs = list(zip(present, dts))
        if len(pairs) <= 3:
            orders = list(itertools.permutations(pairs))
        else:
            by_size = sorted(pairs, key=lambda kd: (np.dtype(kd[1]).itemsize, kd[1]))
            orders = [by_size, by_size[::-1], rng.sample(pairs, len(pairs))]
        shape = (*pre, sum(chy), sum(chx), *post)
        axis = len(pre)
        roi = None if i % 3 == 0 else (rand_axis_slice(rng, shape[axis], allow_int=False, allow_out=False),
                                       rand_axis_slice(rng, shape[axis + 1], allow_int=False, allow_out=False))
        fill = [None, 0, 1][i % 3]
        for od in orders:
            run("assembler_mixed", (chy, chx), pre, post, [(k, d) for k, d in od], fill, roi, i)


# ---------------------------------------------------------------- entry points
def run(out, tier, scratch):
    out.rule = ("correspondence: every operation (construction, shape/base/chunks, [int]/[slice] lookup with index fields "
                "None and -(S+2)..S+2, tile_shape, locate over pixels -1..N+1, crop, clip_tiles, and the GeoboxTiles "
                "counterparts) for all regular tilings with base 0..6 (quick) / 0..10 (thorough) and tile 1..base+2 on the "
                "exhaustive axis, all compositions of totals 0..5 / 0..7 as chunk tuples, zero-sized chunks, random sizes up "
                "to 2^64, and a malformed stream (zero tile size, int64 overflow, empty selections, out-of-range indices); "
                "BlockAssembler: random layouts of 1..4 x 1..4 chunks, axis layouts YX/SYX/YXS/SYXS/SSYX, random subsets of "
                "present blocks, malformed blocks, random rois (None, item, 2-tuple, full tuple, too long), block contents "
                "given by a formula shared with the model so that every output value is compared; the working dtype for every "
                "pair of the 10 int/float dtypes and random dtype lists with None/int/float fill.  A case is non-trivial "
                "unless the result is an empty array; distinct = distinct canonical (operation, arguments).  search: the "
                "property's clauses evaluated on the implementation pixel by pixel; numpy builds the reference mosaic")
    out.assumptions += [
        "numpy int64 cumsum/asarray/diff/searchsorted(right) on sorted offsets as formalised in Model.Tiles "
        "(wrap64, np_at, diffs, searchsorted_right); validated on every case",
        "numpy basic slicing, np.full and np.copyto between equal extents as formalised in Model.Blocks (eff, "
        "np_copyto_view); broadcasting of extent-1 sources and the casting of values are numpy's (oracle)",
        "np.result_type over the block dtypes as formalised by Model.Blocks.ba_dtype (widest unsigned/signed/floating member "
        "rule) and the fill-value upgrade ba_extract_dtype; validated on every pair of the 10 integer/float dtypes, random "
        "lists and all three kinds of fill value",
        "a GeoBox is abstracted to its pixel window (offset, shape) in the root grid; the affine algebra of "
        "GeoBox.__getitem__ belongs to C02",
    ]
    import traceback

    runner = make_runner(out)

    def correspondence(name, gen, req, shard, tag):
        """a crash of the implementation inside the generator is a broken obligation, and the search still runs;
        an input on which model and implementation disagree is judged by the property predicate as well, so that the
        disagreement itself becomes the concrete replay when it is a violation"""
        try:
            judges = {}
            cases = gen(out, tier, judges)
            fails, _ = core.coq_eval_failures(req, "case", "check", cases, scratch, shard=shard, tag=tag)
            detail = ""
            if fails:
                detail = "model and implementation differ on: " + " | ".join(cases[i] for i in fails[:4])
                for i in [i for i in fails if i in judges][:40]:
                    runner(*judges[i])
            out.oblige(name, "correspondence", not fails, detail)
        except core.ModelEvalError as e:
            out.oblige(name, "correspondence", False, "model evaluation failed: " + e.log[-1500:])
        except Exception:
            out.oblige(name, "correspondence", False, "case generation failed: " + traceback.format_exc()[-1500:])

    correspondence("correspondence:Model.Tiles vs odc.geo.roi Tiles/VariableSizedTiles/clip_tiles + GeoboxTiles",
                   gen_tiles_cases, REQ_T, 400, "tiles")
    correspondence("correspondence:Model.Blocks vs odc.geo._blocks.BlockAssembler", gen_block_cases, REQ_B, 150, "blocks")
    search(out, tier, runner)


def replay(rp) -> int:
    name = rp["predicate"]
    args = [dec(a) for a in rp["args"]]
    try:
        ok, detail = PREDICATES[name](*args)
    except Exception as e:
        ok, detail = False, f"raised {type(e).__name__}: {e}"
    print(f"replay {name}{rp['args']}: {'holds' if ok else 'FAILS'}: {detail}")
    return 0 if ok else 1


META = {
    "text": ("Coq theorems (coq/Props/C04.v, 32, all closed under the global context) over Gallina models of "
             "Tiles, VariableSizedTiles, clip_tiles, GeoboxTiles and BlockAssembler.  For every base size >= 0 and tile "
             "size >= 1 (regular) and every pair of chunk tuples with non-negative entries and totals < 2^63 (variable): "
             "the tile count is the ceiling division; [r,c] returns tile_region = [B r, B(r+1)) x [B c, B(c+1)) with "
             "B = min(i*n, N) resp. the prefix sums, IndexError exactly outside [-S,S) (negative indices from the right); "
             "every pixel of the rectangle lies in exactly one tile, namely locate(pixel); locate of any pixel of tile rc "
             "is rc; IndexError outside; regions are pairwise disjoint, inside the rectangle, their union is the rectangle; "
             "regular tiles are never empty; tile_shape/chunks/shape/base agree with the regions and sum(chunks) = base; "
             "base 0 gives no tiles and IndexError everywhere; a slice selection is the union of its tiles; crop to a "
             "block = tiling of the cropped rectangle with indices shifted by the block origin (shape, base, every tile); "
             "clip_tiles = crop to the bounding block with re-based indices; GeoboxTiles[r,c] = base cropped to "
             "Tiles[r,c], chunk_shape its shape, crop/clip keep every tile's absolute pixel window.  BlockAssembler: the "
             "constructor accepts every subset of well-shaped blocks and computes the mosaic shape, rejects a mis-shaped "
             "block; an explicitly requested dtype wins over the fill value; the working dtype is independent of the insertion order of the blocks and (integer blocks <= 32 bits) holds every "
             "value of every block; a (ry,rx) request is normalised to a window; for every window with 0<=start<=stop, every subset of "
             "present blocks, every extra-axis re-indexing and cast, extract = window shape and at each pixel the block "
             "value of the tile containing it if present else fill (proved by instantiating C17's slice_intersect3 "
             "theorem and the partition theorem).  The models are tied to odc/geo/roi.py, geobox.py, _blocks.py by "
             "exhaustive small-domain + random large differential correspondence (vm_compute) and direct property "
             "predicates on the implementation with numpy as the array reference."),
    "note": ("Trusted: Coq kernel; the hand-written models coq/Model/Tiles.v and coq/Model/Blocks.v (validated by "
             "correspondence on every run: all regular tilings with base 0..6/10 x tile 1..base+2, all compositions of "
             "0..5/7, zero chunks, sizes up to 2^64, malformed inputs).  Modelled rather than verified / oracle "
             "contracts: numpy int64 asarray (OverflowError outside int64) and cumsum (wraps: wrap64), a[i] on 1-d "
             "arrays (np_at), np.diff, np.searchsorted(right) on sorted offsets as 'number of entries <= v'; Python "
             "tuple slicing; numpy basic slicing clamps to the extent (eff), np.full, np.copyto between views of equal "
             "extents (np_copyto_view; broadcasting of extent-1 sources is not modelled, the theorem shows the extents "
             "are equal), np.squeeze on shapes only; np.result_type of the block dtypes is modelled (ba_dtype, correspondence on all dtype pairs and random lists), the "
             "casting of values is an arbitrary function cast (oracle; the search compares every pixel of heterogeneous-dtype "
             "blocks with values at the dtype limits, in every insertion order, against a numpy mosaic held in the promoted "
             "dtype); the "
             "slicing of the leading/trailing axes by the window's extra slices is an arbitrary re-indexing esel "
             "(oracle; correspondence restricted to in-range extra slices); min/max over the selection in clip_tiles as "
             "folds.  A GeoBox is abstracted to its pixel window (offset, shape) in a root grid: the affine algebra of "
             "GeoBox.__getitem__ is C02's subject; the harness checks the translation is exact (power-of-two "
             "resolution, sizes < 2^53).  The model of extract takes windows without steps (step None); stepped windows (positive steps honoured "
             "since repair 6c926d0, zero/negative rejected) are covered by the search against numpy only.  "
             "Domain restrictions in the theorems: tile sizes >= 1 (0 is proved to be an "
             "error), base >= 0 (>= 1 for tile_shape/chunks; base 0 has its own theorem, and tile_shape((-1,..)) then "
             "answers the tile size: recorded Example), chunk entries >= 0 with total < 2^63 (the Example "
             "offsets_wrap_beyond_int64 shows the bound is needed), slice selections with 0 <= a < S, a <= b <= S "
             "(Tiles[S:S] raises IndexError for regular tiles and is empty for variable ones: recorded Example, not a "
             "finding), selections for clip inside the grid, block keys in range and distinct, windows with "
             "0 <= start <= stop.  Not proved: the N-d bookkeeping of _norm_roi beyond the 2-tuple case and np.squeeze "
             "(covered by correspondence on shapes), planes_yx (search only), dtype selection.  Three defects were "
             "repaired in odc-geo (float ceil division, int32 offsets, negative indices of VariableSizedTiles); the "
             "models follow the repaired code and the witnesses are in corpus/C04."),
    "technique": "Coq proof over hand-written Gallina model + exhaustive small-domain differential correspondence (vm_compute) + Tiles arithmetic regenerated from source by py2v on every run and proved equal to the model (source_is_model theorem)",
    "design_ref": "DESIGN.md section 5, C04",
}
