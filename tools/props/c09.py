"""C09 — xarray geo-registration round-trips and survives array operations.

Correspondence: coq/Model/XrCoords.v against odc/geo/_xr_interop.py, odc/geo/math.py
(data_resolution_and_offset, affine_from_axis, resolution_from_affine) and
GeoBox.coordinates: xarray objects are abstracted to snapshots (vlib/xrsnap.py), the model is
evaluated on them inside Coq (vm_compute) and compared with what the real code returned.
Search: the property's own predicates on the implementation with exact Fraction arithmetic.
"""
from __future__ import annotations

import itertools
import pickle
from fractions import Fraction

import numpy as np

from vlib import core
from vlib import xrsnap as S
from vlib.core import cbool, clist, copt, cq, cstr, ctuple, cz

ID = "C09"
ALLOWED_AXIOMS: list[str] = []
REQ = ["Base.Result", "Model.XrCoords", "Model.XrCoordsCases"]
TOL = Fraction(1e-10)      # is_affine_st default tolerance (exact binary64 value)
ITOL = Fraction(1e-6)      # maybe_int(dst_nodata, 1e-6)
SPATIAL_ATTRIBUTES = ("crs", "crs_wkt", "grid_mapping", "gcps", "epsg")


# ---------------------------------------------------------------- GeoBox specifications (JSON-able)
def fr(x):
    return str(Fraction(x))


def unfr(s):
    return Fraction(s)


GB_CLASSES = ["north_up", "mirror_x", "mirror_y", "mirror_xy", "nonsquare", "rot345", "rot345_mirror",
              "rot51213", "shear", "row", "col", "single", "single_rot", "gcp",
              # quarter turns (diagonal terms exactly 0) and rotated / sheared grids with pixels of 1e-6..1e-5 units:
              # not axis-aligned by the off-diagonal test, but "rectilinear" for looser tests
              "rot90", "rot270", "rot90_mirror", "fine_rot", "fine_shear"]


# projected CRSs whose two axes point the same way (polar stereographic / UPS), northing-easting order, geographic
# 3-D and compound CRSs: the axis bookkeeping (dimension names, units per axis) must still give two labelled axes
UNUSUAL_CRS = ["epsg:3031", "epsg:3413", "epsg:5041", "epsg:5042", "epsg:3976", "epsg:2193", "epsg:4979", "EPSG:9518", "EPSG:7415",
               "EPSG:4326+5773"]


def spec_dims(spec):
    """(ydim, xdim) straight from the CRS table (independent of CRS.dimensions)"""
    if spec["crs"] is not None and S.CRS_TABLE[spec["crs"]][1]:
        return ("latitude", "longitude")
    return ("y", "x")


def gen_res(rng):
    m = rng.choice([1, 1, 2, 3, 5, 10, 30])
    j = rng.choice([-4, -3, -2, -1, 0, 0, 1, 2, 3])
    return Fraction(m) * Fraction(2) ** j


def gen_off(rng):
    return Fraction(rng.randint(-(2 ** 14), 2 ** 14), 16)


def gen_geobox_spec(rng, cls=None, crs="any", small=False):
    cls = cls or rng.choice(GB_CLASSES)
    hi = 4 if small else 7
    ny, nx = rng.choice([2, 3, hi, hi, rng.randint(2, hi)]), rng.choice([2, 3, hi, hi, rng.randint(2, hi)])
    rx, ry = gen_res(rng), -gen_res(rng)
    b = d = Fraction(0)
    if cls == "north_up":
        ry = -rx
    elif cls == "mirror_x":
        rx = -rx
    elif cls == "mirror_y":
        ry = -ry
    elif cls == "mirror_xy":
        rx, ry = -rx, -ry
    elif cls in ("rot345", "rot345_mirror", "rot51213", "shear", "single_rot"):
        s = Fraction(2) ** rng.choice([-2, -1, 0, 1, 3])
        if cls == "rot51213":
            rx, b, d, ry = 5 * s, -12 * s, 12 * s, 5 * s
        elif cls == "rot345_mirror":
            rx, b, d, ry = 3 * s, 4 * s, 4 * s, -3 * s
        elif cls == "shear":
            rx, b, d, ry = 2 * s, s * rng.choice([1, -1, 3]), Fraction(0), -2 * s
        else:
            rx, b, d, ry = 3 * s, -4 * s, 4 * s, 3 * s
        if rng.random() < 0.3:
            ny = 1
        if rng.random() < 0.3:
            nx = 1
    elif cls in ("rot90", "rot270", "rot90_mirror"):
        r = gen_res(rng)
        r2 = r * rng.choice([1, 1, 2, 3])
        rx = ry = Fraction(0)
        b, d = {"rot90": (-r, r2), "rot270": (r, -r2), "rot90_mirror": (r, r2)}[cls]
        if rng.random() < 0.2:
            ny = 1
        if rng.random() < 0.2:
            nx = 1
    elif cls in ("fine_rot", "fine_shear"):
        s = Fraction(2) ** rng.choice([-21, -20, -19])     # 4.8e-7 .. 1.9e-6: every coefficient below 1e-5
        if cls == "fine_rot":
            rx, b, d, ry = rng.choice([(3 * s, -4 * s, 4 * s, 3 * s), (3 * s, 4 * s, 4 * s, -3 * s), (4 * s, -3 * s, 3 * s, 4 * s)])
        else:
            rx, b, d, ry = 2 * s, s * rng.choice([1, -1, 3]), rng.choice([Fraction(0), s]), -2 * s
    if cls == "row":
        ny = 1
    elif cls == "col":
        nx = 1
    elif cls in ("single", "single_rot"):
        ny = nx = 1
    crs_any = crs == "any"
    if crs_any:
        crs = rng.choice([None, "epsg:3857", "epsg:4326", "epsg:32633", "epsg:3577", "epsg:4283", "epsg:3857"] + UNUSUAL_CRS)
    spec = {"cls": cls, "shape": [ny, nx], "affine": [fr(rx), fr(b), fr(gen_off(rng)), fr(d), fr(ry), fr(gen_off(rng))],
            "crs": crs}
    if cls in ("fine_rot", "fine_shear"):
        spec["affine"][2], spec["affine"][5] = fr(Fraction(rng.randint(-2000, 2000), 16)), fr(Fraction(rng.randint(-1200, 1200), 16))
        if crs_any and crs is not None and rng.random() < 0.7:
            spec["crs"] = rng.choice(["epsg:4326", "epsg:4283"])
    if cls == "gcp":
        # the GeoBox's own pixel->mapping-frame transform: power-of-two scale + dyadic shift (exactly invertible)
        sc = Fraction(2) ** rng.choice([0, 0, 1, -1])
        spec["affine"] = [fr(sc), "0", fr(rng.randint(-4, 4)), "0", fr(sc * rng.choice([1, 1, 2])), fr(rng.randint(-4, 4))]
        spec["crs"] = crs or "epsg:4326"
        n = rng.randint(3, 6)
        spec["gcps"] = [[fr(Fraction(rng.randint(0, 64), 4)), fr(Fraction(rng.randint(0, 64), 4)),
                         fr(Fraction(rng.randint(-2000, 2000), 8)), fr(Fraction(rng.randint(-1000, 1000), 8))]
                        for _ in range(n)]
        if rng.random() < 0.3:
            spec["shape"][rng.choice([0, 1])] = 1
    return spec


def build_geobox(spec):
    from affine import Affine
    from odc.geo.gcp import GCPGeoBox, GCPMapping
    from odc.geo.geobox import GeoBox
    A = Affine(*[float(unfr(v)) for v in spec["affine"]])
    shape = tuple(spec["shape"])
    if spec.get("gcps") is not None:
        pts = np.array([[float(unfr(v)) for v in p] for p in spec["gcps"]], dtype="float64")
        m = GCPMapping(pts[:, :2].copy(), pts[:, 2:].copy(), spec["crs"])
        return GCPGeoBox(shape, m, A)
    return GeoBox(shape, A, spec["crs"])


def spec_box(spec):
    """python-side [anybox] straight from the specification (exact)."""
    a = tuple(unfr(v) for v in spec["affine"])
    c = None if spec["crs"] is None else S.CRS_TABLE[spec["crs"]]
    if spec.get("gcps") is not None:
        return ("gcp", spec["shape"][0], spec["shape"][1], a, [tuple(unfr(v) for v in p) for p in spec["gcps"]], c)
    return ("box", spec["shape"][0], spec["shape"][1], a, c)


def is_st(spec):
    a = [unfr(v) for v in spec["affine"]]
    return spec.get("gcps") is None and abs(a[1]) < TOL and abs(a[3]) < TOL


# ---------------------------------------------------------------- wrapped arrays and operation histories
def gen_wrap_opts(rng):
    o = {"ntime": rng.choice([None, None, None, 1, 2]), "nband": rng.choice([None, None, None, 1, 3]),
         "nodata": rng.choice([None, None, -1, 255]),
         "name": rng.choice(["spatial_ref"] * 6 + ["crs", None]),
         "dask": rng.random() < 0.35, "dtype": rng.choice(["int16", "float32", "uint8", "float64"]),
         "user": rng.choice([{}, {}, {"foo": "bar"}, {"units": "K", "scale": 2}])}
    if rng.random() < 0.25:
        o = gen_axis_opts(rng, o)
    return o


def gen_axis_opts(rng, opts):
    """explicit axis= of wrap_xr in every legal combination with time= (None / scalar / list) and a band axis:
    axis=1 for [T,Y,X(,B)] stacks without time labels, with a list, with a scalar (T=1), a 2-d image promoted by
    axis=1; axis=0 for [Y,X(,B)] images with a scalar time stamp or none."""
    axis = rng.choice([0, 1, 1])
    o = dict(opts)
    o["axis"] = axis
    if axis == 1:
        o["ntime"] = rng.choice([1, 1, 2, 3])
        o["time"] = rng.choice([None, None, "list", "scalar"] if o["ntime"] == 1 else [None, None, "list"])
        o["promote2d"] = o["ntime"] == 1 and o["nband"] is None and rng.random() < 0.5
    else:
        o["ntime"] = None
        o["time"] = rng.choice([None, "scalar", "scalar"])
        o["promote2d"] = False
    return o


def build_wrapped(spec, opts):
    from odc.geo.xr import wrap_xr
    g = build_geobox(spec)
    ny, nx = spec["shape"]
    if "axis" in opts:
        shape = ((opts["ntime"],) if opts["axis"] == 1 and not opts["promote2d"] else ()) + (ny, nx) \
            + ((opts["nband"],) if opts["nband"] else ())
        if opts["dask"]:
            import dask.array as da
            im = da.zeros(shape, dtype=opts["dtype"], chunks=tuple(max(1, (n + 1) // 2) for n in shape)) + 1
        else:
            im = np.ones(shape, dtype=opts["dtype"])
        time = {None: None, "scalar": "2020-01-01",
                "list": [f"2020-01-{i + 1:02d}" for i in range(opts["ntime"] or 1)]}[opts["time"]]
        xx = wrap_xr(im, g, time=time, nodata=opts["nodata"], crs_coord_name=opts["name"], axis=opts["axis"], **opts["user"])
        return g, xx
    shape = ((opts["ntime"],) if opts["ntime"] else ()) + (ny, nx) + ((opts["nband"],) if opts["nband"] else ())
    if opts["dask"]:
        import dask.array as da
        im = da.zeros(shape, dtype=opts["dtype"], chunks=tuple(max(1, (n + 1) // 2) for n in shape)) + 1
    else:
        im = np.ones(shape, dtype=opts["dtype"])
    time = None
    if opts["ntime"]:
        time = [f"2020-01-{i + 1:02d}" for i in range(opts["ntime"])]
    xx = wrap_xr(im, g, time=time, nodata=opts["nodata"], crs_coord_name=opts["name"],
                 axis=1 if opts["ntime"] else 0, **opts["user"])
    return g, xx


# "use": the geo-registration is read and used (pixel<->world conversion through the cached .odc accessor) - it
# leaves the array unchanged, but fills lazily built helpers that travel with a later pickle
ELEM_OPS = ["add", "mul", "neg", "self_mul", "astype", "pickle", "copy", "where", "sqrt", "transpose", "compare", "use", "pickle"]


def gen_slice(rng, n):
    r = rng.random()
    if r < 0.15:
        return [None, None, -1]
    if r < 0.25:
        return [None, None, rng.choice([2, 3])]
    lo = [None] + list(range(-(n + 1), n + 2))
    step = rng.choice([None, None, 1, 2, 3, -1, -1, -2, -3])
    return [rng.choice(lo), rng.choice(lo), step]


def gen_history(rng, spec, opts, length=None, keep_nonempty=0.85):
    """Random sequence of operations; sizes are tracked so that most histories keep >= 1 pixel."""
    ydim, xdim = spec_dims(spec)
    sizes = {ydim: spec["shape"][0], xdim: spec["shape"][1]}
    if opts["ntime"]:
        sizes["time"] = opts["ntime"]
    if opts["nband"]:
        sizes["band"] = opts["nband"]
    h = []
    for _ in range(length if length is not None else rng.choice([0, 1, 2, 3, 3, 4, 6])):
        if rng.random() < 0.6:
            dim = rng.choice([ydim, xdim, ydim, xdim] + [d for d in sizes if d not in (ydim, xdim)])
            for _try in range(6):
                s = gen_slice(rng, sizes[dim])
                if opts["dask"] and (s[2] or 1) < 0 and s[0] is not None and s[0] < -sizes[dim]:
                    # dask (2026.8) mis-normalises a start below -n with a negative step (da.arange(2)[-3:-2:-1]
                    # has 1 element, numpy 0): data and coordinates of the xarray object then disagree.  Outside
                    # the xarray/dask contract this property relies on; such slices are exercised on numpy only.
                    s[0] = None
                m = len(range(*slice(*s).indices(sizes[dim])))
                if (m >= 2 or (m >= 1 and rng.random() < 0.35)) or rng.random() > keep_nonempty:
                    break
            else:
                s, m = [None, None, None], sizes[dim]
            sizes[dim] = m
            h.append({"op": "isel", "dim": dim, "slice": s})
        else:
            h.append({"op": rng.choice(ELEM_OPS)})
    return h


def apply_op(xx, op):
    k = op["op"]
    if k == "isel":
        return xx.isel({op["dim"]: slice(*op["slice"])})
    if k == "add":
        return xx + 1
    if k == "mul":
        return xx * 2
    if k == "neg":
        return -xx
    if k == "self_mul":
        return xx * xx
    if k == "astype":
        return xx.astype("float32")
    if k == "pickle":
        return pickle.loads(pickle.dumps(xx))
    if k == "use":
        gb = xx.odc.geobox
        if gb is not None:
            try:
                gb.wld2pix(*gb.pix2wld(0.5, 0.5))
                _ = gb.extent, gb.boundingbox     # cached Geometry objects travel with a later pickle as well
            except Exception:  # noqa: BLE001 - only the side effect on cached state matters here
                pass
        return xx
    if k == "copy":
        return xx.copy(deep=True)
    if k == "where":
        return xx.where(xx > 0)
    if k == "sqrt":
        return np.sqrt(xx)
    if k == "compare":
        return (xx > 0).astype("int8")
    if k == "transpose":
        return xx.transpose(*reversed(xx.dims))
    raise ValueError(k)


def run_history(xx, h):
    """Yield (op, before, after)."""
    for op in h:
        yy = apply_op(xx, op)
        yield op, xx, yy
        xx = yy


def index_maps(spec, h, ydim, xdim):
    iy, ix = np.arange(spec["shape"][0]), np.arange(spec["shape"][1])
    for op in h:
        if op["op"] == "isel":
            if op["dim"] == ydim:
                iy = iy[slice(*op["slice"])]
            elif op["dim"] == xdim:
                ix = ix[slice(*op["slice"])]
    return iy.tolist(), ix.tolist()


def dyadic_small(v, bits=44):
    """exactly representable in binary64 with room to spare (so sums/products of two such values are exact)"""
    v = Fraction(v)
    d = v.denominator
    return d & (d - 1) == 0 and abs(v.numerator).bit_length() <= bits and d.bit_length() <= 30


def labels_exact(spec, xx, ydim, xdim, iy, ix):
    """Is the case inside the exactness domain of the model?  Decided from the SPECIFICATION only (never from
    what the code returned): every label that rational arithmetic gives, and the intermediate products, must be
    small dyadic numbers so that binary64 computes them without rounding.  False -> generator escape, discarded."""
    a = [unfr(v) for v in spec["affine"]]
    if not all(dyadic_small(v, 30) for v in a):
        return False
    if is_st(spec):
        xs = [i * a[0] + (a[2] + a[0] / 2) for i in ix]
        ys = [i * a[4] + (a[5] + a[4] / 2) for i in iy]
        return all(dyadic_small(v) for v in xs + ys)
    return len(ix) < 2 ** 20 and len(iy) < 2 ** 20


# ---------------------------------------------------------------- predicates on the implementation
def aff_apply(a, x, y):
    return (a[0] * x + a[1] * y + a[2], a[3] * x + a[4] * y + a[5])


def aff_mul(m, n):
    return (m[0] * n[0] + m[1] * n[3], m[0] * n[1] + m[1] * n[4], m[0] * n[2] + m[1] * n[5] + m[2],
            m[3] * n[0] + m[4] * n[3], m[3] * n[1] + m[4] * n[4], m[3] * n[2] + m[4] * n[5] + m[5])


def needs_geobox(spec, opts, ny, nx):
    """Is the property's round-trip clause applicable?  Axis-aligned grids with a 1-pixel side
    need an attached CRS coordinate (it carries the GeoTransform)."""
    if ny < 1 or nx < 1:
        return False
    if ny >= 2 and nx >= 2:
        return True
    if not is_st(spec):
        return True
    return spec["crs"] is not None and opts["name"] is not None


def expected_crs(spec, opts):
    """CRS the recovery can know: through the CRS coordinate, or (axis-aligned grids only) through the
    'crs' attribute of the label coordinates.  wrap_xr(crs_coord_name=None) on a rotated grid leaves no
    CRS anywhere -- the caller's choice, outside the property."""
    if spec["crs"] is None:
        return None
    if opts["name"] is None and not is_st(spec):
        return None
    return S.CRS_TABLE[spec["crs"]]


def labels_report(spec, xx, iy, ix):
    """Both spatial coordinates must be written, with labels equal to the pixel centres computed directly from the
    affine coefficients (axis-aligned) resp. to pixel-space centres i + 1/2 (rotated, GCP).  None when fine."""
    ydim, xdim = spec_dims(spec)
    a = [unfr(v) for v in spec["affine"]]
    st = is_st(spec)
    for dim, idx, t, r in ((ydim, iy, a[5], a[4]), (xdim, ix, a[2], a[0])):
        if dim not in xx.dims:
            return f"dimension {dim!r} missing: dims are {xx.dims}"
        if dim not in xx.coords:
            return f"no coordinate labels were written for dimension {dim!r} (coords: {list(xx.coords)})"
        got = [S.F(v) for v in np.asarray(xx.coords[dim].values, dtype="float64").tolist()]
        want = [t + r * (i + Fraction(1, 2)) for i in idx] if st else [i + Fraction(1, 2) for i in idx]
        if got != want:
            return f"labels of {dim!r} are {[str(v) for v in got[:4]]}.. but the pixel centres are {[str(v) for v in want[:4]]}.."
    if st and spec["crs"] is not None:
        # units of the two written coordinates: CF names for lon/lat, else the unit of a horizontal axis as pyproj reports
        # it -- never empty (polar stereographic / UPS grids have two axes pointing the same way)
        import pyproj
        if S.CRS_TABLE[spec["crs"]][1]:
            want_u = {ydim: {"degrees_north"}, xdim: {"degrees_east"}}
        else:
            names = {ax.unit_name for ax in pyproj.CRS.from_user_input(spec["crs"].upper()).axis_info[:2]}
            want_u = {ydim: names, xdim: names}
        for dim in (ydim, xdim):
            u = xx.coords[dim].attrs.get("units")
            if not u or u not in want_u[dim]:
                return f"coordinate {dim!r} of a {spec['crs']} grid has units {u!r}, expected one of {sorted(want_u[dim])}"
    return None


def p_roundtrip(spec, opts):
    g, xx = build_wrapped(spec, opts)
    ny, nx = spec["shape"]
    if "axis" in opts:
        want_dims = (("time",) if opts["axis"] == 1 else ()) + spec_dims(spec) + (("band",) if opts["nband"] else ())
        want_shape = ((opts["ntime"],) if opts["axis"] == 1 else ()) + (ny, nx) + ((opts["nband"],) if opts["nband"] else ())
        if tuple(xx.dims) != want_dims or tuple(xx.shape) != want_shape:
            return False, f"wrap_xr(axis={opts['axis']}, time={opts['time']}): dims {xx.dims} shape {xx.shape}, expected {want_dims} {want_shape}"
        if opts["time"] is not None and "time" not in xx.coords:
            return False, f"wrap_xr(axis={opts['axis']}, time={opts['time']}): no time coordinate"
    if labels_exact(spec, xx, None, None, list(range(ny)), list(range(nx))):
        bad = labels_report(spec, xx, list(range(ny)), list(range(nx)))
        if bad:
            return False, bad
    if not needs_geobox(spec, opts, ny, nx):
        return True, "single row/column without CRS coordinate: outside the property's domain"
    r = xx.odc.geobox
    want = spec_box(spec)
    got = S.box_of(r)
    if got is None:
        return False, f"recovered geobox is None, wrapped {want}"
    if want[0] == "gcp":
        from affine import Affine
        # GCPs are stored in the pixel frame of the GeoBox, whose own transform becomes identity
        ainv = S.aff6(~Affine(*[float(v) for v in want[3]]))
        pts = [aff_apply(ainv, p[0], p[1]) + (p[2], p[3]) for p in want[4]]
        ok = got[0] == "gcp" and got[1:3] == want[1:3] and got[3] == (1, 0, 0, 0, 1, 0) and got[4] == pts and got[5] == want[5]
        return ok, f"gcp: recovered {got} wrapped {want}"
    want = want[:-1] + (expected_crs(spec, opts),)
    ok = got == want and (opts["name"] is None or spec["crs"] is None or xx.odc.crs == S.crs_obj(spec["crs"]))
    if ok and opts["name"] is not None:
        ok = r == g   # the library's own equality
    return ok, f"recovered {got} wrapped {want}"


def p_history(spec, opts, h):
    """After the history: shape, CRS, pixel k -> world location of original pixel idx(k),
    agreement with the coordinate labels."""
    g, xx0 = build_wrapped(spec, opts)
    ydim, xdim = spec_dims(spec)
    xx = xx0
    for op in h:
        xx = apply_op(xx, op)
    iy, ix = index_maps(spec, h, ydim, xdim)
    if iy and ix and labels_exact(spec, xx, ydim, xdim, iy, ix):
        bad = labels_report(spec, xx, iy, ix)
        if bad:
            return False, bad + f"; history {h}"
    if not needs_geobox(spec, opts, len(iy), len(ix)):
        return True, "no pixel left / single row or column without CRS coordinate: outside the domain"
    if not labels_exact(spec, xx, ydim, xdim, iy, ix):
        return True, "inexact"
    r = xx.odc.geobox
    if r is None:
        return False, f"recovered geobox is None after {h}"
    got = S.box_of(r)
    A0 = tuple(unfr(v) for v in spec["affine"])
    A1 = got[3]
    if (got[1], got[2]) != (len(iy), len(ix)):
        return False, f"shape {got[1:3]} but {len(iy)}x{len(ix)} pixels remain"
    want_crs = expected_crs(spec, opts)
    if got[-1] != want_crs:
        return False, f"crs {got[-1]} expected {want_crs}"
    ys = [S.F(v) for v in xx[ydim].values.tolist()]
    xs = [S.F(v) for v in xx[xdim].values.tolist()]
    gcp = spec.get("gcps") is not None
    for j, oj in enumerate(iy):
        for k, ok_ in enumerate(ix):
            here = aff_apply(A1, k + Fraction(1, 2), j + Fraction(1, 2))
            if gcp:
                orig = (ok_ + Fraction(1, 2), oj + Fraction(1, 2))  # position in the wrapped GeoBox's pixel frame
                lab = (xs[k], ys[j])
            else:
                orig = aff_apply(A0, ok_ + Fraction(1, 2), oj + Fraction(1, 2))
                lab = (xs[k], ys[j]) if is_st(spec) else aff_apply(A0, xs[k], ys[j])
            if here != orig:
                return False, f"pixel (row {j}, col {k}) = original ({oj},{ok_}) maps to {here}, originally {orig}; history {h}"
            if here != lab:
                return False, f"pixel (row {j}, col {k}) maps to {here} but its labels say {lab}; history {h}"
    return True, "ok"


def stale_attr_report(out):
    import xarray as xr
    bad = []
    objs = [("", out)]
    if isinstance(out, xr.Dataset):
        objs += [(str(n), v) for n, v in out.data_vars.items()]
    for n, o in objs:
        for k in SPATIAL_ATTRIBUTES:
            if k in o.attrs:
                bad.append(f"{n or 'object'}.attrs[{k!r}]={o.attrs[k]!r}")
    return bad


def build_reproject_case(rc):
    """rc: src geobox spec (with CRS), container, backing, stale attrs, extras, dst spec."""
    import xarray as xr
    from odc.geo.xr import wrap_xr
    sg = build_geobox(rc["src"])
    ny, nx = rc["src"]["shape"]
    nt = rc.get("ntime")
    shape = ((nt,) if nt else ()) + (ny, nx)
    if rc["dask"]:
        import dask.array as da
        im = da.ones(shape, dtype=rc["dtype"], chunks=tuple(max(1, (n + 1) // 2) for n in shape))
    else:
        im = np.ones(shape, dtype=rc["dtype"])
    time = [f"2020-01-{i + 1:02d}" for i in range(nt)] if nt else None
    xx = wrap_xr(im, sg, time=time, crs_coord_name=rc["name"], axis=1 if nt else 0, **rc["attrs"])
    if rc.get("attr_gm") and rc["name"] is not None:
        xx.encoding.pop("grid_mapping", None)
        xx.attrs["grid_mapping"] = rc["name"]
    if rc.get("extra_coords"):
        xx = xx.assign_coords(sc=3.0, aux=(xx.dims[-2:], np.zeros(xx.shape[-2:])))
        if rc.get("attr_gm") and rc["name"] is not None:
            xx.encoding.pop("grid_mapping", None)
    dst = build_geobox(rc["dst"])
    if rc["container"] == "da":
        return xx, dst
    yy = xx.astype("float32")
    yy.attrs.update(xx.attrs)
    yy.encoding.update(xx.encoding)
    dvars = {"a": xx, "b": yy}
    extra = {}
    if rc.get("passthrough"):
        extra["c"] = xr.DataArray([2, 3, 4], dims=("q",))
    for name in rc.get("extra_vars", []):
        extra[name] = nonraster_var(name)
    # non-raster variables stored BEFORE the rasters: xarray keeps the attrs of the first of equal scalar coordinates
    dvars = {**extra, **dvars} if rc.get("passthrough_first") else {**dvars, **extra}
    ds = xr.Dataset(dvars, attrs=rc["ds_attrs"])
    return ds, dst


def nonraster_var(name):
    """variables of a Dataset that are not rasters: they do not span the spatial dimensions"""
    import xarray as xr
    if name == "w":       # a table without coordinates
        return xr.DataArray(np.arange(6.0).reshape(2, 3), dims=("obs", "band"))
    if name == "wl":      # a table with numeric row labels and STRING column labels
        return xr.DataArray(np.arange(6.0).reshape(2, 3), dims=("obs", "band"), coords={"obs": [1.0, 2.0], "band": ["r", "g", "b"]})
    if name == "wn":      # a table with numeric labels on both dimensions
        return xr.DataArray(np.arange(6.0).reshape(2, 3), dims=("obs", "band"), coords={"obs": [10.0, 20.0], "band": [1.0, 2.0, 3.0]})
    raise ValueError(name)


def crs_coord_report(out, dst_spec):
    """the CRS coordinate of a reprojection output, judged without the implementation's helpers: it must name the
    destination CRS, its GeoTransform must be the destination's six coefficients (GDAL order) and it must not carry
    ground control points"""
    if "spatial_ref" not in out.coords:
        return "output has no spatial_ref coordinate"
    at = out.coords["spatial_ref"].attrs
    a = [unfr(v) for v in dst_spec["affine"]]
    want_gt = [a[2], a[0], a[1], a[5], a[3], a[4]]
    try:
        got_gt = [S.F(float(p)) for p in str(at.get("GeoTransform", "")).split(" ")]
    except ValueError:
        got_gt = None
    if got_gt != want_gt:
        return f"spatial_ref.GeoTransform is {at.get('GeoTransform')!r}, destination grid is {[str(v) for v in want_gt]}"
    if "gcps" in at:
        return "spatial_ref still carries ground control points"
    c = S.parse_crs(at.get("spatial_ref", at.get("crs_wkt", "")))
    if c is None or S.crs_key(c) != S.CRS_TABLE[dst_spec["crs"]]:
        return f"spatial_ref names CRS {S.crs_key(c) if c is not None else None}, destination is {S.CRS_TABLE[dst_spec['crs']]}"
    return None


def p_reproject(rc):
    import xarray as xr
    from odc.geo.xr import xr_coords
    src, dst = build_reproject_case(rc)
    kw = {} if rc.get("nodata") is None else {"dst_nodata": rc["nodata"]}
    out = src.odc.reproject(dst, **kw)
    want = spec_box(rc["dst"])
    bad = stale_attr_report(out)
    if bad:
        return False, "stale spatial attributes survive: " + ", ".join(bad)
    objs = [("", out)]
    if isinstance(out, xr.Dataset):
        objs += [(n, out[n]) for n in ("a", "b")]
        if rc.get("passthrough") and not bool((out["c"] == src["c"]).all()):
            return False, "non-georegistered variable changed"
        for name in rc.get("extra_vars", []):
            want_v = nonraster_var(name)
            if name not in out or tuple(out[name].dims) != tuple(want_v.dims) or out[name].shape != want_v.shape \
                    or not np.array_equal(np.asarray(out[name].values), want_v.values):
                return False, (f"non-raster variable {name!r} {want_v.dims}{want_v.shape} came back as "
                               f"{tuple(out[name].dims) if name in out else None}{out[name].shape if name in out else ''}")
    bad = crs_coord_report(out, rc["dst"])
    if bad:
        return False, f"{type(out).__name__}: {bad}"
    for n, o in objs:
        got = S.box_of(o.odc.geobox)
        if got != want:
            return False, f"{n or type(out).__name__}: recovered geobox {got}, requested {want}"
        if o.odc.geobox != dst:
            return False, f"{n or type(out).__name__}: recovered geobox != destination (library equality)"
    ref = xr_coords(dst)
    for name, c in ref.items():
        if name not in out.coords:
            return False, f"output lacks coordinate {name}"
        if S.snap_coord(out.coords[name]) != S.snap_coord(c):
            return False, f"output coordinate {name} differs from xr_coords(dst): {S.snap_coord(out.coords[name])} vs {S.snap_coord(c)}"
    return True, "ok"


def p_reproject_crs(rc):
    """how = CRS string: result geobox is output_geobox(how), CRS included (both containers)."""
    import xarray as xr
    src, _ = build_reproject_case(rc)
    how = rc["dst"]["crs"]
    want = src.odc.output_geobox(how)
    out = src.odc.reproject(how)
    objs = [out] + ([out["a"], out["b"]] if isinstance(out, xr.Dataset) else [])
    for o in objs:
        # the computed output grid has arbitrary binary64 coefficients: outside the exactness domain, so only
        # shape and CRS are compared here (coefficients are compared exactly by p_reproject with a dyadic GeoBox)
        r = o.odc.geobox
        if r is None or r.shape != want.shape or S.crs_key(r.crs) != S.CRS_TABLE[how] or S.crs_key(o.odc.crs) != S.CRS_TABLE[how]:
            return False, f"reproject({how!r}): geobox {r!r} crs {S.crs_key(o.odc.crs)}, expected {want!r}"
    bad = stale_attr_report(out)
    return (not bad), ("stale spatial attributes survive: " + ", ".join(bad)) if bad else "ok"


GRID_OPTS = {
    # destination CRS -> option sets for compute_output_geobox; power-of-two resolutions with edge/centre
    # snapping give dyadic grids (exact comparison of all six coefficients), shape=/tight= do not
    "epsg:3857": [{"resolution": 2048}, {"resolution": 2000}, {"resolution": 4096, "anchor": "center"}, {"shape": [3, 4]},
                  {"resolution": 8192, "tight": True}, {"resolution": 2048, "anchor": "floating"},
                  {"resolution": 2048, "tol": 0.3}, {"round_resolution": True}, {"round_resolution": "to:4096"},
                  {"resolution": "fit", "tol": 0.2}, {"resolution": 2048, "anchor": [0.25, 0.5]}, {"shape": 5}],
    "epsg:32633": [{"resolution": 1024}, {"resolution": 3000}, {"shape": [2, 5]}, {"resolution": 2048, "anchor": "center"}],
    "epsg:4326": [{"resolution": 0.25}, {"resolution": 0.125, "anchor": "center"}, {"shape": [4, 3]}],
}


def p_reproject_opts(rc, gopts):
    """how = CRS plus output-grid options (resolution / shape / anchor / tight): the requested grid is
    src.odc.output_geobox(how, **opts).  DataArray: same shape, CRS, and the same six coefficients whenever
    they are dyadic (exactness domain).  Dataset: EVERY variable recovers exactly the GeoBox the DataArray
    variant recovers for it (identical float computations, so exact equality), the Dataset itself too, and the
    option is honoured (resolution= gives exactly that pixel size, shape= exactly that shape)."""
    import xarray as xr
    src, _ = build_reproject_case(rc)
    how = rc["dst"]["crs"]
    kw = decode_gopts(gopts)
    want = src.odc.output_geobox(how, **kw)
    out = src.odc.reproject(how, **kw)
    wkey = S.box_of(want)
    exact = all(dyadic_small(v, 40) for v in wkey[3])
    if isinstance(out, xr.Dataset):
        named = [("Dataset", out, None)] + [(n, out[n], src[n].odc.reproject(how, **kw)) for n in ("a", "b")]
    else:
        named = [("DataArray", out, None)]
    for n, o, ref in named:
        r = o.odc.geobox
        if r is None:
            return False, f"{n}: no geobox after reproject({how!r}, **{gopts})"
        got = S.box_of(r)
        if got[1:3] != wkey[1:3] or got[-1] != wkey[-1]:
            return False, (f"{n}: reproject({how!r}, **{gopts}) recovered shape {got[1:3]} crs {got[-1]}, "
                           f"requested grid output_geobox(...) has shape {wkey[1:3]} crs {wkey[-1]}")
        rr = gopts.get("round_resolution")
        if rr is True and not (got[3][0].denominator == 1 and got[3][4].denominator == 1):
            return False, f"{n}: round_resolution=True not honoured: pixel size {float(got[3][0])} x {float(got[3][4])}"
        if isinstance(rr, str) and (abs(got[3][0]), abs(got[3][4])) != (S.F(float(rr[3:])),) * 2:
            return False, f"{n}: round_resolution -> {rr[3:]} not honoured: pixel size {float(got[3][0])} x {float(got[3][4])}"
        if isinstance(gopts.get("shape"), list) and list(got[1:3]) != list(gopts["shape"]):
            return False, f"{n}: shape= {gopts['shape']} not honoured: {got[1:3]}"
        if isinstance(gopts.get("resolution"), (int, float)) and exact and (abs(got[3][0]), abs(got[3][4])) != (S.F(gopts["resolution"]),) * 2:
            return False, f"{n}: resolution= {gopts['resolution']} not honoured: pixel size {float(got[3][0])} x {float(got[3][4])}"
        if exact and got != wkey:
            return False, f"{n}: recovered {got}, requested grid {wkey}"
        if ref is not None and S.box_of(ref.odc.geobox) != got:
            return False, (f"variable {n}: Dataset variant recovered {got}, DataArray variant of the same variable "
                           f"{S.box_of(ref.odc.geobox)} (options {gopts})")
    bad = stale_attr_report(out)
    return (not bad), ("stale spatial attributes survive: " + ", ".join(bad)) if bad else "ok"


def decode_gopts(gopts):
    """JSON-able option sets -> keyword arguments of xr_reproject / output_geobox"""
    from odc.geo import xy_
    kw = dict(gopts)
    if "shape" in kw and isinstance(kw["shape"], list):
        kw["shape"] = tuple(kw["shape"])
    if isinstance(kw.get("anchor"), list):
        kw["anchor"] = xy_(*kw["anchor"])
    rr = kw.get("round_resolution")
    if isinstance(rr, str) and rr.startswith("to:"):
        val = float(rr[3:])
        kw["round_resolution"] = lambda res, units: val
    return kw


def snapped(v, t):
    """integer nearest to v when within t, else None (the meaning of tol: that much of a pixel may be ignored)"""
    r = round(v)
    return r if abs(v - r) < t else None


def p_reproject_grid(gc):
    """Same-CRS reprojection onto a new grid, how = CRS with EVERY output-grid option xr_reproject accepts.  The source
    footprint padded by 0.9 source pixel (what compute_output_geobox encloses) is known exactly, so the requested grid
    follows from the MEANING of the options, computed here in Fractions:
      resolution=R -> pixel size exactly R;  shape=(h, w) -> exactly that shape;
      anchor edge/center/(ax, ay) -> origin/R - offset is an integer;  tight / floating -> origin = padded corner;
      tol=t -> on every side the grid may fall short of the padded footprint by at most t pixels and is the SMALLEST
               such grid (one pixel less on a side would fall short by more than t).
    The recovered GeoBox of the DataArray / every Dataset variable must satisfy this and must equal
    xx.odc.output_geobox(how, **same options) exactly."""
    import xarray as xr
    from odc.geo.xr import wrap_xr
    from affine import Affine
    from odc.geo.geobox import GeoBox
    crs = gc["crs"]
    rs, x0, y1, ny, nx = unfr(gc["src_res"]), unfr(gc["x0"]), unfr(gc["y1"]), gc["shape"][0], gc["shape"][1]
    sg = GeoBox((ny, nx), Affine(float(rs), 0, float(x0), 0, -float(rs), float(y1)), crs)
    if gc["dask"]:
        import dask.array as da
        im = da.ones((ny, nx), dtype="int16", chunks=(max(1, ny // 2), max(1, nx // 2)))
    else:
        im = np.ones((ny, nx), dtype="int16")
    xx = wrap_xr(im, sg, crs="stale")
    src = xx if gc["container"] == "da" else xr.Dataset({"a": xx, "b": xx.astype("float32")})
    kw = decode_gopts(gc["grid"])
    out = src.odc.reproject(crs, **kw)
    from odc.geo.xr import xr_zeros
    hg = src.odc.output_geobox(crs, **kw)
    helper = S.box_of(hg)
    if not all(dyadic_small(v, 40) for v in helper[3]):
        # arbitrary binary64 coefficients (shape=, tight=): the label round trip may differ in the last bit, so the
        # reference is the same grid sent through the same round trip
        helper = S.box_of(xr_zeros(hg, dtype="uint8").odc.geobox)
    pad = Fraction(9, 10) * rs
    L, Rr, B, T = x0 - pad, x0 + nx * rs + pad, y1 - ny * rs - pad, y1 + pad     # padded footprint, exact
    t = Fraction(gc["grid"].get("tol", 0.01)).limit_denominator(10 ** 6)
    objs = [("DataArray", out)] if gc["container"] == "da" else [("Dataset", out), ("a", out["a"]), ("b", out["b"])]
    for n, o in objs:
        got = S.box_of(o.odc.geobox)
        if got is None:
            return False, f"{n}: no geobox"
        if got != helper:
            return False, f"{n}: recovered {got[1:4]} but .odc.output_geobox({crs!r}, **{gc['grid']}) is {helper[1:4]}"
        rows, cols, A = got[1], got[2], got[3]
        px, py, ox, oy = A[0], -A[4], A[2], A[5]
        if A[1] != 0 or A[3] != 0 or px <= 0 or py <= 0:
            return False, f"{n}: output grid {A} is not north-up"
        g = gc["grid"]
        if "shape" in g and [rows, cols] != list(g["shape"]):
            return False, f"{n}: shape={g['shape']} requested, got {rows}x{cols}"
        if isinstance(g.get("resolution"), (int, float)) and "shape" not in g and (px, py) != (S.F(g["resolution"]),) * 2:
            return False, f"{n}: resolution={g['resolution']} requested, pixel size {float(px)} x {float(py)}"
        if g.get("resolution") == "same" and "shape" not in g and (px, py) != (rs, rs):
            return False, f"{n}: resolution='same' requested, pixel size {float(px)} x {float(py)}, source {float(rs)}"
        if "shape" in g:
            continue    # the rest is about snapped grids of a given pixel size
        floating = g.get("tight") or g.get("anchor") == "floating"
        if floating:
            if abs(ox - L) > px / 10 ** 6 or abs(oy - T) > py / 10 ** 6:
                return False, f"{n}: tight/floating grid must start at the padded corner ({float(L)}, {float(T)}), starts at ({float(ox)}, {float(oy)})"
        else:
            a = g.get("anchor", "default")
            offx, offy = {"default": (0, 0), "edge": (0, 0), "center": (Fraction(1, 2),) * 2}.get(a if isinstance(a, str) else "", None) \
                or (S.F(a[0]), S.F(a[1]))
            if (ox / px - offx).denominator != 1 or (oy / py - offy).denominator != 1:
                return False, f"{n}: anchor={a}: origin ({float(ox)}, {float(oy)}) is not aligned (pixel {float(px)})"
        # coverage up to tol, and minimality
        sides = {"left": (L - ox) / px, "right": (ox + cols * px - Rr) / px, "top": (oy - T) / py, "bottom": (B - (oy - rows * py)) / py}
        for side, slack in sides.items():      # slack >= 0: grid reaches beyond the padded footprint by that many pixels
            if slack < -t - Fraction(1, 10 ** 6):
                return False, (f"{n}: {side} edge falls short of the padded footprint by {float(-slack):.4f} pixel, more than tol={float(t)} "
                               f"(grid {rows}x{cols} origin ({float(ox)}, {float(oy)}) pixel {float(px)}; options {g})")
            if not floating and slack - 1 > -t + Fraction(1, 10 ** 6) and (cols if side in ("left", "right") else rows) > 1:
                return False, (f"{n}: grid is not the smallest one: the {side} edge could move in by a pixel and still be within tol={float(t)} "
                               f"(reaches {float(slack):.4f} pixel beyond the padded footprint; grid {rows}x{cols} origin ({float(ox)}, "
                               f"{float(oy)}) pixel {float(px)}; options {g})")
    bad = stale_attr_report(out)
    return (not bad), ("stale spatial attributes survive: " + ", ".join(bad)) if bad else "ok"


def gen_grid_case(rng, k):
    """geometries in which the option matters: source pixels rs aligned (or offset by a known fraction) to a coarser
    output grid R, so that the 0.9-pixel padding overshoots an output pixel edge by a known fraction of a pixel"""
    rs, R = rng.choice([(10, 100), (5, 30), (20, 400), (50, 100), (10, 64), (25, 200), (16, 128)])
    over = Fraction(9, 10) * rs / R                      # overshoot in output pixels when the footprint is aligned
    tols = [t for t in (0.02, 0.05, 0.1, 0.2, 0.3, 0.45) if abs(Fraction(t).limit_denominator(1000) - over) >= Fraction(1, 100)]
    m = R // rs if R % rs == 0 else None
    nx, ny = (m * rng.choice([2, 3, 5]), m * rng.choice([1, 2, 4])) if m else (rng.choice([7, 12, 19]), rng.choice([5, 9]))
    x0, y1 = R * rng.randint(4000, 4100), R * rng.randint(9000, 9100)
    if k % 4 == 3:      # not aligned: shifted by a few source pixels
        x0, y1 = x0 + rs * rng.choice([1, 2, 3]), y1 - rs * rng.choice([1, 2])
    grids = [{"resolution": R, "tol": rng.choice(tols)}, {"resolution": R}, {"resolution": R, "tol": rng.choice(tols), "anchor": "center"},
             {"resolution": R, "anchor": [0.25, 0.75], "tol": rng.choice(tols)}, {"resolution": R, "tight": True, "tol": rng.choice(tols)},
             {"resolution": R, "anchor": "floating"}, {"shape": [rng.choice([3, 4]), rng.choice([5, 6])]},
             {"shape": [4, 7], "tight": True}, {"resolution": "same", "anchor": "center", "tol": rng.choice(tols)},
             {"resolution": R, "anchor": "edge", "tol": max(tols)}, {"resolution": R, "tol": min(tols), "round_resolution": True}]
    return {"crs": rng.choice(["epsg:32633", "epsg:3857", "epsg:3577"]), "src_res": fr(rs), "x0": fr(x0),
            "y1": fr(y1), "shape": [ny, nx], "dask": k % 3 == 2, "container": ["da", "ds"][k % 2], "grid": grids[k % len(grids)]}


def p_reproject_covers(rc, gopts):
    """how = CRS: judged with pyproj called directly.  The centre of every source pixel, projected by a fresh
    pyproj Transformer (always_xy), must fall inside the extent of the GeoBox recovered from the output (one output
    pixel of slack), for the DataArray / every Dataset variable, and the CRS must be the requested one."""
    import pyproj
    import xarray as xr
    src, _ = build_reproject_case(rc)
    how = rc["dst"]["crs"]
    kw = decode_gopts(gopts)
    out = src.odc.reproject(how, **kw)
    tr = pyproj.Transformer.from_crs(rc["src"]["crs"].upper(), how.upper(), always_xy=True)
    a = [float(unfr(v)) for v in rc["src"]["affine"]]
    ny, nx = rc["src"]["shape"]
    pts = [(a[0] * (i + 0.5) + a[1] * (j + 0.5) + a[2], a[3] * (i + 0.5) + a[4] * (j + 0.5) + a[5]) for j in range(ny) for i in range(nx)]
    wx, wy = tr.transform([p[0] for p in pts], [p[1] for p in pts])
    objs = [(n, out[n]) for n in ("a", "b")] + [("Dataset", out)] if isinstance(out, xr.Dataset) else [("DataArray", out)]
    for n, o in objs:
        r = o.odc.geobox
        if r is None:
            return False, f"{n}: no geobox after reproject({how!r}, **{gopts})"
        if S.crs_key(r.crs) != S.CRS_TABLE[how]:
            return False, f"{n}: CRS {S.crs_key(r.crs)} after reproject({how!r})"
        A = [float(v) for v in tuple(r.affine)[:6]]
        det = A[0] * A[4] - A[1] * A[3]
        if det == 0:
            return False, f"{n}: degenerate output grid {A}"
        rows, cols = r.shape
        for (sx, sy), x, y in zip(pts, wx, wy):
            col = (A[4] * (x - A[2]) - A[1] * (y - A[5])) / det
            row = (-A[3] * (x - A[2]) + A[0] * (y - A[5])) / det
            if not (-1 <= col <= cols + 1 and -1 <= row <= rows + 1):
                return False, (f"{n}: source pixel centre {(sx, sy)} projects (pyproj) to {(x, y)} = output pixel "
                               f"(col {col:.2f}, row {row:.2f}), outside the {rows}x{cols} output grid {A}")
    return True, "ok"


def p_reproject_ds_1d(spec_src, spec_dst, along):
    """A Dataset holding a raster and a 1-d variable along one of the raster's spatial dimensions (per-row / per-column
    metadata), reprojected: the Dataset and its raster must still recover the destination GeoBox."""
    import xarray as xr
    from odc.geo.xr import xr_zeros
    g, d = build_geobox(spec_src), build_geobox(spec_dst)
    ydim, xdim = spec_dims(spec_src)
    dim, n = (ydim, spec_src["shape"][0]) if along == "y" else (xdim, spec_src["shape"][1])
    ds = xr.Dataset({"a": xr_zeros(g, dtype="int16"), "meta": (dim, np.arange(n))})
    out = ds.odc.reproject(d)
    want = spec_box(spec_dst)
    for n_, o in (("Dataset", out), ("a", out["a"])):
        got = S.box_of(o.odc.geobox)
        if got != want:
            return False, (f"{n_}: recovered {None if got is None else got[1:4]}, requested {want[1:4]} (sizes {dict(out.sizes)}): the 1-d "
                           f"variable along {dim!r} keeps its source index, the Dataset constructor outer-joins old and new labels")
    return True, "ok"


def p_affine_axis(xs, ys, dtype="float64"):
    """affine_from_axis on exactly representable regular axes: label[k] = A*(k+1/2).  The labels may be stored in any
    numeric dtype (unsigned and narrow integers included, ascending or descending); the same must hold for the GeoBox
    the .odc accessor recovers from an array carrying these labels."""
    import xarray as xr
    import odc.geo.xr  # noqa: F401  pylint: disable=unused-import  (registers the .odc accessor)
    from odc.geo.math import affine_from_axis
    ax, ay = np.array([float(v) for v in xs]).astype(dtype), np.array([float(v) for v in ys]).astype(dtype)
    if [S.F(v) for v in ax.tolist()] != list(xs) or [S.F(v) for v in ay.tolist()] != list(ys):
        return True, "inexact"
    A = S.aff6(affine_from_axis(ax, ay))
    gb = xr.DataArray(np.zeros((len(ys), len(xs)), dtype="uint8"), dims=("y", "x"), coords={"y": ay, "x": ax}).odc.geobox
    if gb is None or S.aff6(gb.affine) != A:
        return False, f"{dtype} labels x={ax.tolist()} y={ay.tolist()}: affine_from_axis gives {A}, the accessor {None if gb is None else S.aff6(gb.affine)}"
    for k, v in enumerate(xs):
        if aff_apply(A, k + Fraction(1, 2), Fraction(1, 2))[0] != v:
            return False, f"x label {k}={v} but A maps to {aff_apply(A, k + Fraction(1, 2), Fraction(1, 2))[0]}; A={A}"
    for k, v in enumerate(ys):
        if aff_apply(A, Fraction(1, 2), k + Fraction(1, 2))[1] != v:
            return False, f"y label {k}={v} but A maps to {aff_apply(A, Fraction(1, 2), k + Fraction(1, 2))[1]}; A={A}"
    return True, "ok"


PREDICATES = {
    "roundtrip": lambda a: p_roundtrip(a["spec"], a["opts"]),
    "history": lambda a: p_history(a["spec"], a["opts"], a["history"]),
    "reproject": lambda a: p_reproject(a["rc"]),
    "reproject_crs": lambda a: p_reproject_crs(a["rc"]),
    "reproject_opts": lambda a: p_reproject_opts(a["rc"], a["grid"]),
    "reproject_covers": lambda a: p_reproject_covers(a["rc"], a["grid"]),
    "reproject_many_crs": lambda a: p_reproject_many_crs(a["n"], a["rounds"]),
    "reproject_grid": lambda a: p_reproject_grid(a["case"]),
    "reproject-ds-1d-spatial-var": lambda a: p_reproject_ds_1d(a["src"], a["dst"], a["along"]),
    "affine_axis": lambda a: p_affine_axis([unfr(v) for v in a["xs"]], [unfr(v) for v in a["ys"]], a.get("dtype", "float64")),
}


def p_reproject_many_crs(n, rounds, full_every=25):
    """A long-running process: one small lon/lat array sent (how = CRS string) into n distinct custom CRSs (a local
    transverse Mercator per scene), `rounds` times over.  Every destination grid (`.odc.output_geobox(how)`, the
    CRS-crossing step of xr_reproject) and, every `full_every`-th time, the complete `.odc.reproject(how)` output is
    judged with pyproj called directly: the projected centres of the source pixels must lie inside the grid (one
    pixel of slack), and the reprojected array must recover that very grid and the requested CRS."""
    import pyproj
    from affine import Affine
    from odc.geo.geobox import GeoBox
    from odc.geo.xr import xr_zeros
    a = (0.125, 0.0, 13.0, 0.0, -0.125, 25.0)
    pts = [(a[0] * (i + 0.5) + a[2], a[4] * (j + 0.5) + a[5]) for j in range(2) for i in range(3)]
    xx = xr_zeros(GeoBox((2, 3), Affine(*a), "epsg:4326"), dtype="uint8")

    def outside(g, tr):
        A = [float(v) for v in tuple(g.affine)[:6]]
        det = A[0] * A[4] - A[1] * A[3]
        rows, cols = g.shape
        for (lon, lat) in pts:
            x, y = tr.transform(lon, lat)
            col = (A[4] * (x - A[2]) - A[1] * (y - A[5])) / det if det else float("nan")
            row = (-A[3] * (x - A[2]) + A[0] * (y - A[5])) / det if det else float("nan")
            if not (-1 <= col <= cols + 1 and -1 <= row <= rows + 1):
                return (f"source pixel centre ({lon}, {lat}) projects (pyproj) to ({x:.1f}, {y:.1f}) = pixel (col {col:.1f}, "
                        f"row {row:.1f}), outside the {rows}x{cols} grid {A}")
        return None

    for rnd in range(rounds):
        for k in range(n):
            txt = (f"+proj=tmerc +lat_0={(k % 40) - 20} +lon_0={13 + (k % 16) / 8 - 1} +k=0.9996 +x_0={500000 + 1000 * k} "
                   f"+y_0={k % 3} +ellps=GRS80 +units=m +no_defs")
            tr = pyproj.Transformer.from_crs("EPSG:4326", txt, always_xy=True)
            g = xx.odc.output_geobox(txt)
            bad = outside(g, tr)
            if bad:
                return False, f"round {rnd}, CRS #{k} {txt!r}: output_geobox: {bad}"
            if k % full_every == full_every - 1:
                r = xx.odc.reproject(txt).odc.geobox
                if r is None or r.crs is None or r.shape != g.shape:
                    return False, f"round {rnd}, CRS #{k} {txt!r}: reprojected array recovers {r!r}, requested grid {g!r}"
                if not pyproj.CRS.from_user_input(r.crs.to_wkt()).equals(pyproj.CRS.from_user_input(txt), ignore_axis_order=True):
                    return False, f"round {rnd}, CRS #{k}: requested {txt!r}, output says {str(r.crs)[:80]!r}"
                bad = outside(r, tr)
                if bad:
                    return False, f"round {rnd}, CRS #{k} {txt!r}: reproject: {bad}"
    return True, "ok"


def many_destinations(n=220):
    """C09's own process history: a long-running process that has already computed output grids of one lon/lat array
    in a few hundred different custom CRSs (one local transverse Mercator per scene), dropped them and collected
    garbage.  The source CRS object (parsed from the array's spatial_ref WKT) stays in use all the time."""
    import gc
    from affine import Affine
    from odc.geo.geobox import GeoBox
    from odc.geo.xr import xr_zeros
    xx = xr_zeros(GeoBox((2, 3), Affine(0.125, 0, 13, 0, -0.125, 25), "epsg:4326"), dtype="uint8")
    for i in range(n):
        txt = (f"+proj=tmerc +lat_0={(i % 40) - 20} +lon_0={13 + (i % 9) / 8} +k=0.9996 +x_0={500000 + i} +y_0={i % 3} "
               "+ellps=GRS80 +units=m +no_defs")
        try:
            xx.odc.output_geobox(txt)
        except Exception:  # noqa: BLE001  pylint: disable=broad-except
            pass
    gc.collect()


def _after_history(a):
    """perturb the process (crshist's cache histories, or C09's own "c09:many-destinations"), then judge one case"""
    from vlib import crshist
    mine = [h for h in a["hist"] if h.startswith("c09:")]
    theirs = [h for h in a["hist"] if not h.startswith("c09:")]
    crshist.perturb(tuple(theirs), tuple(a["specs"]))
    if "c09:many-destinations" in mine:
        many_destinations()
    return PREDICATES[a["name"]](*a["args"])


PREDICATES["after_history"] = _after_history


# ---------------------------------------------------------------- correspondence cases
def gen_dst_spec(rng, dst_crs, centre):
    """Destination GeoBox of a random class whose centre is (about) the projected centre of the
    source: dyadic coefficients, pixel size ~16 km (1/8 degree), at most 4x4 pixels."""
    u = Fraction(1, 8) if dst_crs == "epsg:4326" else Fraction(16384)
    cls = rng.choice(["north_up", "mirror_y", "mirror_x", "rot345", "rot345_mirror", "row", "col", "single", "single_rot",
                      "nonsquare", "shear", "rot90", "rot270"])
    ny, nx = rng.choice([2, 3, 4]), rng.choice([2, 3, 4])
    m1, m2 = rng.choice([1, 2, 3]), rng.choice([1, 2, 3])
    a, b, d, e = u * m1, Fraction(0), Fraction(0), -u * m2
    if cls == "north_up":
        e = -a
    elif cls == "mirror_y":
        e = -e
    elif cls == "mirror_x":
        a = -a
    elif cls in ("rot345", "single_rot"):
        a, b, d, e = 3 * u / 4, -u, u, 3 * u / 4
    elif cls == "rot345_mirror":
        a, b, d, e = 3 * u / 4, u, u, -3 * u / 4
    elif cls == "shear":
        a, b, d, e = u, u / 2, Fraction(0), -u
    elif cls == "rot90":
        a, b, d, e = Fraction(0), -u * m1, u * m2, Fraction(0)
    elif cls == "rot270":
        a, b, d, e = Fraction(0), u * m1, -u * m2, Fraction(0)
    if cls == "row":
        ny = 1
    elif cls == "col":
        nx = 1
    elif cls in ("single", "single_rot"):
        ny = nx = 1
    cx, cy = (Fraction(round(centre[0] / float(u))) * u, Fraction(round(centre[1] / float(u))) * u)
    hx, hy = Fraction(nx, 2), Fraction(ny, 2)
    c = cx - (a * hx + b * hy)
    f = cy - (d * hx + e * hy)
    return {"cls": cls, "shape": [ny, nx], "affine": [fr(a), fr(b), fr(c), fr(d), fr(e), fr(f)], "crs": dst_crs}


def gen_reproject_case(rng, container=None, dask=None):
    from odc.geo.geom import point
    src_crs = rng.choice(["epsg:4326", "epsg:3857", "epsg:4326"])
    ny, nx = rng.choice([2, 3, 5]), rng.choice([2, 4, 6])
    if src_crs == "epsg:4326":
        rx, ry = rng.choice([1, 2, Fraction(1, 2)]), -rng.choice([1, 2, Fraction(1, 2)])
        tx, ty = Fraction(rng.randint(10, 16)), Fraction(rng.randint(0, 40))
    else:
        ny = rng.choice([1, 3, 5])
        rx, ry = Fraction(65536), Fraction(-65536)
        tx, ty = Fraction(rng.randint(17, 28) * 65536), Fraction(rng.randint(0, 60) * 65536)
    src = {"cls": "north_up", "shape": [ny, nx], "affine": [fr(rx), "0", fr(tx), "0", fr(ry), fr(ty)], "crs": src_crs}
    dst_crs = rng.choice(["epsg:3857", "epsg:3857", "epsg:4326", "epsg:32633", src_crs, src_crs])
    centre = (float(tx + rx * nx / 2), float(ty + ry * ny / 2))
    centre = point(centre[0], centre[1], src_crs).to_crs(dst_crs).coords[0]
    dst = gen_dst_spec(rng, dst_crs, centre)
    use_dask = rng.random() < 0.4 if dask is None else dask
    if use_dask:
        # GeoBox.footprint() buffers by max(rx, ry) with signs: with both resolutions negative the dask path
        # (GeoboxTiles.grid_intersect) crashes before any output exists -- a defect outside this property's
        # anchors (reported for C12/C13); such destinations are exercised with numpy backing only
        while unfr(dst["affine"][0]) < 0 and unfr(dst["affine"][4]) < 0 and unfr(dst["affine"][1]) == 0:
            dst = gen_dst_spec(rng, dst_crs, centre)
    stale = rng.choice([{}, {"crs": src_crs}, {"crs": src_crs, "epsg": 4326, "crs_wkt": "not a crs", "foo": "bar"},
                        {"gcps": "stale", "nodata": -1}, {"_FillValue": 7, "title": "t"}])
    ds_attrs = rng.choice([{}, {"crs": src_crs, "title": "t"}, {"grid_mapping": "zzz", "crs_wkt": "junk", "k": 1}])
    if ny == 1 and "grid_mapping" in ds_attrs:
        # a dangling Dataset-level grid_mapping hides the CRS coordinate and with it the GeoTransform a single
        # row needs: the Dataset is then (legitimately) not geo-registered
        ds_attrs = {"crs": src_crs, "k": 1}
    return {"src": src, "dst": dst, "container": container or rng.choice(["da", "ds"]),
            "dask": use_dask, "dtype": rng.choice(["int16", "float32"]),
            "ntime": rng.choice([None, None, 2]), "name": rng.choice(["spatial_ref", "spatial_ref", "crs"]),
            "attrs": stale, "attr_gm": rng.random() < 0.3, "extra_coords": rng.random() < 0.4,
            "nodata": rng.choice([None, None, 255, -9999, 0.5]),
            "passthrough": rng.random() < 0.5, "passthrough_first": rng.random() < 0.5,
            "extra_vars": rng.choice([[], [], ["w"], ["wl"], ["wn", "w"], ["wn"]]),
            "ds_attrs": ds_attrs}


def malformed_objects(rng):
    """xarray objects the recovery must survive: (tag, object)."""
    import xarray as xr
    from odc.geo.xr import xr_zeros
    from odc.geo.geobox import GeoBox
    from affine import Affine
    out = []
    g = GeoBox((3, 4), Affine(2, 0, 10, 0, -2, 20), "epsg:3857")
    mk = lambda: xr_zeros(g, dtype="int16")
    base = mk()
    x = mk(); x.encoding["grid_mapping"] = "nope"; out.append(("gm->missing coordinate", x))
    x = mk(); x.encoding.pop("grid_mapping", None); x.attrs["grid_mapping"] = "nope"; out.append(("attr gm->missing", x))
    x = mk(); x.encoding.pop("grid_mapping", None); x.attrs["grid_mapping"] = "spatial_ref"; out.append(("attr gm ok", x))
    x = mk().isel(y=slice(0, 1)); x.spatial_ref.attrs["GeoTransform"] = "1 2 3 4 5"; out.append(("GeoTransform 5 parts", x))
    x = mk().isel(y=slice(0, 1)); x.spatial_ref.attrs["GeoTransform"] = "1 2 3 4 5 x"; out.append(("GeoTransform not float", x))
    x = mk().isel(y=slice(0, 1)); del x.spatial_ref.attrs["GeoTransform"]; out.append(("GeoTransform absent", x))
    x = mk().isel(y=slice(0, 1), x=slice(2, 3)); x.spatial_ref.attrs["GeoTransform"] = "0 3 -4 0 4 3"; out.append(("rotated GeoTransform fallback", x))
    x = mk().isel(y=slice(0, 1), x=slice(2, 3)); x.spatial_ref.attrs["GeoTransform"] = "0 3 4 0 4 -3"; out.append(("mirrored rotated GeoTransform fallback", x))
    x = mk().isel(y=slice(0, 0)); out.append(("empty axis", x))
    x = mk().drop_vars(["y", "x"]); out.append(("no spatial coordinates: GeoTransform used", x))
    x = mk().drop_vars(["y"]); out.append(("one spatial coordinate missing", x))
    x = mk().drop_vars(["spatial_ref"]); out.append(("crs from coordinate attrs", x))
    x = mk().drop_vars(["spatial_ref"]); x.encoding.pop("grid_mapping", None); x.attrs["crs"] = "EPSG:3857"; out.append(("crs from attrs", x))
    x = mk(); x.spatial_ref.attrs["spatial_ref"] = "garbage"; out.append(("unparsable spatial_ref", x))
    x = mk(); del x.spatial_ref.attrs["spatial_ref"]; out.append(("crs_wkt only", x))
    x = mk(); x.encoding.pop("grid_mapping", None); x = x.assign_coords(other=xr.DataArray(0, attrs={"spatial_ref": "EPSG:4326"})); out.append(("two crs coordinates", x))
    x = xr.DataArray(np.zeros((3,)), dims=("q",)); out.append(("1-d", x))
    x = xr.DataArray(np.zeros((2, 3)), dims=("a", "b"), coords={"a": [1.0, 2.0], "b": [5.0, 7.0, 9.0]}); out.append(("relaxed dims", x))
    x = xr.DataArray(np.zeros((2, 3)), dims=("lat", "lon"), coords={"lat": [1.0, 2.0], "lon": [5.0, 7.0, 9.0]}, attrs={"crs": "epsg:4326"}); out.append(("lat/lon", x))
    x = xr.DataArray(np.zeros((2, 3)), dims=("y", "x")); out.append(("no coords at all", x))
    ds = xr.Dataset({"a": mk(), "b": mk().astype("float32")}); out.append(("dataset", ds))
    ds = xr.Dataset({"a": mk().drop_vars("spatial_ref"), "q": xr.DataArray([1, 2], dims=("q",))}, attrs={"crs": "epsg:3857"}); out.append(("dataset crs attrs", ds))
    ds = xr.Dataset(); out.append(("empty dataset", ds))
    return out


CASE_INPUTS: list = []   # (spec, opts, history) of every correspondence history: judged by the predicates too


def gen_cases(out, tier):
    from odc.geo.math import affine_from_axis, data_resolution_and_offset, maybe_int, resolution_from_affine
    from odc.geo.xr import xr_coords
    from affine import Affine
    rng = core.rng("c09")
    cases, texts = [], []
    quick = tier == "quick"

    def add(kind, text, canon, nontrivial=True, sample=None):
        cases.append(text)
        out.count(kind)
        out.case((kind, canon), nontrivial, sample)

    def err_of(call):
        try:
            return ("ok", call())
        except ValueError:
            return ("err", "EValue")
        except AssertionError:
            return ("err", "EAssert 0")

    # --- leaf helpers -----------------------------------------------------------------
    for n in range(0, 6):
        for _ in range(6 if quick else 20):
            r, t = gen_res(rng) * rng.choice([1, -1]), gen_off(rng)
            data = [i * r + t for i in range(n)]
            if rng.random() < 0.3 and n >= 3:   # irregular axes: only the two end points count
                data[1] += Fraction(1, 8)
            for fb in (None, gen_res(rng) * rng.choice([1, -1])):
                e = err_of(lambda: data_resolution_and_offset(np.array([float(v) for v in data]), None if fb is None else float(fb)))
                txt = S.cres(e, lambda v: ctuple(cq(S.F(v[0])), cq(S.F(v[1]))))
                add("axis:" + e[0], f"CAxis {clist(data, cq)} {copt(fb, cq)} {txt}", (fr(r), fr(t), n, str(fb)), n > 0)
    for _ in range(40 if quick else 300):
        nxx, nyy = rng.choice([0, 1, 2, 3, 5]), rng.choice([1, 1, 2, 4])
        xs = [i * gen_res(rng) + gen_off(rng) for i in range(1)] if nxx == 1 else None
        rx, ry, tx, ty = gen_res(rng) * rng.choice([1, -1]), gen_res(rng) * rng.choice([1, -1]), gen_off(rng), gen_off(rng)
        xs = [tx + i * rx for i in range(nxx)]
        ys = [ty + i * ry for i in range(nyy)]
        fb = rng.choice([None, (gen_res(rng), -gen_res(rng))])
        from odc.geo import resxy_
        e = err_of(lambda: affine_from_axis(np.array([float(v) for v in xs]), np.array([float(v) for v in ys]),
                                            None if fb is None else resxy_(float(fb[0]), float(fb[1]))))
        txt = S.cres(e, lambda A: S.caff(S.aff6(A)))
        add("affine_from_axis:" + e[0], f"CAffAxis {clist(xs, cq)} {clist(ys, cq)} {copt(fb, lambda p: ctuple(cq(p[0]), cq(p[1])))} {txt}",
            (nxx, nyy, fr(rx), fr(ry), fr(tx), fr(ty), str(fb)))
    for a6 in [(2, 0, 1, 0, -2, 5), (-3, 0, 0, 0, 7, 0), (3, -4, 0, 4, 3, 0), (3, 4, 1, 4, -3, 2), (6, -8, 0, 8, 6, 0),
               (5, -12, 0, 12, 5, 9), (Fraction(3, 2), -2, 0, 2, Fraction(3, 2), 0), (0, -1, 0, 1, 0, 0), (0, 5, 0, 5, 0, 0),
               (2, Fraction(1, 2 ** 40), 0, 0, -2, 0)]:
        r = resolution_from_affine(Affine(*[float(v) for v in a6]))
        got = (S.F(r.x), S.F(r.y))
        # exact only when the Cholesky route is exact in binary64: compare with the rational value
        sx2 = Fraction(a6[0]) ** 2 + Fraction(a6[3]) ** 2
        exact = abs(Fraction(a6[1])) < TOL and abs(Fraction(a6[3])) < TOL or got[0] ** 2 == sx2
        if not exact:
            out.count("discarded:inexact_resolution_from_affine")
            continue
        add("resolution_from_affine", f"CResAff {cq(TOL)} {S.caff([Fraction(v) for v in a6])} (Ok {ctuple(cq(got[0]), cq(got[1]))})", a6)
    # Python slice semantics (reference for isel)
    for n in range(0, 5 if quick else 7):
        fields = [None] + list(range(-(n + 2), n + 3))
        combos = list(itertools.product(fields, fields, [None, 1, 2, 3, -1, -2, -3]))
        if quick and len(combos) > 120:
            combos = rng.sample(combos, 120)
        for a, b, c in combos:
            s = slice(a, b, c)
            add("slice", f"CSlice {cz(n)} {S.cslice(s)} (Ok {clist(list(range(*s.indices(n))))})", (n, a, b, c), True)
        add("slice:step0", f"CSlice {cz(n)} {S.cslice(slice(None, None, 0))} (Err EValue)", (n, "step0"))
    for x in [0, 1, -1, 255, -9999, 0.5, -0.5, 1.5, 2.25, 3 + 2 ** -21, 3 - 2 ** -21, -3 + 2 ** -21, 7.75, -7.75, 1e6 + 0.5 ** 20]:
        add("maybe_int", f"CMaybeInt {cq(S.F(x))} {cq(ITOL)} {cq(S.F(maybe_int(float(x), 1e-6)))}", x)

    # --- coordinates from a GeoBox, wrapped arrays, histories, recovery ----------------
    nh = 110 if quick else 1200
    specs = []
    for cls in GB_CLASSES:
        for _ in range(3 if quick else 12):
            specs.append(gen_geobox_spec(rng, cls))
    while len(specs) < nh:
        specs.append(gen_geobox_spec(rng))
    for i, spec in enumerate(specs):
        opts = gen_wrap_opts(rng)
        if spec.get("gcps") is not None and opts["name"] is None:
            opts["name"] = "spatial_ref"
        g, xx = build_wrapped(spec, opts)
        box = spec_box(spec)
        ydim, xdim = spec_dims(spec)
        if not labels_exact(spec, xx, ydim, xdim, list(range(spec["shape"][0])), list(range(spec["shape"][1]))):
            out.count("discarded:inexact_labels")
            continue
        sample = {"geobox": spec, "wrap": {k: v for k, v in opts.items()}} if i < 2 else None
        # xr_coords
        cs = [(str(k), S.snap_coord(c)) for k, c in xr_coords(g, crs_coord_name=opts["name"]).items()]
        add("xr_coords:" + spec["cls"], f"CCoords {cq(TOL)} {S.cbox(box)} {copt(opts['name'], cstr)} (Ok {S.ccoords(cs)})",
            (spec, opts["name"]))
        # wrap_xr
        s0 = S.snapshot(xx)
        user = S.snap_attrs(opts["user"])
        if "axis" not in opts:   # the model's wrap_xr has no axis= parameter: explicit-axis wraps enter as snapshots only
            add("wrap_xr", f"CWrap {cq(TOL)} {S.cbox(box)} {copt(opts['ntime'])} {copt(opts['nband'])} {copt(opts['nodata'], lambda v: cq(S.F(v)))} "
                f"{copt(opts['name'], cstr)} {S.cattrs(user)} (Ok {S.cxobj(s0)})", (spec, str(opts)), True, sample)
        add("locate:fresh:" + spec["cls"], f"CLocate {cq(TOL)} {S.cxobj(s0)} {S.cgeostate(S.geostate_of(xx))}", ("fresh", spec, str(opts)))
        # history
        h = gen_history(rng, spec, opts)
        if rng.random() < 0.25:
            h = [{"op": "transpose"}] + h
        CASE_INPUTS.append((spec, opts, h))
        iy, ix = index_maps(spec, h, ydim, xdim)
        final = xx
        inexact = False
        for op, before, after in run_history(xx, h):
            sb, sa = S.snapshot(before), S.snapshot(after)
            if op["op"] == "isel":
                add("isel:" + ("neg" if (op["slice"][2] or 1) < 0 else "pos") + ("" if op["dim"] in (ydim, xdim) else ":other-dim"),
                    f"CIsel {S.cxobj(sb)} {cstr(op['dim'])} {S.cslice(slice(*op['slice']))} (Ok {S.cxobj(sa)})",
                    (spec, str(op), str(sb["dims"])))
            else:
                add("contract:" + op["op"] + (":dask" if opts["dask"] else ""), f"CElem {S.cxobj(sb)} {S.cxobj(sa)}", (spec, str(op), str(sb["dims"])))
            final = after
        if not labels_exact(spec, final, ydim, xdim, iy, ix):
            out.count("discarded:inexact_labels")
            continue
        st = S.geostate_of(final)
        nz = "empty" if (not iy or not ix) else ("single" if (len(iy) == 1 or len(ix) == 1) else "2d")
        add(f"locate:history:{nz}", f"CLocate {cq(TOL)} {S.cxobj(S.snapshot(final))} {S.cgeostate(st)}", ("hist", spec, str(opts), str(h)),
            True, {"geobox": spec["cls"], "history": h, "recovered": str(st)[:200]} if i in (2, 3) else None)
        out.count("history_len:" + str(len(h)))
        out.count("backing:" + ("dask" if opts["dask"] else "numpy"))
    # --- malformed / hand-made objects ---------------------------------------------------
    for tag, x in malformed_objects(rng):
        st = S.geostate_of(x)
        if S.unknown_crs_in(st):
            continue
        add("locate:malformed", f"CLocate {cq(TOL)} {S.cxobj(S.snapshot(x))} {S.cgeostate(st)}", tag)
    # --- reprojection output assembly ----------------------------------------------------
    import xarray as xr
    nr = 36 if quick else 300
    for i in range(nr):
        rc = gen_reproject_case(rng, container=["da", "ds"][i % 2], dask=(i % 4) >= 2)
        src, dst = build_reproject_case(rc)
        kw = {} if rc["nodata"] is None else {"dst_nodata": rc["nodata"]}
        res = src.odc.reproject(dst, **kw)
        ctor = "CReprojDs" if rc["container"] == "ds" else "CReprojDa"
        add(f"reproject:{rc['container']}:{'dask' if rc['dask'] else 'numpy'}",
            f"{ctor} {cq(TOL)} {cq(ITOL)} {S.cxobj(S.snapshot(src))} {S.cgbox(spec_box(rc['dst']))} "
            f"{copt(rc['nodata'], lambda v: cq(S.F(v)))} (Ok {S.cxobj(S.snapshot(res))})", str(rc), True, rc if i < 2 else None)
        if rc["container"] == "ds":
            for name in res.data_vars:
                add("ds_getitem", f"CGetItem {S.cxobj(S.snapshot(res))} {cstr(str(name))} (Some {S.cxobj(S.snapshot(res[name]))})", (str(rc), str(name)))
                add("locate:reprojected_var", f"CLocate {cq(TOL)} {S.cxobj(S.snapshot(res[name]))} {S.cgeostate(S.geostate_of(res[name]))}", (str(rc), str(name), "loc"))
        add("locate:reprojected", f"CLocate {cq(TOL)} {S.cxobj(S.snapshot(res))} {S.cgeostate(S.geostate_of(res))}", (str(rc), "loc"))
    # how = CRS with grid options: the requested grid is output_geobox(how, **opts) (oracle here, property C11); when it
    # is dyadic the whole assembly is compared with the model run on that GeoBox
    for i, (dst_crs, gopts) in enumerate([("epsg:3857", {"resolution": 2048}), ("epsg:3857", {"resolution": 4096, "anchor": "center"}),
                                          ("epsg:32633", {"resolution": 1024}), ("epsg:3857", {"resolution": 2000})]):
        for container in ("ds", "da"):
            rc = gen_reproject_case(rng, container=container, dask=bool(i % 2))
            rc["src"] = {"cls": "north_up", "shape": [3, 4], "affine": ["1/8", "0", fr(12 + i), "0", "-1/8", fr(10 * i + 5)], "crs": "epsg:4326"}
            rc["attrs"], rc["ds_attrs"] = {"crs": "epsg:4326", "foo": "bar"}, {"crs": "epsg:4326"}
            src, _ = build_reproject_case(rc)
            want = S.box_of(src.odc.output_geobox(dst_crs, **gopts))
            if not all(dyadic_small(v, 40) for v in want[3]):
                out.count("discarded:inexact_output_geobox")
                continue
            res = src.odc.reproject(dst_crs, **gopts)
            ctor = "CReprojDs" if container == "ds" else "CReprojDa"
            add(f"reproject:how=crs+options:{container}",
                f"{ctor} {cq(TOL)} {cq(ITOL)} {S.cxobj(S.snapshot(src))} {S.cgbox(want)} None (Ok {S.cxobj(S.snapshot(res))})",
                (dst_crs, str(gopts), container, i))
    # error paths of the assembly
    from odc.geo.geobox import GeoBox
    from odc.geo.xr import xr_zeros
    gsrc = GeoBox((3, 4), Affine(1, 0, 10, 0, -1, 20), "epsg:4326")
    gdst = {"cls": "north_up", "shape": [2, 2], "affine": [fr(65536), "0", "0", "0", fr(-65536), "0"], "crs": "epsg:3857"}
    for tag, x, kind in [("no crs", xr_zeros(GeoBox((3, 4), Affine(1, 0, 10, 0, -1, 20), None)), "da"),
                         ("not registered", xr.DataArray(np.zeros((3,)), dims=("q",)), "da"),
                         ("transposed", xr_zeros(gsrc).transpose("longitude", "latitude"), "da"),
                         ("empty dataset", xr.Dataset(), "ds")]:
        e = err_of(lambda: x.odc.reproject(build_geobox(gdst)))
        if e[0] == "ok":
            e = ("ok", S.snapshot(e[1]))
        ctor = "CReprojDs" if kind == "ds" else "CReprojDa"
        add("reproject:error:" + e[0], f"{ctor} {cq(TOL)} {cq(ITOL)} {S.cxobj(S.snapshot(x))} {S.cgbox(spec_box(gdst))} None {S.cres(e, S.cxobj)}", tag)
    return cases


# ---------------------------------------------------------------- process histories (fresh interpreter per case)
def child(path):
    """entry point of a fresh interpreter: perturb the CRS caches first, then judge one case; prints one JSON line"""
    import json
    job = json.load(open(path))
    try:
        ok, detail = PREDICATES["after_history"](job)
    except Exception as e:  # pylint: disable=broad-except
        ok, detail = False, f"raised {type(e).__name__}: {e}"
    print("C09CHILD " + json.dumps([bool(ok), str(detail)[:1500]]))


def run_in_fresh_processes(jobs, parallel=8, timeout=300):
    """The caches of odc.geo.crs are per process and this process has long warmed them: a history that must come
    FIRST (authority-order transformer requested before the x,y one, eviction before first use) only shows in a fresh
    interpreter -- exactly what a replay is."""
    import json
    import os
    import shutil
    import subprocess
    import sys
    import tempfile
    tmp = tempfile.mkdtemp(prefix="verif-c09-")
    results = [(True, "not run")] * len(jobs)
    try:
        procs = []
        for i, job in enumerate(jobs):
            f = os.path.join(tmp, f"job{i}.json")
            with open(f, "w") as fh:
                json.dump(job, fh)
            procs.append((i, f))
        running = []

        def reap(entry):
            i, pr = entry
            try:
                o, _ = pr.communicate(timeout=timeout)
            except subprocess.TimeoutExpired:
                pr.kill()
                results[i] = (True, "timeout (not judged)")
                return
            line = [l for l in o.splitlines() if l.startswith("C09CHILD ")]
            if line:
                ok, detail = json.loads(line[-1][len("C09CHILD "):])
                results[i] = (ok, detail)
            else:
                results[i] = (False, "child interpreter died: " + o[-600:])

        for i, f in procs:
            while len(running) >= parallel:
                reap(running.pop(0))
            pr = subprocess.Popen([sys.executable, "-W", "ignore", "-c",
                                   "import sys; from props import c09; c09.child(sys.argv[1])", f],
                                  stdout=subprocess.PIPE, stderr=subprocess.STDOUT, text=True, env=dict(os.environ))
            running.append((i, pr))
        for e in running:
            reap(e)
    finally:
        shutil.rmtree(tmp, ignore_errors=True)
    return results


# ---------------------------------------------------------------- search
def search(out, tier):
    rng = core.rng("c09-search")
    quick = tier == "quick"
    found = {}

    def run(name, args):
        try:
            ok, detail = PREDICATES[name](args)
        except Exception as e:  # pylint: disable=broad-except
            ok, detail = False, f"raised {type(e).__name__}: {e}"
        if detail == "inexact":
            out.count("discarded:inexact_predicate_input")
            return
        out.count("predicate:" + name)
        out.case(("pred", name, repr(args)), True)
        if not ok and name not in found:
            found[name] = True
            out.violation(f"c09:{name}", f"{name}: {detail}", {"predicate": name, "args": args, "observed": detail})

    for rp in core.corpus(ID):
        run(rp["predicate"], rp["args"])
    # round trips: every class x wrap options
    for cls in GB_CLASSES:
        for _ in range(8 if quick else 60):
            spec = gen_geobox_spec(rng, cls)
            opts = gen_wrap_opts(rng)
            if spec.get("gcps") is not None and opts["name"] is None:
                opts["name"] = "spatial_ref"
            run("roundtrip", {"spec": spec, "opts": opts})
    # histories
    for i in range(260 if quick else 4000):
        spec = gen_geobox_spec(rng)
        opts = gen_wrap_opts(rng)
        if spec.get("gcps") is not None and opts["name"] is None:
            opts["name"] = "spatial_ref"
        h = gen_history(rng, spec, opts)
        run("history", {"spec": spec, "opts": opts, "history": h})
    # exhaustive single slices on a small axis-aligned and a small rotated box, both axes
    for cls, shape in (("mirror_y", [3, 4]), ("rot345", [4, 3]), ("gcp", [3, 3]), ("rot90", [3, 3]), ("fine_rot", [3, 3])):
        spec = gen_geobox_spec(rng, cls, crs="epsg:3857")
        spec["shape"] = shape
        opts = {"ntime": None, "nband": None, "nodata": None, "name": "spatial_ref", "dask": False, "dtype": "int16", "user": {}}
        ydim, xdim = "y", "x"
        for dim, n in ((ydim, shape[0]), (xdim, shape[1])):
            ff = [None] + list(range(-(n + 1), n + 2))
            for a, b in itertools.product(ff, ff):
                for st in ((None, 2, -1, -2) if quick else (None, 1, 2, 3, -1, -2, -3)):
                    if len(range(*slice(a, b, st).indices(n))) == 0:
                        continue
                    run("history", {"spec": spec, "opts": opts, "history": [{"op": "isel", "dim": dim, "slice": [a, b, st]}]})
    # strided / reversed slices leaving EXACTLY 1, 2 or 3 pixels on an axis (the boundary of the one-label
    # fallback of data_resolution_and_offset), alone, on both axes at once, and followed by other operations
    for cls in ("north_up", "mirror_xy", "rot345", "gcp", "rot270", "fine_shear"):
        spec = gen_geobox_spec(rng, cls, crs="epsg:3857")
        spec["shape"] = [8, 9]
        opts = {"ntime": None, "nband": None, "nodata": None, "name": "spatial_ref", "dask": cls == "mirror_xy",
                "dtype": "int16", "user": {}}
        per_axis = {}
        for dim, n in (("y", 8), ("x", 9)):
            got = {1: [], 2: [], 3: []}
            for st in (2, 3, 4, 5, 7, -1, -2, -3, -4, -5, -7):
                for a in (None, 0, 1, 2, n - 1, n - 2):
                    for b in (None, n, n - 1, 0, 3, 4):
                        m = len(range(*slice(a, b, st).indices(n)))
                        if m in got and len(got[m]) < (3 if quick else 12) and [a, b, st] not in got[m]:
                            got[m].append([a, b, st])
            per_axis[dim] = got
            for m, sl in got.items():
                for s_ in sl:
                    run("history", {"spec": spec, "opts": opts, "history": [{"op": "isel", "dim": dim, "slice": s_}]})
                    run("history", {"spec": spec, "opts": opts,
                                    "history": [{"op": "isel", "dim": dim, "slice": s_}, {"op": rng.choice(ELEM_OPS)},
                                                {"op": "isel", "dim": dim, "slice": [None, None, -1]}]})
        # the registration is USED (cached helpers get built) before the array is pickled, sliced, pickled again
        run("history", {"spec": spec, "opts": opts, "history": [{"op": "use"}, {"op": "pickle"}]})
        run("history", {"spec": spec, "opts": opts,
                        "history": [{"op": "use"}, {"op": "isel", "dim": "y", "slice": [1, None, 2]}, {"op": "use"}, {"op": "pickle"},
                                    {"op": "add"}, {"op": "use"}, {"op": "copy"}, {"op": "pickle"}]})
        for my in (1, 2, 3):
            for mx in (1, 2, 3):
                run("history", {"spec": spec, "opts": opts,
                                "history": [{"op": "isel", "dim": "y", "slice": rng.choice(per_axis["y"][my])},
                                            {"op": "isel", "dim": "x", "slice": rng.choice(per_axis["x"][mx])},
                                            {"op": rng.choice(["add", "astype", "pickle"])}]})
    run("history", {"spec": {"cls": "north_up", "shape": [8, 9], "affine": ["2", "0", "10", "0", "-2", "20"], "crs": "epsg:3857"},
                    "opts": {"ntime": None, "nband": None, "nodata": None, "name": "spatial_ref", "dask": False, "dtype": "int16", "user": {}},
                    "history": [{"op": "isel", "dim": "y", "slice": [None, None, 4]}, {"op": "isel", "dim": "x", "slice": [None, None, 5]}]})
    run("history", {"spec": {"cls": "north_up", "shape": [8, 9], "affine": ["2", "0", "10", "0", "-2", "20"], "crs": "epsg:3857"},
                    "opts": {"ntime": None, "nband": None, "nodata": None, "name": "spatial_ref", "dask": False, "dtype": "int16", "user": {}},
                    "history": [{"op": "isel", "dim": "y", "slice": [2, 4, None]}, {"op": "isel", "dim": "x", "slice": [None, None, -7]}]})
    # regular axes straight into affine_from_axis
    for _ in range(150 if quick else 2000):
        nx_, ny_ = rng.randint(2, 9), rng.randint(2, 9)
        rx, ry, tx, ty = gen_res(rng) * rng.choice([1, -1]), gen_res(rng) * rng.choice([1, -1]), gen_off(rng), gen_off(rng)
        run("affine_axis", {"xs": [fr(tx + i * rx) for i in range(nx_)], "ys": [fr(ty + i * ry) for i in range(ny_)]})
    # ... with labels stored as integers of every width and signedness, ascending and descending
    for i in range(60 if quick else 600):
        dtype = ["uint8", "uint16", "uint32", "uint64", "int8", "int16", "int32", "int64"][i % 8]
        hi = {"uint8": 255, "int8": 127}.get(dtype, 30000)
        nx_, ny_ = rng.randint(2, 6), rng.randint(2, 6)
        rx, ry = rng.choice([1, 2, 5, 10, 20]) * rng.choice([1, -1]), rng.choice([1, 2, 5, 10, 20]) * rng.choice([1, -1])
        x0 = rng.randint(0 if rx > 0 else -rx * (nx_ - 1), hi - (rx * (nx_ - 1) if rx > 0 else 0))
        y0 = rng.randint(0 if ry > 0 else -ry * (ny_ - 1), hi - (ry * (ny_ - 1) if ry > 0 else 0))
        run("affine_axis", {"xs": [fr(x0 + i_ * rx) for i_ in range(nx_)], "ys": [fr(y0 + i_ * ry) for i_ in range(ny_)], "dtype": dtype})
    # reprojection outputs
    for i in range(40 if quick else 400):
        rc = gen_reproject_case(rng, container=["da", "ds"][i % 2], dask=(i % 4) >= 2)
        run("reproject", {"rc": rc})
    for i in range(8 if quick else 60):
        rc = gen_reproject_case(rng, container=["da", "ds"][i % 2], dask=(i % 4) >= 2)
        if rc["dst"]["crs"] == rc["src"]["crs"]:
            rc["dst"]["crs"] = "epsg:3857" if rc["src"]["crs"] != "epsg:3857" else "epsg:4326"
        run("reproject_crs", {"rc": rc})
    # OPEN FINDING c09:reproject-ds-1d-spatial-var (docs/notes/C09.md): a 1-d variable along y or x in the Dataset
    for along in ("y", "x"):
        run("reproject-ds-1d-spatial-var",
            {"src": {"cls": "north_up", "shape": [6, 8], "affine": ["16384", "0", "1605632", "0", "-16384", "3342336"], "crs": "epsg:3857"},
             "dst": {"cls": "north_up", "shape": [3, 4], "affine": ["32768", "0", "1605632", "0", "-32768", "3342336"], "crs": "epsg:3857"},
             "along": along})
    # every output-grid option in geometries where it matters, judged against the meaning of the option (Fractions)
    for k in range(33 if quick else 220):
        run("reproject_grid", {"case": gen_grid_case(rng, k)})
    # how = CRS with output-grid options, Dataset and DataArray, numpy and dask
    k = 0
    cross = []
    for dst_crs, optsets in GRID_OPTS.items():
        for gopts in optsets:
            for container in (("ds", "da") if quick else ("ds", "da", "ds")):
                rc = gen_reproject_case(rng, container=container, dask=(k % 3) == 2)
                k += 1
                # a small footprint (~50 km) so that metre-sized pixels stay a few dozen per side
                if dst_crs == "epsg:4326" or (k % 2 and dst_crs != "epsg:4326"):
                    src_crs = "epsg:3857" if dst_crs != "epsg:3857" else "epsg:4326"
                else:
                    src_crs = "epsg:4326"
                if src_crs == "epsg:4326":
                    rc["src"] = {"cls": "north_up", "shape": [rng.choice([2, 3, 5]), rng.choice([2, 4, 6])],
                                 "affine": ["1/8", "0", fr(rng.randint(12, 15)), "0", "-1/8", fr(rng.randint(0, 40))], "crs": src_crs}
                else:
                    rc["src"] = {"cls": "north_up", "shape": [rng.choice([1, 3, 5]), rng.choice([2, 4, 6])],
                                 "affine": ["8192", "0", fr(rng.randint(170, 210) * 8192), "0", "-8192", fr(rng.randint(0, 400) * 8192)],
                                 "crs": src_crs}
                if rc["attrs"].get("crs"):
                    rc["attrs"]["crs"] = src_crs
                if rc["ds_attrs"].get("crs"):
                    rc["ds_attrs"]["crs"] = src_crs
                if rc["src"]["shape"][0] == 1 and "grid_mapping" in rc["ds_attrs"]:
                    rc["ds_attrs"] = {}
                rc["dst"] = dict(rc["dst"], crs=dst_crs)
                run("reproject_opts", {"rc": rc, "grid": gopts})
                run("reproject_covers", {"rc": rc, "grid": gopts})
                cross.append((rc, gopts))
    # the inputs of the correspondence histories, judged by the property predicates as well: a disagreement between
    # model and implementation that is a property violation then comes with its concrete replay
    for spec, opts, h in CASE_INPUTS:
        run("roundtrip", {"spec": spec, "opts": opts})
        run("history", {"spec": spec, "opts": opts, "history": h})
    # cross-CRS reprojections again after process histories that perturb the CRS / transformer caches of odc.geo.crs
    # (done last: the perturbations stay in this process)
    specs = ["epsg:4326", "epsg:3857", "epsg:32633"]
    hists = [["authority-order-first"], ["queries-first"], ["churn"], ["c09:many-destinations"],
             ["authority-order-first", "queries-first", "churn", "c09:many-destinations"]]
    jobs = []

    def case_specs(rc):
        """the CRS specs exactly as the case will hand them to odc.geo.crs (the caches are keyed by spec): the source
        CRS arrives as the WKT stored in the array's CRS coordinate, the destination as the `how` string"""
        out_ = [rc["dst"]["crs"]] + specs
        try:
            src_, _ = build_reproject_case(rc)
            out_ = [c.attrs["spatial_ref"] for c in src_.coords.values() if c.ndim == 0 and "spatial_ref" in c.attrs][:1] + out_
        except Exception:  # pylint: disable=broad-except
            pass
        return out_

    # lon/lat sources into projected grids and back: the pairs whose authority axis order is not x,y
    lonlat = [c for c in cross if "epsg:4326" in (c[0]["src"]["crs"], c[0]["dst"]["crs"])] or cross
    for hi, hist in enumerate(hists):
        picks = [lonlat[(hi * 5 + j * 3) % len(lonlat)] for j in range(2 if quick else 6)] if lonlat else []
        for j, (rc, gopts) in enumerate(picks):
            name = "reproject_covers" if (hi + j) % 3 else "reproject_opts"
            jobs.append({"hist": hist, "specs": case_specs(rc), "name": name, "args": [{"rc": rc, "grid": gopts if j % 2 == 0 else {}}]})
    # a long-running process reprojecting into many CRSs (bounded caches, recycled object ids): self-contained, judged
    # with pyproj; in its own interpreter so that it starts from empty caches and runs beside the other children
    jobs.append({"hist": [], "specs": [], "name": "reproject_many_crs", "args": [{"n": 300 if quick else 400, "rounds": 1 if quick else 2}]})
    for job, (ok, detail) in zip(jobs, run_in_fresh_processes(jobs)):
        out.count("predicate:after_history:" + "+".join(job["hist"]))
        out.case(("pred", "after_history", repr(job)), True)
        if not ok and "after_history" not in found:
            found["after_history"] = True
            out.violation("c09:after_history", f"after_history {job['hist']} -> {job['name']}: {detail}",
                          {"predicate": "after_history", "args": job, "observed": detail})


# ---------------------------------------------------------------- entry points
def run(out, tier, scratch):
    out.rule = ("correspondence: GeoBoxes of every class (north-up, mirrored x/y/both, non-square, rotated 3-4-5 / 5-12-13, mirrored "
                "rotation, sheared, 1xN, Nx1, 1x1 with and without CRS, GCP based) with dyadic coefficients, wrapped with random "
                "options (time/band axes, nodata, CRS coordinate name or none, numpy/dask backing, dtype), random histories of "
                "positional slices (None/negative/out-of-range bounds, steps +-1..3), element-wise operations, astype, pickle, copy, "
                "transpose; after every step the model's isel / the xarray contract is compared with the real object's snapshot and "
                "at the end the model's _locate_geo_info on the snapshot with the real .odc state; reprojection assembly for "
                "DataArray and Dataset, numpy and dask, with stale spatial attributes, extra coordinates, pass-through variables; "
                "hand-made malformed objects.  A case is non-trivial unless it is the empty axis; distinct = distinct canonical inputs. "
                "search: round-trip, history, label agreement, reprojection predicates evaluated on the implementation with Fractions")
    out.assumptions += [
        "xarray contract (oracle, validated on every generated history by comparing snapshots): isel with a slice sub-selects the labels of "
        "every coordinate along that dimension and keeps attrs/encoding; element-wise operations, astype, pickle, copy, transpose keep "
        "dimensions, all coordinates with their attrs and encoding, and never invent grid_mapping/crs attributes",
        "pyproj (oracle): str(crs)/WKT written into attributes parses back to an equal CRS; CRS equality",
        "exact rational model of binary64: all generated coefficients are dyadic so that every float operation of the code is exact; "
        "inputs whose labels are not exact are discarded and counted, never reported",
        "pixel values (rasterio warp, dask graph) are not modelled: only the coordinates/attributes/encoding assembly of the reprojection output",
    ]
    # the failing-input search must run whatever happens to the correspondence part: a change that makes the
    # implementation raise while cases are generated is itself a finding the predicates have to pin down
    try:
        cases = gen_cases(out, tier)
        fails, log = core.coq_eval_failures(REQ, "case", "check", cases, scratch, shard=40)
        detail = ""
        if fails:
            detail = "model and implementation differ on: " + " | ".join(cases[i][:1500] for i in fails[:3])
        out.oblige("correspondence:Model.XrCoords vs odc.geo._xr_interop/math/geobox", "correspondence", not fails, detail)
    except core.ModelEvalError as e:
        out.oblige("model-evaluation", "correspondence", False, e.log)
    except Exception:  # pylint: disable=broad-except
        import traceback
        out.oblige("correspondence:case generation on the implementation", "correspondence", False, traceback.format_exc())
    search(out, tier)


def replay(rp) -> int:
    name = rp["predicate"]
    ok, detail = PREDICATES[name](rp["args"])
    print(f"replay {name}: {'holds' if ok else 'FAILS'}: {detail}")
    return 0 if ok else 1


META = {
    "text": ("Coq theorems (coq/Props/C09.v) over a Gallina model of the coordinate generation (xr_coords/wrap_xr), the recovery "
             "(_locate_geo_info with affine_from_axis, the GeoTransform fallback and the encoded transform) and the reprojection "
             "output assembly (_xr_reproject_da/_ds): the recovered GeoBox equals the wrapped one for every axis-aligned, "
             "rotated/sheared and GCP based GeoBox (single rows/columns included when a CRS coordinate is attached); for every "
             "finite sequence of positional slices (any bounds, any non-zero step) and contract-respecting element-wise "
             "operations the recovered GeoBox maps remaining pixel k to the world location of original pixel idx(k) and agrees "
             "with the coordinate labels; reprojection outputs carry exactly xr_coords(dst), no attribute of SPATIAL_ATTRIBUTES "
             "and recover dst with its CRS, for a DataArray and for every variable of a Dataset.  The model is tied to the code by "
             "snapshot correspondence evaluated inside Coq and by direct predicates on the implementation."),
    "note": ("Trusted: Coq kernel; the hand-written model coq/Model/XrCoords.v (modelled, not verified: validated by correspondence on "
             "every run); the snapshot abstraction of xarray objects (dims, sizes, grid_mapping encoding, attrs, coordinates with 1-d "
             "numeric labels / attrs / _transform encoding, Dataset variables).  Oracle contracts: xarray isel/element-wise/astype/"
             "pickle keep coordinates, their attrs and encoding (checked on each generated history, testing); pyproj parses the CRS "
             "strings it wrote to an equal CRS; CRS identifiers are abstract.  Floats are exact rationals: inputs are dyadic, inexact "
             "ones are discarded and counted.  Domain restrictions in the theorems: shapes >= 1; axis-aligned single row/column needs "
             "the CRS coordinate (GeoTransform); shear below the 1e-10 is_affine_st tolerance is dropped by the code, the round trip is "
             "stated for exactly axis-aligned or clearly rotated grids; resolution_from_affine of a rotated GeoTransform is modelled only "
             "where the square root is rational; set.pop() among several distinct CRS candidates is modelled as 'first'; Dataset theorem: "
             "pass-through variables must not bring coordinates/dimensions named like the destination's.  Generator exclusions "
             "(counted, documented in docs/notes/C09.md): on dask-backed arrays slices with a negative step and start < -n (dask "
             "2026.8 mis-normalises them, upstream); dask-backed reprojection into a grid with both resolutions negative "
             "(GeoBox.footprint buffer sign, reported for C12/C13); how=CRS destinations have non-dyadic coefficients, only "
             "shape/CRS/attributes are compared there; cross-CRS cases are re-run after process histories (tools/vlib/crshist.py "
             "and a 300-CRS run) in fresh interpreters and judged with pyproj called directly (containment with one pixel of "
             "slack, testing).  Not proved: pixel values of the reprojection (rasterio/dask oracle), "
             "compute_output_geobox (how=CRS; property C11), GCP polynomial fit, binary64 rounding."),
    "technique": "Coq proof over hand-written Gallina model + snapshot correspondence (vm_compute) + exact-Fraction predicates",
    "design_ref": "DESIGN.md section 5, C09; section 6 F9",
}
