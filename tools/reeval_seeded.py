#!/venv/bin/python
"""Re-run the quick check against every kept seeded change of the given properties and record the result
in seeded/<id>-mK/meta.json under 'check_result' (the first-round result is kept as 'check_result_first_round')."""
import json, os, subprocess, sys
from pathlib import Path
V = Path(os.environ.get("VERIF_DIR", "/verif"))
for pid in sys.argv[1:]:
    for d in sorted((V / "seeded").glob(f"{pid}-*m[0-9]")):
        out = subprocess.run([str(V / "tools/try_patch.sh"), str(d / "patch.diff"), pid], capture_output=True, text=True).stdout
        viol = [l for l in out.splitlines() if l.startswith("VIOLATION")]
        concrete = [l for l in viol if not l.endswith("no-failing-input-found")]
        keys = "; ".join(l.split("replay:", 1)[1].strip()[:160] for l in out.splitlines() if "replay:" in l)
        if concrete:
            res = f"./check {pid} --tier quick: VIOLATION with concrete replay ({keys})"
        elif viol:
            res = f"./check {pid} --tier quick: VIOLATION no-failing-input-found ({keys})"
        else:
            res = f"./check {pid} --tier quick: MISSED (exit 0)"
        m = json.loads((d / "meta.json").read_text())
        if m.get("check_result") and m["check_result"] != res and "check_result_first_round" not in m:
            m["check_result_first_round"] = m["check_result"]
        m["check_result"] = res
        (d / "meta.json").write_text(json.dumps(m, indent=1) + "\n")
        print(d.name, "->", res[:150])
