#!/bin/bash
# usage: tools/try_patch.sh <patch.diff> <Cxx> [tier]  -- applies to /repo, runs the check, always reverts
p=$1; id=$2; tier=${3:-quick}
cd /repo || exit 2
if ! git diff --quiet; then echo "/repo has uncommitted changes"; exit 2; fi
git apply "$p" || { echo "patch does not apply"; exit 2; }
(cd /verif && ./check "$id" --tier "$tier" 2>&1 | grep -E "^VIOLATION|^KNOWN|^\[$id\] tier" )
rc=$?
for f in /verif/evidence/replays/$id-*.json; do [ -f "$f" ] && /venv/bin/python -c "
import json;d=json.load(open('$f'));print('   replay:',d.get('key'),'|',str(d.get('what') or d.get('note'))[:240])"; done
git -C /repo checkout -- .
