#!/bin/bash
# usage: tools/try_patch.sh <patch.diff> <Cxx> [tier]
# Applies the patch to a scratch worktree of /repo HEAD (so that long background runs against /repo are not
# disturbed), runs the check against it (VERIF_REPO), prints the verdict lines, removes the worktree.
p=$(readlink -f "$1"); id=$2; tier=${3:-quick}
V=${VERIF_DIR:-/verif}
wt=/tmp/trypatch-$id-$$-$RANDOM
git -C /repo worktree add -q --detach $wt HEAD || exit 2
( cd $wt && git apply "$p" ) || { echo "patch does not apply"; git -C /repo worktree remove --force $wt; exit 2; }
(cd $V && VERIF_REPO=$wt ./check "$id" --tier "$tier" 2>&1 | grep -E "^VIOLATION|^KNOWN|^\[$id\] tier" )
for f in $V/evidence/replays/$id-*.json; do [ -f "$f" ] && /venv/bin/python -c "
import json;d=json.load(open('$f'));print('   replay:',d.get('key'),'|',str(d.get('what') or d.get('note'))[:240])"; done
git -C /repo worktree remove --force $wt
# restore the evidence of the unchanged tree
(cd $V && git checkout -q -- evidence/$id.json 2>/dev/null; rm -f evidence/replays/$id-*.json)
