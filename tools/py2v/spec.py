"""Signature table of py2v: which functions of /repo are regenerated into coq/Gen on every run."""

ROI = "odc/geo/roi.py"
MATH = "odc/geo/math.py"
OVERLAP = "odc/geo/overlap.py"
SHARED = "odc/geo/cog/_shared.py"

MODULES = [
    {
        "out": "Gen/RoiGen.v",
        "props": ["C17"],
        "items": [
            {"file": MATH, "py": "align_down", "g": "g_align_down", "params": [("x", "Z"), ("align", "Z")], "ret": "Z"},
            {"file": MATH, "py": "align_up", "g": "g_align_up", "params": [("x", "Z"), ("align", "Z")], "ret": "Z"},
            {"file": MATH, "py": "align_up_pow2", "g": "g_align_up_pow2", "params": [("x", "Z")], "ret": "Z"},
            {"file": MATH, "py": "align_down_pow2", "g": "g_align_down_pow2", "params": [("x", "Z")], "ret": "Z"},
            {"file": ROI, "py": "_fill_if_none", "g": "g_fill_if_none", "params": [("x", "OZ"), ("val_if_none", "Z")], "ret": "Z"},
            {"file": ROI, "py": "_norm_slice_or_error", "g": "g_norm_slice_or_error", "params": [("s", "SS")], "ret": "NS", "raises": True},
            {"file": ROI, "py": "_norm_slice", "g": "g_norm_slice", "params": [("s", "SS"), ("n", "Z")], "ret": "NS"},
            {"file": ROI, "py": "slice_intersect3", "g": "g_slice_intersect3", "params": [("a", "SS"), ("b", "SS")],
             "ret": ("T", "NS", "NS", "NS"), "raises": True},
            {"file": ROI, "py": "roi_intersect.slice_intersect", "g": "g_slice_intersect", "params": [("a", "SS"), ("b", "SS")],
             "ret": "NS", "raises": True},
            {"file": ROI, "py": "roi_shape.slice_dim", "g": "g_slice_dim", "params": [("s", "SS")], "ret": "Z", "raises": True},
            {"file": ROI, "py": "roi_is_full.slice_full", "g": "g_slice_full", "params": [("s", "SS"), ("n", "Z")], "ret": "B"},
            {"file": ROI, "py": "roi_pad.pad_slice", "g": "g_pad_slice", "extra": [("pad", "Z")],
             "params": [("s", "SS"), ("n", "Z")], "ret": "NS"},
            {"file": ROI, "py": "roi_center.slice_center", "g": "g_slice_center", "params": [("s", "SS")], "ret": "Q", "raises": True},
            {"file": ROI, "py": "scaled_down_roi", "g": "g_scaled_down_axis", "params": [("s", "NS"), ("scale", "Z")], "ret": "NS",
             "genexp": {"index": 0, "count": 1, "vars": [("s", "NS")]}},
            {"file": ROI, "py": "scaled_up_roi", "g": "g_scaled_up_axis", "params": [("s", "NS"), ("scale", "Z")], "ret": "NS",
             "genexp": {"index": 0, "count": 2, "vars": [("s", "NS")]}},
            {"file": ROI, "py": "scaled_up_roi", "g": "g_scaled_up_clamp", "params": [("s", "NS"), ("dim", "Z")], "ret": "NS",
             "genexp": {"index": 1, "count": 2, "vars": [("s", "NS"), ("dim", "Z")]}},
            {"file": ROI, "py": "scaled_down_shape", "g": "g_scaled_down_dim", "params": [("s", "Z"), ("scale", "Z")], "ret": "Z",
             "genexp": {"index": 0, "count": 1, "vars": [("s", "Z")]}},
        ],
    },
    {
        "out": "Gen/MathGen.v",
        "props": ["C20", "C08", "C03", "C10", "C14"],
        "items": [
            {"file": MATH, "py": "maybe_zero", "g": "g_maybe_zero", "params": [("x", "Q"), ("tol", "Q")], "ret": "Q"},
            {"file": MATH, "py": "split_float", "g": "g_split_float", "params": [("x", "Q")], "ret": ("T", "Q", "Q")},
            {"file": MATH, "py": "maybe_int", "g": "g_maybe_int", "params": [("x", "Q"), ("tol", "Q")], "ret": "Q"},
            {"file": MATH, "py": "is_almost_int", "g": "g_is_almost_int", "params": [("x", "Q"), ("tol", "Q")], "ret": "B"},
            {"file": MATH, "py": "_snap_edge_pos", "g": "g_snap_edge_pos",
             "params": [("x0", "Q"), ("x1", "Q"), ("res", "Q"), ("tol", "Q")], "ret": ("T", "Q", "Z"), "raises": True},
            {"file": MATH, "py": "_snap_edge", "g": "g_snap_edge",
             "params": [("x0", "Q"), ("x1", "Q"), ("res", "Q"), ("tol", "Q")], "ret": ("T", "Q", "Z"), "raises": True},
            {"file": MATH, "py": "snap_grid", "g": "g_snap_grid",
             "params": [("x0", "Q"), ("x1", "Q"), ("res", "Q"), ("off_pix", "OQ"), ("tol", "Q")],
             "ret": ("T", "Q", "Z"), "raises": True},
            {"file": MATH, "py": "Bin1D.__getitem__", "g": "g_bin1d_getitem",
             "self": [("sz", "Q"), ("origin", "Q"), ("direction", "Z")], "params": [("idx", "Z")], "ret": ("T", "Q", "Q")},
            {"file": MATH, "py": "Bin1D.bin", "g": "g_bin1d_bin",
             "self": [("sz", "Q"), ("origin", "Q"), ("direction", "Z")], "params": [("x", "Q")], "ret": "Z", "raises": True},
            {"file": OVERLAP, "py": "compute_axis_overlap", "g": "g_compute_axis_overlap",
             "params": [("Ns", "Z"), ("Nd", "Z"), ("s", "Q"), ("t", "Q")], "ret": ("T", "NS", "NS"), "raises": True},
            {"file": OVERLAP, "py": "_pick_read_scale", "g": "g_pick_read_scale",
             "params": [("scale", "Q"), ("tol", "Q")], "ret": "Z", "raises": True},
        ],
    },
    {
        "out": "Gen/CogGen.v",
        "props": ["C05", "C15"],
        "items": [
            {"file": MATH, "py": "align_down", "g": "g_align_down", "params": [("x", "Z"), ("align", "Z")], "ret": "Z"},
            {"file": MATH, "py": "align_up", "g": "g_align_up", "params": [("x", "Z"), ("align", "Z")], "ret": "Z"},
            {"file": SHARED, "py": "adjust_blocksize", "g": "g_adjust_blocksize", "params": [("block", "Z"), ("dim", "Z")], "ret": "Z"},
            {"file": SHARED, "py": "num_overviews", "g": "g_num_overviews", "params": [("block", "Z"), ("dim", "Z")], "ret": "Z",
             "raises": True, "fuel": "S (S (Z.to_nat (Z.log2 (Z.abs dim))))"},
            # CogMeta.chunked: tiles per axis;  CogMeta.flat_tile_idx: (plane, y, x) -> position in the IFD's tile arrays
            {"file": SHARED, "py": "CogMeta.chunked", "g": "g_cog_nblocks", "params": [("N", "Z"), ("n", "Z")], "ret": "Z",
             "genexp": {"index": 0, "count": 1, "vars": [("N", "Z"), ("n", "Z")]}},
            {"file": SHARED, "py": "CogMeta.flat_tile_idx", "g": "g_cog_flat_tile_idx",
             "self": [("num_planes", "Z"), ("chunked.yx", ("T", "Z", "Z"))], "params": [("idx", ("T", "Z", "Z", "Z"))],
             "ret": "Z", "raises": True},
        ],
    },
    {
        "out": "Gen/TilesGen.v",
        "props": ["C04"],
        "items": [
            {"file": ROI, "py": "Tiles.__init__", "g": "g_tiles_count", "params": [("N", "Z"), ("n", "Z")], "ret": "Z",
             "genexp": {"index": 0, "count": 1, "vars": [("N", "Z"), ("n", "Z")]}},
            {"file": ROI, "py": "Tiles.__getitem__._slice", "g": "g_tiles_slice",
             "params": [("i", "NS"), ("N", "Z"), ("n", "Z")], "ret": "NS", "raises": True},
            {"file": ROI, "py": "Tiles.tile_shape._sz", "g": "g_tile_sz",
             "params": [("i", "Z"), ("n", "Z"), ("tile_sz", "Z"), ("total_sz", "Z")], "ret": "Z", "raises": True},
        ],
    },
]
