"""py2v — fail-closed translator from a small subset of Python (pure integer /
slice decision code of odc-geo) to Gallina.

Driven by the signature table in spec.py (Python is untyped).  The generated
text *is* a second model of the code: coq/Proofs/*GenEquiv.v proves it equal to
the hand-written model the property theorems are stated on, so a source change
in a translated function changes a definition those lemmas unfold and the
property's closure stops building — independently of any test generator.

Types:  Z  B(ool)  OZ (option Z)  SS (someslice: int or slice, fields optional)
        NS (normalised slice: (start, stop, step) : Z * Z * option Z)
        Q  (only for `<int> * 0.5`)   ('T', t1, t2, ...) tuples
Anything outside the whitelist raises Refused (the caller turns that into a
broken obligation, never a silent skip).
"""
from __future__ import annotations

import ast
from dataclasses import dataclass, field
from pathlib import Path


class Refused(Exception):
    def __init__(self, where, msg):
        super().__init__(f"{where}: {msg}")


def tname(t) -> str:
    if t == "Z":
        return "Z"
    if t == "B":
        return "bool"
    if t == "OZ":
        return "option Z"
    if t == "SS":
        return "someslice"
    if t == "NS":
        return "(Z * Z * option Z)"
    if t == "Q":
        return "Q"
    if t == "OQ":
        return "option Q"
    if isinstance(t, tuple) and t[0] == "T":
        return "(" + " * ".join(tname(x) for x in t[1:]) + ")"
    raise ValueError(t)


@dataclass
class Fn:
    """signature of a translated function"""
    gname: str
    params: list          # [(python name, type)]
    ret: object
    raises: bool = False


@dataclass
class Ctx:
    where: str
    fns: dict                       # python callable name -> Fn
    env: dict = field(default_factory=dict)   # python name -> ("v", coqname, type) | ("fields", a, b, c)
    counter: list = field(default_factory=lambda: [0])
    raises: bool = False
    ret: object = None
    divs: list = field(default_factory=list)   # divisors (coq text) met while translating the current statement
    extra: dict = field(default_factory=dict)  # per-function options from the signature table (fuel bound, ...)

    def fresh(self, base):
        self.counter[0] += 1
        return f"{base}_{self.counter[0]}"

    def child(self, **upd):
        c = Ctx(self.where, self.fns, dict(self.env), self.counter, self.raises, self.ret, self.divs, self.extra)
        c.env.update(upd)
        return c


def refuse(ctx, node, msg):
    raise Refused(f"{ctx.where}:{getattr(node, 'lineno', '?')}", f"{msg}: {ast.dump(node)[:120]}")


def coerce(ctx, node, v, t, want):
    """implicit int -> float promotion"""
    if t == want:
        return v
    if t == "Z" and want == "Q":
        return f"(inject_Z {v})"
    if t == "Q" and want == "OQ":
        return f"(Some {v})"
    if t == "OZ" and want == "OQ" and v == "None":
        return "None"
    if isinstance(t, tuple) and isinstance(want, tuple) and t[0] == want[0] == "T" and len(t) == len(want):
        if all(a == b or (a == "Z" and b == "Q") for a, b in zip(t[1:], want[1:])):
            parts = [coerce(ctx, node, proj(v, i, len(t) - 1), a, b) for i, (a, b) in enumerate(zip(t[1:], want[1:]))]
            return mk_tuple(parts)
    refuse(ctx, node, f"value of type {t} where {want} is expected")


def mk_tuple(parts):
    out = parts[0]
    for p in parts[1:]:
        out = f"({out}, {p})"
    return out


def proj(v, i, n):
    """i-th component of an n-tuple encoded as left-nested pairs"""
    out = v
    for _ in range(n - 1 - i):
        out = f"(fst {out})"
    return out if i == 0 else f"(snd {out})"


def arith(ctx, node, l, lt, r, rt):
    if lt == "Z" and rt == "Z":
        return l, r, "Z"
    if lt in ("Z", "Q") and rt in ("Z", "Q"):
        return coerce(ctx, node, l, lt, "Q"), coerce(ctx, node, r, rt, "Q"), "Q"
    refuse(ctx, node, f"arithmetic on {lt},{rt}")


# ------------------------------------------------------------------ expressions
def expr(ctx: Ctx, e) -> tuple[str, object]:
    if isinstance(e, ast.Constant):
        if e.value is None:
            return "None", "OZ"
        if isinstance(e.value, bool):
            return ("true" if e.value else "false"), "B"
        if isinstance(e.value, int):
            return f"({e.value})", "Z"
        if isinstance(e.value, float):
            from fractions import Fraction
            fr = Fraction(e.value)     # the exact binary64 value
            if fr.denominator > 2 ** 64 or e.value != e.value or e.value in (float("inf"), float("-inf")):
                refuse(ctx, e, "float constant")
            return f"({fr.numerator} # {fr.denominator})%Q", "Q"
        refuse(ctx, e, "constant")
    if isinstance(e, ast.Name):
        b = ctx.env.get(e.id)
        if b is None:
            refuse(ctx, e, "unbound name")
        if b[0] == "v":
            return b[1], b[2]
        if b[0] == "k":
            return f"({b[1]})", "Z"
        refuse(ctx, e, "slice object used as a value")
    if isinstance(e, ast.Attribute) and self_chain(e) is not None:
        # self.a or a chain self.a.b (a property of an attribute): a parameter named in the signature table
        b = ctx.env.get(self_chain(e))
        if b is None:
            refuse(ctx, e, "unknown attribute of self")
        return b[1], b[2]
    if isinstance(e, ast.Attribute) and isinstance(e.value, ast.Name) and e.attr in ("start", "stop", "step"):
        b = ctx.env.get(e.value.id)
        if b is None:
            refuse(ctx, e, "unbound name")
        i = ("start", "stop", "step").index(e.attr)
        if b[0] == "fields":
            return b[1 + i]
        if b[0] == "v" and b[2] == "NS":
            v = b[1]
            return [f"(fst (fst {v}))", f"(snd (fst {v}))", f"(snd {v})"][i], ["Z", "Z", "OZ"][i]
        refuse(ctx, e, "attribute of a non-slice")
    if isinstance(e, ast.Subscript):
        v, t = expr(ctx, e.value)
        idx = e.slice
        k = None
        if isinstance(idx, ast.Constant) and isinstance(idx.value, int):
            k = idx.value
        elif isinstance(idx, ast.Name) and ctx.env.get(idx.id, ("",))[0] == "k":
            k = ctx.env[idx.id][1]
        if k is None or not (isinstance(t, tuple) and t[0] == "T") or not 0 <= k < len(t) - 1:
            refuse(ctx, e, "subscript")
        return proj(v, k, len(t) - 1), t[1 + k]
    if isinstance(e, ast.BinOp):
        l, lt = expr(ctx, e.left)
        r, rt = expr(ctx, e.right)
        if isinstance(e.op, ast.Div):
            l, r, t = arith(ctx, e, l, lt, r, rt)
            if t != "Q":
                l, r = f"(inject_Z {l})", f"(inject_Z {r})"
            ctx.divs.append(r)
            return f"({l} / {r})%Q", "Q"
        if isinstance(e.op, (ast.Add, ast.Sub, ast.Mult)):
            l, r, t = arith(ctx, e, l, lt, r, rt)
            op = {ast.Add: "+", ast.Sub: "-", ast.Mult: "*"}[type(e.op)]
            return (f"({l} {op} {r})", "Z") if t == "Z" else (f"({l} {op} {r})%Q", "Q")
        if lt != "Z" or rt != "Z":
            refuse(ctx, e, f"integer operator on {lt},{rt}")
        ops = {ast.FloorDiv: "/", ast.Mod: "mod"}
        if type(e.op) in ops:
            return f"({l} {ops[type(e.op)]} {r})", "Z"
        if isinstance(e.op, ast.LShift):
            return f"(Z.shiftl {l} {r})", "Z"
        refuse(ctx, e, "operator")
    if isinstance(e, ast.UnaryOp):
        v, t = expr(ctx, e.operand)
        if isinstance(e.op, ast.USub) and t == "Z":
            return f"(- {v})", "Z"
        if isinstance(e.op, ast.USub) and t == "Q":
            return f"(- {v})%Q", "Q"
        if isinstance(e.op, ast.Not) and t == "B":
            return f"(negb {v})", "B"
        refuse(ctx, e, "unary")
    if isinstance(e, ast.BoolOp):
        vs = [expr(ctx, v) for v in e.values]
        if any(t != "B" for _, t in vs):
            refuse(ctx, e, "boolean operator on non-bool")
        op = " && " if isinstance(e.op, ast.And) else " || "
        return "(" + op.join(v for v, _ in vs) + ")", "B"
    if isinstance(e, ast.Compare):
        if len(e.ops) == 2 and all(isinstance(o, (ast.Lt, ast.LtE)) for o in e.ops):   # a <= b < c
            a = ast.Compare(e.left, [e.ops[0]], [e.comparators[0]])
            b = ast.Compare(e.comparators[0], [e.ops[1]], [e.comparators[1]])
            return expr(ctx, ast.BoolOp(ast.And(), [a, b]))
        if len(e.ops) != 1:
            refuse(ctx, e, "chained comparison")
        op, rhs = e.ops[0], e.comparators[0]
        if isinstance(op, (ast.Is, ast.IsNot)) and isinstance(rhs, ast.Constant) and rhs.value is None:
            v, t = expr(ctx, e.left)
            if t not in ("OZ", "OQ"):
                refuse(ctx, e, "`is None` on a non-optional")
            yes, no = ("true", "false") if isinstance(op, ast.Is) else ("false", "true")
            return f"(match {v} with None => {yes} | Some _ => {no} end)", "B"
        if isinstance(op, ast.In) and isinstance(rhs, ast.Tuple):
            v, t = expr(ctx, e.left)
            has_none = any(isinstance(x, ast.Constant) and x.value is None for x in rhs.elts)
            others = [expr(ctx, x) for x in rhs.elts if not (isinstance(x, ast.Constant) and x.value is None)]
            if any(tt != "Z" for _, tt in others):
                refuse(ctx, e, "`in` tuple of non-ints")
            if t == "OZ":
                y = ctx.fresh("y")
                test = " || ".join(f"({y} =? {o})" for o, _ in others) or "false"
                return f"(match {v} with None => {'true' if has_none else 'false'} | Some {y} => {test} end)", "B"
            if t == "Z" and not has_none:
                return "(" + " || ".join(f"({v} =? {o})" for o, _ in others) + ")", "B"
            refuse(ctx, e, "`in`")
        l, lt = expr(ctx, e.left)
        r, rt = expr(ctx, rhs)
        if "Q" in (lt, rt):
            l, r, _ = arith(ctx, e, l, lt, r, rt)
            qops = {ast.Lt: f"(Qltb {l} {r})", ast.LtE: f"(Qle_bool {l} {r})", ast.Gt: f"(Qltb {r} {l})",
                    ast.GtE: f"(Qle_bool {r} {l})", ast.Eq: f"(Qeq_bool {l} {r})", ast.NotEq: f"(negb (Qeq_bool {l} {r}))"}
            if type(op) in qops:
                return qops[type(op)], "B"
            refuse(ctx, e, "comparison")
        if lt != "Z" or rt != "Z":
            refuse(ctx, e, f"comparison of {lt},{rt}")
        ops = {ast.Lt: "<?", ast.LtE: "<=?", ast.Gt: ">?", ast.GtE: ">=?", ast.Eq: "=?"}
        if type(op) in ops:
            return f"({l} {ops[type(op)]} {r})", "B"
        if isinstance(op, ast.NotEq):
            return f"(negb ({l} =? {r}))", "B"
        refuse(ctx, e, "comparison")
    if isinstance(e, ast.IfExp):
        nn = none_test(ctx, e.test)
        if nn is not None:
            var, coqv, is_none = nn
            y = ctx.fresh(var)
            c_some = ctx.child(**{var: ("v", y, opt_base(ctx, var))})
            a, at = expr(ctx if is_none else c_some, e.body)
            b, bt = expr(c_some if is_none else ctx, e.orelse)
            if at != bt:
                refuse(ctx, e, f"branches of different type {at},{bt}")
            n_br, s_br = (a, b) if is_none else (b, a)
            return f"(match {coqv} with None => {n_br} | Some {y} => {s_br} end)", at
        c, ct = expr(ctx, e.test)
        nd = len(ctx.divs)
        a, at = expr(ctx, e.body)
        b, bt = expr(ctx, e.orelse)
        if len(ctx.divs) != nd:
            refuse(ctx, e, "division inside a conditional expression")
        if at != bt and {at, bt} == {"Z", "Q"}:
            a, b, at = coerce(ctx, e, a, at, "Q"), coerce(ctx, e, b, bt, "Q"), "Q"
            bt = "Q"
        if ct != "B" or at != bt:
            refuse(ctx, e, "conditional expression")
        return f"(if {c} then {a} else {b})", at
    if isinstance(e, ast.Tuple):
        vs = [expr(ctx, x) for x in e.elts]
        return "(" + ", ".join(v for v, _ in vs) + ")", ("T",) + tuple(t for _, t in vs)
    if isinstance(e, ast.Call):
        return call(ctx, e)
    refuse(ctx, e, "expression")


def self_chain(e):
    """'self.a.b' for an attribute chain rooted at the name self, else None"""
    parts = []
    while isinstance(e, ast.Attribute):
        parts.append(e.attr)
        e = e.value
    if isinstance(e, ast.Name) and e.id == "self" and parts:
        return "self." + ".".join(reversed(parts))
    return None


def is_int_class(n) -> bool:
    """`int`, or a tuple `(int, np.integer)` / `(int, numpy.integer)`: numpy integers are integers for the model"""
    if isinstance(n, ast.Name):
        return n.id == "int"
    if isinstance(n, ast.Tuple) and n.elts and isinstance(n.elts[0], ast.Name) and n.elts[0].id == "int":
        return all(isinstance(e, ast.Attribute) and isinstance(e.value, ast.Name) and e.value.id in ("np", "numpy")
                   and e.attr == "integer" for e in n.elts[1:])
    return False


def none_test(ctx, test):
    """`x is None` / `x is not None` with x a variable (or slice field) of type OZ -> (pyname, coq, is_none)"""
    if (isinstance(test, ast.Compare) and len(test.ops) == 1 and isinstance(test.ops[0], (ast.Is, ast.IsNot))
            and isinstance(test.comparators[0], ast.Constant) and test.comparators[0].value is None
            and isinstance(test.left, ast.Name)):
        b = ctx.env.get(test.left.id)
        if b and b[0] == "v" and b[2] in ("OZ", "OQ"):
            return test.left.id, b[1], isinstance(test.ops[0], ast.Is)
    return None


def opt_base(ctx, name):
    return "Q" if ctx.env[name][2] == "OQ" else "Z"


def call(ctx, e) -> tuple[str, object]:
    if e.keywords:
        refuse(ctx, e, "keyword arguments")
    if isinstance(e.func, ast.Attribute) and e.func.attr == "bit_length" and not e.args:
        v, t = expr(ctx, e.func.value)
        if t != "Z":
            refuse(ctx, e, "bit_length of non-int")
        return f"(py_bit_length {v})", "Z"
    if isinstance(e.func, ast.Attribute) and isinstance(e.func.value, ast.Name) and e.func.value.id == "math":
        f = e.func.attr
    elif isinstance(e.func, ast.Name):
        f = e.func.id
    else:
        refuse(ctx, e, "call target")
    args = [expr(ctx, a) for a in e.args]
    if f in ("min", "max") and len(args) == 2 and all(t == "Z" for _, t in args):
        return f"(Z.{f} {args[0][0]} {args[1][0]})", "Z"
    if f in ("min", "max") and len(args) == 2 and all(t in ("Z", "Q") for _, t in args):
        a, b, _ = arith(ctx, e, args[0][0], args[0][1], args[1][0], args[1][1])
        return f"(py_{f}q {a} {b})", "Q"
    if f == "int" and len(args) == 1 and args[0][1] == "Z":
        return args[0]
    if f == "int" and len(args) == 1 and args[0][1] == "Q":
        return f"(py_trunc {args[0][0]})", "Z"
    if f == "abs" and len(args) == 1 and args[0][1] == "Z":
        return f"(Z.abs {args[0][0]})", "Z"
    if f == "abs" and len(args) == 1 and args[0][1] == "Q":
        return f"(Qabs {args[0][0]})", "Q"
    if f in ("floor", "ceil") and len(args) == 1 and args[0][1] in ("Z", "Q"):
        v = coerce(ctx, e, args[0][0], args[0][1], "Q")
        return f"({'Qfloor' if f == 'floor' else 'Qceiling'} {v})", "Z"
    if f == "isfinite" and len(args) == 1 and args[0][1] in ("Z", "Q"):
        return "true", "B"          # the rational model has no non-finite values
    if f == "fmod" and len(args) == 2 and args[0][1] == "Q" and isinstance(e.args[1], ast.Constant) and e.args[1].value in (1, 1.0):
        return f"(py_fmod1 {args[0][0]})", "Q"
    if f == "slice" and len(args) in (2, 3):
        if args[0][1] != "Z" or args[1][1] != "Z":
            refuse(ctx, e, "slice() of non-int bounds")
        st = "None"
        if len(args) == 3:
            if args[2][1] != "OZ":
                refuse(ctx, e, "slice() step")
            st = args[2][0]
        return f"({args[0][0]}, {args[1][0]}, {st})", "NS"
    fn = ctx.fns.get(f)
    if fn is None:
        refuse(ctx, e, "call of an untranslated function")
    if fn.raises:
        refuse(ctx, e, "raising function called inside an expression")
    return apply_fn(ctx, e, fn, args), fn.ret


def apply_fn(ctx, node, fn: Fn, args):
    if len(args) != len(fn.params):
        refuse(ctx, node, f"arity of {fn.gname}")
    out = []
    for (v, t), (_, pt) in zip(args, fn.params):
        out.append(coerce(ctx, node, v, t, pt))
    return "(" + " ".join([fn.gname] + out) + ")"


def ss_arg(ctx, a):
    """argument of type SS: must be a variable still bound as a whole someslice"""
    if isinstance(a, ast.Name):
        b = ctx.env.get(a.id)
        if b and b[0] == "v" and b[2] == "SS":
            return b[1]
    return None


# ------------------------------------------------------------------ statements (continuation style)
def ret_wrap(ctx, v):
    return f"Ok {v}" if ctx.raises else v


def guarded(ctx, node, divs, k: str) -> str:
    """Python raises ZeroDivisionError when a divisor is 0 (Coq's Q division is total): guard each divisor."""
    if divs and not ctx.raises:
        refuse(ctx, node, "division in a function declared total")
    for d in reversed(divs):
        k = f"(if Qeq_bool {d} 0 then Err EOther else {k})"
    return k


def expr_g(ctx, e):
    """expr + the divisors met while translating it"""
    n = len(ctx.divs)
    v, t = expr(ctx, e)
    d = ctx.divs[n:]
    del ctx.divs[n:]
    return v, t, d


def is_raising_call(ctx, v):
    return (isinstance(v, ast.Call) and isinstance(v.func, ast.Name) and v.func.id in ctx.fns
            and ctx.fns[v.func.id].raises)


def stmts(ctx: Ctx, body: list, node=None) -> str:
    if not body:
        refuse(ctx, node or ast.Pass(), "control reaches the end of the function without return")
    s, rest = body[0], body[1:]
    if isinstance(s, ast.Expr) and isinstance(s.value, ast.Constant) and isinstance(s.value.value, str) \
            and s.value.value != "__py2v_loop_continue__":
        return stmts(ctx, rest, s)   # docstring
    if isinstance(s, ast.Return):
        if s.value is None:
            refuse(ctx, s, "bare return")
        # return f(args) of a raising function
        if isinstance(s.value, ast.Call) and isinstance(s.value.func, ast.Name) and s.value.func.id in ctx.fns \
                and ctx.fns[s.value.func.id].raises:
            fn = ctx.fns[s.value.func.id]
            if not ctx.raises or fn.ret != ctx.ret:
                refuse(ctx, s, "return of a raising call")
            return call_raising(ctx, s.value, fn)
        v, t, dv = expr_g(ctx, s.value)
        v = coerce(ctx, s, v, t, ctx.ret)
        return guarded(ctx, s, dv, ret_wrap(ctx, v))
    if isinstance(s, ast.Raise):
        if not ctx.raises:
            refuse(ctx, s, "raise in a function declared total")
        exc = s.exc.func.id if isinstance(s.exc, ast.Call) and isinstance(s.exc.func, ast.Name) else getattr(s.exc, "id", None)
        kinds = {"ValueError": "EValue", "IndexError": "EIndex", "RuntimeError": "ERuntime"}
        if exc not in kinds:
            refuse(ctx, s, "exception type")
        return f"Err {kinds[exc]}"
    if isinstance(s, ast.Assert):
        if not ctx.raises:
            refuse(ctx, s, "assert in a function declared total")
        # assert (x is None) or COND   with x optional
        tst = s.test
        if isinstance(tst, ast.BoolOp) and isinstance(tst.op, ast.Or) and len(tst.values) == 2:
            nn = none_test(ctx, tst.values[0])
            if nn is not None and nn[2]:
                var, coqv, _ = nn
                y = ctx.fresh(var)
                c_some = ctx.child(**{var: ("v", y, opt_base(ctx, var))})
                c, t, dv = expr_g(c_some, tst.values[1])
                if t != "B" or dv:
                    refuse(ctx, s, "assert")
                # the narrowing does not survive the assert: continue with the optional variable
                k = stmts(ctx, rest, s)
                return f"(match {coqv} with None => {k} | Some {y} => (if {c} then {k} else Err (EAssert 0)) end)"
        c, t, dv = expr_g(ctx, s.test)
        if t != "B":
            refuse(ctx, s, "assert of non-bool")
        return guarded(ctx, s, dv, f"(if {c} then {stmts(ctx, rest, s)} else Err (EAssert 0))")
    if isinstance(s, ast.AugAssign) and isinstance(s.target, ast.Name) and isinstance(s.op, (ast.Add, ast.Sub, ast.Mult)):
        return stmts(ctx, [ast.copy_location(ast.Assign([ast.Name(s.target.id, ast.Store())],
                                                        ast.BinOp(ast.Name(s.target.id, ast.Load()), s.op, s.value)), s)] + rest, s)
    if isinstance(s, ast.Assign) and len(s.targets) == 1:
        tgt = s.targets[0]
        if isinstance(tgt, ast.Name):
            # x = raising_call(...)
            if isinstance(s.value, ast.Call) and isinstance(s.value.func, ast.Name) and s.value.func.id in ctx.fns \
                    and ctx.fns[s.value.func.id].raises:
                fn = ctx.fns[s.value.func.id]
                if not ctx.raises:
                    refuse(ctx, s, "raising call in a function declared total")
                y = ctx.fresh(tgt.id)
                c2 = ctx.child(**{tgt.id: ("v", y, fn.ret)})
                return f"(bind {call_raising(ctx, s.value, fn)} (fun {y} => {stmts(c2, rest, s)}))"
            # x = total_call(someslice var, ...)
            if isinstance(s.value, ast.Call) and isinstance(s.value.func, ast.Name) and s.value.func.id in ctx.fns:
                fn = ctx.fns[s.value.func.id]
                v = call_total(ctx, s.value, fn)
                t = fn.ret
                dv = []
            else:
                v, t, dv = expr_g(ctx, s.value)
            y = ctx.fresh(tgt.id)
            c2 = ctx.child(**{tgt.id: ("v", y, t)})
            return guarded(ctx, s, dv, f"(let {y} := {v} in {stmts(c2, rest, s)})")
        if isinstance(tgt, ast.Tuple) and all(isinstance(x, ast.Name) for x in tgt.elts):
            names = [x.id for x in tgt.elts]
            dv = []
            if is_raising_call(ctx, s.value) or (isinstance(s.value, ast.Call) and isinstance(s.value.func, ast.Name)
                                                 and s.value.func.id in ctx.fns):
                fn = ctx.fns[s.value.func.id]
                rt = fn.ret
                if not (isinstance(rt, tuple) and rt[0] == "T" and len(rt) - 1 == len(names)):
                    refuse(ctx, s, "unpacking a non-tuple result")
                y = ctx.fresh("r")
                c2 = ctx.child(**{n: ("v", proj(y, i, len(names)), t) for i, (n, t) in enumerate(zip(names, rt[1:]))})
                if fn.raises:
                    if not ctx.raises:
                        refuse(ctx, s, "raising call in a function declared total")
                    return f"(bind {call_raising(ctx, s.value, fn)} (fun {y} => {stmts(c2, rest, s)}))"
                return f"(let {y} := {call_total(ctx, s.value, fn)} in {stmts(c2, rest, s)})"
            if isinstance(s.value, ast.GeneratorExp) and isinstance(s.value.generators[0].iter, ast.Call) \
                    and isinstance(s.value.generators[0].iter.func, ast.Name) and s.value.generators[0].iter.func.id == "range":
                g = s.value
                it = g.generators[0].iter
                if len(g.generators) != 1 or g.generators[0].ifs or not isinstance(g.generators[0].target, ast.Name) \
                        or len(it.args) != 1 or not isinstance(it.args[0], ast.Constant) or it.args[0].value != len(names):
                    refuse(ctx, s, "generator over range")
                x = g.generators[0].target.id
                vt = [expr_g(ctx.child(**{x: ("k", k)}), g.elt) for k in range(len(names))]
                vals, types = [v for v, _, _ in vt], [t for _, t, _ in vt]
                dv = [d for _, _, ds in vt for d in ds]
            elif isinstance(s.value, ast.GeneratorExp):
                g = s.value
                if len(g.generators) != 1 or g.generators[0].ifs or not isinstance(g.generators[0].target, ast.Name) \
                        or not isinstance(g.generators[0].iter, ast.Tuple) or len(g.generators[0].iter.elts) != len(names):
                    refuse(ctx, s, "generator form")
                x = g.generators[0].target.id
                srcs = [expr(ctx, it) for it in g.generators[0].iter.elts]
                if len({t for _, t in srcs}) != 1:
                    refuse(ctx, s, "generator over mixed types")
                xv = ctx.fresh(x)
                body_v, body_t = expr(ctx.child(**{x: ("v", xv, srcs[0][1])}), g.elt)
                fn_txt = f"(fun {xv} : {tname(srcs[0][1])} => {body_v})"
                vals = [f"({fn_txt} {sv})" for sv, _ in srcs]
                types = [body_t] * len(names)
            elif isinstance(s.value, ast.Tuple) and len(s.value.elts) == len(names):
                vt = [expr_g(ctx, x) for x in s.value.elts]
                vals, types = [v for v, _, _ in vt], [t for _, t, _ in vt]
                dv = [d for _, _, ds in vt for d in ds]
            elif isinstance(s.value, (ast.Name, ast.Attribute)):
                # a, b, c = t   with t of a tuple type
                v, t = expr(ctx, s.value)
                if not (isinstance(t, tuple) and t[0] == "T" and len(t) - 1 == len(names)):
                    refuse(ctx, s, "unpacking a value that is not a tuple of that length")
                vals, types = [proj(v, i, len(names)) for i in range(len(names))], list(t[1:])
            else:
                refuse(ctx, s, "tuple assignment")
            ys = [ctx.fresh(n) for n in names]
            c2 = ctx.child(**{n: ("v", y, t) for n, y, t in zip(names, ys, types)})
            pat = ys[0]
            for y in ys[1:]:
                pat = f"({pat}, {y})"
            val = vals[0]
            for v in vals[1:]:
                val = f"({val}, {v})"
            return guarded(ctx, s, dv, f"(let '{pat} := {val} in {stmts(c2, rest, s)})")
        refuse(ctx, s, "assignment target")
    if isinstance(s, ast.For):
        # for a, b in zip(T1, T2): BODY   with T1, T2 tuple displays or values of tuple types of one length:
        # unrolled (the body may raise or assign, it may not return/break/continue)
        it = s.iter
        if s.orelse or not (isinstance(it, ast.Call) and isinstance(it.func, ast.Name) and it.func.id == "zip" and not it.keywords):
            refuse(ctx, s, "for loop (only `for .. in zip(tuples)` is translated)")
        tg = s.target
        names = [tg] if isinstance(tg, ast.Name) else (list(tg.elts) if isinstance(tg, ast.Tuple) else None)
        if names is None or not all(isinstance(x, ast.Name) for x in names) or len(names) != len(it.args):
            refuse(ctx, s, "for loop target")
        for sub in ast.walk(ast.Module(body=s.body, type_ignores=[])):
            if isinstance(sub, (ast.Return, ast.Break, ast.Continue, ast.For, ast.While)):
                refuse(ctx, sub, "return/break/continue/nested loop inside a for loop")
        lens, elems = [], []
        for a in it.args:
            if isinstance(a, ast.Tuple):
                lens.append(len(a.elts))
                elems.append(list(a.elts))
            else:
                _, t = expr(ctx, a)
                if not (isinstance(t, tuple) and t[0] == "T"):
                    refuse(ctx, a, "zip over a value that is not a tuple")
                lens.append(len(t) - 1)
                elems.append([ast.copy_location(ast.Subscript(a, ast.Constant(k), ast.Load()), a) for k in range(len(t) - 1)])
        if len(set(lens)) != 1:
            refuse(ctx, s, "zip over tuples of different lengths")
        import copy
        unrolled = []
        for k in range(lens[0]):
            tgt = ast.Tuple([ast.Name(x.id, ast.Store()) for x in names], ast.Store())
            val = ast.Tuple([el[k] for el in elems], ast.Load())
            if len(names) == 1:
                tgt, val = ast.Name(names[0].id, ast.Store()), elems[0][k]
            unrolled.append(ast.copy_location(ast.Assign([tgt], val), s))
            unrolled += copy.deepcopy(s.body)
        return stmts(ctx, unrolled + rest, s)
    if isinstance(s, ast.While):
        # while COND: simple assignments   ->  local fixpoint on explicit fuel (exhaustion = the loop does not
        # terminate within the bound given in the signature table: Err EOther)
        if not ctx.raises or s.orelse or "fuel" not in ctx.extra:
            refuse(ctx, s, "while loop (needs a raising function and a fuel bound in the signature table)")
        carried = []
        for b in s.body:
            if isinstance(b, ast.AugAssign) and isinstance(b.target, ast.Name):
                name = b.target.id
            elif isinstance(b, ast.Assign) and len(b.targets) == 1 and isinstance(b.targets[0], ast.Name):
                name = b.targets[0].id
            else:
                refuse(ctx, b, "statement inside a while loop")
            if name not in carried:
                carried.append(name)
        for n in carried:
            if ctx.env.get(n, ("",))[0] != "v":
                refuse(ctx, s, f"loop variable {n} is not bound before the loop")
        loop = ctx.fresh("loop")
        fuel = ctx.fresh("fuel")
        vs = [(n, ctx.fresh(n), ctx.env[n][2]) for n in carried]
        c_in = ctx.child(**{n: ("v", y, t) for n, y, t in vs})
        cond, ct, dv = expr_g(c_in, s.test)
        if ct != "B" or dv:
            refuse(ctx, s, "loop condition")
        # body: assignments, then the recursive call with the current values of the carried variables
        marker = ast.Expr(ast.Constant("__py2v_loop_continue__"))
        c_in.extra = dict(ctx.extra, loop_call=(loop, fuel, carried, [t for _, _, t in vs]))
        body_txt = stmts(c_in, list(s.body) + [marker], s)
        c_in.extra = dict(ctx.extra)
        rest_txt = stmts(c_in, rest, s)
        binders = " ".join(f"({y} : {tname(t)})" for _, y, t in vs)
        init = " ".join(ctx.env[n][1] for n in carried)
        return (f"((fix {loop} ({fuel} : nat) {binders} {{struct {fuel}}} : res {tname(ctx.ret)} := "
                f"match {fuel} with O => Err EOther | S {fuel} => (if {cond} then {body_txt} else {rest_txt}) end) "
                f"({ctx.extra['fuel']}) {init})")
    if isinstance(s, ast.Expr) and isinstance(s.value, ast.Constant) and s.value.value == "__py2v_loop_continue__":
        loop, fuel, carried, types = ctx.extra["loop_call"]
        args = []
        for n, t in zip(carried, types):
            b = ctx.env[n]
            if b[0] != "v" or b[2] != t:
                refuse(ctx, s, f"loop variable {n} changes type")
            args.append(b[1])
        return "(" + " ".join([loop, fuel] + args) + ")"
    if isinstance(s, ast.If):
        orelse = s.orelse
        # isinstance(s, int) dispatch on a someslice variable
        t = s.test
        if isinstance(t, ast.Call) and isinstance(t.func, ast.Name) and t.func.id == "isinstance" and len(t.args) == 2 \
                and isinstance(t.args[0], ast.Name) and is_int_class(t.args[1]):
            name = t.args[0].id
            b = ctx.env.get(name)
            if not b or b[0] != "v" or b[2] != "SS":
                refuse(ctx, s, "isinstance on a non-someslice variable")
            i, a, bb, c = (ctx.fresh(name + x) for x in ("_int", "_start", "_stop", "_step"))
            c_int = ctx.child(**{name: ("v", i, "Z")})
            c_sl = ctx.child(**{name: ("fields", (a, "OZ"), (bb, "OZ"), (c, "OZ"))})
            return (f"(match {b[1]} with SInt {i} => {stmts(c_int, s.body + rest, s)} "
                    f"| SSl {a} {bb} {c} => {stmts(c_sl, orelse + rest, s)} end)")
        nn = none_test(ctx, t)
        if nn is not None:
            var, coqv, is_none = nn
            y = ctx.fresh(var)
            c_some = ctx.child(**{var: ("v", y, opt_base(ctx, var))})
            br_none = stmts(ctx, (s.body if is_none else orelse) + rest, s)
            br_some = stmts(c_some, (orelse if is_none else s.body) + rest, s)
            return f"(match {coqv} with None => {br_none} | Some {y} => {br_some} end)"
        # `s.start is None` on slice fields: bind through a temporary
        if (isinstance(t, ast.Compare) and len(t.ops) == 1 and isinstance(t.ops[0], (ast.Is, ast.IsNot))
                and isinstance(t.left, ast.Attribute)):
            v, vt = expr(ctx, t.left)
            if vt != "OZ":
                refuse(ctx, s, "`is None` on non-optional")
            is_none = isinstance(t.ops[0], ast.Is)
            y = ctx.fresh("fld")
            # inside the Some-branch the field itself is known: rebind the field variable
            b = ctx.env.get(t.left.value.id)
            upd = {}
            if b and b[0] == "fields":
                idx = ("start", "stop", "step").index(t.left.attr)
                nb = list(b)
                nb[1 + idx] = (y, "Z")
                upd = {t.left.value.id: tuple(nb)}
            c_some = ctx.child(**upd)
            br_none = stmts(ctx, (s.body if is_none else orelse) + rest, s)
            br_some = stmts(c_some, (orelse if is_none else s.body) + rest, s)
            return f"(match {v} with None => {br_none} | Some {y} => {br_some} end)"
        c, ct, dv = expr_g(ctx, t)
        if ct != "B":
            refuse(ctx, s, "condition of non-bool type")
        return guarded(ctx, s, dv, f"(if {c} then {stmts(ctx, s.body + rest, s)} else {stmts(ctx, orelse + rest, s)})")
    refuse(ctx, s, "statement")


def call_args(ctx, e, fn):
    if e.keywords or len(e.args) != len(fn.params):
        refuse(ctx, e, f"call of {fn.gname}")
    out = []
    for a, (_, pt) in zip(e.args, fn.params):
        if pt == "SS":
            v = ss_arg(ctx, a)
            if v is None:
                refuse(ctx, e, "someslice argument must be an untouched someslice variable")
            out.append(v)
        else:
            v, t = expr(ctx, a)
            out.append(coerce(ctx, e, v, t, pt))
    return "(" + " ".join([fn.gname] + out) + ")"


def call_raising(ctx, e, fn):
    return call_args(ctx, e, fn)


def call_total(ctx, e, fn):
    return call_args(ctx, e, fn)


# ------------------------------------------------------------------ functions
def find_def(tree, qual):
    node = tree
    for part in qual.split("."):
        found = None
        for ch in ast.walk(node) if node is tree else node.body:
            if isinstance(ch, (ast.FunctionDef, ast.ClassDef)) and ch.name == part:
                # take the last definition with that name at this level (overloads come first)
                found = ch
        if found is None:
            return None
        node = found
    return node


def last_toplevel(tree, name):
    found = None
    for ch in tree.body:
        if isinstance(ch, (ast.FunctionDef, ast.ClassDef)) and ch.name == name:
            found = ch
    return found


def translate_function(src_path: Path, tree, item: dict, fns: dict) -> str:
    """item: {py: qualified name, g: gallina name, params: [(name,type)], ret: type, raises: bool,
              extra: [(closure var, type)], genexp: optional dict(index, var types)}"""
    qual = item["py"]
    parts = qual.split(".")
    node = last_toplevel(tree, parts[0])
    for p in parts[1:]:
        if node is None:
            break
        nxt = None
        for ch in node.body:
            if isinstance(ch, ast.FunctionDef) and ch.name == p:
                nxt = ch
        node = nxt
    where = f"{src_path.name}:{qual}"
    if node is None:
        raise Refused(where, "function not found")
    selfattrs = list(item.get("self", []))
    params = [("self_" + n.replace(".", "_"), t) for n, t in selfattrs] + list(item.get("extra", [])) + list(item["params"])
    ctx = Ctx(where, fns, raises=item.get("raises", False), ret=item["ret"])
    if "fuel" in item:
        ctx.extra["fuel"] = item["fuel"]
    if "genexp" not in item:
        got = [a.arg for a in node.args.args]
        want = (["self"] if selfattrs else []) + [n for n, _ in item["params"]]
        if got != want or node.args.vararg or node.args.kwarg or node.args.kwonlyargs:
            raise Refused(where, f"parameters are {got}, signature table says {want}")
    reserved = {"res", "bind", "fst", "snd", "Ok", "Err", "guard", "mod", "at", "as", "in", "end", "fun", "match", "with"}
    cname = {n: (n + "_p" if n in reserved else n) for n, _ in params}
    for n, t in params:
        ctx.env[n] = ("v", cname[n], t)
    for n, t in selfattrs:
        ctx.env["self." + n] = ("v", "self_" + n.replace(".", "_"), t)
    if "genexp" in item:
        gens = [g for g in ast.walk(node) if isinstance(g, ast.GeneratorExp)]
        gens.sort(key=lambda g: (g.lineno, g.col_offset))
        k = item["genexp"]["index"]
        if k >= len(gens) or len(gens) != item["genexp"]["count"]:
            raise Refused(where, f"expected {item['genexp']['count']} generator expressions, found {len(gens)}")
        g = gens[k]
        tg = g.generators[0].target
        names = [tg.id] if isinstance(tg, ast.Name) else [x.id for x in tg.elts]
        if names != [n for n, _ in item["genexp"]["vars"]] or len(g.generators) != 1 or g.generators[0].ifs:
            raise Refused(where, f"generator variables are {names}")
        v, t = expr(ctx, g.elt)
        if t != item["ret"]:
            raise Refused(where, f"generator element has type {t}, declared {item['ret']}")
        body = v
    else:
        body = stmts(ctx, node.body, node)
    sig = " ".join(f"({cname[n]} : {tname(t)})" for n, t in params)
    rt = tname(item["ret"])
    if item.get("raises"):
        rt = f"res {rt}"
    return f"(* {where} line {node.lineno} *)\nDefinition {item['g']} {sig} : {rt} :=\n  {body}.\n"


PRELUDE = """(** GENERATED by tools/py2v from the current /repo sources on every run — do not edit. *)
From Coq Require Import ZArith QArith Qround Qabs List Bool.
From OG Require Import Base.Result Model.Roi.
Open Scope Z_scope.

(* int.bit_length *)
Definition py_bit_length (x : Z) : Z := if x =? 0 then 0 else Z.log2 (Z.abs x) + 1.

(* float helpers over exact rationals: strict comparison, int(x) (truncation towards zero),
   math.fmod(x, 1) (sign of the dividend), min/max with Python's tie rule *)
Definition Qltb (x y : Q) : bool := negb (Qle_bool y x).
Definition py_trunc (x : Q) : Z := if Qle_bool 0 x then Qfloor x else Qceiling x.
Definition py_fmod1 (x : Q) : Q := (x - inject_Z (py_trunc x))%Q.
Definition py_minq (x y : Q) : Q := if Qltb y x then y else x.
Definition py_maxq (x y : Q) : Q := if Qltb x y then y else x.

"""


def translate_module(repo: Path, mod: dict) -> str:
    """mod: {out: 'Gen/RoiGen.v', items: [ {file: 'odc/geo/roi.py', ...item} ]}"""
    fns: dict = {}
    out = [PRELUDE]
    trees = {}
    for item in mod["items"]:
        p = repo / item["file"]
        if p not in trees:
            trees[p] = ast.parse(p.read_text())
        out.append(translate_function(p, trees[p], item, fns))
        short = item["py"].split(".")[-1]
        params = list(item.get("extra", [])) + list(item["params"])
        if "genexp" not in item and not item.get("extra") and not item.get("self"):
            fns[short] = Fn(item["g"], params, item["ret"], item.get("raises", False))
    return "\n".join(out)
