#!/bin/bash
# usage: tools/confirm_seeded.sh <mutdir (has out/mN)> <Cxx> "<pytest files>"
# Confirms each mutation in a scratch worktree of /repo HEAD: tests unchanged vs baseline, demo 1 with / 0 without.
src=$1; id=$2; tests=$3
wt=/tmp/confirm-$id
git -C /repo worktree add -q --detach $wt HEAD || exit 2
cd $wt
base=$(PYTHONPATH=$wt /venv/bin/python -m pytest -q -p no:cacheprovider $tests 2>&1 | grep -E "^(FAILED|ERROR)" | sort | md5sum)
for m in $src/out/m[0-9]; do
  n=$(basename $m)
  git apply $m/patch.diff || { echo "$n: patch failed"; continue; }
  t=$(PYTHONPATH=$wt /venv/bin/python -m pytest -q -p no:cacheprovider $tests 2>&1 | grep -E "^(FAILED|ERROR)" | sort | md5sum)
  PYTHONPATH=$wt /venv/bin/python $m/demo.py >/dev/null 2>&1; w=$?
  git checkout -q -- .
  PYTHONPATH=$wt /venv/bin/python $m/demo.py >/dev/null 2>&1; wo=$?
  echo "$n: tests_same_as_baseline=$([ "$t" == "$base" ] && echo yes || echo NO) demo_with=$w demo_without=$wo"
done
cd /; git -C /repo worktree remove --force $wt
