#!/bin/bash
# usage: tools/reeval_par.sh [njobs]  -- re-evaluate every kept seeded change with the committed checks, njobs verif
# worktrees in parallel (each with its own coq build); meta.json results are copied back to /verif/seeded.
n=${1:-4}
ids=(C01 C02 C03 C04 C05 C06 C07 C08 C09 C10 C11 C12 C13 C14 C15 C16 C17 C18 C19 C20)
cd /verif
for j in $(seq 1 $n); do
  git worktree add -q --detach /tmp/vw/p$j HEAD || exit 2
done
for j in $(seq 1 $n); do
  (
    cd /tmp/vw/p$j && ./check --setup > setup.log 2>&1
    mine=()
    for k in "${!ids[@]}"; do [ $((k % n + 1)) -eq $j ] && mine+=("${ids[$k]}"); done
    VERIF_DIR=/tmp/vw/p$j tools/reeval_seeded.py "${mine[@]}" > reeval.log 2>&1
  ) &
done
wait
for j in $(seq 1 $n); do
  cat /tmp/vw/p$j/reeval.log
  for d in $(cd /tmp/vw/p$j && git status --porcelain seeded | awk '{print $2}' | grep meta.json); do cp /tmp/vw/p$j/$d /verif/$d; done
  git worktree remove --force /tmp/vw/p$j
done
