#!/bin/bash
# Run every claimed check (quick by default) one after another; print a summary table.
# usage: tools/run_all.sh [quick|thorough] [Cxx ...]
cd "$(dirname "$0")/.."
tier=${1:-quick}; shift
ids=("$@")
if [ ${#ids[@]} -eq 0 ]; then
  ids=($(/venv/bin/python -c "import json;print(' '.join(c['property_id'] for c in json.load(open('MANIFEST.json'))['checks']))"))
fi
rc_all=0
for id in "${ids[@]}"; do
  t0=$(date +%s)
  out=$(./check "$id" --tier "$tier" 2>&1); rc=$?
  t1=$(date +%s)
  echo "$id rc=$rc $((t1-t0))s $(echo "$out" | grep -c '^VIOLATION') violation(s) $(echo "$out" | grep -c '^KNOWN-FINDING') known"
  if [ $rc -ne 0 ]; then echo "$out" | tail -5; rc_all=1; fi
done
exit $rc_all
