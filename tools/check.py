"""./check driver: verdict logic of DESIGN.md section 2.3."""
from __future__ import annotations

import argparse
import importlib
import json
import os
import sys
import time
import traceback

from vlib import core
from vlib.core import Outcome, Scratch


def setup() -> int:
    t0 = time.time()
    core.regenerate()
    bad = core.grep_gate()
    if bad:
        print("forbidden vernacular:\n" + "\n".join(bad))
        return 1
    ok, log = core.coq_make(None)
    print(log[-3000:])
    print(f"setup: coq build {'ok' if ok else 'FAILED'} in {time.time() - t0:.1f}s")
    return 0 if ok else 1


def run_check(prop: str, tier: str) -> int:
    mod = importlib.import_module(f"props.{prop.lower()}")
    out = Outcome(prop, tier)
    out.trusted = [
        "Coq 8.16.1 kernel + coqc; vm_compute used for witnesses/examples and to evaluate the model on correspondence cases; no native_compute",
        "hand-written Gallina model (coq/Model) of the anchored code; tied to /repo by the correspondence harness run in this check",
        "correspondence harness, generators and canonicalisation (tools/props, tools/vlib)",
    ]
    with Scratch() as scratch:
        # 1. build the closure of Props/<id>.v (full .vo build)
        target = f"Props/{prop}.vo"
        ok, log = core.coq_make([target])
        out.checker_cmd = f"make -C coq {target} (coq_makefile, full .vo) && coqc Props/{prop}.v (Print Assumptions)"
        out.oblige(f"build:{target}", "coq-build", ok, log)
        for g in core.gen_modules_for(prop):
            err = core.REGEN_ERRORS.get(g)
            out.oblige(f"py2v:{g} regenerated from /repo", "translation", err is None, err or "")
        if core.gen_modules_for(prop):
            out.trusted.append("tools/py2v translator + signature table (regenerates coq/Gen from /repo on every run; "
                               "equivalence with the hand-written model is a checked lemma)")
        if not ok:
            # keep the executable models available to the correspondence / search even though a proof broke
            models = [f[:-2] + ".vo" for f in core.coq_sources() if f.startswith(("Base/", "Model/"))]
            core.coq_make(models, keep_going=True)
        # 2. grep gate
        bad = core.grep_gate()
        out.oblige("grep-gate:no Admitted/Axiom/Parameter/unsafe flags", "hygiene", not bad, "\n".join(bad))
        # 3. property theorems re-checked now, Print Assumptions captured
        if ok:
            info = core.check_props_file(prop, scratch)
            n_thm = len(info["theorems"])
            n_pa = info["assumptions"]["closed"] + (1 if info["assumptions"]["axioms"] else 0)
            out.axioms = info["assumptions"]["axioms"]
            for t in info["theorems"]:
                out.oblige(f"theorem:{t}", "theorem", info["ok"], "" if info["ok"] else info["log"])
            allowed = set(getattr(mod, "ALLOWED_AXIOMS", []))
            extra = [a for a in out.axioms if a not in allowed]
            out.oblige("assumptions:only stdlib axioms named in trusted base", "hygiene", not extra,
                       "unexpected axioms: " + ", ".join(extra))
            out.notes.append(f"Print Assumptions: {info['assumptions']['closed']} theorem(s) closed under the global context; axioms seen: {out.axioms or 'none'}")
        # 3b. thorough: independent re-check of the compiled closure with coqchk
        if ok and tier == "thorough":
            okc, logc, ax = core.coqchk(prop)
            out.oblige(f"coqchk:OG.Props.{prop} (independent checker, -o)", "coq-recheck", okc, logc)
            out.notes.append(f"coqchk -o axioms of all loaded libraries: {ax or 'none'}")
            # coqchk lists the axioms of every library loaded by the closure (e.g. nsatz loads Coq.Reals), whether or
            # not a property theorem uses them (Print Assumptions above is per theorem).  Standard-library axioms are
            # named in the trusted base; anything declared outside Coq's standard library is a broken obligation.
            if ax:
                out.trusted.append("standard-library axioms present in libraries loaded by the closure (coqchk -o): " + ", ".join(ax))
            extra = [a for a in ax if not a.startswith("Coq.") and a not in set(getattr(mod, "ALLOWED_AXIOMS", []))]
            if extra:
                out.oblige("coqchk:no axiom declared outside the standard library", "hygiene", False, ", ".join(extra))
        # 4. correspondence + search, property specific
        try:
            mod.run(out, tier, scratch)
        except core.ModelEvalError as e:
            out.oblige("model-evaluation", "correspondence", False, e.log)
        except Exception:
            out.oblige("harness", "correspondence", False, traceback.format_exc())
        return out.finish()


def main() -> int:
    ap = argparse.ArgumentParser()
    ap.add_argument("prop", nargs="?")
    ap.add_argument("--tier", default=os.environ.get("VERIF_TIER", "quick"), choices=["quick", "thorough"])
    ap.add_argument("--setup", action="store_true")
    ap.add_argument("--replay")
    a = ap.parse_args()
    if a.setup:
        return setup()
    if not a.prop:
        ap.error("property id required")
    if a.replay:
        mod = importlib.import_module(f"props.{a.prop.lower()}")
        rp = json.load(open(a.replay))
        if "broken_obligations" in rp and "predicate" not in rp:
            # no-failing-input-found replay: names the theorem / correspondence that no longer checks
            print(f"replay {a.prop}: no concrete failing input was recorded; obligations that did not check:")
            for o in rp["broken_obligations"]:
                print(f"  - {o.get('kind')} {o.get('name')}: {str(o.get('detail'))[-400:]}")
            print("re-run the check itself to see whether they check now")
            return 1
        return mod.replay(rp)
    return run_check(a.prop.upper(), a.tier)


if __name__ == "__main__":
    sys.exit(main())
