#!/venv/bin/python
"""Regenerate /verif/MANIFEST.json from the property modules under tools/props."""
import importlib, json, sys
from pathlib import Path
HERE = Path(__file__).resolve().parent
sys.path.insert(0, str(HERE))
VERIF = HERE.parent
props = [json.loads(l) for l in (VERIF / "properties.jsonl").read_text().splitlines() if l.strip()]
checks, na = [], []
PENDING = {}
try:
    PENDING = json.loads((HERE / "pending_reasons.json").read_text())
except FileNotFoundError:
    pass
for p in props:
    pid = p["id"]
    f = HERE / "props" / f"{pid.lower()}.py"
    meta = None
    if f.exists():
        src = f.read_text()
        if "META = {" in src:
            ns = {}
            # evaluate only the META literal (avoid importing odc.geo here)
            i = src.index("META = {")
            exec(src[i:], ns)
            meta = ns["META"]
    if meta is None or meta.get("disabled"):
        na.append({"property_id": pid, "reason": PENDING.get(pid, "no sound check built yet in this development; not claimed")})
        continue
    checks.append({
        "property_id": pid,
        "quick_cmd": f"./check {pid} --tier quick",
        "thorough_cmd": f"./check {pid} --tier thorough",
        "evidence_file": f"/verif/evidence/{pid}.json",
        "replay_cmd_template": f"./check {pid} --replay {{path}}",
        "engine": "coq-model+correspondence",
        "level_claimed": {"category": "proof", "text": meta["text"], "design_ref": meta.get("design_ref", "DESIGN.md section 5")},
        "level_note": meta["note"],
        "technique": meta["technique"],
    })
man = {
    "version": 1,
    "setup_cmd": "./check --setup",
    "hooks": {"guard": "ODC_GEO_VERIF", "enable": "export ODC_GEO_VERIF=1 (set by ./check; no source hooks exist, the guard name is reserved)",
              "baseline_off_cmd": "cd /repo && env -u ODC_GEO_VERIF /venv/bin/python -m pytest -ra -q -p no:cacheprovider --timeout=900 --continue-on-collection-errors",
              "source_commits": [], "add_only": True},
    "engines": [{"name": "coq-model+correspondence", "path": "/verif/check",
                 "serves_properties": [c["property_id"] for c in checks],
                 "kind_free_text": "Coq 8.16.1 theorems over Gallina models (coq/), tied to /repo by differential correspondence (models evaluated by vm_compute inside coqc) and direct property predicates used as failing-input search"}],
    "checks": checks,
    "not_applicable": na,
    "notes": "See DESIGN.md. known_findings.txt lists open/fixed findings. Every check rebuilds the Coq closure of its Props file (full .vo) and imports odc.geo from /repo's working tree.",
}
(VERIF / "MANIFEST.json").write_text(json.dumps(man, indent=1) + "\n")
print(f"MANIFEST.json: {len(checks)} checks, {len(na)} not claimed")
