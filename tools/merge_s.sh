#!/bin/bash
# usage: tools/merge_s.sh <prefix e.g. s7> <name>  -- merge verif branch <prefix>-<name>, cherry-pick repo fix commits of the
# repo branch of the same name (oldest first), remap their hashes in notes/corpus/props, sync findings, remove worktrees.
p=$1; n=$2; b=$p-$n
cd /verif
[ -z "$(git status --porcelain)" ] || { echo "/verif not clean"; exit 2; }
declare -A map
if git -C /repo rev-parse -q --verify $b >/dev/null; then
  for c in $(git -C /repo rev-list --reverse main..$b); do
    git -C /repo cherry-pick $c >/dev/null 2>&1 || { echo "cherry-pick of $c failed"; git -C /repo cherry-pick --abort; exit 3; }
    new=$(git -C /repo rev-parse --short HEAD); old=$(git -C /repo rev-parse --short $c)
    echo "picked $old -> $new $(git -C /repo log -1 --format=%s | cut -c1-90)"
    map[$old]=$new
  done
fi
git merge --no-ff -q -X ours -m "merge $b (round-5 strengthening)" $b || { echo "verif merge conflict"; exit 4; }
for old in "${!map[@]}"; do
  new=${map[$old]}; [ "$old" == "$new" ] && continue
  grep -rl --exclude-dir=.git "$old" docs/notes corpus tools/props tools/vlib coq 2>/dev/null | xargs -r sed -i "s/$old/$new/g"
done
for f in docs/notes/*.findings.txt; do
  while IFS= read -r line; do
    [ -z "$line" ] && continue; case "$line" in \#*) continue;; esac
    grep -qxF "$line" known_findings.txt || { echo "NEW: $(echo "$line" | cut -c1-160)"; echo "$line" >> known_findings.txt; }
  done < "$f"
done
git add -A; git commit -qm "merge $b: remap fix ids, findings" 2>/dev/null
git worktree remove --force /tmp/vw/$b 2>/dev/null; git -C /repo worktree remove --force /tmp/rw/$b 2>/dev/null
git -C /repo branch -D $b -q 2>/dev/null
echo "merged $b"
