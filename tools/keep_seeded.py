#!/venv/bin/python
"""Copy confirmed mutations from a mutation agent's out/ dir into /verif/seeded/<id>-<k>/ and
record what our check reported.  usage: keep_seeded.py <mutdir> <Cxx> <result json lines file>"""
import json, shutil, sys
from pathlib import Path
src, pid = Path(sys.argv[1]), sys.argv[2]
results = json.loads(Path(sys.argv[3]).read_text()) if len(sys.argv) > 3 else {}
prefix = sys.argv[4] if len(sys.argv) > 4 else ""   # e.g. "r2" -> seeded/C01-r2m1
dst_root = Path("/verif/seeded")
dst_root.mkdir(exist_ok=True)
for m in sorted(p for p in (src / "out").glob("m[0-9]") if p.is_dir()):
    d = dst_root / f"{pid}-{prefix}{m.name}"
    d.mkdir(exist_ok=True)
    for f in ("patch.diff", "demo.py"):
        shutil.copy(m / f, d / f)
    meta = json.loads((m / "meta.json").read_text())
    meta["breaks_property"] = pid
    meta["confirmed"] = "scratch worktree of /repo HEAD: patch applies, listed tests unchanged vs baseline, demo exits 1 with / 0 without (tools/confirm_seeded.sh)"
    meta["check_result"] = results.get(m.name, "")
    (d / "meta.json").write_text(json.dumps(meta, indent=1) + "\n")
    print("kept", d)
