#!/bin/bash
# usage: tools/eval_mut.sh <Cxx>   -- mutation agent output in /tmp/mut/<cxx>/out/mN
# 1. confirm each mutation in a scratch worktree of /repo HEAD (tests unchanged vs baseline, demo 1/0)
# 2. run our quick check with each patch applied to /repo (always reverted)
# writes /tmp/mut/res_<Cxx>.json {mN: "<what the check reported>"}
id=$1; suf=${2:-}; lid=${id,,}; src=/tmp/mut/$lid$suf
echo "== confirm $id"
tools/confirm_seeded.sh $src $id tests 2>&1 | tail -6
echo "== check $id"
echo "{" > /tmp/mut/res_$id$suf.json; first=1
for m in $src/out/m[0-9]; do
  n=$(basename $m)
  out=$(tools/try_patch.sh $m/patch.diff $id 2>&1)
  viol=$(echo "$out" | grep -c "^VIOLATION")
  nofi=$(echo "$out" | grep -c "no-failing-input-found")
  keys=$(echo "$out" | grep "replay:" | sed 's/.*replay: //' | cut -c1-200 | tr '\n' ';' | tr '"' "'")
  if [ "$viol" -gt 0 ] && [ "$viol" -gt "$nofi" ]; then res="./check $id --tier quick: VIOLATION with concrete replay ($keys)";
  elif [ "$viol" -gt 0 ]; then res="./check $id --tier quick: VIOLATION no-failing-input-found ($keys)";
  else res="./check $id --tier quick: MISSED (exit 0)"; fi
  echo "$n: $res" | cut -c1-330
  [ $first -eq 1 ] || echo "," >> /tmp/mut/res_$id$suf.json; first=0
  printf '"%s": "%s"' "$n" "$(echo $res | sed 's/\\/\\\\/g')" >> /tmp/mut/res_$id$suf.json
done
echo "}" >> /tmp/mut/res_$id$suf.json
