import sys, time, tempfile, pathlib, shutil
sys.path.insert(0, "/tmp/vw/c03c10/tools")
from vlib import core
import importlib
mod = importlib.import_module("props." + sys.argv[1])
tier = sys.argv[2] if len(sys.argv) > 2 else "quick"
out = core.Outcome(sys.argv[1].upper(), tier)
sc = pathlib.Path(tempfile.mkdtemp(prefix="verif-"))
t0=time.time()
try:
    mod.run(out, tier, sc)
except core.ModelEvalError as e:
    print("MODEL EVAL ERROR", e.log[-3000:])
finally:
    shutil.rmtree(sc, ignore_errors=True)
for o in out.obligations: print(o["name"], o["ok"], o["detail"][:3000])
for v in out.violations: print("VIOL", v["key"], v["what"][:1500])
import json
print(json.dumps(dict(sorted(out.dist.items())), indent=0)[:6000])
print(out.notes)
print("evals", out.evaluations, "nontrivial", len(out.nontrivial), "time", time.time()-t0)
