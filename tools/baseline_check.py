#!/venv/bin/python
"""Run the repo test-suite and compare with /root/.vp/BASELINE.json stable_pass.
usage: baseline_check.py [repo_dir]   exit 0 iff every stable_pass test passes."""
import json, subprocess, sys, tempfile, os, xml.etree.ElementTree as ET
repo = sys.argv[1] if len(sys.argv) > 1 else "/repo"
base = json.load(open("/root/.vp/BASELINE.json"))
want = set(base["stable_pass"])
with tempfile.TemporaryDirectory() as d:
    jx = os.path.join(d, "j.xml")
    env = dict(os.environ, PYTHONPATH=repo)
    env.pop("ODC_GEO_VERIF", None)
    subprocess.run(["/venv/bin/python", "-m", "pytest", "-ra", "-q", "-p", "no:cacheprovider",
                    "--timeout=900", "--continue-on-collection-errors", f"--junitxml={jx}"],
                   cwd=repo, env=env, stdout=subprocess.DEVNULL, stderr=subprocess.DEVNULL)
    passed = set()
    for tc in ET.parse(jx).getroot().iter("testcase"):
        if not any(c.tag in ("failure", "error", "skipped") for c in tc):
            passed.add(f"{tc.get('classname')}::{tc.get('name')}")
missing = sorted(want - passed)
print(f"stable_pass={len(want)} passed_now={len(passed)} missing={len(missing)}")
for m in missing[:40]:
    print("  MISSING", m)
sys.exit(1 if missing else 0)
