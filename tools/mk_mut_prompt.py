#!/venv/bin/python
"""Print the prompt for an independent mutation sub-agent for property <id> (only the property text and code anchors)."""
import json, sys
pid = sys.argv[1]
n = int(sys.argv[2]) if len(sys.argv) > 2 else 4
rnd = int(sys.argv[3]) if len(sys.argv) > 3 else 1
p = next(json.loads(l) for l in open('/verif/properties.jsonl') if json.loads(l)['id'] == pid)
wt = f"/tmp/mut/{pid.lower()}" + (f"r{rnd}" if rnd > 1 else "")
import glob
known = []
if rnd > 1:
    for f in sorted(glob.glob(f"/verif/seeded/{pid}-*/meta.json")):
        m = json.load(open(f))
        known.append("  - " + " ".join(str(m.get("summary", "")).split())[:300])
emph = ""
if rnd >= 3:
    emph = ("\n\nThis is a third round: the obvious spots have been tried.  Prefer (i) changes OUTSIDE the files listed above, in helper "
            "modules the anchored code calls (odc/geo/types.py, math.py, roi.py, crs.py, geom.py, geobox.py, _interop.py, converters.py, "
            "cog/_shared.py ...) that still break THIS property; (ii) cooperating pairs of edits that are each harmless alone; "
            "(iii) 'equivalent-looking' refactors (reordered conditions, merged branches, cached values, vectorised loops, default-argument "
            "changes) whose difference shows only for a special input class or call history.\n")
if rnd >= 4:
    emph = ("\n\nThis is a fourth round: three rounds of changes (listed above) have been tried, in the anchored files and in helper modules, "
            "including several in the module-level caches of odc/geo/crs.py (transformer cache key, bounded CRS cache, memoised "
            "units/str/hash) - do NOT touch those caches again.  Read the property text clause by clause and pick clauses, option values "
            "and input classes that NONE of the listed changes exercised.  Prefer: (i) degenerate but legal inputs (empty, single element, "
            "zero-size, exactly-on-boundary, NaN/inf, negative or huge values, non-default dtypes, numpy scalar types instead of Python "
            "numbers, tuples vs lists, generators consumed twice); (ii) rarely used keyword options and their combinations; (iii) order "
            "dependence (the same operation applied twice, operands swapped, results re-used as inputs); (iv) precision slips (float32 "
            "intermediate, rounding mode, tolerance applied on the wrong side, integer division of negatives); (v) state that survives "
            "between calls (mutable default arguments, in-place modification of an argument, attributes set lazily).\n")
if rnd >= 5:
    emph = ("\n\nThis is a fifth round: four rounds of changes (listed above) have been tried - in the anchored files, in helper modules, "
            "in the module-level caches of odc/geo/crs.py (do NOT touch those caches again), on degenerate inputs, rare options, argument "
            "representations (numpy scalars, dtypes, bytearray), in-place modification of arguments and state surviving between calls.  "
            "Read the property text clause by clause once more and look for what is STILL untouched.  Prefer: (i) the less used public entry "
            "points that must satisfy the same clause (operator forms vs function forms, accessor methods, aliases, class methods / "
            "alternative constructors, `__r*__` variants, the Dataset variant next to the DataArray variant, dask next to numpy); "
            "(ii) clauses that say something must be REJECTED or must raise - make a special case slip through silently; (iii) clauses about "
            "what must NOT change (input left untouched, CRS / dtype / attrs / order preserved); (iv) combinations of two legal options that "
            "are each handled correctly alone; (v) values at the exact boundary of a documented tolerance or size limit; (vi) behaviour that "
            "depends on iteration order of dicts/sets, on hash values or on object identity.\n"
            "While reading the code: if you notice a place where the UNCHANGED code already seems to violate the property (a latent bug), do "
            "not use it as your mutation, but describe it at the end of your final answer under 'pre-existing' with a 5-line reproduction.\n")
if rnd >= 6:
    emph = ("\n\nThis is a sixth round: five rounds of changes (listed above) have been tried.  Do NOT touch the module-level caches of "
            "odc/geo/crs.py.  Read the property text clause by clause and the list above, and aim at what is still untouched.  Prefer: "
            "(i) 'performance' edits - an early exit, a cached intermediate, a vectorised loop, a cheaper approximate test in front of the "
            "exact one - that are exact for typical inputs and wrong for a special class; (ii) edits where two clauses of the property "
            "interact (an option that is handled in one branch and forgotten in its sibling branch; a fix applied to the DataArray path "
            "but not the Dataset path, to the numpy path but not the dask path, to x but not y); (iii) the exception TYPE or the moment an "
            "error is raised where the property demands a refusal (a ValueError that becomes a different exception class, a check that "
            "moves behind a lazy generator / dask graph so that it only fires at compute time); (iv) default values of keyword arguments "
            "and their propagation through wrappers and accessors; (v) sign conventions (negative resolution, south-up / mirrored grids, "
            "descending coordinates) in code paths that were so far only mutated for north-up grids; (vi) integer / float / numpy-scalar "
            "type of a RESULT (a Python int becoming numpy.int64, a tuple becoming a list, a slice with numpy members) where the "
            "property or a documented contract pins it.\n"
            "While reading the code: if you notice a place where the UNCHANGED code already seems to violate the property (a latent bug), do "
            "not use it as your mutation, but describe it at the end of your final answer under 'pre-existing' with a 5-line reproduction "
            "(check the list above first: several latent bugs were already reported and repaired).\n")
avoid = ""
if known:
    avoid = ("\n\nThe following changes were already tried by someone else — do NOT repeat them or close variants; look in different functions, "
             "different clauses of the property, helper functions in other modules that the anchored code relies on, option combinations, "
             "multi-step sequences and cooperating pairs of edits:\n" + "\n".join(known) + "\n")
files = ", ".join(p["anchors"]["files"])
mech = "\n".join(f"  - {m['name']} ({m['where']})" for m in p["anchors"].get("mechanism", []))
print(f"""You are testing how robust a Python library's behaviour is against subtle regressions. The library is odc-geo (opendatacube/odc-geo); you have your own scratch git worktree of it at {wt} (detached HEAD; work ONLY inside this directory; never touch /repo or /verif; do not read anything under /verif). Python is /venv/bin/python; run things with `cd {wt} && PYTHONPATH={wt} /venv/bin/python ...` so that your worktree's code is imported (verify with `import odc.geo; print(odc.geo.__file__)`). There is no network. Do NOT use `git stash` (the stash is shared between worktrees of other people working in parallel); toggle your change with `git apply` / `git apply -R` / `git checkout -- .` and patch files only.

Here is a semantic property the library is supposed to satisfy:

---
{p['title']}

{p['statement']}

Quantifier: {p['quantifier']['text']}
---
The relevant code is in: {files}. Mechanisms involved:
{mech}

{avoid}{emph}
Your task: produce {n} different, independent code changes (mutations) to odc-geo, each of which
 (a) BREAKS the property above (for some input / configuration / sequence / schedule),
 (b) still imports/compiles and keeps the EXISTING test-suite passing. FIRST record the baseline: `cd {wt} && mkdir -p out && PYTHONPATH={wt} /venv/bin/python -m pytest -q -p no:cacheprovider tests 2>&1 | grep -E "^(FAILED|ERROR)" | sort > out/baseline.txt` (a handful of tests fail already without any change — that set is the baseline). After each mutation the set of FAILED/ERROR tests must be exactly the same,
 (c) is realistic — the kind of slip a maintainer could make in a refactor or "optimisation" (off-by-one, wrong comparison operator, floor vs ceil, swapped axis or argument, dropped clamp/check/bookkeeping update, wrong branch, stale variable, wrong dict key, missing re-check), NOT sabotage like `raise`/`return None`/random behaviour, and
 (d) needs something SPECIFIC to manifest: an unusual input class, a boundary value, a particular configuration or option combination, a multi-step sequence, a particular interleaving, or two cooperating sites that each look fine alone. Ordinary simple use (the happy path the README shows) should still work with the mutation applied. Prefer mutations in DIFFERENT functions/clauses of the property.

For each mutation i = 1..{n} deliver, under {wt}/out/m<i>/ :
  - patch.diff  : `git diff` of the change against HEAD (only the library change, not the demo);
  - demo.py     : a small self-contained program driving the public API that exits 0 when the property holds on its scenario and exits 1 (printing what went wrong) when it does not. It must exit 1 WITH the mutation and exit 0 WITHOUT it (judge the property itself with an independent reference computation — exact arithmetic, numpy, shapely or pyproj directly — not by comparing against a hard-coded copy of the old output where avoidable);
  - meta.json   : {{"property": "{pid}", "summary": "...", "clause_broken": "...", "needs": "what specific input/sequence/config is needed to manifest", "tests_run": "...", "demo_result_with": 1, "demo_result_without": 0}}.
After writing each mutation's files, restore the worktree (`git checkout -- .`) before starting the next, and at the end double-check each one from a clean tree: apply patch (`git apply out/m<i>/patch.diff`), run the tests and compare with the baseline, run demo (expect 1), `git checkout -- .`, run demo again (expect 0). The out/ directory is untracked — keep it.

Final answer: for each mutation one short paragraph: what was changed, which clause breaks, what it needs to manifest, and the verified results (tests, demo with/without). Keep the whole answer under 40 lines.""")
