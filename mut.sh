#!/bin/bash
# usage: mut.sh <file> <python-expr-old> <new>   (exact text replacement, once)
f=$1; old=$2; new=$3
cd /tmp/rw/c04 || exit 1
git checkout -q -- .
python3 - "$f" "$old" "$new" <<'PY'
import sys
f,old,new=sys.argv[1:4]
s=open(f).read()
assert s.count(old)>=1, "pattern not found"
open(f,'w').write(s.replace(old,new,1))
PY
[ $? -eq 0 ] || exit 1
git diff --stat | tail -1
PYTHONPATH=/tmp/rw/c04 timeout 900 /venv/bin/python -m pytest -q -p no:cacheprovider -x tests/test_roi.py tests/test_blocks.py tests/test_geoboxtiles.py tests/test_dask_interop.py --deselect tests/test_geoboxtiles.py::test_geoboxtiles_intersect 2>&1 | tail -1
cd /tmp/vw/c04 && VERIF_REPO=/tmp/rw/c04 ./check C04 --tier quick 2>&1 | grep -v "^\[C04\] BROKEN" | tail -3
for r in evidence/replays/C04-*.json; do [ -f "$r" ] && python3 -c "
import json,sys; d=json.load(open('$r')); print('  replay:', d.get('key'), (d.get('what') or str(d.get('broken_obligations'))[:300])[:300])"; done
cd /tmp/rw/c04 && git checkout -q -- .
