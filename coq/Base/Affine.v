(** Affine maps of the plane over Q (the model of the Python [affine.Affine]
    class as used by odc-geo):

        x' = a x + b y + c
        y' = d x + e y + f

    Equality is coefficient-wise [Qeq] ([aeq]); points are compared with [peq].
    The group laws are proved once here and used by every GeoBox theorem. *)
From Coq Require Import ZArith QArith Qabs Lia Lqa Setoid Morphisms.
Open Scope Q_scope.

Record affine := mkA { aa : Q; ab : Q; ac : Q; ad : Q; ae : Q; af : Q }.

Definition pt := (Q * Q)%type.
Definition peq (p q : pt) : Prop := fst p == fst q /\ snd p == snd q.
Definition aeq (A B : affine) : Prop :=
  aa A == aa B /\ ab A == ab B /\ ac A == ac B /\
  ad A == ad B /\ ae A == ae B /\ af A == af B.

Definition peqb (p q : pt) : bool := Qeq_bool (fst p) (fst q) && Qeq_bool (snd p) (snd q).
Definition aeqb (A B : affine) : bool :=
  Qeq_bool (aa A) (aa B) && Qeq_bool (ab A) (ab B) && Qeq_bool (ac A) (ac B) &&
  Qeq_bool (ad A) (ad B) && Qeq_bool (ae A) (ae B) && Qeq_bool (af A) (af B).

(** Constructors of the [affine] package. *)
Definition aid : affine := mkA 1 0 0 0 1 0.
Definition atrans (tx ty : Q) : affine := mkA 1 0 tx 0 1 ty.
Definition ascale (sx sy : Q) : affine := mkA sx 0 0 0 sy 0.
(** [Affine.rotation(angle, pivot)] with [c = cos angle], [s = sin angle]. *)
Definition arot (c s : Q) : affine := mkA c (- s) 0 s c 0.
Definition arot_about (c s : Q) (p : pt) : affine :=
  let '(px, py) := p in
  mkA c (- s) (px - px * c + py * s) s c (py - px * s - py * c).

(** [A * B] (apply [B] first), [A * (x, y)], [~A]. *)
Definition amul (A B : affine) : affine :=
  mkA (aa A * aa B + ab A * ad B) (aa A * ab B + ab A * ae B) (aa A * ac B + ab A * af B + ac A)
      (ad A * aa B + ae A * ad B) (ad A * ab B + ae A * ae B) (ad A * ac B + ae A * af B + af A).

Definition apply (A : affine) (p : pt) : pt :=
  (aa A * fst p + ab A * snd p + ac A, ad A * fst p + ae A * snd p + af A).

Definition adet (A : affine) : Q := aa A * ae A - ab A * ad A.

Definition ainv (A : affine) : affine :=
  let idet := / adet A in
  let ra := ae A * idet in
  let rb := - ab A * idet in
  let rd := - ad A * idet in
  let re := aa A * idet in
  mkA ra rb (- ac A * ra - af A * rb) rd re (- ac A * rd - af A * re).

(** * Equivalences *)
Lemma peq_refl p : peq p p.
Proof. split; reflexivity. Qed.
Lemma peq_sym p q : peq p q -> peq q p.
Proof. intros [H1 H2]; split; symmetry; assumption. Qed.
Lemma peq_trans p q r : peq p q -> peq q r -> peq p r.
Proof. intros [H1 H2] [H3 H4]; split; etransitivity; eassumption. Qed.
Global Instance peq_Equiv : Equivalence peq.
Proof. split; [exact peq_refl | exact peq_sym | exact peq_trans]. Qed.

Lemma aeq_refl A : aeq A A.
Proof. repeat split; reflexivity. Qed.
Lemma aeq_sym A B : aeq A B -> aeq B A.
Proof. intros (H1 & H2 & H3 & H4 & H5 & H6); repeat split; symmetry; assumption. Qed.
Lemma aeq_trans A B C : aeq A B -> aeq B C -> aeq A C.
Proof.
  intros (H1 & H2 & H3 & H4 & H5 & H6) (K1 & K2 & K3 & K4 & K5 & K6);
    repeat split; etransitivity; eassumption.
Qed.
Global Instance aeq_Equiv : Equivalence aeq.
Proof. split; [exact aeq_refl | exact aeq_sym | exact aeq_trans]. Qed.

Lemma peqb_true p q : peqb p q = true <-> peq p q.
Proof.
  unfold peqb, peq. rewrite Bool.andb_true_iff, !Qeq_bool_iff. tauto.
Qed.

Lemma aeqb_true A B : aeqb A B = true <-> aeq A B.
Proof.
  unfold aeqb, aeq. rewrite !Bool.andb_true_iff, !Qeq_bool_iff. tauto.
Qed.

Global Instance apply_Proper : Proper (aeq ==> peq ==> peq) apply.
Proof.
  intros A B (H1 & H2 & H3 & H4 & H5 & H6) p q [P1 P2]; unfold apply, peq; simpl.
  rewrite H1, H2, H3, H4, H5, H6, P1, P2. split; reflexivity.
Qed.

Global Instance amul_Proper : Proper (aeq ==> aeq ==> aeq) amul.
Proof.
  intros A B (H1 & H2 & H3 & H4 & H5 & H6) C D (K1 & K2 & K3 & K4 & K5 & K6);
    unfold amul, aeq; simpl.
  rewrite H1, H2, H3, H4, H5, H6, K1, K2, K3, K4, K5, K6. repeat split; reflexivity.
Qed.

Global Instance adet_Proper : Proper (aeq ==> Qeq) adet.
Proof.
  intros A B (H1 & H2 & H3 & H4 & H5 & H6); unfold adet. rewrite H1, H2, H4, H5. reflexivity.
Qed.

Global Instance ainv_Proper : Proper (aeq ==> aeq) ainv.
Proof.
  intros A B H. pose proof (adet_Proper _ _ H) as Hd.
  destruct H as (H1 & H2 & H3 & H4 & H5 & H6); unfold ainv, aeq; simpl.
  rewrite H1, H2, H3, H4, H5, H6, Hd. repeat split; reflexivity.
Qed.

(** * Group laws *)
Lemma amul_assoc A B C : aeq (amul (amul A B) C) (amul A (amul B C)).
Proof. unfold amul, aeq; simpl; repeat split; ring. Qed.

Lemma amul_id_l A : aeq (amul aid A) A.
Proof. unfold amul, aeq, aid; simpl; repeat split; ring. Qed.

Lemma amul_id_r A : aeq (amul A aid) A.
Proof. unfold amul, aeq, aid; simpl; repeat split; ring. Qed.

Lemma amul_inv_r A : ~ adet A == 0 -> aeq (amul A (ainv A)) aid.
Proof.
  intros H. unfold amul, ainv, aeq, aid; simpl. unfold adet in *.
  repeat split; field; exact H.
Qed.

Lemma amul_inv_l A : ~ adet A == 0 -> aeq (amul (ainv A) A) aid.
Proof.
  intros H. unfold amul, ainv, aeq, aid; simpl. unfold adet in *.
  repeat split; field; exact H.
Qed.

Lemma adet_mul A B : adet (amul A B) == adet A * adet B.
Proof. unfold adet, amul; simpl; ring. Qed.

Lemma adet_inv A : ~ adet A == 0 -> adet (ainv A) == / adet A.
Proof.
  intros H. unfold ainv. unfold adet at 1; cbn [aa ab ad ae]. unfold adet in *.
  field. exact H.
Qed.

Lemma adet_inv_nz A : ~ adet A == 0 -> ~ adet (ainv A) == 0.
Proof.
  intros H C. rewrite (adet_inv A H) in C.
  apply H. rewrite <- (Qinv_involutive (adet A)), C. reflexivity.
Qed.

(** * Action on points *)
Lemma apply_mul A B p : peq (apply (amul A B) p) (apply A (apply B p)).
Proof. unfold apply, amul, peq; simpl; split; ring. Qed.

Lemma apply_id p : peq (apply aid p) p.
Proof. unfold apply, aid, peq; simpl; split; ring. Qed.

Lemma apply_inv_l A p : ~ adet A == 0 -> peq (apply (ainv A) (apply A p)) p.
Proof.
  intros H. unfold apply, ainv, peq; simpl. unfold adet in *. split; field; exact H.
Qed.

Lemma apply_inv_r A p : ~ adet A == 0 -> peq (apply A (apply (ainv A) p)) p.
Proof.
  intros H. unfold apply, ainv, peq; simpl. unfold adet in *. split; field; exact H.
Qed.

Lemma apply_inj A p q : ~ adet A == 0 -> peq (apply A p) (apply A q) -> peq p q.
Proof.
  intros H E.
  rewrite <- (apply_inv_l A p H), <- (apply_inv_l A q H).
  apply apply_Proper; [reflexivity | exact E].
Qed.

Lemma apply_trans tx ty p : peq (apply (atrans tx ty) p) (fst p + tx, snd p + ty).
Proof. unfold apply, atrans, peq; simpl; split; ring. Qed.

Lemma apply_scale sx sy p : peq (apply (ascale sx sy) p) (sx * fst p, sy * snd p).
Proof. unfold apply, ascale, peq; simpl; split; ring. Qed.

(** affine maps preserve affine (in particular convex) combinations *)
Lemma apply_combination A (w1 w2 w3 w4 : Q) (p1 p2 p3 p4 : pt) :
  w1 + w2 + w3 + w4 == 1 ->
  peq (apply A (w1 * fst p1 + w2 * fst p2 + w3 * fst p3 + w4 * fst p4,
                w1 * snd p1 + w2 * snd p2 + w3 * snd p3 + w4 * snd p4))
      (w1 * fst (apply A p1) + w2 * fst (apply A p2) + w3 * fst (apply A p3) + w4 * fst (apply A p4),
       w1 * snd (apply A p1) + w2 * snd (apply A p2) + w3 * snd (apply A p3) + w4 * snd (apply A p4)).
Proof.
  intros H. unfold apply, peq; simpl.
  assert (E : w4 == 1 - w1 - w2 - w3) by lra.
  rewrite E. split; ring.
Qed.

(** rotation about a pivot fixes the pivot and rotates displacements *)
Lemma arot_about_fix c s p : peq (apply (arot_about c s p) p) p.
Proof. destruct p as [px py]. unfold apply, arot_about, peq; simpl; split; ring. Qed.

Lemma arot_about_disp c s p q :
  peq (apply (arot_about c s p) q)
      (fst p + (c * (fst q - fst p) - s * (snd q - snd p)),
       snd p + (s * (fst q - fst p) + c * (snd q - snd p))).
Proof. destruct p as [px py]. unfold apply, arot_about, peq; simpl; split; ring. Qed.

Lemma adet_rot_about c s p : adet (arot_about c s p) == c * c + s * s.
Proof. destruct p as [px py]. unfold adet, arot_about; simpl; ring. Qed.
