(** Thread pools as lists: point update, and sums of a per-thread measure.
    Used by the interleaving models of C18. *)
From Coq Require Import List Arith Bool Lia.
Import ListNotations.

Fixpoint upd {A} (l : list A) (n : nat) (x : A) : list A :=
  match l, n with
  | [], _ => []
  | _ :: r, O => x :: r
  | a :: r, S n' => a :: upd r n' x
  end.

Lemma upd_length {A} (l : list A) n x : length (upd l n x) = length l.
Proof. revert n; induction l; intros [|n]; simpl; auto. Qed.

Lemma nth_error_upd_eq {A} (l : list A) n x y :
  nth_error l n = Some y -> nth_error (upd l n x) n = Some x.
Proof.
  revert n; induction l; intros [|n]; simpl; intros H; try discriminate; auto.
Qed.

Lemma nth_error_upd_neq {A} (l : list A) n m x :
  n <> m -> nth_error (upd l n x) m = nth_error l m.
Proof.
  revert n m; induction l; intros [|n] [|m]; simpl; intros H; auto; try congruence.
Qed.

Lemma nth_error_upd_inv {A} (l : list A) n m x y :
  nth_error (upd l n x) m = Some y ->
  (m = n /\ y = x) \/ (m <> n /\ nth_error l m = Some y).
Proof.
  intros H. destruct (Nat.eq_dec m n) as [->|Hne].
  - left; split; auto.
    assert (exists z, nth_error l n = Some z) as [z Hz].
    { destruct (nth_error l n) eqn:E; eauto.
      apply nth_error_None in E. rewrite <- (upd_length l n x) in E.
      apply nth_error_None in E. congruence. }
    rewrite (nth_error_upd_eq _ _ _ _ Hz) in H. congruence.
  - right; split; auto. rewrite nth_error_upd_neq in H; auto.
Qed.

(** sum of a measure over the pool *)
Fixpoint sumf {A} (f : A -> nat) (l : list A) : nat :=
  match l with [] => 0 | a :: r => f a + sumf f r end.

Lemma sumf_upd {A} (f : A -> nat) (l : list A) n x y :
  nth_error l n = Some y -> sumf f (upd l n x) + f y = sumf f l + f x.
Proof.
  revert n; induction l; intros [|n]; simpl; intros H; try discriminate.
  - injection H as ->. lia.
  - specialize (IHl _ H). lia.
Qed.

Lemma sumf_zero {A} (f : A -> nat) (l : list A) :
  (forall a, In a l -> f a = 0) -> sumf f l = 0.
Proof.
  induction l; simpl; intros H; auto.
  rewrite (H a) by auto. rewrite IHl; auto.
Qed.

Lemma sumf_map {A B} (f : B -> nat) (g : A -> B) (l : list A) :
  sumf f (map g l) = sumf (fun a => f (g a)) l.
Proof. induction l; simpl; auto. Qed.

Lemma sumf_ext {A} (f g : A -> nat) (l : list A) :
  (forall a, In a l -> f a = g a) -> sumf f l = sumf g l.
Proof.
  induction l; simpl; intros H; [reflexivity|].
  rewrite (H a) by auto. rewrite IHl; [reflexivity|]. intros; apply H; auto.
Qed.

Lemma nth_error_map_some {A B} (g : A -> B) (l : list A) n y :
  nth_error (map g l) n = Some y -> exists x, nth_error l n = Some x /\ y = g x.
Proof.
  revert n; induction l; intros [|n]; simpl; intros H; try discriminate.
  - injection H as <-; eauto.
  - eauto.
Qed.
