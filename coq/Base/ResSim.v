(** Results compared up to the error *kind* (an assertion's source label is not
    part of the behaviour the properties talk about). *)
From Coq Require Import ZArith.
From OG Require Import Base.Result.

Definition res_sim {A} (x y : res A) : Prop :=
  match x, y with
  | Ok a, Ok b => a = b
  | Err e1, Err e2 => err_code e1 = err_code e2
  | _, _ => False
  end.

Lemma res_sim_refl {A} (x : res A) : res_sim x x.
Proof. destruct x; simpl; reflexivity. Qed.

Lemma res_sim_eq {A} (x y : res A) : x = y -> res_sim x y.
Proof. intros ->; apply res_sim_refl. Qed.

Lemma res_sim_trans {A} (x y z : res A) : res_sim x y -> res_sim y z -> res_sim x z.
Proof. destruct x, y, z; simpl; intros; try contradiction; congruence. Qed.

Lemma res_sim_sym {A} (x y : res A) : res_sim x y -> res_sim y x.
Proof. destruct x, y; simpl; intros; try contradiction; congruence. Qed.

Lemma res_sim_bind {A B} (x y : res A) (f g : A -> res B) :
  res_sim x y -> (forall a, res_sim (f a) (g a)) -> res_sim (bind x f) (bind y g).
Proof. destruct x, y; simpl; intros H K; try contradiction; [subst; apply K | exact H]. Qed.
