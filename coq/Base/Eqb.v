(** Boolean equalities used by the correspondence case checkers. *)
From Coq Require Import ZArith QArith List Bool.
From OG Require Import Base.Result.
Import ListNotations.
Open Scope Z_scope.

Definition opt_eqb {A} (eqb : A -> A -> bool) (x y : option A) : bool :=
  match x, y with
  | None, None => true
  | Some a, Some b => eqb a b
  | _, _ => false
  end.

Fixpoint list_eqb {A} (eqb : A -> A -> bool) (x y : list A) : bool :=
  match x, y with
  | [], [] => true
  | a :: x', b :: y' => eqb a b && list_eqb eqb x' y'
  | _, _ => false
  end.

Definition pair_eqb {A B} (ea : A -> A -> bool) (eb : B -> B -> bool) (x y : A * B) : bool :=
  ea (fst x) (fst y) && eb (snd x) (snd y).

Definition zz_eqb := pair_eqb Z.eqb Z.eqb.

(** results are compared up to the error *kind* (an assertion's label is ignored) *)
Definition res_eqb {A} (eqb : A -> A -> bool) (x y : res A) : bool :=
  match x, y with
  | Ok a, Ok b => eqb a b
  | Err e1, Err e2 => err_code e1 =? err_code e2
  | _, _ => false
  end.

Definition Qeqb (x y : Q) : bool := Qeq_bool x y.
Definition unit_eqb (x y : unit) : bool := true.
