(** Result type used by every model: Python exceptions become [Err kind]. *)
From Coq Require Import ZArith List Bool.
Import ListNotations.

Inductive err :=
| EValue      (* ValueError (CRSMismatchError is a ValueError too) *)
| ECrs        (* CRSMismatchError *)
| EIndex      (* IndexError *)
| EAssert (line : Z)  (* AssertionError, tagged by a label of the source assert *)
| ERuntime    (* RuntimeError *)
| EIO         (* OSError family *)
| EOther.

Inductive res (A : Type) := Ok (a : A) | Err (e : err).
Arguments Ok {A} a.
Arguments Err {A} e.

Definition bind {A B} (r : res A) (f : A -> res B) : res B :=
  match r with Ok a => f a | Err e => Err e end.
Notation "x <- r ;; k" := (bind r (fun x => k)) (at level 61, r at next level, right associativity).
Notation "' pat <- r ;; k" := (bind r (fun x => let pat := x in k))
  (at level 61, pat pattern, r at next level, right associativity).

Definition guard (b : bool) (e : err) : res unit := if b then Ok tt else Err e.
Definition is_ok {A} (r : res A) : bool := match r with Ok _ => true | Err _ => false end.

Definition err_code (e : err) : Z :=
  match e with
  | EValue => 1 | ECrs => 2 | EIndex => 3 | EAssert _ => 4 | ERuntime => 5 | EIO => 6 | EOther => 7
  end.

Lemma bind_ok {A B} (r : res A) (f : A -> res B) b :
  bind r f = Ok b -> exists a, r = Ok a /\ f a = Ok b.
Proof. destruct r; simpl; intros H; [eauto | discriminate]. Qed.
