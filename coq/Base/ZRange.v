(** Python [range(a, b)] and [itertools.product] (first factor outer) as lists. *)
From Coq Require Import ZArith List Bool Lia FinFun.
Import ListNotations.
Open Scope Z_scope.

Definition zrange (a b : Z) : list Z :=
  map (fun k => a + Z.of_nat k) (seq 0 (Z.to_nat (b - a))).

Lemma zrange_In a b i : In i (zrange a b) <-> (a <= i < b)%Z.
Proof.
  unfold zrange. rewrite in_map_iff. split.
  - intros (k & <- & Hk). apply in_seq in Hk. lia.
  - intros H. exists (Z.to_nat (i - a)). split; [lia|]. apply in_seq. lia.
Qed.

Lemma zrange_NoDup a b : NoDup (zrange a b).
Proof.
  unfold zrange. apply Injective_map_NoDup; [|apply seq_NoDup].
  intros x y H. lia.
Qed.

Lemma product_In (xs ys : list Z) ix iy :
  In (ix, iy) (flat_map (fun iy => map (fun ix => (ix, iy)) xs) ys) <-> In ix xs /\ In iy ys.
Proof.
  rewrite in_flat_map. split.
  - intros (y & Hy & H). apply in_map_iff in H. destruct H as (x & E & Hx).
    inversion E; subst. auto.
  - intros [Hx Hy]. exists iy. split; [exact Hy|]. apply in_map_iff. exists ix. auto.
Qed.

Lemma NoDup_app_intro {A} (l1 l2 : list A) :
  NoDup l1 -> NoDup l2 -> (forall x, In x l1 -> In x l2 -> False) -> NoDup (l1 ++ l2).
Proof.
  induction l1 as [|a l1 IH]; simpl; intros H1 H2 H; [exact H2|].
  inversion H1 as [|? ? Ha Hl]; subst. constructor.
  - rewrite in_app_iff. intros [C|C]; [contradiction | eapply H; eauto].
  - apply IH; auto. intros x Hx1 Hx2. eapply H; eauto.
Qed.


(** [itertools.product(yy, xx)]: pairs [(y, x)], [y] outer *)
Definition zproduct (ys xs : list Z) : list (Z * Z) :=
  flat_map (fun y => map (fun x => (y, x)) xs) ys.

Lemma zproduct_In ys xs y x : In (y, x) (zproduct ys xs) <-> In y ys /\ In x xs.
Proof.
  unfold zproduct. rewrite in_flat_map. split.
  - intros (y' & Hy & H). apply in_map_iff in H. destruct H as (x' & E & Hx).
    inversion E; subst. auto.
  - intros [Hy Hx]. exists y. split; [exact Hy|]. apply in_map_iff. exists x. auto.
Qed.
