(** Bridging lemmas between Q and Z: floor/ceiling specifications in the form
    that [lra]/[lia] can use (see DESIGN.md appendix A.2). *)
From Coq Require Import ZArith QArith Qround Qabs Lia Lqa.
Open Scope Q_scope.

Lemma inj1 : inject_Z 1 == 1.
Proof. reflexivity. Qed.

Lemma Qfloor_spec x : exists f, f = inject_Z (Qfloor x) /\ f <= x /\ x < f + 1.
Proof.
  exists (inject_Z (Qfloor x)); split; [reflexivity|]; split.
  - apply Qfloor_le.
  - pose proof (Qlt_floor x) as H. rewrite inject_Z_plus in H. exact H.
Qed.

Lemma Qceiling_spec x : exists c, c = inject_Z (Qceiling x) /\ c - 1 < x /\ x <= c.
Proof.
  exists (inject_Z (Qceiling x)); split; [reflexivity|]; split.
  - pose proof (Qceiling_lt x) as H. unfold Z.sub in H.
    rewrite inject_Z_plus, inject_Z_opp in H. exact H.
  - apply Qle_ceiling.
Qed.

Lemma Qfloor_ge_iff (z : Z) x : (z <= Qfloor x)%Z <-> inject_Z z <= x.
Proof.
  split; intros H.
  - eapply Qle_trans; [|apply Qfloor_le]. rewrite <- Zle_Qle. exact H.
  - rewrite <- (Qfloor_Z z). apply Qfloor_resp_le. exact H.
Qed.

Lemma Qceiling_le_iff (z : Z) x : (Qceiling x <= z)%Z <-> x <= inject_Z z.
Proof.
  split; intros H.
  - eapply Qle_trans; [apply Qle_ceiling|]. rewrite <- Zle_Qle. exact H.
  - rewrite <- (Qceiling_Z z). apply Qceiling_resp_le. exact H.
Qed.

Lemma Qfloor_lt_iff (z : Z) x : (Qfloor x < z)%Z <-> x < inject_Z z.
Proof.
  split; intros H.
  - apply Qnot_le_lt; intros C. apply Qfloor_ge_iff in C. lia.
  - apply Z.nle_gt; intros C. apply Qfloor_ge_iff in C. lra.
Qed.

Lemma Qceiling_gt_iff (z : Z) x : (z < Qceiling x)%Z <-> inject_Z z < x.
Proof.
  split; intros H.
  - apply Qnot_le_lt; intros C. apply Qceiling_le_iff in C. lia.
  - apply Z.nle_gt; intros C. apply Qceiling_le_iff in C. lra.
Qed.

Lemma Qfloor_le_ceiling x : (Qfloor x <= Qceiling x)%Z.
Proof.
  rewrite Zle_Qle. eapply Qle_trans; [apply Qfloor_le | apply Qle_ceiling].
Qed.

Lemma Qfloor_mono x y : x <= y -> (Qfloor x <= Qfloor y)%Z.
Proof. apply Qfloor_resp_le. Qed.

Lemma Qceiling_mono x y : x <= y -> (Qceiling x <= Qceiling y)%Z.
Proof. apply Qceiling_resp_le. Qed.

Lemma Qle_bool_true x y : Qle_bool x y = true <-> x <= y.
Proof. apply Qle_bool_iff. Qed.

Lemma Qle_bool_false x y : Qle_bool x y = false <-> y < x.
Proof.
  split; intros H.
  - apply Qnot_le_lt; intros C. apply Qle_bool_iff in C. congruence.
  - destruct (Qle_bool x y) eqn:E; auto. apply Qle_bool_iff in E. lra.
Qed.
