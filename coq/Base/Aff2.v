(** Small self-contained 2-d affine maps over [Q], written after the [affine]
    package (3.0.1) that odc-geo uses: [aff_mul] is [Affine.__matmul__],
    [aff_inv] is [Affine.__invert__] (same operation order), [aff_tr] is
    [Affine.translation], [aff_apply] is [A * (x, y)].  Used by the C16 model. *)
From Coq Require Import ZArith QArith Qabs Lia Lqa Field Qfield.
Open Scope Q_scope.

Record aff := mkAff { aa : Q; ab : Q; ac : Q; ad : Q; ae : Q; af : Q }.

Definition aff_id : aff := mkAff 1 0 0 0 1 0.
Definition aff_tr (tx ty : Q) : aff := mkAff 1 0 tx 0 1 ty.

Definition aff_mul (s o : aff) : aff :=
  mkAff (aa s * aa o + ab s * ad o)
        (aa s * ab o + ab s * ae o)
        (aa s * ac o + ab s * af o + ac s)
        (ad s * aa o + ae s * ad o)
        (ad s * ab o + ae s * ae o)
        (ad s * ac o + ae s * af o + af s).

Definition aff_det (s : aff) : Q := aa s * ae s - ab s * ad s.

(** [Affine.__invert__]: the caller tests [is_degenerate] (det == 0) first *)
Definition aff_inv (s : aff) : aff :=
  let idet := 1 / aff_det s in
  let ra := ae s * idet in
  let rb := - ab s * idet in
  let rd := - ad s * idet in
  let re := aa s * idet in
  mkAff ra rb (- ac s * ra - af s * rb) rd re (- ac s * rd - af s * re).

Definition aff_apply (s : aff) (p : Q * Q) : Q * Q :=
  (fst p * aa s + snd p * ab s + ac s, fst p * ad s + snd p * ae s + af s).

Definition aff_eq (x y : aff) : Prop :=
  aa x == aa y /\ ab x == ab y /\ ac x == ac y /\ ad x == ad y /\ ae x == ae y /\ af x == af y.

Definition aff_eqb (x y : aff) : bool :=
  Qeq_bool (aa x) (aa y) && Qeq_bool (ab x) (ab y) && Qeq_bool (ac x) (ac y) &&
  Qeq_bool (ad x) (ad y) && Qeq_bool (ae x) (ae y) && Qeq_bool (af x) (af y).

Definition pt_eq (p q : Q * Q) : Prop := fst p == fst q /\ snd p == snd q.

Lemma aff_eq_refl x : aff_eq x x.
Proof. unfold aff_eq; repeat split; reflexivity. Qed.

Lemma aff_eq_sym x y : aff_eq x y -> aff_eq y x.
Proof. unfold aff_eq; intros (A & B & C & D & E & F); repeat split; symmetry; assumption. Qed.

Lemma aff_eq_trans x y z : aff_eq x y -> aff_eq y z -> aff_eq x z.
Proof.
  unfold aff_eq; intros (A & B & C & D & E & F) (A' & B' & C' & D' & E' & F').
  repeat split; etransitivity; eassumption.
Qed.

Lemma aff_eqb_true x y : aff_eqb x y = true <-> aff_eq x y.
Proof.
  unfold aff_eqb, aff_eq. rewrite !Bool.andb_true_iff, !Qeq_bool_iff. tauto.
Qed.

Lemma aff_mul_assoc x y z : aff_eq (aff_mul (aff_mul x y) z) (aff_mul x (aff_mul y z)).
Proof. unfold aff_eq, aff_mul; simpl; repeat split; ring. Qed.

Lemma aff_mul_compat x x' y y' : aff_eq x x' -> aff_eq y y' -> aff_eq (aff_mul x y) (aff_mul x' y').
Proof.
  unfold aff_eq, aff_mul; simpl.
  intros (A & B & C & D & E & F) (A' & B' & C' & D' & E' & F').
  repeat split; rewrite ?A, ?B, ?C, ?D, ?E, ?F, ?A', ?B', ?C', ?D', ?E', ?F'; reflexivity.
Qed.

Lemma aff_mul_id_r x : aff_eq (aff_mul x aff_id) x.
Proof. unfold aff_eq, aff_mul; simpl; repeat split; ring. Qed.

Lemma aff_tr_tr a b c d : aff_eq (aff_mul (aff_tr a b) (aff_tr c d)) (aff_tr (a + c) (b + d)).
Proof. unfold aff_eq, aff_mul; simpl; repeat split; ring. Qed.

Lemma aff_det_mul_tr b p q : aff_det (aff_mul b (aff_tr p q)) == aff_det b.
Proof. unfold aff_det, aff_mul; simpl; ring. Qed.


Lemma aff_det_compat x y : aff_eq x y -> aff_det x == aff_det y.
Proof.
  unfold aff_eq, aff_det. intros (A & B & C & D & E & F). rewrite A, B, D, E. reflexivity.
Qed.

Lemma aff_inv_compat x y : aff_eq x y -> aff_eq (aff_inv x) (aff_inv y).
Proof.
  intros H. pose proof (aff_det_compat x y H) as Hd.
  destruct H as (A & B & C & D & E & F).
  unfold aff_eq, aff_inv; simpl.
  repeat split; rewrite ?Hd, ?A, ?B, ?C, ?D, ?E, ?F; reflexivity.
Qed.

Lemma aff_inv_l s : ~ aff_det s == 0 -> aff_eq (aff_mul (aff_inv s) s) aff_id.
Proof.
  intros H. unfold aff_eq, aff_mul, aff_inv, aff_det in *; simpl.
  repeat split; field; exact H.
Qed.

Lemma aff_inv_r s : ~ aff_det s == 0 -> aff_eq (aff_mul s (aff_inv s)) aff_id.
Proof.
  intros H. unfold aff_eq, aff_mul, aff_inv, aff_det in *; simpl.
  repeat split; field; exact H.
Qed.

(** The key fact behind every "common grid" theorem: two grids obtained from one
    base by pixel-side translations differ by exactly the difference of the
    translations, whatever the (invertible) base is. *)
Lemma aff_family_translation b p q r s :
  ~ aff_det b == 0 ->
  aff_eq (aff_mul (aff_inv (aff_mul b (aff_tr r s))) (aff_mul b (aff_tr p q)))
         (aff_tr (p - r) (q - s)).
Proof.
  intros H. unfold aff_eq, aff_mul, aff_inv, aff_det, aff_tr in *; simpl.
  repeat split; field; exact H.
Qed.

Lemma aff_apply_mul x y p : pt_eq (aff_apply (aff_mul x y) p) (aff_apply x (aff_apply y p)).
Proof. unfold pt_eq, aff_apply, aff_mul; simpl; split; ring. Qed.

Lemma aff_apply_inv s p : ~ aff_det s == 0 -> pt_eq (aff_apply s (aff_apply (aff_inv s) p)) p.
Proof.
  intros H. unfold pt_eq, aff_apply, aff_inv, aff_det in *; simpl. split; field; exact H.
Qed.

Lemma aff_apply_inv' s p : ~ aff_det s == 0 -> pt_eq (aff_apply (aff_inv s) (aff_apply s p)) p.
Proof.
  intros H. unfold pt_eq, aff_apply, aff_inv, aff_det in *; simpl. split; field; exact H.
Qed.

Lemma aff_apply_tr tx ty p : pt_eq (aff_apply (aff_tr tx ty) p) (fst p + tx, snd p + ty).
Proof. unfold pt_eq, aff_apply, aff_tr; simpl; split; ring. Qed.
