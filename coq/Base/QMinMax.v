(** Boolean comparisons, min/max of rationals as computed by Python's
    [min]/[max] over short lists, and the floor/division facts shared by the
    C12 and C14 developments. *)
From Coq Require Import ZArith QArith Qround Qabs Bool Lia Lqa.
From OG Require Import Base.QZ.
Open Scope Q_scope.

Definition Qlt_bool (x y : Q) : bool := negb (Qle_bool y x).
Definition qmin (x y : Q) : Q := if Qle_bool x y then x else y.
Definition qmax (x y : Q) : Q := if Qle_bool x y then y else x.
Definition min4 (a b c d : Q) : Q := qmin (qmin (qmin a b) c) d.
Definition max4 (a b c d : Q) : Q := qmax (qmax (qmax a b) c) d.

Lemma Qlt_bool_true x y : Qlt_bool x y = true <-> x < y.
Proof.
  unfold Qlt_bool. rewrite negb_true_iff. apply Qle_bool_false.
Qed.

Lemma Qlt_bool_false x y : Qlt_bool x y = false <-> y <= x.
Proof.
  unfold Qlt_bool. rewrite negb_false_iff. apply Qle_bool_true.
Qed.

Lemma Qdiv_ge_iff a b c : 0 < c -> (a <= b / c <-> a * c <= b).
Proof.
  intros Hc. assert (E : b / c * c == b) by (field; lra).
  rewrite <- (Qmult_le_r a (b / c) c Hc). rewrite E. reflexivity.
Qed.

Lemma Qdiv_lt_iff a b c : 0 < c -> (b / c < a <-> b < a * c).
Proof.
  intros Hc. assert (E : b / c * c == b) by (field; lra).
  rewrite <- (Qmult_lt_r (b / c) a c Hc). rewrite E. reflexivity.
Qed.

Lemma Qfloor_eq_iff q k : Qfloor q = k <-> inject_Z k <= q /\ q < inject_Z k + 1.
Proof.
  split.
  - intros <-. split; [apply Qfloor_le|].
    pose proof (Qlt_floor q) as H. rewrite inject_Z_plus in H. exact H.
  - intros [H1 H2]. apply Qfloor_ge_iff in H1.
    assert (H3 : (Qfloor q < k + 1)%Z).
    { apply Qfloor_lt_iff. rewrite inject_Z_plus. exact H2. }
    lia.
Qed.

Lemma qmin_spec x y : (x <= y /\ qmin x y = x) \/ (y < x /\ qmin x y = y).
Proof.
  unfold qmin. destruct (Qle_bool x y) eqn:E.
  - left. split; [apply Qle_bool_true; exact E | reflexivity].
  - right. split; [apply Qle_bool_false; exact E | reflexivity].
Qed.

Lemma qmax_spec x y : (x <= y /\ qmax x y = y) \/ (y < x /\ qmax x y = x).
Proof.
  unfold qmax. destruct (Qle_bool x y) eqn:E.
  - left. split; [apply Qle_bool_true; exact E | reflexivity].
  - right. split; [apply Qle_bool_false; exact E | reflexivity].
Qed.

Lemma min4_spec a b c d :
  min4 a b c d <= a /\ min4 a b c d <= b /\ min4 a b c d <= c /\ min4 a b c d <= d /\
  (min4 a b c d == a \/ min4 a b c d == b \/ min4 a b c d == c \/ min4 a b c d == d).
Proof.
  unfold min4.
  destruct (qmin_spec a b) as [[H1 ->] | [H1 ->]].
  - destruct (qmin_spec a c) as [[H2 ->] | [H2 ->]].
    + destruct (qmin_spec a d) as [[H3 ->] | [H3 ->]].
      * repeat split; lra.
      * repeat split; lra.
    + destruct (qmin_spec c d) as [[H3 ->] | [H3 ->]].
      * repeat split; lra.
      * repeat split; lra.
  - destruct (qmin_spec b c) as [[H2 ->] | [H2 ->]].
    + destruct (qmin_spec b d) as [[H3 ->] | [H3 ->]].
      * repeat split; lra.
      * repeat split; lra.
    + destruct (qmin_spec c d) as [[H3 ->] | [H3 ->]].
      * repeat split; lra.
      * repeat split; lra.
Qed.

Lemma max4_spec a b c d :
  a <= max4 a b c d /\ b <= max4 a b c d /\ c <= max4 a b c d /\ d <= max4 a b c d /\
  (max4 a b c d == a \/ max4 a b c d == b \/ max4 a b c d == c \/ max4 a b c d == d).
Proof.
  unfold max4.
  destruct (qmax_spec a b) as [[H1 ->] | [H1 ->]].
  - destruct (qmax_spec b c) as [[H2 ->] | [H2 ->]].
    + destruct (qmax_spec c d) as [[H3 ->] | [H3 ->]].
      * repeat split; lra.
      * repeat split; lra.
    + destruct (qmax_spec b d) as [[H3 ->] | [H3 ->]].
      * repeat split; lra.
      * repeat split; lra.
  - destruct (qmax_spec a c) as [[H2 ->] | [H2 ->]].
    + destruct (qmax_spec c d) as [[H3 ->] | [H3 ->]].
      * repeat split; lra.
      * repeat split; lra.
    + destruct (qmax_spec a d) as [[H3 ->] | [H3 ->]].
      * repeat split; lra.
      * repeat split; lra.
Qed.

(** min/max of four values that are all one of two values [lo <= hi], both present *)
Lemma min4_two a b c d lo hi : lo <= hi ->
  (a == lo \/ a == hi) -> (b == lo \/ b == hi) -> (c == lo \/ c == hi) -> (d == lo \/ d == hi) ->
  (a == lo \/ b == lo \/ c == lo \/ d == lo) -> min4 a b c d == lo.
Proof.
  intros Hl Ha Hb Hc Hd Hex.
  destruct (min4_spec a b c d) as (M1 & M2 & M3 & M4 & M5).
  apply Qle_antisym.
  - destruct Hex as [E|[E|[E|E]]]; lra.
  - destruct M5 as [E|[E|[E|E]]]; rewrite E.
    + destruct Ha; lra.
    + destruct Hb; lra.
    + destruct Hc; lra.
    + destruct Hd; lra.
Qed.

Lemma max4_two a b c d lo hi : lo <= hi ->
  (a == lo \/ a == hi) -> (b == lo \/ b == hi) -> (c == lo \/ c == hi) -> (d == lo \/ d == hi) ->
  (a == hi \/ b == hi \/ c == hi \/ d == hi) -> max4 a b c d == hi.
Proof.
  intros Hl Ha Hb Hc Hd Hex.
  destruct (max4_spec a b c d) as (M1 & M2 & M3 & M4 & M5).
  apply Qle_antisym.
  - destruct M5 as [E|[E|[E|E]]]; rewrite E.
    + destruct Ha; lra.
    + destruct Hb; lra.
    + destruct Hc; lra.
    + destruct Hd; lra.
  - destruct Hex as [E|[E|[E|E]]]; lra.
Qed.

