(** Python/numpy style contiguous selection on lists, characterised by [nth_error]. *)
From Coq Require Import ZArith List Bool Lia.
Import ListNotations.
Open Scope Z_scope.

Definition len {A} (l : list A) : Z := Z.of_nat (length l).
Definition take {A} (n : Z) (l : list A) : list A := firstn (Z.to_nat n) l.
Definition drop {A} (n : Z) (l : list A) : list A := skipn (Z.to_nat n) l.

(** [X[s:e]] for non-negative [s], [e] (numpy clamps to the length by itself). *)
Definition sel {A} (X : list A) (s e : Z) : list A := drop s (take e X).

Lemma len_nonneg {A} (l : list A) : 0 <= len l.
Proof. unfold len; lia. Qed.

Lemma len_app {A} (a b : list A) : len (a ++ b) = len a + len b.
Proof. unfold len; rewrite app_length; lia. Qed.

Lemma len_take {A} n (l : list A) : 0 <= n -> len (take n l) = Z.min n (len l).
Proof. unfold len, take; intros; rewrite firstn_length; lia. Qed.

Lemma len_drop {A} n (l : list A) : 0 <= n -> len (drop n l) = Z.max 0 (len l - n).
Proof. unfold len, drop; intros; rewrite skipn_length; lia. Qed.

Lemma take_drop {A} n (l : list A) : take n l ++ drop n l = l.
Proof. apply firstn_skipn. Qed.

Lemma nth_error_ext {A} (l1 l2 : list A) :
  (forall i, nth_error l1 i = nth_error l2 i) -> l1 = l2.
Proof.
  revert l2; induction l1 as [|a l1 IH]; intros [|b l2] H; auto.
  - specialize (H 0%nat); discriminate.
  - specialize (H 0%nat); discriminate.
  - f_equal.
    + specialize (H 0%nat); simpl in H; congruence.
    + apply IH; intros i; exact (H (S i)).
Qed.

Lemma nth_error_firstn {A} (l : list A) n i :
  nth_error (firstn n l) i = if (i <? n)%nat then nth_error l i else None.
Proof.
  revert n i; induction l as [|a l IH]; intros [|n] [|i]; simpl; auto.
  - destruct (_ <? _)%nat; auto.
  - rewrite IH. reflexivity.
Qed.

Lemma nth_error_skipn {A} (l : list A) n i :
  nth_error (skipn n l) i = nth_error l (n + i).
Proof.
  revert l; induction n as [|n IH]; intros [|a l]; simpl; auto.
  destruct i; reflexivity.
Qed.

(** The characterisation used everywhere. *)
Lemma nth_error_sel {A} (X : list A) s e i :
  0 <= s -> 0 <= e ->
  nth_error (sel X s e) i =
    if (s + Z.of_nat i <? e) then nth_error X (Z.to_nat s + i) else None.
Proof.
  intros Hs He; unfold sel, drop, take.
  rewrite nth_error_skipn, nth_error_firstn.
  destruct (Nat.ltb_spec (Z.to_nat s + i) (Z.to_nat e)); destruct (Z.ltb_spec (s + Z.of_nat i) e);
    auto; lia.
Qed.

Lemma len_sel {A} (X : list A) s e :
  0 <= s -> 0 <= e -> len (sel X s e) = Z.max 0 (Z.min e (len X) - s).
Proof. intros; unfold sel; rewrite len_drop, len_take by lia; lia. Qed.

Lemma sel_full {A} (X : list A) e : len X <= e -> sel X 0 e = X.
Proof.
  intros H; unfold sel, drop, take; simpl.
  apply firstn_all2; unfold len in H; lia.
Qed.

Lemma sel_empty {A} (X : list A) s e : 0 <= s -> 0 <= e -> e <= s -> sel X s e = [].
Proof.
  intros Hs He H; apply nth_error_ext; intros i.
  rewrite nth_error_sel by lia.
  destruct (Z.ltb_spec (s + Z.of_nat i) e); [lia|]. destruct i; reflexivity.
Qed.

(** Selecting from a selection. *)
Ltac ltb_cases :=
  repeat match goal with
  | |- context [Z.ltb ?a ?b] => destruct (Z.ltb_spec a b)
  end.

Lemma sel_sel {A} (X : list A) s1 e1 s2 e2 :
  0 <= s1 -> 0 <= e1 -> 0 <= s2 -> 0 <= e2 ->
  sel (sel X s1 e1) s2 e2 = sel X (s1 + s2) (Z.min e1 (s1 + e2)).
Proof.
  intros; apply nth_error_ext; intros i.
  rewrite !nth_error_sel by lia.
  ltb_cases; try lia; auto.
  f_equal; lia.
Qed.

Lemma sel_clamp {A} (X : list A) s e :
  0 <= s -> 0 <= e -> sel X s e = sel X (Z.min s (len X)) (Z.min e (len X)).
Proof.
  intros; apply nth_error_ext; intros i.
  pose proof (len_nonneg X).
  rewrite !nth_error_sel by lia.
  ltb_cases; auto; try lia;
    first [ f_equal; lia
          | apply nth_error_None; unfold len in *; lia
          | symmetry; apply nth_error_None; unfold len in *; lia ].
Qed.
