(** Correspondence cases for the C02 model: each constructor carries the inputs
    given to the real GeoBox code and the canonicalised result it returned;
    [check] compares with the model (all rationals with [Qeq_bool], exact). *)
From Coq Require Import ZArith QArith List Bool.
From OG Require Import Base.Result Base.Eqb Base.Affine Model.Roi Model.GeoBoxOps.
Import ListNotations.
Open Scope Z_scope.

Definition gb_eqb (x y : geobox) : bool :=
  (g_ny x =? g_ny y) && (g_nx x =? g_nx y) && aeqb (g_A x) (g_A y) && (g_crs x =? g_crs y).

Definition bbox_eqb (x y : Q * Q * Q * Q) : bool :=
  let '(l, b, r, t) := x in
  let '(l', b', r', t') := y in
  Qeqb l l' && Qeqb b b' && Qeqb r r' && Qeqb t t'.

Inductive case :=
(** one step of an operation chain: state before, operation, state after / error *)
| COp (c : cfg) (g : geobox) (o : op) (expect : res geobox)
(** the same step performed on a GCPGeoBox: only (shape, _affine, crs) observed *)
| CGcpOp (c : cfg) (g : geobox) (o : op) (expect : res geobox)
(** extent ring and bounding box (left, bottom, right, top) *)
| CView (g : geobox) (ext : list pt) (bbox : Q * Q * Q * Q)
| CCoords (c : cfg) (g : geobox) (expect : res (list Q * list Q))
| CRes (c : cfg) (g : geobox) (expect : res (Q * Q))
| CP2W (g : geobox) (p w : pt)
| CW2P (g : geobox) (w p : pt)
(** GCPGeoBox.approx: mapping.approx = M *)
| CGcpApprox (g : geobox) (M : affine) (expect : geobox)
(** GCPGeoBox.pix2wld when the fit is the affine map M *)
| CGcpP2W (g : geobox) (M : affine) (p w : pt).

Definition check (c : case) : bool :=
  match c with
  | COp cf g o e => res_eqb gb_eqb (run_op cf g o) e
  | CGcpOp cf g o e => res_eqb gb_eqb (run_op cf g o) e
  | CView g ext bb => list_eqb peqb (extent g) ext && bbox_eqb (boundingbox g) bb
  | CCoords cf g e => res_eqb (pair_eqb (list_eqb Qeqb) (list_eqb Qeqb)) (coordinates cf g) e
  | CRes cf g e => res_eqb (pair_eqb Qeqb Qeqb) (resolution cf g) e
  | CP2W g p w => peqb (pix2wld g p) w
  | CW2P g w p => peqb (wld2pix g w) p
  | CGcpApprox g M e => gb_eqb (gcp_approx M g) e
  | CGcpP2W g M p w => peqb (gcp_pix2wld (apply M) g p) w
  end.
