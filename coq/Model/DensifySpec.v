(** Property C07 — the predicates used in the theorem statements of Props/C07.v
    (definitions only). *)
From Coq Require Import ZArith QArith List Bool.
From OG Require Import Base.Result Model.Densify.
Import ListNotations.
Open Scope Q_scope.

(** contract of a square-root function: whatever it returns is the non-negative root *)
Definition sqrt_spec (sq : Q -> option Q) : Prop :=
  forall x L, sq x = Some L -> 0 <= L /\ L * L == x.

(** consecutive points of [l] are at most [r] apart (squared distances) *)
Definition max_gap (r : Q) (l : list pt) : Prop :=
  forall i p q, nth_error l i = Some p -> nth_error l (S i) = Some q -> sqdist p q <= r * r.

(** [p], [q] are consecutive vertices of [l] *)
Definition adjacent (p q : pt) (l : list pt) : Prop :=
  exists l1 l2, l = l1 ++ p :: q :: l2.

(** [lo < t1 < t2 < ... < tn < hi] *)
Fixpoint increasing (lo : Q) (ts : list Q) (hi : Q) : Prop :=
  match ts with
  | [] => lo < hi
  | t :: ts' => lo < t /\ increasing t ts' hi
  end.

(** [out] is [cs] with, between each pair of consecutive vertices p1 p2, finitely
    many points p1 + t (p2 - p1) inserted, 0 < t1 < ... < tn < 1 (in the open
    segment, ordered from p1 to p2) *)
Inductive refines : list pt -> list pt -> Prop :=
| refines_nil : refines [] []
| refines_one p : refines [p] [p]
| refines_seg p1 p2 rest ts out :
    increasing 0 ts 1 ->
    refines (p2 :: rest) out ->
    refines (p1 :: p2 :: rest) (p1 :: map (lerp p1 p2) ts ++ out).

(** order-preserving sub-list *)
Inductive subseq {A : Type} : list A -> list A -> Prop :=
| subseq_nil : subseq [] []
| subseq_take x l1 l2 : subseq l1 l2 -> subseq (x :: l1) (x :: l2)
| subseq_skip x l1 l2 : subseq l1 l2 -> subseq l1 (x :: l2).

(** [l] is the length of the segment pq *)
Definition seg_len (p q : pt) (l : Q) : Prop := 0 <= l /\ l * l == sqdist p q.

(** [L] is the length of the polyline (only polylines all of whose edges have a
    rational length have one) *)
Inductive path_len : list pt -> Q -> Prop :=
| pl_nil : path_len [] 0
| pl_one p : path_len [p] 0
| pl_cons p q rest l m :
    seg_len p q l -> path_len (q :: rest) m -> path_len (p :: q :: rest) (l + m).

Inductive paths_len : list (list pt) -> Q -> Prop :=
| pls_nil : paths_len [] 0
| pls_cons p ps a b : path_len p a -> paths_len ps b -> paths_len (p :: ps) (a + b).

(** every edge of [l] has a root under [sq] *)
Definition roots_exist (sq : Q -> option Q) (l : list pt) : Prop :=
  forall p q, adjacent p q l -> sq (sqdist p q) <> None.
