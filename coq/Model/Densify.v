(** Property C07 — executable model of odc/geo/geom.py [densify],
    [Geometry.segmented], [_auto_resolution] and the control flow of
    [Geometry.to_crs] (with [CRS.transformer_to_crs] / [shapely.ops.transform]
    as the structural map of a point function).

    Floats are exact rationals (DESIGN.md section 3).  shapely's
    [LineString([p1,p2]).length] and [.interpolate(d)] are replaced by their
    definitions: length = sqrt(dx^2+dy^2), interpolate(d) = p1 + (d/L)(p2-p1)
    (GEOS: LengthLocationMap + pointAlongSegmentByFraction).  The square root is
    an argument [sq : Q -> option Q]; the executable instance is [exact_sqrt]
    (perfect squares of the reduced numerator and denominator); the theorems hold
    for every [sq] that returns non-negative roots.

    The record [fixes] switches between the code as found ([false]) and the
    repaired code ([true]) for the four defects repaired under this property;
    [repaired] is what the repo branch now contains. *)
From Coq Require Import ZArith QArith Qround Qabs List Bool.
From OG Require Import Base.Result.
Import ListNotations.
Open Scope Q_scope.

Definition pt : Type := (Q * Q)%type.

Definition Qltb (a b : Q) : bool := negb (Qle_bool b a).

(** [(p1[0]-p2[0])**2 + (p1[1]-p2[1])**2] *)
Definition sqdist (p q : pt) : Q :=
  (fst p - fst q) * (fst p - fst q) + (snd p - snd q) * (snd p - snd q).

(* ------------------------------------------------------------------ sqrt *)
Definition zsqrt_exact (n : Z) : option Z :=
  let r := Z.sqrt n in if (r * r =? n)%Z then Some r else None.

(** exact rational square root: [None] when the argument is not the square of a rational *)
Definition exact_sqrt (x : Q) : option Q :=
  let y := Qred x in
  match zsqrt_exact (Qnum y), zsqrt_exact (Zpos (Qden y)) with
  | Some a, Some (Zpos b) => Some (a # b)
  | _, _ => None
  end.

(* ------------------------------------------------------------------ densify *)
Record fixes := {
  fx_sqdist : bool;   (* 8b793ae: short_enough compares the squared segment length *)
  fx_posres : bool;   (* 0d98c78: densify raises ValueError for resolution <= 0 *)
  fx_empty : bool;    (* b9d25ee: densify([]) = [] instead of IndexError *)
  fx_autopos : bool   (* ecfe9c0: to_crs skips densification unless resolution > 0 *)
}.
Definition repaired : fixes := Build_fixes true true true true.

(** [short_enough(p1, p2)]; [d2 = resolution**2] *)
Definition short_enough (fx : fixes) (d2 : Q) (p1 p2 : pt) : bool :=
  if fx_sqdist fx then Qltb (sqdist p1 p2) d2
  else Qltb (fst p1 * fst p1 + fst p2 * fst p2) d2.

(** the point [p1 + t (p2 - p1)] *)
Definition lerp (p1 p2 : pt) (t : Q) : pt :=
  (fst p1 + t * (fst p2 - fst p1), snd p1 + t * (snd p2 - snd p1)).

(** [segment.interpolate(d)] for [0 <= d <= L] (GEOS clamps outside; the repaired
    loop only calls it with [0 < d < L], see [DensifyProofs.dloop_params]) *)
Definition interpolate (p1 p2 : pt) (L d : Q) : pt := lerp p1 p2 (d / L).

(** [while d < segment_length: append(interpolate(d)); d += resolution] on fuel;
    [None] = the loop did not finish within the fuel *)
Fixpoint dloop (fuel : nat) (p1 p2 : pt) (L r d : Q) : option (list pt) :=
  match fuel with
  | O => None
  | S f =>
      if Qltb d L
      then match dloop f p1 p2 L r (d + r) with
           | Some l => Some (interpolate p1 p2 L d :: l)
           | None => None
           end
      else Some []
  end.

(** enough fuel for every positive resolution ([DensifyProofs.dloop_total]) *)
Definition seg_fuel (L r : Q) : nat := S (Z.to_nat (Qceiling (L / r))).

(** body of the [for p1, p2 in zip(...)] loop: the points appended for this pair.
    [Err EOther]: the segment length is irrational (outside the executable
    model's domain); [Err ERuntime]: the while loop does not terminate. *)
Definition densify_segment (fx : fixes) (sq : Q -> option Q) (d2 r : Q) (p1 p2 : pt) : res (list pt) :=
  if short_enough fx d2 p1 p2 then Ok [p2]
  else match sq (sqdist p1 p2) with
       | None => Err EOther
       | Some L =>
           match dloop (seg_fuel L r) p1 p2 L r r with
           | None => Err ERuntime
           | Some mid => Ok (mid ++ [p2])
           end
       end.

Fixpoint densify_pairs (fx : fixes) (sq : Q -> option Q) (d2 r : Q) (p1 : pt) (rest : list pt)
  : res (list pt) :=
  match rest with
  | [] => Ok []
  | p2 :: rest' =>
      a <- densify_segment fx sq d2 r p1 p2 ;;
      b <- densify_pairs fx sq d2 r p2 rest' ;;
      Ok (a ++ b)
  end.

(** [densify(coords, resolution)] *)
Definition densify_gen (fx : fixes) (sq : Q -> option Q) (coords : list pt) (r : Q) : res (list pt) :=
  if fx_posres fx && Qle_bool r 0 then Err EValue
  else match coords with
       | [] => if fx_empty fx then Ok [] else Err EIndex
       | p0 :: rest =>
           tl <- densify_pairs fx sq (r * r) r p0 rest ;;
           Ok (p0 :: tl)
       end.

Definition densify := densify_gen repaired exact_sqrt.

(* ------------------------------------------------------------------ geometries *)
Inductive mkind := MLine | MPolygon | MCollection.

(** shapely geometry kinds over coordinate lists; [Multi k] is MultiLineString /
    MultiPolygon / GeometryCollection (the code treats the three uniformly) *)
Inductive geom :=
| Point (p : pt)
| MultiPoint (ps : list pt)
| Line (cs : list pt)
| Ring (cs : list pt)
| Polygon (ext : list pt) (holes : list (list pt))
| Multi (k : mkind) (parts : list geom).

Definition mapM {A B} (f : A -> res B) : list A -> res (list B) :=
  fix go (l : list A) : res (list B) :=
    match l with
    | [] => Ok []
    | x :: l' => a <- f x ;; b <- go l' ;; Ok (a :: b)
    end.

(** [Geometry.segmented(resolution)] / [segmentize_shapely] *)
Fixpoint segmented_gen (fx : fixes) (sq : Q -> option Q) (r : Q) (g : geom) {struct g} : res geom :=
  match g with
  | Point p => Ok (Point p)
  | MultiPoint ps => Ok (MultiPoint ps)
  | Multi k parts => ps <- mapM (segmented_gen fx sq r) parts ;; Ok (Multi k ps)
  | Line cs => c <- densify_gen fx sq cs r ;; Ok (Line c)
  | Ring cs => c <- densify_gen fx sq cs r ;; Ok (Ring c)
  | Polygon e hs =>
      e' <- densify_gen fx sq e r ;;
      hs' <- mapM (fun h => densify_gen fx sq h r) hs ;;
      Ok (Polygon e' hs')
  end.

Definition segmented := segmented_gen repaired exact_sqrt.

(** [shapely.ops.transform(func, geom)] for a point-wise [func]: oracle contract
    "applies func to the coordinates of every part, in order" *)
Fixpoint gmap (f : pt -> pt) (g : geom) : geom :=
  match g with
  | Point p => Point (f p)
  | MultiPoint ps => MultiPoint (map f ps)
  | Line cs => Line (map f cs)
  | Ring cs => Ring (map f cs)
  | Polygon e hs => Polygon (map f e) (map (map f) hs)
  | Multi k ps => Multi k (map (gmap f) ps)
  end.

(* ------------------------------------------------------------------ measures *)
(** twice the signed area of a closed ring (shoelace formula) *)
Fixpoint shoelace2 (l : list pt) : Q :=
  match l with
  | p :: (q :: _) as tl => (fst p * snd q - fst q * snd p) + shoelace2 tl
  | _ => 0
  end.

Definition ring_area (l : list pt) : Q := Qabs (shoelace2 l) / 2.
Definition qsum (l : list Q) : Q := fold_right Qplus 0 l.

(** shapely [.area] (GEOS: |shell| - sum |holes|; 0 for points, lines and rings) *)
Fixpoint geom_area (g : geom) : Q :=
  match g with
  | Polygon e hs => ring_area e - qsum (map ring_area hs)
  | Multi _ ps => qsum (map geom_area ps)
  | _ => 0
  end.

(** [_auto_resolution(g) = math.sqrt(g.area) * 4 / 100] *)
Definition auto_resolution (sq : Q -> option Q) (g : geom) : res Q :=
  match sq (geom_area g) with
  | Some s => Ok (s * 4 / 100)
  | None => Err EOther
  end.

(** polyline length through [sq]; [None] when some edge has no root *)
Fixpoint path_length (sq : Q -> option Q) (l : list pt) : option Q :=
  match l with
  | p :: (q :: _) as tl =>
      match sq (sqdist p q), path_length sq tl with
      | Some a, Some b => Some (a + b)
      | _, _ => None
      end
  | _ => Some 0
  end.

(** all coordinate sequences in order (a point is a one-vertex sequence; lines,
    rings, polygon shells and holes), and all vertices in order *)
Fixpoint paths (g : geom) : list (list pt) :=
  match g with
  | Point p => [[p]]
  | MultiPoint ps => map (fun p => [p]) ps
  | Line cs => [cs]
  | Ring cs => [cs]
  | Polygon e hs => e :: hs
  | Multi _ ps => concat (map paths ps)
  end.

(** shapely [.length]: sum of the polyline lengths of all coordinate sequences *)
Definition geom_length (sq : Q -> option Q) (g : geom) : option Q :=
  fold_right (fun l acc => match path_length sq l, acc with
                           | Some a, Some b => Some (a + b)
                           | _, _ => None
                           end) (Some 0) (paths g).

Fixpoint vertices (g : geom) : list pt :=
  match g with
  | Point p => [p]
  | MultiPoint ps => ps
  | Line cs => cs
  | Ring cs => cs
  | Polygon e hs => e ++ concat hs
  | Multi _ ps => concat (map vertices ps)
  end.

(** the geometry with every coordinate list replaced by its length: constructor,
    part / ring structure and vertex counts *)
Inductive skel :=
| SPoint | SMultiPoint (n : nat) | SLine (n : nat) | SRing (n : nat) | SPolygon (n : nat) (hs : list nat)
| SMulti (k : mkind) (ps : list skel).

Fixpoint skeleton (g : geom) : skel :=
  match g with
  | Point _ => SPoint
  | MultiPoint ps => SMultiPoint (length ps)
  | Line cs => SLine (length cs)
  | Ring cs => SRing (length cs)
  | Polygon e hs => SPolygon (length e) (map (@length pt) hs)
  | Multi k ps => SMulti k (map skeleton ps)
  end.

(** same constructor and part / ring structure, vertex counts ignored *)
Fixpoint kind_skeleton (g : geom) : skel :=
  match g with
  | Point _ => SPoint
  | MultiPoint ps => SMultiPoint (length ps)
  | Line _ => SLine 0
  | Ring _ => SRing 0
  | Polygon _ hs => SPolygon 0 (map (fun _ => O) hs)
  | Multi k ps => SMulti k (map kind_skeleton ps)
  end.

(* ------------------------------------------------------------------ to_crs *)
Inductive resolution := RNone | RAuto | RNum (r : Q) | RNonFinite.  (* None, "auto", a finite float, inf/nan *)

Section ToCrs.
  (** oracles: the CRS objects and their equality (C19), pyproj's point-wise
      transform, shapely validity / repair, the antimeridian helpers *)
  Variable crs : Type.
  Variable crs_eqb : crs -> crs -> bool.
  Variable geographic : crs -> bool.
  Variable proj : crs -> crs -> pt -> pt.
  Variable is_valid : geom -> bool.
  Variable repair : geom -> geom.            (* dropna() and buffer(0) of maybe_fix *)
  Variable chop_antimeridian : geom -> geom.
  Variable clip_lon180 : geom -> geom.

  (** [Same]: the method returned [self]; [Fresh g c]: a new Geometry *)
  Inductive tc_result := Same | Fresh (g : geom) (c : crs).

  (** [Geometry.to_crs(crs, resolution, wrapdateline, check_and_fix=...)];
      [target = None] when [norm_crs] gives None *)
  Definition to_crs_gen (fx : fixes) (sq : Q -> option Q)
             (self_crs : option crs) (g : geom) (target : option crs)
             (rs : resolution) (wrapdateline check_and_fix : bool) : res tc_result :=
    match target with
    | None => Err EValue                                   (* norm_crs_or_error *)
    | Some c =>
        if match self_crs with Some s => crs_eqb s c | None => false end
        then Ok Same                                       (* if self.crs == crs: return self *)
        else
          match self_crs with
          | None => Err EValue                             (* Cannot project geometries without CRS *)
          | Some s =>
              rs' <- match rs with
                     | RAuto => a <- auto_resolution sq g ;; Ok (RNum a)
                     | x => Ok x
                     end ;;
              g1 <- match rs' with
                    | RNum r => if negb (fx_autopos fx) || Qltb 0 r
                                then segmented_gen fx sq r g else Ok g
                    | _ => Ok g
                    end ;;
              let maybe_fix x := if negb check_and_fix || is_valid x then x else repair x in
              if wrapdateline && geographic c
              then Ok (Fresh (clip_lon180 (maybe_fix (gmap (proj s c) (chop_antimeridian g1)))) c)
              else Ok (Fresh (maybe_fix (gmap (proj s c) g1)) c)
          end
    end.
End ToCrs.

Arguments Same {crs}.
Arguments Fresh {crs} g c.
