(** Model of odc/geo/_blocks.py BlockAssembler (22-167).

    Shape level ([_verify_shape], [__init__], [_norm_roi], the shape of what
    [extract] returns) over lists of integers, statement by statement.

    Value level ([extract]'s paste loop): an array is a total function
    [E -> Z -> Z -> V] with a Y/X shape; [E] is the opaque index of the
    leading/trailing axes.  What numpy does is written down explicitly:
    [np_full], basic slicing of an axis with non-negative bounds ([eff]: numpy
    clamps to the extent) and [np_copyto_view] = [np.copyto(dst[d], src[..s..])]
    which needs equal extents (numpy's broadcasting of extent-1 sources is not
    modelled: the model answers ValueError there; the theorems show the extents
    are always equal).  [esel] is numpy's re-indexing of the extra axes by the
    window's extra slices and [cast] numpy's dtype conversion (oracles). *)
From Coq Require Import ZArith List Bool Lia.
From OG Require Import Base.Result Base.ListSel Model.Roi Model.Tiles.
Import ListNotations.
Open Scope Z_scope.

(** * Shape level *)

(** Python [l[a:b]] with optional bounds *)
Definition py_slice {A} (l : list A) (a b : option Z) : list A :=
  sel l (py_clamp (len l) a 0) (py_clamp (len l) b (len l)).

Definition list_eqbZ := fix go (x y : list Z) : bool :=
  match x, y with
  | [], [] => true
  | a :: x', b :: y' => (a =? b) && go x' y'
  | _, _ => false
  end.

Definition vstate := option (Z * list Z * list Z).

(** one iteration of the loop of BlockAssembler._verify_shape;
    a block is its key and its ndarray shape *)
Definition verify_step (chy chx : list Z) (axis : Z) (st : vstate) (kb : (Z * Z) * list Z)
  : res vstate :=
  let '((iy, ix), bsh) := kb in
  let ndim := len bsh in
  let pre := py_slice bsh None (Some axis) in
  let post := py_slice bsh (Some (axis + 2)) None in
  st1 <- match st with
         | None => if ndim <? axis + 2 then Err EValue else Ok (ndim, pre, post)
         | Some s => Ok s
         end ;;
  let '(n0, pre0, post0) := st1 in
  if negb (n0 =? ndim) || negb (list_eqbZ pre0 pre && list_eqbZ post0 post) then Err EValue
  else
    cy <- np_at chy iy ;;        (* tuple indexing: IndexError when out of range *)
    cx <- np_at chx ix ;;
    if list_eqbZ (py_slice bsh (Some axis) (Some (axis + 2))) [cy; cx] then Ok (Some st1)
    else Err EValue.

Fixpoint verify_loop chy chx axis (st : vstate) (bl : list ((Z * Z) * list Z)) : res vstate :=
  match bl with
  | [] => Ok st
  | kb :: r => st' <- verify_step chy chx axis st kb ;; verify_loop chy chx axis st' r
  end.

Definition ba_verify_shape (bl : list ((Z * Z) * list Z)) (chy chx : list Z) (axis : Z)
  : res (list Z) :=
  st <- verify_loop chy chx axis None bl ;;
  let ny := sumZ chy in
  let nx := sumZ chx in
  match st with
  | None => Ok [ny; nx]
  | Some (_, pre, post) => Ok (pre ++ [ny; nx] ++ post)
  end.

Record assembler := { ba_shape : list Z; ba_axis : Z; ba_tiles : vtiles }.

(** BlockAssembler.__init__ (dtype selection is numpy's) *)
Definition ba_init (bl : list ((Z * Z) * list Z)) (chy chx : list Z) (axis : Z) : res assembler :=
  sh <- ba_verify_shape bl chy chx axis ;;
  t <- vt_init chy chx ;;
  b <- vt_base t ;;
  if list_eqbZ [fst b; snd b] (py_slice sh (Some axis) (Some (axis + 2)))
  then Ok {| ba_shape := sh; ba_axis := axis; ba_tiles := t |}
  else Err (EAssert 48).

Definition full_sl (n : Z) : someslice := SSl (Some 0) (Some n) None.

Fixpoint zip_norm (roi : list someslice) (sh : list Z) : list (Z * Z) :=
  match roi, sh with
  | s :: r, n :: sh' => norm_ss s n :: zip_norm r sh'
  | _, _ => []
  end.

Fixpoint squeeze_axes (k : Z) (axis : Z) (roi : list someslice) : list Z :=
  match roi with
  | [] => []
  | s :: r =>
      let rest := squeeze_axes (k + 1) axis r in
      match s with
      | SInt _ => if (k =? axis) || (k =? axis + 1) then rest else k :: rest
      | SSl _ _ _ => rest
      end
  end.

(** BlockAssembler._norm_roi; [None] is roi=None, a non-tuple roi is a 1-element list *)
Definition ba_norm_roi (a : assembler) (roi : option (list someslice))
  : res (list (Z * Z) * list Z) :=
  let sh := ba_shape a in
  let ax := ba_axis a in
  let nd := len sh in
  let roi := match roi with None => map full_sl sh | Some r => r end in
  let ndim := len roi in
  roi <- (if ndim =? 2 then
            Ok (map full_sl (py_slice sh None (Some ax)) ++ roi ++
                map full_sl (py_slice sh (Some (ax + 2)) None))
          else if ndim <? nd then Ok (roi ++ map full_sl (py_slice sh (Some ndim) None))
          else if ndim >? nd then Err EIndex
          else Ok roi) ;;
  Ok (zip_norm roi sh, squeeze_axes 0 ax roi).

Fixpoint drop_axes (k : Z) (sq : list Z) (sh : list Z) : list Z :=
  match sh with
  | [] => []
  | n :: r => if existsb (Z.eqb k) sq then drop_axes (k + 1) sq r else n :: drop_axes (k + 1) sq r
  end.

(** what [extract] computes before the paste loop: normalised roi, the Y/X
    window, the shape handed to np.full (negative extent: ValueError) and the
    shape of the result after np.squeeze *)
Definition ba_plan (a : assembler) (roi : option (list someslice))
  : res (list (Z * Z) * ((Z * Z) * (Z * Z)) * list Z * list Z) :=
  '(nroi, sq) <- ba_norm_roi a roi ;;
  if negb (len nroi =? len (ba_shape a)) then Err (EAssert 144)
  else
    match py_slice nroi (Some (ba_axis a)) (Some (ba_axis a + 2)) with
    | [wy; wx] =>
        let full := map (fun s => snd s - fst s) nroi in
        if existsb (fun d => d <? 0) full then Err EValue
        else Ok (nroi, (wy, wx), full, drop_axes 0 sq full)
    | _ => Err EOther    (* unreachable: the constructor's assert gives ndim >= axis + 2 *)
    end.

(** * Value level *)
Section Values.
  Context {E : Type}.

  Record arr (V : Type) := { a_sh : Z * Z; a_at : E -> Z -> Z -> V }.
  Arguments a_sh {V} _.
  Arguments a_at {V} _ _ _ _.

  (** np.full over the window shape *)
  Definition np_full {V} (sh : Z * Z) (fill : V) : res (arr V) :=
    if (fst sh <? 0) || (snd sh <? 0) then Err EValue
    else Ok {| a_sh := sh; a_at := fun _ _ _ => fill |}.

  (** basic slicing [s] (non-negative bounds, start <= stop) of an axis of extent [n]:
      first selected index and number of selected elements *)
  Definition eff (n : Z) (s : Z * Z) : Z * Z :=
    let a := Z.min (fst s) n in
    let b := Z.min (snd s) n in
    (a, Z.max 0 (b - a)).

  Definition inside (d : Z * Z) (i : Z) : bool := (fst d <=? i) && (i <? fst d + snd d).

  (** np.copyto(dst[.., d, ..], src[esel, s, ..], casting=..) *)
  Definition np_copyto_view {V W} (cast : V -> W) (esel : E -> E)
             (dst : arr W) (d : (Z * Z) * (Z * Z)) (src : arr V) (s : (Z * Z) * (Z * Z))
    : res (arr W) :=
    let dy := eff (fst (a_sh dst)) (fst d) in
    let dx := eff (snd (a_sh dst)) (snd d) in
    let sy := eff (fst (a_sh src)) (fst s) in
    let sx := eff (snd (a_sh src)) (snd s) in
    if (snd dy =? snd sy) && (snd dx =? snd sx) then
      Ok {| a_sh := a_sh dst;
            a_at := fun e y x =>
                      if inside dy y && inside dx x
                      then cast (a_at src (esel e) (fst sy + (y - fst dy)) (fst sx + (x - fst dx)))
                      else a_at dst e y x |}
    else Err EValue.

  (** roi_intersect3 on 2-d rois *)
  Definition roi_intersect3 (a b : (Z * Z) * (Z * Z))
    : res (((Z * Z) * (Z * Z)) * ((Z * Z) * (Z * Z)) * ((Z * Z) * (Z * Z))) :=
    '(ay, by_, cy) <- slice_intersect3 (mk_sl (fst a)) (mk_sl (fst b)) ;;
    '(ax, bx, cx) <- slice_intersect3 (mk_sl (snd a)) (mk_sl (snd b)) ;;
    Ok ((ay, ax), (by_, bx), (cy, cx)).

  (** body of the loop of BlockAssembler.extract for one (idx, block) *)
  Definition paste_block {V W} (cast : V -> W) (esel : E -> E) (t : vtiles)
             (w : (Z * Z) * (Z * Z)) (xx : arr W) (kb : (Z * Z) * arr V) : res (arr W) :=
    yx_roi_b <- vt_getitem t (int_idx (fst kb)) ;;
    '(s_roi, d_roi, _) <- roi_intersect3 yx_roi_b w ;;
    np_copyto_view cast esel xx d_roi (snd kb) s_roi.

  Fixpoint paste_all {V W} (cast : V -> W) (esel : E -> E) (t : vtiles)
           (w : (Z * Z) * (Z * Z)) (xx : arr W) (bl : list ((Z * Z) * arr V)) : res (arr W) :=
    match bl with
    | [] => Ok xx
    | kb :: r => xx' <- paste_block cast esel t w xx kb ;; paste_all cast esel t w xx' r
    end.

  (** BlockAssembler.extract for the Y/X window [w] of the normalised roi *)
  Definition extract_yx {V W} (cast : V -> W) (esel : E -> E) (t : vtiles)
             (bl : list ((Z * Z) * arr V)) (fill : W) (w : (Z * Z) * (Z * Z)) : res (arr W) :=
    xx <- np_full (roi_shape2 w) fill ;;
    paste_all cast esel t w xx bl.
End Values.

Arguments a_sh {E V} _.
Arguments a_at {E V} _ _ _ _.
Arguments Build_arr {E V} _ _.

(** * The working dtype (BlockAssembler.__init__: [_find_common_type] of the dtypes of
    all present blocks = np.result_type; extract: a floating fill value upgrades it).
    np.result_type over several array dtypes is not the pairwise reduction of
    np.promote_types (int16, uint16, float32 -> float32, but pairwise float64); it is
    determined by the widest unsigned / signed / floating member. *)
Inductive dtype := DU (bits : Z) | DI (bits : Z) | DF (bits : Z).

Record dsum := { s_ub : Z; s_sb : Z; s_fb : Z }.    (* 0 = no member of that kind *)

Definition dsum_add (s : dsum) (d : dtype) : dsum :=
  match d with
  | DU b => {| s_ub := Z.max (s_ub s) b; s_sb := s_sb s; s_fb := s_fb s |}
  | DI b => {| s_ub := s_ub s; s_sb := Z.max (s_sb s) b; s_fb := s_fb s |}
  | DF b => {| s_ub := s_ub s; s_sb := s_sb s; s_fb := Z.max (s_fb s) b |}
  end.

Definition dsum_of (dts : list dtype) : dsum :=
  fold_left dsum_add dts {| s_ub := 0; s_sb := 0; s_fb := 0 |}.

Definition dsum_result (s : dsum) : dtype :=
  if 0 <? s_fb s then
    (if 16 <? Z.max (s_ub s) (s_sb s) then DF 64 else DF (s_fb s))
  else if s_sb s =? 0 then DU (s_ub s)
  else if s_ub s =? 0 then DI (s_sb s)
  else if s_ub s <? s_sb s then DI (s_sb s)
  else if s_ub s <? 64 then DI (2 * s_ub s)
  else DF 64.

(** BlockAssembler.__init__: float32 without blocks, else the common type *)
Definition ba_dtype (dts : list dtype) : dtype :=
  match dts with
  | [] => DF 32
  | _ => dsum_result (dsum_of dts)
  end.

Inductive fill_kind := FillNone | FillInt | FillFloat.

(** extract(fill_value, dtype=None): a floating fill value contributes its kind *)
Definition ba_extract_dtype (d : dtype) (f : fill_kind) : dtype :=
  match f, d with
  | FillFloat, DF b => DF b
  | FillFloat, _ => DF 64
  | _, _ => d
  end.

(** extract(fill_value, dtype=...): an explicitly requested dtype is used as it is, whatever
    the fill value; only without one does a floating fill value upgrade the working dtype *)
Definition ba_extract_dtype_opt (d : dtype) (req : option dtype) (f : fill_kind) : dtype :=
  match req with
  | Some r => r
  | None => ba_extract_dtype d f
  end.
