(** Model of the CRS gate of every operation that combines CRS-tagged objects
    (property C01), written after

      odc/geo/geom.py   wrap_shapely.wrapped (applied to the 16 binary Geometry methods),
                        Geometry.split, common_crs, multigeom, unary_union,
                        unary_intersection, intersects, bbox_union, bbox_intersection
                        (the last two in Model/Tagged.v)
      odc/geo/geobox.py pixel_translation and its clients (Model/GridOps.v)
      odc/geo/crs.py    CRS.__eq__ / __ne__ (the parameter [crs_eqb]; [tag_ne] in Tagged.v)

    [crs], [crs_eqb] : CRS objects and their equality (oracle: pyproj), arbitrary.
    [G] : raw shapely geometries; [R] : results of shapely that are not geometries
    (bool of the predicates; also "shapely raised", which passes through unchanged).
    Every raw shapely function is an uninterpreted parameter of the operation. *)
From Coq Require Import ZArith List Bool.
From OG Require Import Base.Result Model.Tagged.
Import ListNotations.

Section Gate.
  Variable crs : Type.
  Variable crs_eqb : crs -> crs -> bool.
  Variables G R : Type.

  Notation tag := (option crs).

  (** odc.geo.geom.Geometry *)
  Record geom := mkGeom { ggeom : G; gtag : tag }.

  (** what a wrapped method returns: a re-tagged Geometry or shapely's raw value *)
  Inductive wres := WGeom (g : geom) | WRaw (r : R).

  (* if isinstance(result, base.BaseGeometry): return Geometry(result, first.crs); return result *)
  Definition retag (c : tag) (x : G + R) : wres :=
    match x with inl g => WGeom (mkGeom g c) | inr r => WRaw r end.

  (* for arg in args[1:]: if first.crs != arg.crs: raise CRSMismatchError(...) *)
  Fixpoint gate (c : tag) (rest : list geom) : res unit :=
    match rest with
    | [] => Ok tt
    | a :: rest' => if tag_ne crs_eqb c (gtag a) then Err ECrs else gate c rest'
    end.

  (** wrap_shapely(method)( *args ): args = first :: rest *)
  Definition wrapped (method : G -> list G -> G + R) (first : geom) (rest : list geom) : res wres :=
    _ <- gate (gtag first) rest ;;
    Ok (retag (gtag first) (method (ggeom first) (map ggeom rest))).

  (** the 16 decorated methods are [def name(self, other): return self.name(other)];
      [f] is the shapely method of that name *)
  Definition binop (f : G -> G -> G + R) (a b : geom) : res wres :=
    wrapped (fun x l => match l with [y] => f x y | _ => f x x (* never: l = [b] *) end) a [b].

  (** Geometry.split(self, splitter), consumed as a list; [fsplit] = shapely.ops.split(...).geoms *)
  Definition split (fsplit : G -> G -> list G) (self splitter : geom) : res (list geom) :=
    if tag_ne crs_eqb (gtag splitter) (gtag self) then Err ECrs
    else Ok (map (fun g => mkGeom g (gtag self)) (fsplit (ggeom self) (ggeom splitter))).

  (* for crs in all_crs[1:]: if crs != ref: raise CRSMismatchError() *)
  Fixpoint common_loop (ref : tag) (rest : list tag) : res unit :=
    match rest with
    | [] => Ok tt
    | c :: rest' => if tag_ne crs_eqb c ref then Err ECrs else common_loop ref rest'
    end.

  (** common_crs(geoms) *)
  Definition common_crs (geoms : list geom) : res tag :=
    match map gtag geoms with
    | [] => Ok None
    | ref :: rest => _ <- common_loop ref rest ;; Ok ref
    end.

  (** multigeom(geoms); [fmulti] = _multigeom on the raw shapes *)
  Definition multigeom (fmulti : list G -> G) (geoms : list geom) : res geom :=
    c <- common_crs geoms ;;
    Ok (mkGeom (fmulti (map ggeom geoms)) c).

  (** unary_union(geoms); [funion] = shapely.ops.unary_union *)
  Definition unary_union (funion : list G -> G) (geoms : list geom) : res (option geom) :=
    match geoms with
    | [] => Ok None
    | first :: rest =>
        _ <- gate (gtag first) rest ;;
        Ok (Some (mkGeom (funion (map ggeom geoms)) (gtag first)))
    end.

  (** unary_intersection(geoms) = functools.reduce(Geometry.intersection, geoms);
      [finter] = shapely's intersection.  A non-geometry intermediate result has no [.crs]:
      AttributeError ([EOther]); an empty stream is reduce's TypeError ([EOther]). *)
  Fixpoint reduce_inter (finter : G -> G -> G + R) (acc : geom) (rest : list geom) : res geom :=
    match rest with
    | [] => Ok acc
    | g :: rest' =>
        x <- binop finter acc g ;;
        match x with
        | WGeom a => reduce_inter finter a rest'
        | WRaw _ => Err EOther
        end
    end.

  Definition unary_intersection (finter : G -> G -> G + R) (geoms : list geom) : res geom :=
    match geoms with
    | [] => Err EOther
    | first :: rest => reduce_inter finter first rest
    end.

  (** module-level intersects(a, b) = a.intersects(b) and not a.touches(b);
      [truthy] reads a raw result as a Python truth value *)
  Definition intersects2 (fint ftouch : G -> G -> G + R) (truthy : wres -> bool) (a b : geom) : res bool :=
    x <- binop fint a b ;;
    if truthy x then (y <- binop ftouch a b ;; Ok (negb (truthy y))) else Ok false.

  (** ** vocabulary of the theorems *)
  (** some element of [rest] carries a CRS that differs from [c] ([c != x] is True) *)
  Definition mismatch_after (c : tag) (rest : list tag) : Prop :=
    exists x, In x rest /\ tag_ne crs_eqb c x = true.
  (** the comparison is written the other way round in common_crs *)
  Definition mismatch_before (c : tag) (rest : list tag) : Prop :=
    exists x, In x rest /\ tag_ne crs_eqb x c = true.
  (** shapely's intersection on raw shapes, as a function into geometries *)
  Definition raw_inter (finter : G -> G -> G + R) (x y : G) : G :=
    match finter x y with inl g => g | inr _ => x end.
  (** some box after the first carries a CRS that differs from [c] *)
  Definition box_mismatch {A : Type} (c : tag) (rest : list (@bbox crs A)) : Prop :=
    exists x, In x rest /\ tag_ne crs_eqb c (bcrs x) = true.
End Gate.

(** CRSMismatchError is a ValueError; so is the "Geobox CRSs must match" error *)
Definition is_value_error (e : err) : bool :=
  match e with EValue | ECrs => true | _ => false end.

Arguments mkGeom {crs G} _ _.
Arguments ggeom {crs G} _.
Arguments gtag {crs G} _.
Arguments WGeom {crs G R} _.
Arguments WRaw {crs G R} _.
Arguments retag {crs G R} _ _.
Arguments gate {crs} _ {G} _ _.
Arguments wrapped {crs} _ {G R} _ _ _.
Arguments binop {crs} _ {G R} _ _ _.
Arguments split {crs} _ {G} _ _ _.
Arguments common_loop {crs} _ _ _.
Arguments common_crs {crs} _ {G} _.
Arguments multigeom {crs} _ {G} _ _.
Arguments unary_union {crs} _ {G} _ _.
Arguments reduce_inter {crs} _ {G R} _ _ _.
Arguments unary_intersection {crs} _ {G R} _ _.
Arguments intersects2 {crs} _ {G R} _ _ _ _ _.
Arguments mismatch_after {crs} _ _ _.
Arguments mismatch_before {crs} _ _ _.
Arguments raw_inter {G R} _ _ _.
Arguments box_mismatch {crs} _ {A} _ _.
