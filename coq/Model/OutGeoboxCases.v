(** Correspondence cases for Model/OutGeobox.v (property C11): inputs given to /
    observed inside the real code and the canonicalised result it returned. *)
From Coq Require Import ZArith QArith List Bool.
From OG Require Import Base.Result Base.Eqb Model.OutGeobox.
Import ListNotations.
Open Scope Z_scope.

Definition aff_eqb (m n : affine) : bool :=
  Qeqb (aa m) (aa n) && Qeqb (ab m) (ab n) && Qeqb (ac m) (ac n)
  && Qeqb (ad m) (ad n) && Qeqb (ae m) (ae n) && Qeqb (af m) (af n).

Definition gbox_eqb (g h : gbox) : bool :=
  (g_ny g =? g_ny h) && (g_nx g =? g_nx h) && aff_eqb (g_aff g) (g_aff h) && (g_crs g =? g_crs h).

Definition outcome_eqb (x y : outcome) : bool :=
  match x, y with
  | OSame, OSame => true
  | ONew g, ONew h => gbox_eqb g h
  | _, _ => false
  end.

Definition letter_of (tbl : list (Z * zone_letter)) (e : Z) : zone_letter :=
  match find (fun p => fst p =? e) tbl with Some p => snd p | None => ZOther end.

Inductive case :=
(* math.snap_grid(x0, x1, res, off_pix, tol) *)
| CSnap (x0 x1 rs : Q) (off : option Q) (tol : Q) (expect : res (Q * Z))
(* math.maybe_int / split_float *)
| CMaybeInt (x tol : Q) (expect : Q)
(* round(x, 0) *)
| CRound (x : Q) (expect : Z)
(* GeoBox.from_bbox(BoundingBox(B, crs), tight=, shape=, resolution=, anchor=, tol=) *)
| CFromBbox (B : bbox) (crs : Z) (tight : bool) (shape : option shape_req) (resolution : option (Q * Q))
            (anc : anchor) (tol : Q) (expect : res gbox)
(* compute_output_geobox / GeoBox.to_crs; B, dst, dunits, fit observed inside the call *)
| COut (s : src) (dst dunits : Z) (B : bbox) (fit : Q) (rq : res_req) (shape : option shape_req)
       (tight : bool) (anc : anchor) (tol : Q) (rr : rr_mode) (expect : res outcome)
(* same call, but only the pixel size of the result is compared (float-inexact offsets) *)
| COutRes (s : src) (dst dunits : Z) (B : bbox) (fit : Q) (rq : res_req) (shape : option shape_req)
       (tight : bool) (anc : anchor) (tol : Q) (rr : rr_mode) (expect : res (option (Q * Q)))
(* distance handed to Geometry.buffer by gbox.footprint(crs, buffer=b) for a grid of resolution (rx, ry) *)
| CBuffer (b rx ry expect : Q)
(* npoints handed to gbox.footprint by compute_output_geobox for a grid of shape (ny, nx) *)
| CNpoints (ny nx expect : Z)
(* norm_crs('utm*', ctx) with the candidate list / overlaps / zone letters observed *)
| CUtm (rq : utm_req) (cands : list (Z * Q)) (area_big : bool) (letters : list (Z * zone_letter))
       (expect : res Z).

Definition check (c : case) : bool :=
  match c with
  | CSnap x0 x1 rs off tol e => res_eqb (pair_eqb Qeqb Z.eqb) (snap_grid x0 x1 rs off tol) e
  | CMaybeInt x tol e => Qeqb (maybe_int x tol) e
  | CRound x e => round_half_even x =? e
  | CFromBbox B crs tight shape r anc tol e => res_eqb gbox_eqb (from_bbox B crs tight shape r anc tol) e
  | COut s dst du B fit rq shape tight anc tol rr e =>
      res_eqb outcome_eqb (compute_output_geobox s dst du B fit rq shape tight anc tol rr) e
  | COutRes s dst du B fit rq shape tight anc tol rr e =>
      res_eqb (opt_eqb (pair_eqb Qeqb Qeqb))
        (match compute_output_geobox s dst du B fit rq shape tight anc tol rr with
         | Ok OSame => Ok None
         | Ok (ONew g) => Ok (Some (aa (g_aff g), ae (g_aff g)))
         | Err x => Err x
         end) e
  | CBuffer b rx ry e => Qeqb (footprint_buffer b (rx, ry)) e
  | CNpoints ny nx e => footprint_npoints ny nx =? e
  | CUtm rq cands big letters e => res_eqb Z.eqb (norm_crs_utm rq cands big (letter_of letters)) e
  end.
