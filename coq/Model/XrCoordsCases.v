(** Correspondence cases for the C09 model: each constructor carries the inputs
    given to the real code (xarray objects as snapshots, see tools/props/c09.py)
    and the canonicalised result it produced; [check] compares with the model. *)
From Coq Require Import ZArith QArith List Bool String.
From OG Require Import Base.Result Model.XrCoords.
Import ListNotations.
Open Scope Z_scope.

Definition res_eqb {A} (eqb : A -> A -> bool) (x y : res A) : bool :=
  match x, y with
  | Ok a, Ok b => eqb a b
  | Err e1, Err e2 => err_code e1 =? err_code e2
  | _, _ => false
  end.
Definition qq_eqb (a b : Q * Q) : bool := Qeq_bool (fst a) (fst b) && Qeq_bool (snd a) (snd b).

Inductive case :=
(* data_resolution_and_offset / affine_from_axis / resolution_from_affine *)
| CAxis (data : list Q) (fb : option Q) (expect : res (Q * Q))
| CAffAxis (xx yy : list Q) (fb : option (Q * Q)) (expect : res aff)
| CResAff (tol : Q) (m : aff) (expect : res (Q * Q))
(* the indices a Python slice selects: range over slice(a, b, c).indices(n) *)
| CSlice (n : Z) (s : pyslice) (expect : res (list Z))
(* xr_coords(gbox, name) and wrap_xr(...) as snapshots *)
| CCoords (tol : Q) (b : anybox) (name : option string) (expect : res coords)
| CWrap (tol : Q) (b : anybox) (ntime nband : option Z) (nodata : option Q) (name : option string)
        (user : attrs) (expect : res xobj)
(* _locate_geo_info on a snapshot *)
| CLocate (tol : Q) (x : xobj) (expect : res geostate)
(* xx.isel({dim: slice}) snapshot before / after *)
| CIsel (x : xobj) (dim : string) (s : pyslice) (expect : res xobj)
(* element-wise operation, astype, pickle, copy: the xarray contract *)
| CElem (x x' : xobj)
(* reprojection output assembly *)
| CReprojDa (tol itol : Q) (src : xobj) (dst : gbox) (nodata : option Q) (expect : res xobj)
| CReprojDs (tol itol : Q) (src : xobj) (dst : gbox) (nodata : option Q) (expect : res xobj)
| CGetItem (ds : xobj) (name : string) (expect : option xobj)
| CMaybeInt (x tol : Q) (expect : Q).

Definition check (c : case) : bool :=
  match c with
  | CAxis d fb e => res_eqb qq_eqb (data_resolution_and_offset d fb) e
  | CAffAxis xx yy fb e => res_eqb aff_eqb (affine_from_axis xx yy fb) e
  | CResAff tol m e => res_eqb qq_eqb (resolution_from_affine tol m) e
  | CSlice n s e => res_eqb (list_eqb Z.eqb) (slice_idx n s) e
  | CCoords tol b name e => res_eqb coords_eqb (xr_coords tol b name) e
  | CWrap tol b nt nb nd name user e => res_eqb xobj_eqb (wrap_xr tol b nt nb nd name user) e
  | CLocate tol x e => res_eqb geostate_eqb (locate_geo_info repaired tol x) e
  | CIsel x d s e => res_eqb xobj_eqb (isel x d s) e
  | CElem x x' => res_eqb xobj_eqb (elem_step x (x_dims x') (x_gm x') (x_attrs x')) (Ok x')
  | CReprojDa tol itol src dst nd e => res_eqb xobj_eqb (reproject_da repaired tol itol src dst nd) e
  | CReprojDs tol itol src dst nd e => res_eqb xobj_eqb (reproject_ds repaired tol itol src dst nd) e
  | CGetItem ds name e => opt_eqb xobj_eqb (ds_getitem ds name) e
  | CMaybeInt x tol e => Qeq_bool (maybe_int x tol) e
  end.
