(** Correspondence cases for Model/ValueObjs.v: pairs of values of one type
    with the observed results of [==], [hash() ==], [tokenize() ==], and
    values with their observed unpickled clone.  Shapely geometries are
    interned (class table for [==], GeoJSON table); [reload] is the table of
    what CRS(str) returns in the harness process. *)
From Coq Require Import ZArith QArith List Bool.
From OG Require Import Base.Result Base.Eqb Model.CrsCache Model.CrsCacheCases Model.ValueObjs.
Import ListNotations.
Open Scope Z_scope.

Inductive value :=
| VCrs (c : crsv)
| VBBox (b : bbox)
| VGeom (g : geometry Z)
| VGeoBox (g : geobox)
| VGcp (g : gcpbox)
| VTiles (t : tiles)
| VVTiles (t : vtiles)
| VGbTiles (t : gbtiles)
| VXY (p : xy)
| VGridSpec (g : gridspec).

(** oracle tables of the value cases *)
Record vtab := mkVTab {
  vt_reload : list (text * crsv);     (* _str -> CRS(_str) *)
  vt_gcls : list (Z * Z);             (* geometry id -> class of shapely == *)
  vt_gjson : list (Z * Z);            (* geometry id -> GeoJSON text id *)
  vt_gload : list (Z * Z) }.          (* GeoJSON text id -> geometry id of the parsed geometry *)

Fixpoint assoc_crs (l : list (text * crsv)) (k : text) : option crsv :=
  match l with
  | [] => None
  | (a, b) :: r => if a =? k then Some b else assoc_crs r k
  end.

Section Eval.
  Variable W : oracle.
  Variable T : vtab.

  Definition reload (v : crsv) : crsv := match assoc_crs (vt_reload T) (c_str v) with Some x => x | None => v end.
  Definition geq (a b : Z) : bool := assoc_d (vt_gcls T) a (-a - 1) =? assoc_d (vt_gcls T) b (-b - 1).
  Definition gjson (a : Z) : Z := assoc_d (vt_gjson T) a (-1).
  Definition gload (j : Z) : Z := assoc_d (vt_gload T) j (-1).

  Definition v_eqb (a b : value) : bool :=
    match a, b with
    | VCrs x, VCrs y => crs_eq W x y
    | VBBox x, VBBox y => bbox_eqb W x y
    | VGeom x, VGeom y => geom_eqb W Z geq x y
    | VGeoBox x, VGeoBox y => geobox_eqb W x y
    | VGcp x, VGcp y => gcpbox_eqb W x y
    | VTiles x, VTiles y => tiles_eqb x y
    | VVTiles x, VVTiles y => vtiles_eqb x y
    | VGbTiles x, VGbTiles y => gbtiles_eqb W x y
    | VXY x, VXY y => xy_eqb x y
    | VGridSpec x, VGridSpec y => gridspec_eqb W x y
    | _, _ => false
    end.

  Definition v_hashkey (a : value) : option (list atom) :=
    match a with
    | VCrs x => Some [AStr (Some (crs_hashkey x))]
    | VBBox x => Some (bbox_hashkey x)
    | VGeoBox x => Some (geobox_hashkey x)
    | VGcp x => Some (gcpbox_hashkey x)
    | VXY x => if xy_cls x =? 3 then None else Some (xy_hashkey x)
    | _ => None
    end.

  Definition v_token (a : value) : list atom :=
    match a with
    | VCrs x => [AStr (Some (crs_token x))]
    | VBBox x => bbox_token x
    | VGeom x => geom_token Z gjson x
    | VGeoBox x => geobox_token x
    | VGcp x => gcpbox_token x
    | VTiles x => tiles_token x
    | VVTiles x => vtiles_token x
    | VGbTiles x => gbtiles_token x
    | VXY x => xy_token x
    | VGridSpec x => gridspec_token x
    end.

  Definition v_pickle (a : value) : value :=
    match a with
    | VCrs x => VCrs (reload x)
    | VBBox x => VBBox (bbox_pickle reload x)
    | VGeom x => VGeom (geom_pickle reload Z gjson gload x)
    | VGeoBox x => VGeoBox (geobox_pickle reload x)
    | VGcp x => VGcp (gcpbox_pickle reload x)
    | VGbTiles x => VGbTiles (gbtiles_pickle reload x)
    | VGridSpec x => VGridSpec (gridspec_pickle reload x)
    | _ => a
    end.

  Definition crsv_same (a b : crsv) : bool :=
    (c_id a =? c_id b) && (c_srs a =? c_srs b) && (c_str a =? c_str b) && oz_eqb (c_epsg a) (c_epsg b).
  Definition ocrs_same (a b : option crsv) : bool := opt_eqb crsv_same a b.

  (** structural identity of two encoded values (same fields, same number types, same CRS slots) *)
  Definition gcpmap_same (a b : gcpmap) : bool :=
    ocrs_same (gm_crs a) (gm_crs b) && atoms_eqb (gcpmap_token a) (gcpmap_token b).
  Definition anybox_same (a b : anybox) : bool :=
    match a, b with
    | BGeo x, BGeo y => ocrs_same (gb_crs x) (gb_crs y) && atoms_eqb (geobox_token x) (geobox_token y)
    | BGcp x, BGcp y => gcpmap_same (gc_map x) (gc_map y) && atoms_eqb (gcpbox_token x) (gcpbox_token y)
    | _, _ => false
    end.
  Definition v_same (a b : value) : bool :=
    match a, b with
    | VCrs x, VCrs y => crsv_same x y
    | VBBox x, VBBox y => ocrs_same (bb_crs x) (bb_crs y) && atoms_eqb (bbox_token x) (bbox_token y)
    | VGeom x, VGeom y => ocrs_same (g_crs Z x) (g_crs Z y) && (g_geom Z x =? g_geom Z y)
    | VGeoBox x, VGeoBox y => anybox_same (BGeo x) (BGeo y)
    | VGcp x, VGcp y => anybox_same (BGcp x) (BGcp y)
    | VTiles x, VTiles y => atoms_eqb (tiles_token x) (tiles_token y)
    | VVTiles x, VVTiles y => atoms_eqb (vtiles_token x) (vtiles_token y)
    | VGbTiles x, VGbTiles y => anybox_same (gt_box x) (gt_box y) && atoms_eqb (gbtiles_token x) (gbtiles_token y)
    | VXY x, VXY y => atoms_eqb (xy_token x) (xy_token y)
    | VGridSpec x, VGridSpec y => crsv_same (gs_crs x) (gs_crs y) && atoms_eqb (gridspec_token x) (gridspec_token y)
    | _, _ => false
    end.

  Inductive vcase :=
  (* a == b, hash(a) == hash(b) (None: unhashable), tokenize(a) == tokenize(b) *)
  | CPair (a b : value) (eq_obs : bool) (hash_obs : option bool) (tok_obs : bool)
  (* b = pickle.loads(pickle.dumps(a)) as observed *)
  | CPickle (a b : value).

  Definition vcheck1 (c : vcase) : bool :=
    match c with
    | CPair a b e h t =>
        Bool.eqb (v_eqb a b) e
        && (match v_hashkey a, v_hashkey b, h with
            | Some ka, Some kb, Some hobs => implb (atoms_eqb ka kb) hobs
            | _, _, None => true
            | _, _, _ => false
            end)
        && Bool.eqb (atoms_eqb (v_token a) (v_token b)) t
    | CPickle a b => v_same (v_pickle a) b
    end.

  (** cases referring to a table of encoded values by index (keeps the generated files small) *)
  Inductive icase :=
  | CPairI (i j : nat) (eq_obs : bool) (hash_obs : option bool) (tok_obs : bool)
  | CPickleI (i j : nat).

  Definition vcheck (vals : list value) (c : icase) : bool :=
    match c with
    | CPairI i j e h t =>
        match nth_error vals i, nth_error vals j with
        | Some a, Some b => vcheck1 (CPair a b e h t)
        | _, _ => false
        end
    | CPickleI i j =>
        match nth_error vals i, nth_error vals j with
        | Some a, Some b => vcheck1 (CPickle a b)
        | _, _ => false
        end
    end.
End Eval.
