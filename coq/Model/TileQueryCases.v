(** Correspondence cases for the C12 model (tile lookup, pixel-box and geometry
    queries, linear and general dependency graphs).  Oracle answers observed on
    the real shapely/pyproj calls are replayed from tables. *)
From Coq Require Import ZArith QArith List Bool.
From OG Require Import Base.Result Base.Eqb Base.QMinMax Base.ZRange Model.TileQuery.
Import ListNotations.
Open Scope Z_scope.

Definition zzzz_eqb := pair_eqb zz_eqb zz_eqb.
Definition idxs_eqb := list_eqb zz_eqb.
Definition graph_eqb : graph -> graph -> bool := list_eqb (pair_eqb zz_eqb idxs_eqb).

(** disjointness oracle replayed from a table of (tile index, answer); tiles
    not in the table count as disjoint *)
Definition tab_disjoint (tab : list (Z * Z * bool)) (idx : Z * Z) : bool :=
  match find (fun e => zz_eqb (fst e) idx) tab with
  | Some e => snd e
  | None => true
  end.

(** per destination tile: the pixel bbox of its extent in the source raster and
    the disjointness table of the source tiles *)
Definition src_oracle := list ((Z * Z) * (res q4 * list (Z * Z * bool))).
Definition src_lookup (o : src_oracle) (d : Z * Z) : res q4 * list (Z * Z * bool) :=
  match find (fun e => zz_eqb (fst e) d) o with
  | Some e => snd e
  | None => (Err EOther, [])
  end.

Inductive case :=
| CAxis (a : axis) (count base : Z)
| CRange (a : axis) (i : Z) (expect : res (Z * Z))
| CLocate (t : tiling) (y x : Z) (expect : res (Z * Z))
| CPixRange (t : tiling) (NY NX : Z) (b : q4) (expect : res ((Z * Z) * (Z * Z)))
| CPixTiles (t : tiling) (NY NX : Z) (b : q4) (expect : res (list (Z * Z)))
| CQuery (t : tiling) (NY NX : Z) (pb : res q4) (tab : list (Z * Z * bool)) (expect : res (list (Z * Z)))
| CLinear (dst src : tiling) (NYs NXs : Z) (A : st_affine) (expect : res graph)
| CGeneral (dst src : tiling) (NYd NXd NYs NXs : Z) (fp : option (res q4 * list (Z * Z * bool)))
           (so : src_oracle) (expect : res graph).

Definition check (c : case) : bool :=
  match c with
  | CAxis a cnt base => (ax_count a =? cnt) && (ax_base a =? base)
  | CRange a i e => res_eqb zz_eqb (ax_range a i) e
  | CLocate t y x e => res_eqb zz_eqb (locate t y x) e
  | CPixRange t NY NX b e => res_eqb zzzz_eqb (range_from_pix_bbox t NY NX b) e
  | CPixTiles t NY NX b e => res_eqb idxs_eqb (tiles_from_pix_bbox t NY NX b) e
  | CQuery t NY NX pb tab e =>
      res_eqb idxs_eqb (tiles_query (fun _ : unit => pb) (fun _ => tab_disjoint tab) t NY NX tt) e
  | CLinear dst src NYs NXs A e => res_eqb graph_eqb (grid_intersect_linear dst src NYs NXs A) e
  | CGeneral dst src NYd NXd NYs NXs fp so e =>
      res_eqb graph_eqb
        (grid_intersect_general
           (match fp with None => None | Some v => Some v end)
           (fun v : res q4 * list (Z * Z * bool) => fst v)
           (fun v => tab_disjoint (snd v))
           (fun d => fst (src_lookup so d))
           (fun d => tab_disjoint (snd (src_lookup so d)))
           dst src NYd NXd NYs NXs) e
  end.
