(** Correspondence cases for Model/CrsCache.v: a case is a whole history run
    on the real module in lock-step; after every operation the result and the
    complete abstract state (the [_crs_cache] dict in insertion order, the key
    set of the transformer cache, the set of live pyproj objects observed
    through weak references) are compared with the model.  The oracle is a
    finite table recorded from CPython / pyproj for the texts of the run. *)
From Coq Require Import ZArith List Bool.
From OG Require Import Base.Result Base.Eqb Model.CrsCache.
Import ListNotations.
Open Scope Z_scope.

Fixpoint assoc (l : list (Z * Z)) (k : Z) : option Z :=
  match l with
  | [] => None
  | (a, b) :: r => if a =? k then Some b else assoc r k
  end.

Definition assoc_d (l : list (Z * Z)) (k d : Z) : Z := match assoc l k with Some v => v | None => d end.

(** [pcls]: srs -> class of pyproj [==] (validated to be an equivalence on the run's texts by the harness);
    texts without an entry are only equal to themselves *)
Definition mk_oracle (upper : list (Z * Z)) (isepsg : list Z) (code etext prep wkt pcls toepsg : list (Z * Z)) : oracle :=
  mkOracle
    (fun t => assoc_d upper t t)
    (fun t => existsb (Z.eqb t) isepsg)
    (fun t => assoc_d code t 0)
    (fun n => assoc_d etext n (-1))
    (fun t => assoc prep t)
    (fun s => assoc_d wkt s (-(2 * s) - 2))
    (fun a b => assoc_d pcls a (-(2 * a) - 3) =? assoc_d pcls b (-(2 * b) - 3))
    (fun s => assoc toepsg s).

Inductive obs :=
| ObsErr
| ObsCrs (id : Z) (srs str : text) (epsg : option Z)
| ObsId (id : Z)
| ObsEpsg (e : option Z)
| ObsBool (b : bool)
| ObsTr
| ObsNone.

(** state digest: cache dump oldest first, transformer-cache keys oldest first, live object ids *)
Record digest := mkDigest {
  d_cache : list (key * (Z * text * text * Z));
  d_tkeys : list tkey;
  d_live : list Z }.

Definition key_same (a b : key) : bool :=
  match a, b with
  | KStr x, KStr y => x =? y
  | KObj i s, KObj j t => (i =? j) && (s =? t)
  | _, _ => false
  end.

Definition entry_same (e : entry) (x : Z * text * text * Z) : bool :=
  let '(i, s, t, n) := x in (e_id e =? i) && (e_srs e =? s) && (e_str e =? t) && (e_epsg e =? n).

Definition tk_same (a b : tkey) : bool :=
  (fst (fst a) =? fst (fst b)) && (snd (fst a) =? snd (fst b)) && Bool.eqb (snd a) (snd b).

Fixpoint list_eqb2 {A B} (f : A -> B -> bool) (x : list A) (y : list B) : bool :=
  match x, y with
  | [], [] => true
  | a :: x', b :: y' => f a b && list_eqb2 f x' y'
  | _, _ => false
  end.

Definition subset (a b : list Z) : bool := forallb (fun x => existsb (Z.eqb x) b) a.

Definition digest_ok (st : state) (d : digest) : bool :=
  list_eqb2 (fun ke x => key_same (fst ke) (fst x) && entry_same (snd ke) (snd x)) (rev (cache st)) (d_cache d)
  && list_eqb2 (fun kd k => tk_same (fst kd) k) (rev (tcache st)) (d_tkeys d)
  && subset (map fst (heap st)) (d_live d) && subset (d_live d) (map fst (heap st)).

Definition obs_ok (o : out) (b : obs) : bool :=
  match o, b with
  | OCrs v, ObsCrs i s t e => (c_id v =? i) && (c_srs v =? s) && (c_str v =? t) && oz_eqb (c_epsg v) e
  | OId i, ObsId j => i =? j
  | OEpsg e, ObsEpsg e' => oz_eqb e e'
  | OBool x, ObsBool y => Bool.eqb x y
  | OTr _, ObsTr => true
  | ONone, ObsNone => true
  | _, _ => false
  end.

(** [None] as digest: the observed state digest is the same as after the previous operation *)
Fixpoint check_hist (W : oracle) (st : state) (prev : digest) (steps : list (op * obs * option digest)) : bool :=
  match steps with
  | [] => true
  | (o, b, od) :: r =>
      let d := match od with Some d => d | None => prev end in
      match step W st o with
      | Ok (st', x) => obs_ok x b && digest_ok st' d && check_hist W st' d r
      | Err _ => (match b with ObsErr => true | _ => false end) && digest_ok st d && check_hist W st d r
      end
  end.

Inductive case := CHist (steps : list (op * obs * option digest)).

Definition check (W : oracle) (c : case) : bool :=
  match c with CHist steps => check_hist W init (mkDigest [] [] []) steps end.
