(** Correspondence cases for the C16 model (Model/GridOps.v).  CRS tags are integers
    (the harness numbers the CRSs it uses; equal numbers = CRSs that compare equal);
    every constructor carries the inputs given to the real function and the
    canonicalised result it returned. *)
From Coq Require Import ZArith QArith Qround Qabs Qminmax List Bool.
From OG Require Import Base.Result Base.Eqb Base.Aff2 Model.Tagged Model.GridOps.
Import ListNotations.
Open Scope Z_scope.

Definition gb := geobox Z.
Definition tagz := option Z.

Definition gb_eqb (x y : gb) : bool :=
  (gny x =? gny y) && (gnx x =? gnx y) && aff_eqb (gaff x) (gaff y) && opt_eqb Z.eqb (gcrs x) (gcrs y).

Definition qq_eqb := pair_eqb Qeqb Qeqb.

Definition zbox_eqb (x y : @bbox Z Z) : bool :=
  (bl x =? bl y) && (bb_ x =? bb_ y) && (br x =? br y) && (bt x =? bt y) && opt_eqb Z.eqb (bcrs x) (bcrs y).

Definition qbox_eqb (x y : @bbox Z Q) : bool :=
  Qeqb (bl x) (bl y) && Qeqb (bb_ x) (bb_ y) && Qeqb (br x) (br y) && Qeqb (bt x) (bt y)
  && opt_eqb Z.eqb (bcrs x) (bcrs y).

Record tols := { t_atol : Q; t_rtol : Q; t_tol : Q }.

Inductive case :=
| CPixTr (t : tols) (a b : gb) (expect : res (Q * Q))
| CBip (t : tols) (a ref : gb) (expect : res (@bbox Z Z))
| CUnion (t : tols) (gs : list gb) (expect : res gb)
| CInter (t : tols) (gs : list gb) (expect : res gb)
| COverlap (fx : bool) (t : tols) (a b : gb) (expect : res ((Z * Z) * (Z * Z)))
| CEnclosing (g : gb) (has_crs : bool) (pts : list (Q * Q)) (expect : res gb)
| CSnap (t : tols) (ztol : Q) (a b : gb) (expect : res gb)
| CBoxUnion (bbs : list (@bbox Z Q)) (expect : res (@bbox Z Q))
| CBoxInter (bbs : list (@bbox Z Q)) (expect : res (@bbox Z Q))
| CAlmostInt (x tol : Q) (expect : bool)
| CRound (x : Q) (expect : Z)
| CSplit (x : Q) (expect : Q * Q)
| CMaybeZero (x tol : Q) (expect : Q).

Definition check (c : case) : bool :=
  match c with
  | CPixTr t a b e => res_eqb qq_eqb (pixel_translation Z.eqb (t_atol t) (t_rtol t) a b) e
  | CBip t a r e => res_eqb zbox_eqb (bbox_in_pix Z.eqb (t_atol t) (t_rtol t) (t_tol t) a r) e
  | CUnion t gs e => res_eqb gb_eqb (geobox_union Z.eqb (t_atol t) (t_rtol t) (t_tol t) gs) e
  | CInter t gs e => res_eqb gb_eqb (geobox_intersection Z.eqb (t_atol t) (t_rtol t) (t_tol t) gs) e
  | COverlap fx t a b e =>
      res_eqb (pair_eqb zz_eqb zz_eqb)
        (overlap_roi Z.eqb {| fx_roi_clamp := fx |} (t_atol t) (t_rtol t) (t_tol t) a b) e
  | CEnclosing g h pts e => res_eqb gb_eqb (enclosing g h pts) e
  | CSnap t z a b e => res_eqb gb_eqb (snap_to Z.eqb (t_atol t) (t_rtol t) z a b) e
  | CBoxUnion bbs e => res_eqb qbox_eqb (bbox_union Z.eqb Qmin Qmax bbs) e
  | CBoxInter bbs e => res_eqb qbox_eqb (bbox_intersection Z.eqb Qmin Qmax bbs) e
  | CAlmostInt x tol e => Bool.eqb (is_almost_int x tol) e
  | CRound x e => py_round x =? e
  | CSplit x e => qq_eqb (split_float x) e
  | CMaybeZero x tol e => Qeqb (maybe_zero x tol) e
  end.
