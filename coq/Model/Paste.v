(** C10: the paste operation and the nearest-neighbour warp contract as functions
    on images.  An image is a function row -> column -> value (any value type);
    [render] turns it into nested lists for the correspondence with numpy /
    rasterio. *)
From Coq Require Import ZArith QArith Qround List Bool Lia.
From OG Require Import Base.Result Model.Roi Model.Overlap.
Import ListNotations.
Open Scope Z_scope.

Definition img (V : Type) : Type := Z -> Z -> V.

Definition in_slb (sl : Z * Z) (i : Z) : bool := (fst sl <=? i) && (i <? snd sl).

(** [dst[:] = nodata; dst[roi_dst] = src[roi_src][::-1 if flipy, ::-1 if flipx]] *)
Definition paste_img {V} (src : img V) (nodata : V) (rs rd : roi2) (flipy flipx : bool) : img V :=
  fun y x =>
    if in_slb (fst rd) y && in_slb (snd rd) x
    then src (paste_index (fst rs) (fst rd) flipy y) (paste_index (snd rs) (snd rd) flipx x)
    else nodata.

(** nearest-neighbour warp contract: destination pixel (y, x) takes the source pixel that
    contains the image [loc y x] = (X, Y) of its centre, nodata outside the source *)
Definition warp_nn {V} (src : img V) (nodata : V) (ss : shape2) (loc : Z -> Z -> Q * Q) : img V :=
  fun y x =>
    let p := loc y x in
    let sx := Qfloor (fst p) in
    let sy := Qfloor (snd p) in
    if (0 <=? sx) && (sx <? snd ss) && (0 <=? sy) && (sy <? fst ss) then src sy sx else nodata.

Definition pix_loc (T : affine) : Z -> Z -> Q * Q :=
  fun y x => aff_apply T ((inject_Z x + (1 # 2))%Q, (inject_Z y + (1 # 2))%Q).

(** lists <-> images *)
Definition img_of_lists (rows : list (list Z)) (dflt : Z) : img Z :=
  fun y x => nth (Z.to_nat x) (nth (Z.to_nat y) rows []) dflt.
Definition iota (n : Z) : list Z := map Z.of_nat (seq 0 (Z.to_nat n)).
Definition render (f : img Z) (shape : shape2) : list (list Z) :=
  map (fun y => map (fun x => f y x) (iota (snd shape))) (iota (fst shape)).
