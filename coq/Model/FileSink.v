(** C18 — [MPUFileSink] (odc/geo/cog/_mpu_fs.py) over an abstract file system,
    and the limit accessors of [MPUFileSink] / [S3Limits] (_s3.py:49-68).

    The file system is restricted to what the sink touches: the destination
    file, the parts directory, and the part files inside it.  A part file is
    identified by its part number (the name [p{part:04d}.bin] is an injective
    function of the number); [finalise] receives the part dictionaries the
    sink's own [__call__] returned, modelled by their part numbers in the
    order given.  Bytes are lists of integers. *)
From Coq Require Import ZArith List Bool Lia.
From OG Require Import Base.Result.
Import ListNotations.
Open Scope Z_scope.

Definition bytes := list Z.

Record fs := mkFS {
  f_dst : option bytes;            (* content of the destination file, if it exists *)
  f_dir : bool;                    (* the parts directory exists *)
  f_parts : list (Z * bytes) }.    (* part files in the parts directory *)

Definition fs0 : fs := mkFS None false [].

Fixpoint assoc_get (k : Z) (l : list (Z * bytes)) : option bytes :=
  match l with
  | [] => None
  | (k', v) :: r => if k' =? k then Some v else assoc_get k r
  end.
Definition assoc_del (k : Z) (l : list (Z * bytes)) : list (Z * bytes) :=
  filter (fun p => negb (fst p =? k)) l.
Definition assoc_set (k : Z) (v : bytes) (l : list (Z * bytes)) : list (Z * bytes) :=
  (k, v) :: assoc_del k l.

(** [sink(part, data)] (:62-68): create the directory if needed, (over)write the part file *)
Definition sink_write (f : fs) (part : Z) (data : bytes) : fs :=
  mkFS (f_dst f) true (assoc_set part data (f_parts f)).

Definition is_nil {A} (l : list A) : bool := match l with [] => true | _ => false end.

Section Finalise.
  (** [true]: the code before the fix, where [mmap] of an empty part file raised ValueError *)
  Variable empty_fails : bool.
  Variable keep : bool.

  (** the loop :78-87 *)
  Fixpoint append_parts (ps : list Z) (acc : bytes) (parts : list (Z * bytes))
    : res (bytes * list (Z * bytes)) :=
    match ps with
    | [] => Ok (acc, parts)
    | p :: r =>
        match assoc_get p parts with
        | None => Err EIO                                  (* open(): FileNotFoundError *)
        | Some b =>
            if empty_fails && is_nil b then Err EValue     (* mmap: cannot mmap an empty file *)
            else append_parts r (acc ++ b) (if keep then parts else assoc_del p parts)
        end
    end.

  (** [finalise(parts, keep_parts)] (:70-92) *)
  Definition sink_finalise (f : fs) (ps : list Z) : res fs :=
    match ps with
    | [] => Err (EAssert 71)
    | p1 :: rest =>
        match assoc_get p1 (f_parts f) with
        | None => Err EIO                                  (* rename: FileNotFoundError *)
        | Some b1 =>
            match append_parts rest b1 (assoc_del p1 (f_parts f)) with
            | Err e => Err e
            | Ok (acc, parts') =>
                if keep then Ok (mkFS (Some acc) (f_dir f) parts')
                else if f_dir f && is_nil parts' then Ok (mkFS (Some acc) false [])
                     else Err EIO                          (* rmdir: missing / not empty *)
            end
        end
    end.
End Finalise.

(** a sequence of writes starting from an empty directory *)
Definition sink_writes (ws : list (Z * bytes)) : fs :=
  fold_left (fun f w => sink_write f (fst w) (snd w)) ws fs0.

(** data last written for a part *)
Definition last_write (ws : list (Z * bytes)) (p : Z) : bytes :=
  match assoc_get p (rev ws) with Some b => b | None => [] end.

(* ---------------------------------------------------------------------- *)
(** * Limits *)

Inductive lkey := LkMinWrite | LkMaxWrite | LkMinPart | LkMaxPart | LkOther (n : Z).
Definition lkey_eqb (a b : lkey) : bool :=
  match a, b with
  | LkMinWrite, LkMinWrite | LkMaxWrite, LkMaxWrite | LkMinPart, LkMinPart | LkMaxPart, LkMaxPart => true
  | LkOther n, LkOther m => n =? m
  | _, _ => false
  end.

(** keyword arguments [**limits] of [MPUFileSink.__init__] *)
Definition limits := list (lkey * Z).
Fixpoint lim_get (k : lkey) (l : limits) (d : Z) : Z :=
  match l with
  | [] => d
  | (k', v) :: r => if lkey_eqb k' k then v else lim_get k r d
  end.

(** _mpu_fs.py:37-51 *)
Definition fs_min_write_sz (l : limits) : Z := lim_get LkMinWrite l 4096.
Definition fs_max_write_sz (l : limits) : Z := lim_get LkMaxWrite l (5 * 2 ^ 30).
Definition fs_min_part (l : limits) : Z := lim_get LkMinPart l 1.
Definition fs_max_part (l : limits) : Z := lim_get LkMaxPart l 10000.

(** the accessors before fix 6596c49 read the [min_*] keys *)
Definition fs_max_write_sz_old (l : limits) : Z := lim_get LkMinWrite l (5 * 2 ^ 30).
Definition fs_max_part_old (l : limits) : Z := lim_get LkMinPart l 10000.

(** _s3.py:49-68 (shared by MultiPartUpload and DelayedS3Writer) *)
Definition s3_min_write_sz : Z := 5 * 2 ^ 20.
Definition s3_max_write_sz : Z := 5 * 2 ^ 30.
Definition s3_min_part : Z := 1.
Definition s3_max_part : Z := 10000.
