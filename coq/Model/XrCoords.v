(** Model of the xarray geo-registration code of odc/geo/_xr_interop.py
    (coordinates written from a GeoBox, recovery of the GeoBox through the
    [.odc] accessor, reprojection output assembly), of
    odc.geo.math.data_resolution_and_offset / affine_from_axis /
    resolution_from_affine and of GeoBox.coordinates.

    Floats are exact rationals.  An xarray object is abstracted to what the
    anchored code reads: dimension names and sizes, [encoding["grid_mapping"]],
    attributes (finite maps = association lists keyed by strings), coordinates
    (name -> dims, 1-d numeric labels, attrs, [encoding["_transform"]]) and, for
    a Dataset, its data variables (dims, attrs, grid_mapping encoding).
    A CRS is an identifier plus the "geographic" flag that selects the
    dimension names; parsing of WKT / CRS strings is pyproj (oracle): an
    attribute value that parses to CRS [c] is [VCrs c].

    Hand-written, statement by statement; tied to the code by the C09
    correspondence harness (tools/props/c09.py).  The record [fixes] selects
    the behaviour before/after the three repairs made for this property. *)
From Coq Require Import ZArith QArith Qabs Qround List Bool String Lia.
From OG Require Import Base.Result.
Import ListNotations.
Open Scope string_scope.
Open Scope Z_scope.
Open Scope list_scope.

(* ------------------------------------------------------------------ basics *)
Definition iota (n : Z) : list Z := map Z.of_nat (seq 0 (Z.to_nat n)).
Definition zlen {A} (l : list A) : Z := Z.of_nat (List.length l).
Definition Qltb (x y : Q) : bool := negb (Qle_bool y x).
Definition smem (k : string) (l : list string) : bool := existsb (String.eqb k) l.

(** Python dict as association list: [lookup] = [d.get(k)], [aset] = [d[k] = v]
    (position kept when the key exists, appended otherwise), [aupdate] =
    [d.update(u)], [adel] = [d.pop(k, None)]. *)
Fixpoint lookup {V} (k : string) (l : list (string * V)) : option V :=
  match l with
  | [] => None
  | (k', v) :: r => if String.eqb k k' then Some v else lookup k r
  end.
Fixpoint aset {V} (k : string) (v : V) (l : list (string * V)) : list (string * V) :=
  match l with
  | [] => [(k, v)]
  | (k', v') :: r => if String.eqb k k' then (k, v) :: r else (k', v') :: aset k v r
  end.
Definition aupdate {V} (l upd : list (string * V)) : list (string * V) :=
  fold_left (fun acc kv => aset (fst kv) (snd kv) acc) upd l.
Definition adel {V} (k : string) (l : list (string * V)) : list (string * V) :=
  filter (fun kv => negb (String.eqb (fst kv) k)) l.
Definition akeys {V} (l : list (string * V)) : list string := map fst l.

(* ------------------------------------------------------------------ affine *)
(** [Affine(a, b, c, d, e, f)]: x' = a x + b y + c, y' = d x + e y + f. *)
Record aff := Aff { fa : Q; fb : Q; fc : Q; fd : Q; fe : Q; ff : Q }.

Definition aff_mul (m n : aff) : aff :=
  Aff (fa m * fa n + fb m * fd n) (fa m * fb n + fb m * fe n) (fa m * fc n + fb m * ff n + fc m)
      (fd m * fa n + fe m * fd n) (fd m * fb n + fe m * fe n) (fd m * fc n + fe m * ff n + ff m).
Definition aff_apply (m : aff) (x y : Q) : Q * Q :=
  (fa m * x + fb m * y + fc m, fd m * x + fe m * y + ff m)%Q.
Definition aff_id : aff := Aff 1 0 0 0 1 0.
Definition aff_translation (x y : Q) : aff := Aff 1 0 x 0 1 y.
Definition aff_scale (sx sy : Q) : aff := Aff sx 0 0 0 sy 0.
Definition aff_det (m : aff) : Q := (fa m * fe m - fb m * fd m)%Q.
(** [~A]; the affine package raises when the matrix is degenerate. *)
Definition aff_inv (m : aff) : option aff :=
  let det := aff_det m in
  if Qeq_bool det 0 then None
  else
    let ra := (fe m / det)%Q in
    let rb := (- fb m / det)%Q in
    let rd := (- fd m / det)%Q in
    let re := (fa m / det)%Q in
    Some (Aff ra rb (- fc m * ra - ff m * rb) rd re (- fc m * rd - ff m * re)).

Definition aff_eq (m n : aff) : Prop :=
  fa m == fa n /\ fb m == fb n /\ fc m == fc n /\ fd m == fd n /\ fe m == fe n /\ ff m == ff n.
Definition aff_eqb (m n : aff) : bool :=
  Qeq_bool (fa m) (fa n) && Qeq_bool (fb m) (fb n) && Qeq_bool (fc m) (fc n) &&
  Qeq_bool (fd m) (fd n) && Qeq_bool (fe m) (fe n) && Qeq_bool (ff m) (ff n).

(** math.is_affine_st(A, tol) *)
Definition is_affine_st (tol : Q) (m : aff) : bool :=
  Qltb (Qabs (fb m)) tol && Qltb (Qabs (fd m)) tol.

(** exact square root of a rational, [None] when irrational (outside the model) *)
Definition exact_sqrt (q : Q) : option Q :=
  let r := Qred q in
  let n := Qnum r in
  let d := Zpos (Qden r) in
  let sn := Z.sqrt n in
  let sd := Z.sqrt d in
  if (0 <=? n) && (sn * sn =? n) && (sd * sd =? d) then Some (sn # Z.to_pos sd) else None.

(** math.resolution_from_affine: (rx, ry).  For a rotated/sheared matrix the
    scale part of [decompose_rws]: Cholesky of A^T A gives sx = sqrt(a^2+d^2),
    the sign fix makes sy = det A / sx. *)
Definition resolution_from_affine (tol : Q) (m : aff) : res (Q * Q) :=
  if is_affine_st tol m then Ok (fa m, fe m)
  else
    match exact_sqrt (fa m * fa m + fd m * fd m) with
    | None => Err EOther                       (* irrational: not modelled *)
    | Some sx => if Qeq_bool sx 0 then Err EOther else Ok (sx, (aff_det m / sx)%Q)
    end.

(* --------------------------------------------- math.data_resolution_and_offset *)
Definition data_resolution_and_offset (data : list Q) (fallback : option Q) : res (Q * Q) :=
  match data with
  | [] => Err EValue                         (* "Can't calculate resolution for empty data" *)
  | x0 :: tl =>
      match tl with
      | [] => match fallback with
              | None => Err EValue           (* "... with data size < 2" *)
              | Some r => Ok (r, (x0 - (1 # 2) * r)%Q)
              end
      | _ :: _ =>
          let r := ((last tl x0 - x0) / inject_Z (zlen data - 1))%Q in
          Ok (r, (x0 - (1 # 2) * r)%Q)
      end
  end.

(** math.affine_from_axis(xx, yy, fallback_resolution); fallback as (rx, ry) *)
Definition affine_from_axis (xx yy : list Q) (fallback : option (Q * Q)) : res aff :=
  '(xres, xoff) <- data_resolution_and_offset xx (option_map fst fallback) ;;
  '(yres, yoff) <- data_resolution_and_offset yy (option_map snd fallback) ;;
  Ok (aff_mul (aff_translation xoff yoff) (aff_scale xres yres)).

(* ------------------------------------------------------------------ CRS, GeoBox *)
Record crs := Crs { crs_id : Z; crs_geo : bool }.
Definition crs_eqb (a b : crs) : bool := (crs_id a =? crs_id b) && Bool.eqb (crs_geo a) (crs_geo b).
(** CRS.dimensions *)
Definition crs_dims (c : option crs) : string * string :=
  match c with
  | Some c => if crs_geo c then ("latitude", "longitude") else ("y", "x")
  | None => ("y", "x")
  end.

Record gbox := GBox { g_ny : Z; g_nx : Z; g_aff : aff; g_crs : option crs }.

(** a GCP: pixel (col,row) and world (x,y) *)
Definition gcp := (Q * Q * Q * Q)%type.
Inductive anybox :=
| ABox (g : gbox)
| AGcp (ny nx : Z) (a : aff) (pts : list gcp) (c : option crs).

Definition box_shape (b : anybox) : Z * Z :=
  match b with ABox g => (g_ny g, g_nx g) | AGcp ny nx _ _ _ => (ny, nx) end.
Definition box_crs (b : anybox) : option crs :=
  match b with ABox g => g_crs g | AGcp _ _ _ _ c => c end.

(* ------------------------------------------------------------------ xarray objects *)
Inductive aval :=
| VStr (s : string)
| VCrs (c : crs)            (* str / CRS object that parses to this CRS *)
| VGeoT (l : list Q)        (* "c a b f d e" string split and parsed *)
| VGcps (p : list gcp)      (* GeoJSON feature collection of GCPs *)
| VNum (q : Q)
| VOther.
Definition attrs := list (string * aval).

Record coord := Coord {
  co_dims : list string;
  co_vals : list Q;                 (* labels of a 1-d numeric coordinate, [] otherwise *)
  co_attrs : attrs;
  co_tr : option aff                (* encoding["_transform"] *)
}.
Definition coords := list (string * coord).

Record xvar := XVar { v_dims : list string; v_attrs : attrs; v_gm : option string }.

Record xobj := XObj {
  x_is_ds : bool;
  x_dims : list (string * Z);       (* dimension names and sizes, in order *)
  x_gm : option string;             (* encoding.get("grid_mapping") *)
  x_attrs : attrs;
  x_coords : coords;
  x_vars : list (string * xvar)     (* data variables of a Dataset, [] for a DataArray *)
}.

Definition SPATIAL_ATTRIBUTES : list string := ["crs"; "crs_wkt"; "grid_mapping"; "gcps"; "epsg"].
Definition DEFAULT_CRS_COORD_NAME : string := "spatial_ref".

(* ------------------------------------------------------------------ coordinates from a GeoBox *)
(** GeoBox.coordinates: numpy.arange(n) * r + (t + r / 2) *)
Definition label (t r : Q) (i : Z) : Q := (inject_Z i * r + (t + r / 2))%Q.
Definition labels (n : Z) (t r : Q) : list Q := map (label t r) (iota n).
(** numpy.arange(0.5, sz, dtype="float32") *)
Definition pix_label (i : Z) : Q := (inject_Z i + (1 # 2))%Q.
Definition pix_labels (n : Z) : list Q := map pix_label (iota n).

(** _mk_crs_coord (only the attributes that the recovery reads are kept: the CF
    keys produced by pyproj's [to_cf] other than [crs_wkt] are dropped by the
    harness as well) *)
Definition to_gdal (m : aff) : list Q := [fc m; fa m; fb m; ff m; fd m; fe m].
Definition mk_crs_coord (c : crs) (gcps : option (list gcp)) (transform : option aff) : coord :=
  Coord [] []
        ([("spatial_ref", VCrs c); ("crs_wkt", VCrs c)]
           ++ match gcps with Some p => [("gcps", VGcps p)] | None => [] end
           ++ match transform with Some t => [("GeoTransform", VGeoT (to_gdal t))] | None => [] end)
        None.

(** _coord_to_xr *)
Definition coord_to_xr (name : string) (vals : list Q) (resolution : Q) (extra : attrs) : coord :=
  Coord [name] vals ([("units", VOther); ("resolution", VNum resolution)] ++ extra) None.

(** _mk_pixel_coord *)
Definition mk_pixel_coord (name : string) (sz : Z) (transform : option aff) : coord :=
  Coord [name] (pix_labels sz) [("units", VOther)] transform.

(** GCPGeoBox.gcps(): pixel positions brought into the frame of this geobox *)
Definition gcps_of (a_inv : aff) (pts : list gcp) : list gcp :=
  map (fun p => let '(px, py, wx, wy) := p in
                let '(qx, qy) := aff_apply a_inv px py in (qx, qy, wx, wy)) pts.

(** xr_coords(gbox, crs_coord_name) *)
Definition xr_coords (tol : Q) (b : anybox) (crs_coord_name : option string) : res coords :=
  let c := box_crs b in
  let cattrs : attrs := match c with Some c => [("crs", VCrs c)] | None => [] end in
  let '(ydim, xdim) := crs_dims c in
  r <- match b with
       | AGcp ny nx a pts _ =>
           match aff_inv a with
           | None => Err EOther
           | Some a_inv =>
               Ok ([(ydim, mk_pixel_coord ydim ny None); (xdim, mk_pixel_coord xdim nx None)],
                   Some (gcps_of a_inv pts), None)
           end
       | ABox g =>
           let t := g_aff g in
           if is_affine_st tol t then
             Ok ([(ydim, coord_to_xr ydim (labels (g_ny g) (ff t) (fe t)) (fe t) cattrs);
                  (xdim, coord_to_xr xdim (labels (g_nx g) (fc t) (fa t)) (fa t) cattrs)],
                 None, Some t)
           else
             Ok ([(ydim, mk_pixel_coord ydim (g_ny g) (Some t)); (xdim, mk_pixel_coord xdim (g_nx g) (Some t))],
                 None, Some t)
       end ;;
  let '(cs, gcps, transform) := r in
  match crs_coord_name, c with
  | Some name, Some c => Ok (aset name (mk_crs_coord c gcps transform) cs)
  | _, _ => Ok cs
  end.

(** wrap_xr(im, gbox, time=..., nodata=..., crs_coord_name=..., **attrs) for an
    image with [ntime] leading time steps ([None]: no time axis) and [nband]
    trailing bands. *)
Definition wrap_xr (tol : Q) (b : anybox) (ntime nband : option Z) (nodata : option Q)
           (crs_coord_name : option string) (user : attrs) : res xobj :=
  cs <- xr_coords tol b crs_coord_name ;;
  let '(ydim, xdim) := crs_dims (box_crs b) in
  let '(ny, nx) := box_shape b in
  let dims := match ntime with Some n => [("time", n)] | None => [] end
                ++ [(ydim, ny); (xdim, nx)]
                ++ match nband with Some n => [("band", n)] | None => [] end in
  let cs := match ntime with Some _ => aset "time" (Coord ["time"] [] [] None) cs | None => cs end in
  let cs := match nband with Some _ => aset "band" (Coord ["band"] [] [] None) cs | None => cs end in
  let at_ := match nodata with Some v => aset "nodata" (VNum v) user | None => user end in
  (* {"nodata": nodata, **attrs}: a user supplied nodata attribute wins *)
  let at_ := match nodata, lookup "nodata" user with Some _, Some u => aset "nodata" u at_ | _, _ => at_ end in
  Ok (XObj false dims crs_coord_name at_ cs []).

(* ------------------------------------------------------------------ recovery *)
(** spatial_dims(xx, relaxed=True) *)
Definition guesses : list (string * string) := [("y", "x"); ("latitude", "longitude"); ("lat", "lon")].
Definition spatial_dims (dims : list string) : option (string * string) :=
  match find (fun g => smem (fst g) dims && smem (snd g) dims) guesses with
  | Some g => Some g
  | None =>
      match rev dims with
      | xd :: yd :: _ => Some (yd, xd)
      | _ => None
      end
  end.

(** _is_spatial_ref *)
Definition has_key (k : string) (a : attrs) : bool :=
  match lookup k a with Some _ => true | None => false end.
Definition is_spatial_ref (c : coord) : bool :=
  match co_dims c with
  | [] => has_key "spatial_ref" (co_attrs c) || has_key "crs_wkt" (co_attrs c)
  | _ => false
  end.

(** _locate_crs_coords, as (name, coord) pairs *)
Definition grid_mapping_of (gm : option string) (a : attrs) : option aval :=
  match gm with
  | Some s => Some (VStr s)
  | None => lookup "grid_mapping" a
  end.
Definition locate_crs_coords (gm : option string) (a : attrs) (cs : coords) : coords :=
  match grid_mapping_of gm a with
  | Some (VStr s) => match lookup s cs with Some c => [(s, c)] | None => [] end
  | Some _ => []                        (* not a coordinate name *)
  | None => filter (fun nc => is_spatial_ref (snd nc)) cs
  end.

(** CRS(value) for an attribute value: a parsable string or a CRS object *)
Definition crs_of_val (v : aval) : option crs := match v with VCrs c => Some c | _ => None end.

(** _extract_crs *)
Definition extract_crs (c : coord) : option crs :=
  match lookup "spatial_ref" (co_attrs c) with
  | Some v => crs_of_val v
  | None => match lookup "crs_wkt" (co_attrs c) with Some v => crs_of_val v | None => None end
  end.

(** _extract_gcps *)
Definition extract_gcps (c : coord) : option (list gcp) :=
  match lookup "gcps" (co_attrs c) with Some (VGcps p) => Some p | _ => None end.

(** _extract_geo_transform *)
Definition extract_geo_transform (c : coord) : option aff :=
  match lookup "GeoTransform" (co_attrs c) with
  | Some (VGeoT [c0; a; b; f0; d; e]) => Some (Aff a b c0 d e f0)
  | _ => None
  end.

(** _get_crs_from_attrs: candidates in the order the code visits them; the code
    pops an arbitrary element of a set, the model takes the first candidate
    (identical whenever all candidates are equal, the only case generated). *)
Definition attr_crs_candidates (a : attrs) : list crs :=
  match lookup "crs" a with Some v => match crs_of_val v with Some c => [c] | None => [] end | None => [] end
  ++ match lookup "crs_wkt" a with Some v => match crs_of_val v with Some c => [c] | None => [] end | None => [] end.
Definition datavar_candidates (a : attrs) (vdims : list string) (cs : coords) (sd : string * string) : list crs :=
  attr_crs_candidates a
  ++ flat_map (fun d => if smem d vdims then
                          match lookup d cs with Some c => attr_crs_candidates (co_attrs c) | None => [] end
                        else []) [fst sd; snd sd].
Definition get_crs_from_attrs (x : xobj) (sd : string * string) : option crs :=
  let cands :=
    if x_is_ds x then
      attr_crs_candidates (x_attrs x)
      ++ flat_map (fun nv => datavar_candidates (v_attrs (snd nv)) (v_dims (snd nv)) (x_coords x) sd) (x_vars x)
    else
      (* a DataArray carries every coordinate whose dims it has; a coordinate
         named like a spatial dim counts when present *)
      attr_crs_candidates (x_attrs x)
      ++ flat_map (fun d => match lookup d (x_coords x) with
                            | Some c => attr_crs_candidates (co_attrs c) | None => [] end) [fst sd; snd sd] in
  hd_error cands.

(** behaviour switches: [true] = repaired code *)
Record fixes := Fixes {
  fx_ds_direct : bool;     (* Dataset reprojection builds the Dataset directly (not Dataset.map) *)
  fx_pix_unit : bool;      (* pixel-space labels of a rotated grid fall back to resolution 1 *)
  fx_gcp_unit : bool;      (* ... same for GCP based arrays *)
  fx_ds_dims : bool        (* Dataset reprojection warps only variables spanning the Dataset's spatial dims *)
}.
Definition repaired : fixes := Fixes true true true true.

(** _extract_transform *)
Definition extract_transform (fx : fixes) (tol : Q) (cs : coords) (sd : string * string)
           (crs_coord : option coord) (gcp : bool) : res (option aff) :=
  match lookup (fst sd) cs, lookup (snd sd) cs with
  | Some yy, Some xx =>
      let pix2world := if gcp then None else co_tr xx in
      t <- match affine_from_axis (co_vals xx) (co_vals yy) None with
           | Ok t => Ok (Some t)
           | Err _ =>
               fb <- (if (fx_pix_unit fx && match pix2world with Some _ => true | None => false end)
                         || (fx_gcp_unit fx && gcp)
                      then Ok (Some (1, 1)%Q)
                      else match crs_coord with
                           | None => Ok None
                           | Some cc =>
                               match extract_geo_transform cc with
                               | None => Ok None
                               | Some orig => r <- resolution_from_affine tol orig ;; Ok (Some r)
                               end
                           end) ;;
               match fb with
               | None => Ok None
               | Some r => match affine_from_axis (co_vals xx) (co_vals yy) (Some r) with
                           | Ok t => Ok (Some t)
                           | Err _ => Ok None
                           end
               end
           end ;;
      match t with
      | None => Ok None
      | Some t => match pix2world with
                  | Some p => Ok (Some (aff_mul p t))
                  | None => Ok (Some t)
                  end
      end
  | _, _ =>
      (* no coordinates for the spatial dims at all *)
      match crs_coord with
      | Some cc => if gcp then Ok None else Ok (extract_geo_transform cc)
      | None => Ok None
      end
  end.

Record geostate := GeoState {
  gs_sdims : option (string * string);
  gs_crs : option crs;
  gs_transform : option aff;
  gs_box : option anybox
}.

(** _locate_geo_info *)
Definition locate_geo_info (fx : fixes) (tol : Q) (x : xobj) : res geostate :=
  match spatial_dims (map fst (x_dims x)) with
  | None => Ok (GeoState None None None None)
  | Some sd =>
      let ny := match lookup (fst sd) (x_dims x) with Some n => n | None => 0 end in
      let nx := match lookup (snd sd) (x_dims x) with Some n => n | None => 0 end in
      let cc := locate_crs_coords (x_gm x) (x_attrs x) (x_coords x) in
      let '(crs_coord, c, gcp) :=
        match cc with
        | (_, c0) :: _ => (Some c0, extract_crs c0, extract_gcps c0)
        | [] => (None, get_crs_from_attrs x sd, None)
        end in
      transform <- extract_transform fx tol (x_coords x) sd crs_coord
                                     (match gcp with Some _ => true | None => false end) ;;
      let box :=
        match gcp with
        | Some pts => Some (AGcp ny nx (match transform with Some t => t | None => aff_id end) pts c)
        | None => match transform with
                  | Some t => Some (ABox (GBox ny nx t c))
                  | None => None
                  end
        end in
      Ok (GeoState (Some sd) c transform box)
  end.

(* ------------------------------------------------------------------ positional slicing *)
(** a Python [slice(start, stop, step)] *)
Record pyslice := PySlice { s_start : option Z; s_stop : option Z; s_step : option Z }.

(** slice.indices(n) followed by len(range(...)): (start, step, length) *)
Definition slice_clamp (n lower upper v : Z) : Z :=
  if v <? 0 then Z.max (v + n) lower else Z.min v upper.
Definition slice_len (start stop step : Z) : Z :=
  if step <? 0
  then (if stop <? start then (start - stop - 1) / (- step) + 1 else 0)
  else (if start <? stop then (stop - start - 1) / step + 1 else 0).
Definition slice_adjust (n : Z) (s : pyslice) : res (Z * Z * Z) :=
  let step := match s_step s with Some v => v | None => 1 end in
  if step =? 0 then Err EValue
  else
    let lower := if step <? 0 then -1 else 0 in
    let upper := if step <? 0 then n - 1 else n in
    let start := match s_start s with
                 | None => if step <? 0 then upper else lower
                 | Some v => slice_clamp n lower upper v
                 end in
    let stop := match s_stop s with
                | None => if step <? 0 then lower else upper
                | Some v => slice_clamp n lower upper v
                end in
    Ok (start, step, slice_len start stop step).

Definition slice_idx (n : Z) (s : pyslice) : res (list Z) :=
  '(start, step, m) <- slice_adjust n s ;;
  Ok (map (fun k => start + k * step) (iota m)).

Definition pick {A} (l : list A) (idx : list Z) : list A :=
  flat_map (fun i => if i <? 0 then [] else match nth_error l (Z.to_nat i) with Some v => [v] | None => [] end) idx.

(** xx.isel({dim: slice}): the dimension keeps its name, every coordinate along
    it is sub-selected, attributes and encodings of the array and of its
    coordinates are kept (xarray contract, validated by the harness) *)
Definition isel (x : xobj) (dim : string) (s : pyslice) : res xobj :=
  match lookup dim (x_dims x) with
  | None => Err EValue
  | Some n =>
      idx <- slice_idx n s ;;
      let dims' := map (fun dn => if String.eqb (fst dn) dim then (fst dn, zlen idx) else dn) (x_dims x) in
      let sel1 (c : coord) : coord :=
        if smem dim (co_dims c)
        then Coord (co_dims c) (match co_dims c with [_] => pick (co_vals c) idx | _ => co_vals c end)
                   (co_attrs c) (co_tr c)
        else c in
      Ok (XObj (x_is_ds x) dims' (x_gm x) (x_attrs x)
               (map (fun nc => (fst nc, sel1 (snd nc))) (x_coords x)) (x_vars x))
  end.

(* ------------------------------------------------------------------ boolean equalities *)
Definition opt_eqb {A} (eqb : A -> A -> bool) (x y : option A) : bool :=
  match x, y with None, None => true | Some a, Some b => eqb a b | _, _ => false end.
Fixpoint list_eqb {A} (eqb : A -> A -> bool) (x y : list A) : bool :=
  match x, y with
  | [], [] => true
  | a :: x', b :: y' => eqb a b && list_eqb eqb x' y'
  | _, _ => false
  end.
Definition gcp_eqb (p q : gcp) : bool :=
  let '(a, b, c, d) := p in let '(a', b', c', d') := q in
  Qeq_bool a a' && Qeq_bool b b' && Qeq_bool c c' && Qeq_bool d d'.
Definition aval_eqb (x y : aval) : bool :=
  match x, y with
  | VStr a, VStr b => String.eqb a b
  | VCrs a, VCrs b => crs_eqb a b
  | VGeoT a, VGeoT b => list_eqb Qeq_bool a b
  | VGcps a, VGcps b => list_eqb gcp_eqb a b
  | VNum a, VNum b => Qeq_bool a b
  | VOther, VOther => true
  | _, _ => false
  end.
(** finite maps compared as maps (dict equality ignores order) *)
Definition amap_eqb {V} (eqb : V -> V -> bool) (a b : list (string * V)) : bool :=
  forallb (fun kv => opt_eqb eqb (Some (snd kv)) (lookup (fst kv) b)) a &&
  forallb (fun kv => opt_eqb eqb (lookup (fst kv) a) (Some (snd kv))) b.
Definition attrs_eqb := amap_eqb aval_eqb.
Definition coord_eqb (a b : coord) : bool :=
  list_eqb String.eqb (co_dims a) (co_dims b) && list_eqb Qeq_bool (co_vals a) (co_vals b) &&
  attrs_eqb (co_attrs a) (co_attrs b) && opt_eqb aff_eqb (co_tr a) (co_tr b).
Definition coords_eqb := amap_eqb coord_eqb.
Definition xvar_eqb (a b : xvar) : bool :=
  list_eqb String.eqb (v_dims a) (v_dims b) && attrs_eqb (v_attrs a) (v_attrs b) &&
  opt_eqb String.eqb (v_gm a) (v_gm b).
Definition dims_eqb (ordered : bool) (a b : list (string * Z)) : bool :=
  if ordered then list_eqb (fun p q => String.eqb (fst p) (fst q) && (snd p =? snd q)) a b
  else amap_eqb Z.eqb a b.
Definition xobj_eqb (a b : xobj) : bool :=
  Bool.eqb (x_is_ds a) (x_is_ds b) && dims_eqb (negb (x_is_ds a)) (x_dims a) (x_dims b) &&
  opt_eqb String.eqb (x_gm a) (x_gm b) && attrs_eqb (x_attrs a) (x_attrs b) &&
  coords_eqb (x_coords a) (x_coords b) && amap_eqb xvar_eqb (x_vars a) (x_vars b).
Definition gbox_eqb (a b : gbox) : bool :=
  (g_ny a =? g_ny b) && (g_nx a =? g_nx b) && aff_eqb (g_aff a) (g_aff b) && opt_eqb crs_eqb (g_crs a) (g_crs b).
Definition anybox_eqb (a b : anybox) : bool :=
  match a, b with
  | ABox g, ABox h => gbox_eqb g h
  | AGcp ny nx t p c, AGcp ny' nx' t' p' c' =>
      (ny =? ny') && (nx =? nx') && aff_eqb t t' && list_eqb gcp_eqb p p' && opt_eqb crs_eqb c c'
  | _, _ => false
  end.
Definition sd_eqb (a b : string * string) : bool := String.eqb (fst a) (fst b) && String.eqb (snd a) (snd b).
Definition geostate_eqb (a b : geostate) : bool :=
  opt_eqb sd_eqb (gs_sdims a) (gs_sdims b) && opt_eqb crs_eqb (gs_crs a) (gs_crs b) &&
  opt_eqb aff_eqb (gs_transform a) (gs_transform b) && opt_eqb anybox_eqb (gs_box a) (gs_box b).

(** Contract of element-wise operations / astype / pickle / copy / transpose
    (xarray, oracle): all coordinates (values, attrs, encoding) and the data
    variables are unchanged; the dimensions are the same set with the same sizes
    (possibly reordered, but still naming the same spatial pair); the array's own
    [grid_mapping] (encoding or attribute) and CRS attributes are either
    unchanged or dropped, never invented.  An operation is therefore described
    by what it may change: dimension order, grid_mapping encoding, attributes. *)
Definition kept_or_dropped (k : string) (a a' : attrs) : bool :=
  match lookup k a' with
  | None => true
  | Some v' => opt_eqb aval_eqb (lookup k a) (Some v')
  end.
Definition elem_step (x : xobj) (dims' : list (string * Z)) (gm' : option string) (attrs' : attrs) : res xobj :=
  if dims_eqb false (x_dims x) dims' &&
     opt_eqb sd_eqb (spatial_dims (map fst (x_dims x))) (spatial_dims (map fst dims')) &&
     match gm' with None => true | Some s => opt_eqb String.eqb (x_gm x) (Some s) end &&
     kept_or_dropped "grid_mapping" (x_attrs x) attrs' &&
     kept_or_dropped "crs" (x_attrs x) attrs' &&
     kept_or_dropped "crs_wkt" (x_attrs x) attrs'
  then Ok (XObj (x_is_ds x) dims' gm' attrs' (x_coords x) (x_vars x))
  else Err EOther.

(** Operation histories. *)
Inductive op :=
| OIsel (dim : string) (s : pyslice)
| OElem (dims' : list (string * Z)) (gm' : option string) (attrs' : attrs).

Fixpoint run_history (x : xobj) (h : list op) : res xobj :=
  match h with
  | [] => Ok x
  | OIsel d s :: r => x' <- isel x d s ;; run_history x' r
  | OElem dims' gm' attrs' :: r => x' <- elem_step x dims' gm' attrs' ;; run_history x' r
  end.

(** The composed index map of a history along dimension [d]: the same
    positional selections applied to the vector of original pixel indices. *)
Fixpoint axis_idx (d : string) (idx : list Z) (h : list op) : res (list Z) :=
  match h with
  | [] => Ok idx
  | OIsel d' s :: r =>
      if String.eqb d' d then i <- slice_idx (zlen idx) s ;; axis_idx d (pick idx i) r
      else axis_idx d idx r
  | OElem _ _ _ :: r => axis_idx d idx r
  end.

(* ------------------------------------------------------------------ reprojection output assembly *)
(** math.split_float / maybe_int on finite values *)
Definition Qtrunc (x : Q) : Z := if Qle_bool 0 x then Qfloor x else Qceiling x.
Definition maybe_int (x tol : Q) : Q :=
  let t := inject_Z (Qtrunc x) in
  let part := (x - t)%Q in
  let '(whole, part) :=
    if Qltb (1 # 2) part then ((t + 1)%Q, (part - 1)%Q)
    else if Qltb part (- (1 # 2)) then ((t - 1)%Q, (part + 1)%Q)
    else (t, part) in
  if Qltb (Qabs part) tol then whole else x.

(** ODCExtensionDa.nodata for numeric attribute values *)
Definition nodata_of (a : attrs) : option Q :=
  match lookup "nodata" a with
  | Some (VNum q) => Some q
  | _ => match lookup "_FillValue" a with Some (VNum q) => Some q | _ => None end
  end.

Definition prune_spatial (a : attrs) : attrs :=
  filter (fun kv => negb (smem (fst kv) SPATIAL_ATTRIBUTES)) a.

Fixpoint index_of (k : string) (l : list string) (i : Z) : option Z :=
  match l with
  | [] => None
  | h :: r => if String.eqb k h then Some i else index_of k r (i + 1)
  end.

Definition disjointb (a b : list string) : bool := forallb (fun k => negb (smem k b)) a.

(** _xr_reproject_da with [how] a GeoBox, up to the pixel values (rasterio,
    not modelled).  [itol] is the 1e-6 of [maybe_int(dst_nodata, 1e-6)]. *)
Definition reproject_da (fx : fixes) (tol itol : Q) (src : xobj) (dst : gbox) (dst_nodata : option Q)
  : res xobj :=
  st <- locate_geo_info fx tol src ;;
  match gs_box st with
  | None => Err EValue
  | Some sb =>
      match box_crs sb, gs_sdims st with
      | None, _ | _, None => Err EValue
      | Some _, Some sd =>
          let names := map fst (x_dims src) in
          match index_of (fst sd) names 0, index_of (snd sd) names 0 with
          | Some ydim, Some xdim =>
              if negb (ydim + 1 =? xdim) then Err (EAssert 743)
              else
                let dst_nodata := match dst_nodata with Some v => Some v | None => nodata_of (x_attrs src) end in
                let at_ := prune_spatial (x_attrs src) in
                let at_ := match dst_nodata with
                           | None => adel "_FillValue" (adel "nodata" at_)
                           | Some v => aset "nodata" (VNum (maybe_int v itol)) at_
                           end in
                let should_keep (c : coord) :=
                  negb (is_spatial_ref c) && disjointb [fst sd; snd sd] (co_dims c) in
                let kept := filter (fun nc => should_keep (snd nc)) (x_coords src) in
                new <- xr_coords tol (ABox dst) (Some DEFAULT_CRS_COORD_NAME) ;;
                let '(dy, dx) := crs_dims (g_crs dst) in
                let dims := flat_map (fun dn =>
                                        if String.eqb (fst dn) (fst sd) then [(dy, g_ny dst)]
                                        else if String.eqb (fst dn) (snd sd) then [(dx, g_nx dst)]
                                        else [dn]) (x_dims src) in
                Ok (XObj false dims (Some DEFAULT_CRS_COORD_NAME) at_ (aupdate kept new) [])
          | _, _ => Err EValue
          end
      end
  end.

(** ds[name] *)
Definition subsetb (a b : list string) : bool := forallb (fun k => smem k b) a.
Definition ds_getitem (ds : xobj) (name : string) : option xobj :=
  match lookup name (x_vars ds) with
  | None => None
  | Some v =>
      Some (XObj false
                 (map (fun d => (d, match lookup d (x_dims ds) with Some n => n | None => 0 end)) (v_dims v))
                 (v_gm v) (v_attrs v)
                 (filter (fun nc => subsetb (co_dims (snd nc)) (v_dims v)) (x_coords ds)) [])
  end.

(** union of association lists, first occurrence wins *)
Definition amerge {V} (a b : list (string * V)) : list (string * V) :=
  fold_left (fun acc kv => match lookup (fst kv) acc with Some _ => acc | None => acc ++ [kv] end) b a.

(** _xr_reproject_ds with [how] a GeoBox.  Repaired: [Dataset(data_vars,
    attrs=pruned)].  Unrepaired: [src.map(f)] of the installed xarray
    (keep_attrs defaults to True): variable attrs, the attrs of every output
    coordinate whose name exists in the source and the Dataset attrs are copied
    back from the source. *)
(** [src.odc.spatial_dims] of the Dataset *)
Definition ds_spatial_dims (fx : fixes) (tol : Q) (src : xobj) : option (string * string) :=
  match locate_geo_info fx tol src with Ok st => gs_sdims st | Err _ => None end.

(** [_maybe_reproject] of one data variable: warped when it has a geobox and (repaired code)
    spans the spatial dimensions of the Dataset, passed through with its CRS coordinates
    stripped otherwise *)
Definition reproject_ds_var (fx : fixes) (tol itol : Q) (src : xobj) (dst : gbox) (dst_nodata : option Q)
           (nv : string * xvar) : res (string * xobj) :=
  match ds_getitem src (fst nv) with
  | None => Err EOther
  | Some dv =>
      st <- locate_geo_info fx tol dv ;;
      let spans := match ds_spatial_dims fx tol src with
                   | Some sd => subsetb [fst sd; snd sd] (map fst (x_dims dv))
                   | None => false
                   end in
      let pass :=
        let strip := map fst (locate_crs_coords (x_gm dv) (x_attrs dv) (x_coords dv)) in
        Ok (fst nv, XObj false (x_dims dv) (x_gm dv) (x_attrs dv)
                         (filter (fun nc => negb (smem (fst nc) strip)) (x_coords dv)) []) in
      match gs_box st with
      | None => pass
      | Some _ =>
          if fx_ds_dims fx && negb spans then pass
          else o <- reproject_da fx tol itol dv dst dst_nodata ;; Ok (fst nv, o)
      end
  end.

Fixpoint mapM_res {A B} (f : A -> res B) (l : list A) : res (list B) :=
  match l with
  | [] => Ok []
  | a :: r => b <- f a ;; bs <- mapM_res f r ;; Ok (b :: bs)
  end.

Definition reproject_ds (fx : fixes) (tol itol : Q) (src : xobj) (dst : gbox) (dst_nodata : option Q)
  : res xobj :=
  st <- locate_geo_info fx tol src ;;
  match gs_box st with
  | None => Err EValue
  | Some _ =>
      outs <- mapM_res (reproject_ds_var fx tol itol src dst dst_nodata) (x_vars src) ;;
      let cs := fold_left (fun acc no => amerge acc (x_coords (snd no))) outs [] in
      let dims := fold_left (fun acc no => amerge acc (x_dims (snd no))) outs [] in
      let vars := map (fun no => (fst no, XVar (map fst (x_dims (snd no))) (x_attrs (snd no)) (x_gm (snd no)))) outs in
      if fx_ds_direct fx then
        Ok (XObj true dims None (prune_spatial (x_attrs src)) cs vars)
      else
        let vars := map (fun nv => (fst nv,
                                    XVar (v_dims (snd nv))
                                         (match lookup (fst nv) (x_vars src) with
                                          | Some v0 => v_attrs v0 | None => v_attrs (snd nv) end)
                                         (v_gm (snd nv)))) vars in
        let cs := map (fun nc => (fst nc,
                                  match lookup (fst nc) (x_coords src) with
                                  | Some c0 => Coord (co_dims (snd nc)) (co_vals (snd nc)) (co_attrs c0) (co_tr (snd nc))
                                  | None => snd nc
                                  end)) cs in
        Ok (XObj true dims None (x_attrs src) cs vars)
  end.

(* ================================================================== vocabulary of the property statements *)
(** arithmetic progressions of original pixel indices (what positional slicing produces) *)
Definition ap (p q m : Z) : list Z := map (fun k => p + q * k) (iota m).
Definition is_ap (idx : list Z) : Prop := exists p q m, 0 <= m /\ idx = ap p q m.

(** [wrap_xr]'s CRS coordinate name must not collide with the other coordinate names; the
    user attributes must not themselves carry grid_mapping / crs / crs_wkt *)
Definition name_ok (name : option string) (yd xd : string) : Prop :=
  match name with
  | Some n => n <> yd /\ n <> xd /\ n <> "time" /\ n <> "band"
  | None => True
  end.
Definition clean_attrs (a : attrs) : Prop :=
  lookup "grid_mapping" a = None /\ lookup "crs" a = None /\ lookup "crs_wkt" a = None.

(** attributes of the label coordinates of an axis-aligned GeoBox *)
Definition cattrs_of (c : option crs) : attrs := match c with Some c => [("crs", VCrs c)] | None => [] end.
Definition st_attrs (r : Q) (c : option crs) : attrs :=
  [("units", VOther); ("resolution", VNum r)] ++ cattrs_of c.

(** dimension names the recovery guesses the spatial pair by *)
Definition guess_names : list string := ["y"; "x"; "latitude"; "longitude"; "lat"; "lon"].
(** names of the non-spatial dimensions of the source: not one of the names the
    recovery guesses spatial dimensions by, and different from the spatial pair *)
Definition other_dims_ok (l : list (string * Z)) (syd sxd : string) : Prop :=
  forall dn, In dn l -> ~ In (fst dn) guess_names /\ fst dn <> syd /\ fst dn <> sxd.

(** coordinates of the source that survive a reprojection, attributes of the output *)
Definition keep_pred (syd sxd : string) (c : coord) : bool :=
  negb (is_spatial_ref c) && disjointb [syd; sxd] (co_dims c).

Definition out_attrs (itol : Q) (a : attrs) (dst_nodata : option Q) : attrs :=
  match (match dst_nodata with Some v => Some v | None => nodata_of a end) with
  | None => adel "_FillValue" (adel "nodata" (prune_spatial a))
  | Some v => aset "nodata" (VNum (maybe_int v itol)) (prune_spatial a)
  end.

(** a geo-registered data variable [nv] of a Dataset [src]: its DataArray view has a geobox
    with CRS, spatial dims (syd, sxd) adjacent, other dims [pre]/[post] *)
Definition geo_var (tol : Q) (src : xobj) (nv : string * xvar) (syd sxd : string)
           (pre post : list (string * Z)) : Prop :=
  (exists dv st sb n1 n2,
      ds_getitem src (fst nv) = Some dv /\ locate_geo_info repaired tol dv = Ok st /\
      gs_box st = Some sb /\ box_crs sb <> None /\ gs_sdims st = Some (syd, sxd) /\
      x_dims dv = pre ++ [(syd, n1); (sxd, n2)] ++ post) /\
  ds_spatial_dims repaired tol src = Some (syd, sxd) /\
  syd <> sxd /\ other_dims_ok (pre ++ post) syd sxd.

(** a variable passed through without a geobox that brings no coordinate or dimension
    named like the destination's *)
Definition plain_var (tol itol : Q) (src : xobj) (dst : gbox) (nd : option Q) (nv : string * xvar) : Prop :=
  exists o, reproject_ds_var repaired tol itol src dst nd nv = Ok (fst nv, o) /\
            lookup (fst (crs_dims (g_crs dst))) (x_coords o) = None /\
            lookup (snd (crs_dims (g_crs dst))) (x_coords o) = None /\
            lookup DEFAULT_CRS_COORD_NAME (x_coords o) = None /\
            lookup (fst (crs_dims (g_crs dst))) (x_dims o) = None /\
            lookup (snd (crs_dims (g_crs dst))) (x_dims o) = None.
