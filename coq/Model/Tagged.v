(** CRS tags and the two bounding-box folds of odc/geo/geom.py (shared by the
    C16 and C01 models).

    A CRS tag is [option crs]: [None] is "no CRS".  [crs] and its equality
    [crs_eqb] (odc.geo.crs.CRS.__eq__: identity, EPSG code, string, then pyproj
    equality) are parameters; nothing is assumed about [crs_eqb] here.

    [tag_ne a b] is the Python expression [a != b] on [Optional[CRS]] values:
    [None != None] is False; [None != crs] and [crs != None] are True
    ([CRS.__eq__] fails to build [CRS(None)] and answers False, [CRS.__ne__] is
    [not ==]); two CRS objects compare by [CRS.__eq__]. *)
From Coq Require Import ZArith List Bool.
From OG Require Import Base.Result.
Import ListNotations.

Section Tagged.
  Variable crs : Type.
  Variable crs_eqb : crs -> crs -> bool.

  Definition tag := option crs.

  Definition tag_ne (a b : tag) : bool :=
    match a, b with
    | None, None => false
    | Some x, Some y => negb (crs_eqb x y)
    | _, _ => true
    end.

  (** BoundingBox over any coordinate type [A] ([Z] for pixel-domain boxes,
      [Q] for world boxes) with [lo]/[hi] standing for Python's [min]/[max]. *)
  Section Box.
    Variable A : Type.
    Variables lo hi : A -> A -> A.

    Record bbox := mkBB { bl : A; bb_ : A; br : A; bt : A; bcrs : tag }.

    (* the loop of bbox_union: L = min(l, L) ...; the CRS test sits at the end of the
       loop body, before anything is returned *)
    Fixpoint bbox_union_loop (L B R T : A) (c : tag) (bbs : list bbox) : res bbox :=
      match bbs with
      | [] => Ok (mkBB L B R T c)
      | x :: rest =>
          let L := lo (bl x) L in
          let B := lo (bb_ x) B in
          let R := hi (br x) R in
          let T := hi (bt x) T in
          if tag_ne c (bcrs x) then Err ECrs
          else bbox_union_loop L B R T c rest
      end.

    Definition bbox_union (bbs : list bbox) : res bbox :=
      match bbs with
      | [] => Err EValue  (* "Union of empty stream is undefined" *)
      | x :: rest => bbox_union_loop (bl x) (bb_ x) (br x) (bt x) (bcrs x) rest
      end.

    Fixpoint bbox_inter_loop (L B R T : A) (c : tag) (bbs : list bbox) : res bbox :=
      match bbs with
      | [] => Ok (mkBB L B R T c)
      | x :: rest =>
          let L := hi (bl x) L in
          let B := hi (bb_ x) B in
          let R := lo (br x) R in
          let T := lo (bt x) T in
          if tag_ne c (bcrs x) then Err ECrs
          else bbox_inter_loop L B R T c rest
      end.

    Definition bbox_intersection (bbs : list bbox) : res bbox :=
      match bbs with
      | [] => Err EValue
      | x :: rest => bbox_inter_loop (bl x) (bb_ x) (br x) (bt x) (bcrs x) rest
      end.
  End Box.
End Tagged.

Arguments mkBB {crs A} _ _ _ _ _.
Arguments bl {crs A} _.
Arguments bb_ {crs A} _.
Arguments br {crs A} _.
Arguments bt {crs A} _.
Arguments bcrs {crs A} _.
Arguments tag_ne {crs} _ _ _.
Arguments bbox_union {crs} _ {A} _ _ _.
Arguments bbox_intersection {crs} _ {A} _ _ _.
Arguments bbox_union_loop {crs} _ {A} _ _ _ _ _ _ _ _.
Arguments bbox_inter_loop {crs} _ {A} _ _ _ _ _ _ _ _.
