(** C18 — lazy initiation of the S3 multi-part upload by [DelayedS3Writer]
    (odc/geo/cog/_s3.py) as small-step transition systems over thread pools.

    One transition = one access to state shared between writers (a read or a
    write of [mpu.uploadId], taking / releasing the lock, a call of the S3
    client, an operation on the distributed variable) followed by the
    thread-local code up to the next such access.  These are exactly the points
    at which the scheduler of tools/vlib/sched.py parks the real threads.

    Two systems:
    - [l_*]: no dask.distributed client; all threads share one [mpu] object and
      the process-wide lock of [_mpu_local_lock] (_s3.py:269-276), including how that
      lock comes into being on first use (_s3.py:23-28: registry read, [Lock()],
      atomic [dict.setdefault]);
    - [c_*]: a distributed client is present; every worker has its own copy of
      [mpu] (its own [uploadId]), coordination goes through a global
      [distributed.Variable] and a global [distributed.Lock] (_s3.py:278-304).

    The S3 service is an oracle: [new_id k] is the UploadId returned by the
    (k+1)-th [create_multipart_upload]; theorems assume it is non-empty
    ([new_id k <> 0], the empty string being 0).  [_safe_get] is modelled as a
    read that returns the variable's value ([None] once deleted); its time-out
    path on a *set* variable is not modelled.

    [final_write] of [_ensure_init] is not modelled: both call sites
    (_s3.py:307, 312) use the default [False]. *)
From Coq Require Import ZArith List Bool Lia.
From OG Require Import Base.Result Base.Threads.
Import ListNotations.
Open Scope Z_scope.

(** what a thread asks the writer to do: [writer(part, data)] or
    [writer.finalise(parts)] with [nparts = len(parts)] *)
Inductive op := OWrite (part : Z) | OFinal (nparts : Z).

(** calls received by the S3 client *)
Inductive call :=
| KCreate (id : Z)
| KUpload (part id : Z)
| KComplete (id nparts : Z).

(** kind of shared access performed by a transition (what the scheduler observes) *)
Inductive label :=
| LGet | LSet            (* read / write of mpu.uploadId *)
| LAcq | LRel            (* lock *)
| LCreate | LUpload | LComplete   (* S3 client calls *)
| LVarGet | LVarSet | LVarDel     (* distributed.Variable *)
| LRegGet | LNewLock | LRegSet.   (* process-wide lock registry [_state]: read, Lock(), setdefault *)

Definition op_ok (o : op) : Prop := match o with OWrite _ => True | OFinal n => 0 < n end.
Definition opk (o : op) : bool := match o with OWrite _ => true | OFinal _ => false end.
Definition callk (c : call) : option bool :=
  match c with KCreate _ => None | KUpload _ _ => Some true | KComplete _ _ => Some false end.
Definition call_id (c : call) : Z :=
  match c with KCreate i => i | KUpload _ i => i | KComplete i _ => i end.
Definition body_call (o : op) (id : Z) : call :=
  match o with OWrite p => KUpload p id | OFinal n => KComplete id n end.
Definition body_label (o : op) : label :=
  match o with OWrite _ => LUpload | OFinal _ => LComplete end.

Definition bool_eqb (a b : bool) : bool := if a then b else negb b.
Definition count_ops (k : bool) (ops : list op) : nat :=
  length (filter (fun o => bool_eqb (opk o) k) ops).
Definition count_calls (k : bool) (log : list call) : nat :=
  length (filter (fun c => match callk c with Some k' => bool_eqb k' k | None => false end) log).
Definition count_creates (log : list call) : nat :=
  length (filter (fun c => match c with KCreate _ => true | _ => false end) log).

(* ====================================================================== *)
(** * Process-local path *)

Inductive lpc :=
| LpStarted              (* :265  if mpu.started                          [get] *)
| LpRegGet               (* :24   _mpu_local_lock: _state.get(k)          [registry read] *)
| LpNewLock              (* :28   Lock()                                  [lock creation] *)
| LpRegSet               (* :28   _state.setdefault("mpu_lock", <new>)    [registry write, atomic] *)
| LpAcquire              (* :271  with <the registered lock>:             [acquire] *)
| LpRecheck              (* :274  not mpu.started, lock held              [get] *)
| LpAssertInit           (* :111  assert self.uploadId == ""              [get] *)
| LpCreate               (* :114  s3.create_multipart_upload              [call] *)
| LpStore (id : Z)       (* :116  self.uploadId = uploadId                [set] *)
| LpRelease (e : option err)  (* leaving the with block (normally / by the assertion) [release] *)
| LpBodyAssert           (* :121 / :138  assert self.uploadId             [get] *)
| LpBodyRead             (* :127 / :143  UploadId=self.uploadId           [get] *)
| LpBodyCall (id : Z)    (* :122 upload_part / :140 complete_multipart_upload [call] *)
| LpDone
| LpErr (e : err).

Record lthread := mkLT { l_pc : lpc; l_cur : op; l_rest : list op }.
(** [l_reg]: the process-wide registry [_state] already holds the lock.  [dict.setdefault]
    is atomic in CPython (oracle contract): whichever thread stores first, every thread gets
    that one lock back, so the model has a single lock [l_lock]; a lock object created by a
    thread that lost the registration is simply dropped. *)
Record lshared := mkLS { l_uid : Z; l_lock : option nat; l_creates : nat; l_log : list call; l_reg : bool }.
Definition lstate := (lshared * list lthread)%type.

(** start the next call of the thread's program; [finalise([])] fails at once (:311) *)
Definition l_load (ops : list op) : lthread :=
  match ops with
  | [] => mkLT LpDone (OWrite 0) []
  | o :: r =>
      match o with
      | OWrite _ => mkLT LpStarted o r
      | OFinal n => if 0 <? n then mkLT LpStarted o r else mkLT (LpErr (EAssert 311)) o r
      end
  end.

(** [reg0]: the lock has been registered by an earlier use in this process *)
Definition l_init (reg0 : bool) (progs : list (list op)) : lstate :=
  (mkLS 0 None 0%nat [] reg0, map l_load progs).

Section Local.
  Variable new_id : nat -> Z.
  (** [recheck = true] is the current code (a4a8a1e); [false] the code before
      that fix, which entered [initiate] straight after taking the lock *)
  Variable recheck : bool.

  Definition l_step1 (t : nat) (sh : lshared) (th : lthread) : option (label * lshared * lthread) :=
    let goto pc := mkLT pc (l_cur th) (l_rest th) in
    let '(mkLS uid lock creates log reg) := sh in
    match l_pc th with
    | LpStarted => Some (LGet, sh, goto (if uid =? 0 then LpRegGet else LpBodyAssert))
    | LpRegGet => Some (LRegGet, sh, goto (if reg then LpAcquire else LpNewLock))
    | LpNewLock => Some (LNewLock, sh, goto LpRegSet)
    | LpRegSet => Some (LRegSet, mkLS uid lock creates log true, goto LpAcquire)
    | LpAcquire =>
        match lock with
        | None => Some (LAcq, mkLS uid (Some t) creates log reg, goto (if recheck then LpRecheck else LpAssertInit))
        | Some _ => None
        end
    | LpRecheck => Some (LGet, sh, goto (if uid =? 0 then LpAssertInit else LpRelease None))
    | LpAssertInit => Some (LGet, sh, goto (if uid =? 0 then LpCreate else LpRelease (Some (EAssert 111))))
    | LpCreate =>
        let id := new_id creates in
        Some (LCreate, mkLS uid lock (S creates) (KCreate id :: log) reg, goto (LpStore id))
    | LpStore id => Some (LSet, mkLS id lock creates log reg, goto (LpRelease None))
    | LpRelease e =>
        Some (LRel, mkLS uid None creates log reg,
              match e with None => goto LpBodyAssert | Some e => goto (LpErr e) end)
    | LpBodyAssert => Some (LGet, sh, goto (if uid =? 0 then LpErr (EAssert 121) else LpBodyRead))
    | LpBodyRead => Some (LGet, sh, goto (LpBodyCall uid))
    | LpBodyCall id =>
        Some (body_label (l_cur th), mkLS uid lock creates (body_call (l_cur th) id :: log) reg, l_load (l_rest th))
    | LpDone | LpErr _ => None
    end.

  Definition l_step (s : lstate) (t : nat) : option (label * lstate) :=
    match nth_error (snd s) t with
    | None => None
    | Some th =>
        match l_step1 t (fst s) th with
        | None => None
        | Some (lb, sh', th') => Some (lb, (sh', upd (snd s) t th'))
        end
    end.

  (** follow a schedule (list of thread ids); [None] if a selected thread is not enabled *)
  Fixpoint l_run (s : lstate) (sched : list nat) : option (list label * lstate) :=
    match sched with
    | [] => Some ([], s)
    | t :: r =>
        match l_step s t with
        | None => None
        | Some (lb, s') =>
            match l_run s' r with
            | None => None
            | Some (lbs, s'') => Some (lb :: lbs, s'')
            end
        end
    end.

  Inductive l_reach (reg0 : bool) (progs : list (list op)) : lstate -> Prop :=
  | l_reach_init : l_reach reg0 progs (l_init reg0 progs)
  | l_reach_step s t lb s' : l_reach reg0 progs s -> l_step s t = Some (lb, s') -> l_reach reg0 progs s'.
End Local.

Definition l_finished (th : lthread) : bool :=
  match l_pc th with LpDone | LpErr _ => true | _ => false end.
Definition l_failed (th : lthread) : bool :=
  match l_pc th with LpErr _ => true | _ => false end.
Definition l_all_done (s : lstate) : Prop := forall th, In th (snd s) -> l_pc th = LpDone.

(* ====================================================================== *)
(** * Cluster path (dask.distributed client present) *)

(** where a thread continues after releasing the distributed lock *)
Inductive ckont := KBody | KPost | KErr (e : err).

Inductive cpc :=
| CpStarted              (* :265  if mpu.started                          [get] *)
| CpVarGet1              (* :281  _safe_get(shared_state)                 [var get] *)
| CpSetUid1 (id : Z)     (* :285  mpu.uploadId = uploadId                 [set] *)
| CpAcquire              (* :289  with lock:                              [acquire] *)
| CpVarGet2              (* :290  _safe_get(shared_state), lock held      [var get] *)
| CpSetUid2 (id : Z)     (* :293  mpu.uploadId = uploadId                 [set] *)
| CpAssertInit           (* :111  assert self.uploadId == ""              [get] *)
| CpCreate               (* :114                                          [call] *)
| CpStore (id : Z)       (* :116                                          [set] *)
| CpReadForVar           (* :301  mpu.uploadId (argument)                 [get] *)
| CpVarSet (v : Z)       (* :301  shared_state.set(...)                   [var set] *)
| CpRelease (k : ckont)  (* leaving the with block                        [release] *)
| CpPostAssert           (* :303  assert mpu.started or final_write       [get] *)
| CpBodyAssert           (* :121 / :138                                   [get] *)
| CpBodyRead             (* :127 / :143                                   [get] *)
| CpBodyCall (id : Z)    (* :122 / :140                                   [call] *)
| CpDelete               (* :317 cleanup_client -> Variable.delete()      [var delete] *)
| CpDone
| CpErr (e : err).

Record cthread := mkCT { c_pc : cpc; c_wk : nat; c_cur : op; c_rest : list op }.
Record cshared := mkCS {
  c_uids : nat -> Z;        (* uploadId of each worker's copy of mpu *)
  c_var : option Z;         (* value of the distributed Variable (None: Python None, or deleted) *)
  c_deleted : bool;         (* Variable.delete() has happened *)
  c_lock : option nat;
  c_creates : nat;
  c_log : list call }.
Definition cstate := (cshared * list cthread)%type.

Definition c_load (w : nat) (ops : list op) : cthread :=
  match ops with
  | [] => mkCT CpDone w (OWrite 0) []
  | o :: r =>
      match o with
      | OWrite _ => mkCT CpStarted w o r
      | OFinal n => if 0 <? n then mkCT CpStarted w o r else mkCT (CpErr (EAssert 311)) w o r
      end
  end.

(** The distributed Variable is named after (bucket, key) only, so it is cluster state that
    survives between uploads to the same object: [v0] is whatever an earlier upload left in it
    (an upload that was abandoned before [finalise] never ran [cleanup_client]).
    [prep_client] (_s3.py:241-244, run by [MultiPartUpload.writer] when a client exists) resets
    it: [v.set(None)]. *)
Definition c_prep_client (v0 : option Z) : option Z := None.
(** what [prep_client] did before it reset the variable (seeded variant): it only bound it *)
Definition c_prep_client_noreset (v0 : option Z) : option Z := v0.

Definition c_init_var (var0 : option Z) (progs : list (nat * list op)) : cstate :=
  (mkCS (fun _ => 0) var0 false None 0%nat [], map (fun p => c_load (fst p) (snd p)) progs).

(** a thread is given as (worker it runs on, its program) *)
Definition c_init (progs : list (nat * list op)) : cstate := c_init_var None progs.

(** start of an upload on a cluster whose variable for this object holds [v0] *)
Definition c_init_after (v0 : option Z) (progs : list (nat * list op)) : cstate :=
  c_init_var (c_prep_client v0) progs.

Definition set_uid (uids : nat -> Z) (w : nat) (v : Z) : nat -> Z :=
  fun w' => if Nat.eqb w' w then v else uids w'.

Section Cluster.
  Variable new_id : nat -> Z.

  Definition c_step1 (t : nat) (sh : cshared) (th : cthread) : option (label * cshared * cthread) :=
    let w := c_wk th in
    let goto pc := mkCT pc w (c_cur th) (c_rest th) in
    let '(mkCS uids var del lock creates log) := sh in
    match c_pc th with
    | CpStarted => Some (LGet, sh, goto (if uids w =? 0 then CpVarGet1 else CpBodyAssert))
    | CpVarGet1 => Some (LVarGet, sh, goto (match var with Some id => CpSetUid1 id | None => CpAcquire end))
    | CpSetUid1 id => Some (LSet, mkCS (set_uid uids w id) var del lock creates log, goto CpBodyAssert)
    | CpAcquire =>
        match lock with
        | None => Some (LAcq, mkCS uids var del (Some t) creates log, goto CpVarGet2)
        | Some _ => None
        end
    | CpVarGet2 => Some (LVarGet, sh, goto (match var with Some id => CpSetUid2 id | None => CpAssertInit end))
    | CpSetUid2 id => Some (LSet, mkCS (set_uid uids w id) var del lock creates log, goto (CpRelease KBody))
    | CpAssertInit =>
        Some (LGet, sh, goto (if uids w =? 0 then CpCreate else CpRelease (KErr (EAssert 111))))
    | CpCreate =>
        let id := new_id creates in
        Some (LCreate, mkCS uids var del lock (S creates) (KCreate id :: log), goto (CpStore id))
    | CpStore id => Some (LSet, mkCS (set_uid uids w id) var del lock creates log, goto CpReadForVar)
    | CpReadForVar => Some (LGet, sh, goto (CpVarSet (uids w)))
    | CpVarSet v => Some (LVarSet, mkCS uids (Some v) del lock creates log, goto (CpRelease KPost))
    | CpRelease k =>
        Some (LRel, mkCS uids var del None creates log,
              match k with
              | KBody => goto CpBodyAssert
              | KPost => goto CpPostAssert
              | KErr e => goto (CpErr e)
              end)
    | CpPostAssert => Some (LGet, sh, goto (if uids w =? 0 then CpErr (EAssert 303) else CpBodyAssert))
    | CpBodyAssert => Some (LGet, sh, goto (if uids w =? 0 then CpErr (EAssert 121) else CpBodyRead))
    | CpBodyRead => Some (LGet, sh, goto (CpBodyCall (uids w)))
    | CpBodyCall id =>
        let sh' := mkCS uids var del lock creates (body_call (c_cur th) id :: log) in
        Some (body_label (c_cur th), sh',
              match c_cur th with OWrite _ => c_load w (c_rest th) | OFinal _ => goto CpDelete end)
    | CpDelete => Some (LVarDel, mkCS uids None true lock creates log, c_load w (c_rest th))
    | CpDone | CpErr _ => None
    end.

  Definition c_step (s : cstate) (t : nat) : option (label * cstate) :=
    match nth_error (snd s) t with
    | None => None
    | Some th =>
        match c_step1 t (fst s) th with
        | None => None
        | Some (lb, sh', th') => Some (lb, (sh', upd (snd s) t th'))
        end
    end.

  Fixpoint c_run (s : cstate) (sched : list nat) : option (list label * cstate) :=
    match sched with
    | [] => Some ([], s)
    | t :: r =>
        match c_step s t with
        | None => None
        | Some (lb, s') =>
            match c_run s' r with
            | None => None
            | Some (lbs, s'') => Some (lb :: lbs, s'')
            end
        end
    end.

  Inductive c_reach (progs : list (nat * list op)) : cstate -> Prop :=
  | c_reach_init : c_reach progs (c_init progs)
  | c_reach_step s t lb s' : c_reach progs s -> c_step s t = Some (lb, s') -> c_reach progs s'.
End Cluster.

Definition c_finished (th : cthread) : bool :=
  match c_pc th with CpDone | CpErr _ => true | _ => false end.
Definition c_failed (th : cthread) : bool :=
  match c_pc th with CpErr _ => true | _ => false end.
Definition c_all_done (s : cstate) : Prop := forall th, In th (snd s) -> c_pc th = CpDone.

(** the fake S3 client of the harness numbers its upload ids 1, 2, ... *)
Definition std_id (k : nat) : Z := Z.of_nat k + 1.
