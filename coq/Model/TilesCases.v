(** Correspondence cases for Model/Tiles.v: inputs given to the real classes and
    the canonicalised result they returned; [check] compares with the model. *)
From Coq Require Import ZArith List Bool.
From OG Require Import Base.Result Base.ListSel Base.Eqb Model.Roi Model.Tiles.
Import ListNotations.
Open Scope Z_scope.

Definition lz_eqb := list_eqb Z.eqb.
Definition roi_eqb := pair_eqb zz_eqb zz_eqb.
Definition chunks_eqb := pair_eqb lz_eqb lz_eqb.

(** canonical description of a RoiTiles object: its private state *)
Definition rt_desc (t : rtiles) : list Z :=
  match t with
  | RReg t => [0; fst (t_base t); snd (t_base t); fst (t_tile t); snd (t_tile t);
               fst (t_shape t); snd (t_shape t)]
  | RVar v => 1 :: v_offy v ++ (-1) :: v_offx v
  end.

Definition gbox_desc (g : gbox) : list Z := [g_oy g; g_ox g; g_ny g; g_nx g].

Definition how_t := ((Z * Z) + (list Z * list Z))%type.

Inductive case :=
(* any RoiTiles built by roi_tiles(base, how) *)
| CInit (base : Z * Z) (how : how_t) (expect : res (list Z))
| CInfo (base : Z * Z) (how : how_t) (shape : Z * Z) (rbase : res (Z * Z)) (chunks : res (list Z * list Z))
| CGet (base : Z * Z) (how : how_t) (idx : someslice * someslice) (expect : res ((Z * Z) * (Z * Z)))
| CTileShape (base : Z * Z) (how : how_t) (idx : Z * Z) (expect : res (Z * Z))
| CLocate (base : Z * Z) (how : how_t) (pix : Z * Z) (expect : res (Z * Z))
| CCrop (base : Z * Z) (how : how_t) (roi : someslice * someslice) (expect : res (list Z))
| CClip (base : Z * Z) (how : how_t) (sel : list (Z * Z))
        (expect : res (list Z * ((Z * Z) * (Z * Z)) * list (Z * Z)))
(* GeoboxTiles over a root GeoBox of shape [base] *)
| CGGet (base : Z * Z) (how : how_t) (idx : someslice * someslice) (expect : res (list Z))
| CGChunkShape (base : Z * Z) (how : how_t) (idx : Z * Z) (expect : res (Z * Z))
| CGChunks (base : Z * Z) (how : how_t) (expect : res (list Z * list Z))
| CGCrop (base : Z * Z) (how : how_t) (roi : someslice * someslice) (expect : res (list Z * list Z))
| CGCropGet (base : Z * Z) (how : how_t) (roi : someslice * someslice) (idx : someslice * someslice)
            (expect : res (list Z))
| CGClip (base : Z * Z) (how : how_t) (sel : list (Z * Z))
         (expect : res ((list Z * list Z) * list (Z * Z))).

Definition root (base : Z * Z) : gbox := {| g_oy := 0; g_ox := 0; g_ny := fst base; g_nx := snd base |}.

Definition rmap {A B} (f : A -> B) (r : res A) : res B :=
  match r with Ok a => Ok (f a) | Err e => Err e end.

Definition check (c : case) : bool :=
  match c with
  | CInit b h e => res_eqb lz_eqb (rmap rt_desc (roi_tiles b h)) e
  | CInfo b h sh rb ch =>
      match roi_tiles b h with
      | Ok t => zz_eqb (rt_shape t) sh && res_eqb zz_eqb (rt_base t) rb && res_eqb chunks_eqb (rt_chunks t) ch
      | Err _ => false
      end
  | CGet b h i e => res_eqb roi_eqb (t <- roi_tiles b h ;; rt_getitem t i) e
  | CTileShape b h i e => res_eqb zz_eqb (t <- roi_tiles b h ;; rt_tile_shape t i) e
  | CLocate b h p e => res_eqb zz_eqb (t <- roi_tiles b h ;; rt_locate t p) e
  | CCrop b h r e => res_eqb lz_eqb (t <- roi_tiles b h ;; rmap rt_desc (rt_crop t r)) e
  | CClip b h s e =>
      res_eqb (pair_eqb (pair_eqb lz_eqb roi_eqb) (list_eqb zz_eqb))
              (t <- roi_tiles b h ;;
               rmap (fun x => (rt_desc (fst (fst x)), snd (fst x), snd x)) (clip_tiles t s)) e
  | CGGet b h i e => res_eqb lz_eqb (g <- gbt_init (root b) h ;; rmap gbox_desc (gbt_getitem g i)) e
  | CGChunkShape b h i e => res_eqb zz_eqb (g <- gbt_init (root b) h ;; gbt_chunk_shape g i) e
  | CGChunks b h e => res_eqb chunks_eqb (g <- gbt_init (root b) h ;; gbt_chunks g) e
  | CGCrop b h r e =>
      res_eqb (pair_eqb lz_eqb lz_eqb)
              (g <- gbt_init (root b) h ;;
               rmap (fun g' => (gbox_desc (gb_box g'), rt_desc (gb_tiles g'))) (gbt_crop g r)) e
  | CGCropGet b h r i e =>
      res_eqb lz_eqb (g <- gbt_init (root b) h ;; g' <- gbt_crop g r ;; rmap gbox_desc (gbt_getitem g' i)) e
  | CGClip b h s e =>
      res_eqb (pair_eqb (pair_eqb lz_eqb lz_eqb) (list_eqb zz_eqb))
              (g <- gbt_init (root b) h ;;
               rmap (fun x => ((gbox_desc (gb_box (fst x)), rt_desc (gb_tiles (fst x))), snd x))
                    (gbt_clip g s)) e
  end.
