(** Correspondence cases for the C01 model (Model/CrsGate.v + the gates of Tagged.v and
    GridOps.v).  CRS objects are numbered 0..n-1 by the harness and [crs_eqb] is the
    equality matrix it MEASURED on the real objects ([CRS.__eq__], pyproj); raw shapely
    geometries and raw non-geometry results are numbered too (equal number = equal WKB /
    equal value), and each uninterpreted shapely function is instantiated by the finite
    table of the calls the harness made on the raw shapes (any other argument gives -1, so
    a model that passed the wrong shapes or the wrong order is detected). *)
From Coq Require Import ZArith QArith Qminmax List Bool.
From OG Require Import Base.Result Base.Eqb Base.Aff2 Model.Tagged Model.CrsGate Model.GridOps Model.GridOpsCases.
Import ListNotations.
Open Scope Z_scope.

Definition eqmat := list (list bool).
Definition mat_eqb (m : eqmat) (x y : Z) : bool :=
  nth (Z.to_nat y) (nth (Z.to_nat x) m []) false.

Definition gz := @geom Z Z.
Definition wz := @wres Z Z Z.

Definition gz_eqb (x y : gz) : bool := (ggeom x =? ggeom y) && opt_eqb Z.eqb (gtag x) (gtag y).
Definition wz_eqb (x y : wz) : bool :=
  match x, y with
  | WGeom a, WGeom b => gz_eqb a b
  | WRaw a, WRaw b => a =? b
  | _, _ => false
  end.

(* finite function tables *)
Definition tab2 := list ((Z * Z) * (Z + Z)).
Fixpoint look2 (t : tab2) (x y : Z) : Z + Z :=
  match t with
  | [] => inl (-1)
  | ((a, b), v) :: t' => if (a =? x) && (b =? y) then v else look2 t' x y
  end.
Definition tabl := list (list Z * Z).
Fixpoint lookl (t : tabl) (l : list Z) : Z :=
  match t with
  | [] => -1
  | (k, v) :: t' => if list_eqb Z.eqb k l then v else lookl t' l
  end.
Definition tabs := list ((Z * Z) * list Z).
Fixpoint looks (t : tabs) (x y : Z) : list Z :=
  match t with
  | [] => [-1]
  | ((a, b), v) :: t' => if (a =? x) && (b =? y) then v else looks t' x y
  end.

Definition truthy (w : wz) : bool := match w with WRaw r => negb (r =? 0) | WGeom _ => true end.

Definition dflt : tols := {| t_atol := (1 # 100000000)%Q; t_rtol := (1 # 100000)%Q; t_tol := (1 # 100000000)%Q |}.

Inductive case :=
| CBin (m : eqmat) (f : tab2) (a b : gz) (expect : res wz)
| CSplit (m : eqmat) (f : tabs) (self splitter : gz) (expect : res (list gz))
| CCommon (m : eqmat) (gs : list gz) (expect : res (option Z))
| CMulti (m : eqmat) (f : tabl) (gs : list gz) (expect : res gz)
| CUUnion (m : eqmat) (f : tabl) (gs : list gz) (expect : res (option gz))
| CUInter (m : eqmat) (f : tab2) (gs : list gz) (expect : res gz)
| CIntersects (m : eqmat) (fi ft : tab2) (a b : gz) (expect : res bool)
| CBoxU (m : eqmat) (bbs : list (@bbox Z Q)) (expect : res (@bbox Z Q))
| CBoxI (m : eqmat) (bbs : list (@bbox Z Q)) (expect : res (@bbox Z Q))
| CGPix (m : eqmat) (a b : gb) (expect : res (Q * Q))
| CGBip (m : eqmat) (a b : gb) (expect : res (@bbox Z Z))
| CGUnion (m : eqmat) (gs : list gb) (expect : res gb)
| CGInter (m : eqmat) (gs : list gb) (expect : res gb)
| CGOverlap (m : eqmat) (a b : gb) (expect : res ((Z * Z) * (Z * Z)))
| CGSnap (m : eqmat) (a b : gb) (expect : res gb).

Definition check (c : case) : bool :=
  match c with
  | CBin m f a b e => res_eqb wz_eqb (binop (mat_eqb m) (look2 f) a b) e
  | CSplit m f s p e => res_eqb (list_eqb gz_eqb) (split (mat_eqb m) (looks f) s p) e
  | CCommon m gs e => res_eqb (opt_eqb Z.eqb) (common_crs (mat_eqb m) gs) e
  | CMulti m f gs e => res_eqb gz_eqb (multigeom (mat_eqb m) (lookl f) gs) e
  | CUUnion m f gs e => res_eqb (opt_eqb gz_eqb) (unary_union (mat_eqb m) (lookl f) gs) e
  | CUInter m f gs e => res_eqb gz_eqb (unary_intersection (mat_eqb m) (look2 f) gs) e
  | CIntersects m fi ft a b e => res_eqb Bool.eqb (intersects2 (mat_eqb m) (look2 fi) (look2 ft) truthy a b) e
  | CBoxU m bbs e => res_eqb qbox_eqb (bbox_union (mat_eqb m) Qmin Qmax bbs) e
  | CBoxI m bbs e => res_eqb qbox_eqb (bbox_intersection (mat_eqb m) Qmin Qmax bbs) e
  | CGPix m a b e => res_eqb qq_eqb (pixel_translation (mat_eqb m) (t_atol dflt) (t_rtol dflt) a b) e
  | CGBip m a b e => res_eqb zbox_eqb (bbox_in_pix (mat_eqb m) (t_atol dflt) (t_rtol dflt) (t_tol dflt) a b) e
  | CGUnion m gs e => res_eqb gb_eqb (geobox_union (mat_eqb m) (t_atol dflt) (t_rtol dflt) (t_tol dflt) gs) e
  | CGInter m gs e => res_eqb gb_eqb (geobox_intersection (mat_eqb m) (t_atol dflt) (t_rtol dflt) (t_tol dflt) gs) e
  | CGOverlap m a b e =>
      res_eqb (pair_eqb zz_eqb zz_eqb)
        (overlap_roi (mat_eqb m) fixed (t_atol dflt) (t_rtol dflt) (t_tol dflt) a b) e
  | CGSnap m a b e => res_eqb gb_eqb (snap_to (mat_eqb m) (t_atol dflt) (t_rtol dflt) (t_tol dflt) a b) e
  end.
