(** Correspondence cases for C18: what the real code did under a given schedule
    (events observed by the scheduler, calls received by the fake S3 client,
    outcome of every thread), and what [MPUFileSink] / the limit accessors
    returned; [check] compares with the models. *)
From Coq Require Import ZArith List Bool.
From OG Require Import Base.Result Base.Eqb Base.Threads Model.S3Init Model.FileSink.
Import ListNotations.
Open Scope Z_scope.

Definition label_code (l : label) : Z :=
  match l with
  | LGet => 0 | LSet => 1 | LAcq => 2 | LRel => 3 | LCreate => 4 | LUpload => 5 | LComplete => 6
  | LVarGet => 7 | LVarSet => 8 | LVarDel => 9
  | LRegGet => 10 | LNewLock => 11 | LRegSet => 12
  end.
Definition label_eqb (a b : label) : bool := label_code a =? label_code b.

Definition call_eqb (a b : call) : bool :=
  match a, b with
  | KCreate i, KCreate j => i =? j
  | KUpload p i, KUpload q j => (p =? q) && (i =? j)
  | KComplete i n, KComplete j m => (i =? j) && (n =? m)
  | _, _ => false
  end.

(** outcome of a thread: 0 finished normally, [err_code] of the exception, -1 still running *)
Definition l_outcome (th : lthread) : Z :=
  match l_pc th with LpDone => 0 | LpErr e => err_code e | _ => -1 end.
Definition c_outcome (th : cthread) : Z :=
  match c_pc th with CpDone => 0 | CpErr e => err_code e | _ => -1 end.

Definition sink_state := (option bytes * bool * list (Z * bytes))%type.

Inductive case :=
| CLocal (recheck reg0 : bool) (progs : list (list op)) (sched : list Z)
         (labels : list label) (calls : list call) (outs : list Z) (creates : Z) (locked reg : bool)
| CCluster (stale : option Z) (progs : list (Z * list op)) (sched : list Z)
           (labels : list label) (calls : list call) (outs : list Z) (uids : list Z) (deleted : bool)
| CLocalP (reg0 : bool) (progs : list (list op)) (steps calls outs : list Z) (creates : Z) (locked reg : bool)
| CClusterP (stale : option Z) (progs : list (Z * list op)) (steps calls outs uids : list Z) (deleted : bool)
| CDisabled (cluster reg0 : bool) (progs : list (Z * list op)) (sched : list Z) (t : Z)
| CSink (empty_fails : bool) (pre : option bytes) (ws : list (Z * bytes)) (ps : list Z) (keep : bool) (expect : res sink_state)
| CLimits (l : limits) (expect : Z * Z * Z * Z)
| CS3Limits (expect : Z * Z * Z * Z).

(** Packed forms (the case files are then faster to type-check): a step is
    thread * 16 + label code; a client call is kind + 4 * (id + 16 * argument), ids below 16. *)
Definition label_of_code (c : Z) : label :=
  if c =? 0 then LGet else if c =? 1 then LSet else if c =? 2 then LAcq else if c =? 3 then LRel
  else if c =? 4 then LCreate else if c =? 5 then LUpload else if c =? 6 then LComplete
  else if c =? 7 then LVarGet else if c =? 8 then LVarSet else if c =? 9 then LVarDel
  else if c =? 10 then LRegGet else if c =? 11 then LNewLock else LRegSet.

Definition call_of_code (c : Z) : call :=
  let kind := c mod 4 in
  let id := (c / 4) mod 16 in
  let arg := c / 64 in
  if kind =? 0 then KCreate id else if kind =? 1 then KUpload arg id else KComplete id arg.

Definition bytes_eqb := list_eqb Z.eqb.

Definition parts_eqb (model expect : list (Z * bytes)) : bool :=
  (Nat.eqb (length model) (length expect)) &&
  forallb (fun kv => opt_eqb bytes_eqb (assoc_get (fst kv) model) (Some (snd kv))) expect.

Definition sink_state_eqb (f : fs) (e : sink_state) : bool :=
  let '(dst, dir, parts) := e in
  opt_eqb bytes_eqb (f_dst f) dst && Bool.eqb (f_dir f) dir && parts_eqb (f_parts f) parts.

Definition z4_eqb (a b : Z * Z * Z * Z) : bool :=
  let '(a1, a2, a3, a4) := a in let '(b1, b2, b3, b4) := b in
  (a1 =? b1) && (a2 =? b2) && (a3 =? b3) && (a4 =? b4).

(** thread and worker ids are written as integers in the case files *)
Definition nats (l : list Z) : list nat := map Z.to_nat l.
Definition wprogs (l : list (Z * list op)) : list (nat * list op) :=
  map (fun p => (Z.to_nat (fst p), snd p)) l.

Fixpoint check_fuel (fuel : nat) (c : case) : bool :=
  match c with
  | CLocalP reg0 progs steps calls outs creates locked reg =>
      match fuel with
      | O => false
      | S f => check_fuel f (CLocal true reg0 progs (map (fun z => z / 16) steps)
                                    (map (fun z => label_of_code (z mod 16)) steps)
                                    (map call_of_code calls) outs creates locked reg)
      end
  | CClusterP stale progs steps calls outs uids deleted =>
      match fuel with
      | O => false
      | S f => check_fuel f (CCluster stale progs (map (fun z => z / 16) steps)
                                      (map (fun z => label_of_code (z mod 16)) steps)
                                      (map call_of_code calls) outs uids deleted)
      end
  | CLocal recheck reg0 progs sched labels calls outs creates locked reg =>
      match l_run std_id recheck (l_init reg0 progs) (nats sched) with
      | None => false
      | Some (lbs, s) =>
          list_eqb label_eqb lbs labels &&
          list_eqb call_eqb (rev (l_log (fst s))) calls &&
          list_eqb Z.eqb (map l_outcome (snd s)) outs &&
          (Z.of_nat (l_creates (fst s)) =? creates) &&
          Bool.eqb (match l_lock (fst s) with Some _ => true | None => false end) locked &&
          Bool.eqb (l_reg (fst s)) reg
      end
  | CCluster stale progs sched labels calls outs uids deleted =>
      (* [stale]: content of the shared variable left by an earlier upload, before prep_client *)
      match c_run std_id (c_init_after stale (wprogs progs)) (nats sched) with
      | None => false
      | Some (lbs, s) =>
          list_eqb label_eqb lbs labels &&
          list_eqb call_eqb (rev (c_log (fst s))) calls &&
          list_eqb Z.eqb (map c_outcome (snd s)) outs &&
          list_eqb Z.eqb (map (c_uids (fst s)) (seq 0 (length uids))) uids &&
          Bool.eqb (c_deleted (fst s)) deleted
      end
  | CDisabled cluster reg0 progs sched t =>
      (* after [sched] thread [t] is NOT enabled (finished or waiting for the lock) *)
      if cluster then
        match c_run std_id (c_init (wprogs progs)) (nats sched) with
        | None => false
        | Some (_, s) => match c_step std_id s (Z.to_nat t) with None => true | Some _ => false end
        end
      else
        match l_run std_id true (l_init reg0 (map snd progs)) (nats sched) with
        | None => false
        | Some (_, s) => match l_step std_id true s (Z.to_nat t) with None => true | Some _ => false end
        end
  | CSink empty_fails pre ws ps keep expect =>
      (* [pre]: content of a destination file that exists before anything is written *)
      match sink_finalise empty_fails keep
              (fold_left (fun f w => sink_write f (fst w) (snd w)) ws (mkFS pre false [])) ps, expect with
      | Ok f, Ok e => sink_state_eqb f e
      | Err e1, Err e2 => err_code e1 =? err_code e2
      | _, _ => false
      end
  | CLimits l e => z4_eqb (fs_min_write_sz l, fs_max_write_sz l, fs_min_part l, fs_max_part l) e
  | CS3Limits e => z4_eqb (s3_min_write_sz, s3_max_write_sz, s3_min_part, s3_max_part) e
  end.

Definition check (c : case) : bool := check_fuel 1 c.
