(** Model of odc.geo.math.Bin1D (math.py:568-637) and odc.geo.gridspec.GridSpec
    (gridspec.py), statement by statement, floats as exact rationals.
    Hand-written; tied to the code by the C14 correspondence harness
    (tools/props/c14.py).  Oracles (shapely [disjoint], CRS conversion of a
    query polygon and its bounding box) are function parameters. *)
From Coq Require Import ZArith QArith Qround Qabs List Bool.
From OG Require Import Base.Result Base.QMinMax Base.ZRange.
Import ListNotations.
Open Scope Q_scope.


(** * Bin1D *)
Record bin1d := mkBin { b_sz : Q; b_origin : Q; b_dir : Z }.

(** Bin1D.__init__: [assert direction in (-1, 1)], [assert sz > 0] *)
Definition bin_new (sz origin : Q) (dir : Z) : res bin1d :=
  if negb ((dir =? -1)%Z || (dir =? 1)%Z) then Err (EAssert 601)
  else if negb (Qlt_bool 0 sz) then Err (EAssert 602)
  else Ok (mkBin sz origin dir).

(** Bin1D.__getitem__: [_x = idx*sz*direction + origin; return _x, _x + sz] *)
Definition bin_getitem (b : bin1d) (idx : Z) : Q * Q :=
  let x := inject_Z idx * b_sz b * inject_Z (b_dir b) + b_origin b in
  (x, x + b_sz b).

(** Bin1D.bin: [ix = floor((x - origin)/sz); return int(direction*ix)] *)
Definition bin_bin (b : bin1d) (x : Q) : Z :=
  (b_dir b * Qfloor ((x - b_origin b) / b_sz b))%Z.

(** Bin1D.from_sample_bin *)
Definition bin_from_sample (idx : Z) (x0 x1 : Q) (dir : Z) : res bin1d :=
  if negb (Qlt_bool x0 x1) then Err (EAssert 633)
  else
    let sz := x1 - x0 in
    let origin := x0 - sz * inject_Z idx * inject_Z dir in
    bin_new sz origin dir.

(** * GridSpec *)
Record gridspec := mkGS {
  g_ny : Z; g_nx : Z;           (* tile shape in pixels *)
  g_ry : Q; g_rx : Q;           (* resolution *)
  g_ox : Q; g_oy : Q;           (* origin *)
  g_tsx : Q; g_tsy : Q;         (* tile_size *)
  g_xbin : bin1d; g_ybin : bin1d
}.

Definition flipdir (flip : bool) : Z := if flip then (-1)%Z else 1%Z.

(** GridSpec.__init__ (the CRS is not modelled: it is carried unchanged) *)
Definition gs_new (ny nx : Z) (ry rx : Q) (ox oy : Q) (flipx flipy : bool) : res gridspec :=
  let tsx := inject_Z nx * Qabs rx in
  let tsy := inject_Z ny * Qabs ry in
  ybin <- bin_new tsy oy (flipdir flipy) ;;
  xbin <- bin_new tsx ox (flipdir flipx) ;;
  Ok (mkGS ny nx ry rx ox oy tsx tsy xbin ybin).

(** GridSpec.pt2idx -> (ix, iy) *)
Definition pt2idx (g : gridspec) (x y : Q) : Z * Z :=
  (bin_bin (g_xbin g) x, bin_bin (g_ybin g) y).

(** GridSpec._tile_txy: location of pixel (0,0) of the tile *)
Definition tile_txy (g : gridspec) (idx : Z * Z) : Q * Q :=
  let '(ix, iy) := idx in
  let '(x0, x1) := bin_getitem (g_xbin g) ix in
  let tx := if Qlt_bool 0 (g_rx g) then x0 else x1 in
  let '(y0, y1) := bin_getitem (g_ybin g) iy in
  let ty := if Qlt_bool 0 (g_ry g) then y0 else y1 in
  (tx, ty).

(** A GeoBox with a diagonal affine [Affine(sx, 0, tx, 0, sy, ty)]. *)
Record gbox := mkGbox { gb_ny : Z; gb_nx : Z; gb_sx : Q; gb_tx : Q; gb_sy : Q; gb_ty : Q }.

(** GridSpec.tile_geobox *)
Definition tile_geobox (g : gridspec) (idx : Z * Z) : gbox :=
  let '(tx, ty) := tile_txy g idx in
  mkGbox (g_ny g) (g_nx g) (g_rx g) tx (g_ry g) ty.

(** GeoBox.boundingbox = BoundingBox.from_transform(shape, affine): the four
    corners (0,0) (nx,0) (nx,ny) (0,ny) through the affine, then min/max. *)

Definition gbox_bbox (b : gbox) : Q * Q * Q * Q :=
  let px (x : Z) := gb_sx b * inject_Z x + gb_tx b in
  let py (y : Z) := gb_sy b * inject_Z y + gb_ty b in
  let nx := gb_nx b in let ny := gb_ny b in
  (min4 (px 0%Z) (px nx) (px nx) (px 0%Z), min4 (py 0%Z) (py 0%Z) (py ny) (py ny),
   max4 (px 0%Z) (px nx) (px nx) (px 0%Z), max4 (py 0%Z) (py 0%Z) (py ny) (py ny)).

(** GridSpec.idx_bounds; [tol] is the constant 1e-8 of the source. *)
Definition idx_bounds (g : gridspec) (tol : Q) (bounds : Q * Q * Q * Q) : Z * Z * Z * Z :=
  let '(x1, y1, x2, y2) := bounds in
  let '(ix1, iy1) := pt2idx g (x1 + tol) (y1 + tol) in
  let '(ix2, iy2) := pt2idx g (x2 - tol) (y2 - tol) in
  let '(ix1, ix2) := (Z.min ix1 ix2, Z.max ix1 ix2) in
  let '(iy1, iy2) := (Z.min iy1 iy2, Z.max iy1 iy2) in
  (ix1, iy1, ix2 + 1, iy2 + 1)%Z.


(** GridSpec.tiles: the indices in iteration order (iy outer, ix inner) *)
Definition tiles (g : gridspec) (tol : Q) (bounds : Q * Q * Q * Q) : list (Z * Z) :=
  let '(ix1, iy1, ix2, iy2) := idx_bounds g tol bounds in
  flat_map (fun iy => map (fun ix => (ix, iy)) (zrange ix1 ix2)) (zrange iy1 iy2).

(** GridSpec.tiles_from_geopolygon.  Oracles: [bbox_of p] = bounding box of the
    polygon converted to the grid CRS, [disjoint p b] = "no overlap": shapely's
    [geopolygon.disjoint(extent) or geopolygon.touches(extent)] of the tile extent
    (tiles sharing only boundary points with the query are dropped). *)
Definition tiles_from_geopolygon {P : Type} (bbox_of : P -> Q * Q * Q * Q)
           (disjoint : P -> gbox -> bool) (g : gridspec) (tol : Q) (p : P) : list (Z * Z) :=
  filter (fun idx => negb (disjoint p (tile_geobox g idx))) (tiles g tol (bbox_of p)).

(** GridSpec.from_sample_tile; [bbox] is [box.boundingbox] (oracle: shapely bounds). *)
Definition from_sample_tile (bbox : Q * Q * Q * Q) (ny nx : Z) (ix iy : Z) (flipx flipy : bool)
  : res gridspec :=
  if ((ny =? -1) && (nx =? -1))%Z then Err EValue
  else
    let '(x0, y0, x1, y1) := bbox in
    xbin <- bin_from_sample ix x0 x1 (flipdir flipx) ;;
    ybin <- bin_from_sample iy y0 y1 (flipdir flipy) ;;
    if ((ny =? 0) || (nx =? 0))%Z then Err EOther (* ZeroDivisionError *)
    else
      let ry := - b_sz ybin / inject_Z ny in
      let rx := b_sz xbin / inject_Z nx in
      gs_new ny nx ry rx (b_origin xbin) (b_origin ybin) flipx flipy.

(** GridSpec.web_tiles; [h] stands for pi*R (an opaque positive constant). *)
Definition web_tiles (h : Q) (zoom npix : Z) : res gridspec :=
  let tsz := h * Qpower 2 (1 - zoom) in
  let x := - h in
  let y := h in
  (* geom.box(x, y - tsz, x + tsz, y).boundingbox *)
  let bbox := (qmin x (x + tsz), qmin (y - tsz) y, qmax x (x + tsz), qmax (y - tsz) y) in
  from_sample_tile bbox npix npix 0 0 false true.
