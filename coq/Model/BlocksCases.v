(** Correspondence cases for Model/Blocks.v. *)
From Coq Require Import ZArith List Bool.
From OG Require Import Base.Result Base.ListSel Base.Eqb Model.Roi Model.Tiles Model.TilesCases Model.Blocks.
Import ListNotations.
Open Scope Z_scope.

(** all indices of an array of the given shape, C order *)
Definition iota_z (n : Z) : list Z := map Z.of_nat (seq 0 (Z.to_nat n)).
Fixpoint ndindex (sh : list Z) : list (list Z) :=
  match sh with
  | [] => [[]]
  | n :: r => flat_map (fun i => map (cons i) (ndindex r)) (iota_z n)
  end.

(** the value the harness stores in block [key] at extra index [e] and block-local (y, x) *)
Definition dotZ (e : list Z) : Z := fold_left (fun acc v => acc * 7 + v) e 0.
Definition block_val (key : Z * Z) (e : list Z) (y x : Z) : Z :=
  1 + fst key * 3 + snd key * 5 + 100 * (y * 40 + x) + 1000000 * dotZ e.

Definition mk_block (chy chx : list Z) (key : Z * Z) : (Z * Z) * arr Z :=
  (key, Build_arr (nthZ chy (fst key), nthZ chx (snd key)) (block_val key)).

Definition add_starts (starts e : list Z) : list Z :=
  (fix go (a b : list Z) := match a, b with
                            | x :: a', y :: b' => (x + y) :: go a' b'
                            | _, _ => []
                            end) starts e.

Definition flatten_arr (eshape : list Z) (a : arr Z) : list Z :=
  flat_map (fun e =>
    flat_map (fun y => map (fun x => a_at a e y x) (iota_z (snd (a_sh a)))) (iota_z (fst (a_sh a))))
    (ndindex eshape).

Definition roi_list_eqb := list_eqb zz_eqb.

Definition dtype_eqb (a b : dtype) : bool :=
  match a, b with
  | DU x, DU y | DI x, DI y | DF x, DF y => x =? y
  | _, _ => false
  end.

Inductive case :=
| CBInit (bl : list ((Z * Z) * list Z)) (chy chx : list Z) (axis : Z) (expect : res (list Z))
| CBNorm (bl : list ((Z * Z) * list Z)) (chy chx : list Z) (axis : Z) (roi : option (list someslice))
         (expect : res (list (Z * Z) * list Z))
| CBOutShape (bl : list ((Z * Z) * list Z)) (chy chx : list Z) (axis : Z) (roi : option (list someslice))
             (expect : res (list Z))
| CBExtract (chy chx : list Z) (keys : list (Z * Z)) (estarts eshape : list Z)
            (w : (Z * Z) * (Z * Z)) (fill : Z) (expect : res (list Z))
| CBDtype (dts : list dtype) (f : fill_kind) (expect_init expect_extract : dtype)
| CBDtypeReq (dts : list dtype) (f : fill_kind) (req : option dtype) (expect_extract : dtype).

Definition check (c : case) : bool :=
  match c with
  | CBInit bl chy chx ax e => res_eqb lz_eqb (rmap ba_shape (ba_init bl chy chx ax)) e
  | CBNorm bl chy chx ax roi e =>
      res_eqb (pair_eqb roi_list_eqb lz_eqb) (a <- ba_init bl chy chx ax ;; ba_norm_roi a roi) e
  | CBOutShape bl chy chx ax roi e =>
      res_eqb lz_eqb (a <- ba_init bl chy chx ax ;; rmap snd (ba_plan a roi)) e
  | CBExtract chy chx keys es esh w fill e =>
      res_eqb lz_eqb
              (t <- vt_init chy chx ;;
               rmap (flatten_arr esh)
                    (extract_yx (fun v => v) (add_starts es) t (map (mk_block chy chx) keys) fill w)) e
  | CBDtype dts f e1 e2 =>
      dtype_eqb (ba_dtype dts) e1 && dtype_eqb (ba_extract_dtype (ba_dtype dts) f) e2
  | CBDtypeReq dts f req e => dtype_eqb (ba_extract_dtype_opt (ba_dtype dts) req f) e
  end.
