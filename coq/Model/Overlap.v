(** Model of odc/geo/overlap.py (reprojection planning) and of the helpers of
    odc/geo/math.py it uses, over exact rationals.  Hand-written statement by
    statement; tied to the code by the C03/C10 correspondence harnesses
    (tools/props/c03.py, tools/props/c10.py).

    The model follows the code AFTER the three repairs made for C03/C10:
      - [_can_paste] rejects an axis scale exactly [stol] away from the integer;
      - [compute_reproject_roi] treats [align=0] as "no alignment";
      - [roi_boundary] samples in float64 (so integer pixel coordinates are exact);
      - [_relative_rois] aligns the source region only when the un-aligned padded envelope meets the image. *)
From Coq Require Import ZArith QArith Qround Qabs List Bool Lia.
From OG Require Import Base.Result Model.Roi.
Import ListNotations.
Open Scope Q_scope.

(** * comparisons *)
Definition Qltb (x y : Q) : bool := negb (Qle_bool y x).
Definition Qminq (x y : Q) : Q := if Qltb y x then y else x.     (* Python min(x, y) *)
Definition half : Q := 1 # 2.

(** * odc.geo.math *)
(** C [fmod(x, 1)]: truncated remainder, sign of [x]. *)
Definition Qtrunc (x : Q) : Z := if Qltb x 0 then Qceiling x else Qfloor x.
Definition fmod1 (x : Q) : Q := x - inject_Z (Qtrunc x).

(** math.split_float (finite input) -> (whole, part) *)
Definition split_float (x : Q) : Q * Q :=
  let part := fmod1 x in
  let whole := x - part in
  if Qltb half part then (whole + 1, part - 1)
  else if Qltb part (- half) then (whole - 1, part + 1)
  else (whole, part).

(** math.maybe_int; [None] = "returned the argument itself" (needed by snap_scale's [is] test) *)
Definition maybe_int_opt (x tol : Q) : option Z :=
  let '(whole, part) := split_float x in
  if Qltb (Qabs part) tol then Some (Qtrunc whole) else None.
Definition maybe_int (x tol : Q) : Q :=
  match maybe_int_opt x tol with Some z => inject_Z z | None => x end.

(** math.is_almost_int *)
Definition is_almost_int (x tol : Q) : bool :=
  let x1 := Qabs (fmod1 x) in
  let x2 := if Qltb half x1 then 1 - x1 else x1 in
  Qltb x2 tol.

(** math.snap_scale *)
Definition snap_scale (s tol : Q) : Q :=
  if Qle_bool (1 - tol) (Qabs s) then maybe_int s tol
  else if Qltb (Qabs s) tol then s
  else
    let s_inv := 1 / s in
    match maybe_int_opt s_inv tol with
    | None => s
    | Some z => 1 / inject_Z z
    end.

(** affine.Affine: x' = a x + b y + c, y' = d x + e y + f *)
Record affine := mkAff { aa : Q; ab : Q; ac : Q; ad : Q; ae : Q; af : Q }.

Definition aff_apply (A : affine) (p : Q * Q) : Q * Q :=
  (aa A * fst p + ab A * snd p + ac A, ad A * fst p + ae A * snd p + af A).

(** [Affine.scale(k, k) * A] *)
Definition aff_scale_left (k : Q) (A : affine) : affine :=
  mkAff (k * aa A) (k * ab A) (k * ac A) (k * ad A) (k * ae A) (k * af A).

(** math.is_affine_st *)
Definition is_affine_st (A : affine) (tol : Q) : bool :=
  Qltb (Qabs (ab A)) tol && Qltb (Qabs (ad A)) tol.

(** math.snap_affine *)
Definition snap_affine (A : affine) (ttol stol tol : Q) : affine :=
  if Qltb tol (Qabs (ab A)) || Qltb tol (Qabs (ad A)) then A
  else mkAff (snap_scale (aa A) stol) 0 (maybe_int (ac A) ttol)
             0 (snap_scale (ae A) stol) (maybe_int (af A) ttol).

(** Square roots: exact when the argument is the square of a rational. *)
Definition exact_sqrt (x : Q) : option Q :=
  let r := Qred x in
  let n := Qnum r in
  let d := Zpos (Qden r) in
  if (n <? 0)%Z then None
  else
    let rn := Z.sqrt n in
    let rd := Z.sqrt d in
    if ((rn * rn =? n) && (rd * rd =? d))%Z then Some (rn # Z.to_pos rd) else None.

(** overlap.get_scale_from_linear_transform = |diag| of the Cholesky factor of A^T A
    (math.decompose_rws): sx = sqrt(a^2+d^2), sy = sqrt(b^2+e^2 - l21^2),
    l21 = (ab+de)/sx.  [Err EOther]: singular matrix (numpy LinAlgError) or an
    irrational root (outside the exact model).  Without rotation/shear the roots
    are |a| and |e| (sqrt(x^2) = |x|). *)
Definition scale2 (A : affine) : res (Q * Q) :=
  let a := aa A in let b := ab A in let d := ad A in let e := ae A in
  if Qeq_bool b 0 && Qeq_bool d 0 then
    if Qeq_bool a 0 || Qeq_bool e 0 then Err EOther else Ok (Qabs a, Qabs e)
  else
    match exact_sqrt (a * a + d * d) with
    | None => Err EOther
    | Some sx =>
        if Qeq_bool sx 0 then Err EOther
        else
          let l21 := (a * b + d * e) / sx in
          match exact_sqrt (b * b + e * e - l21 * l21) with
          | None => Err EOther
          | Some sy => if Qeq_bool sy 0 then Err EOther else Ok (sx, sy)
          end
    end.

(** * odc.geo.overlap *)
(** compute_axis_overlap for s > 0 (after the flip) -> (in_src, out_src, in_dst, out_dst) *)
Definition axis_core (Ns Nd : Z) (s t : Q) : Z * Z * Z * Z :=
  let s_ := 1 / s in
  let t_ := - t * s_ in
  let '(in_s, in_d) :=
    if Qltb t 0 then (0%Z, Z.min (Qfloor t_) Nd) else (Z.min (Qfloor t) Ns, 0%Z) in
  let a := Qceiling (inject_Z Nd * s + t) in
  let '(out_s, out_d) :=
    if (a <=? Ns)%Z then (Z.max a 0, Nd)
    else (Ns, Z.max 0 (Qceiling (inject_Z Ns * s_ + t_))) in
  (in_s, out_s, in_d, out_d).

(** compute_axis_overlap -> ((src.start, src.stop), (dst.start, dst.stop)) *)
Definition axis_overlap (Ns Nd : Z) (s t : Q) : res ((Z * Z) * (Z * Z)) :=
  let flip := Qltb s 0 in
  let s1 := if flip then - s else s in
  let t1 := if flip then inject_Z Ns - t else t in
  if negb (Qltb 0 s1) then Err (EAssert 259)
  else
    let '(in_s, out_s, in_d, out_d) := axis_core Ns Nd s1 t1 in
    let src := if flip then ((Ns - out_s)%Z, (Ns - in_s)%Z) else (in_s, out_s) in
    Ok (src, (in_d, out_d)).

Definition roi2 : Type := (Z * Z) * (Z * Z).      (* ((y0,y1),(x0,x1)) *)
Definition shape2 : Type := (Z * Z)%type.         (* (ny, nx) *)

(** box_overlap -> (src_roi, dst_roi) *)
Definition box_overlap (src_shape dst_shape : shape2) (ST : affine) : res (roi2 * roi2) :=
  '(s0, d0) <- axis_overlap (fst src_shape) (fst dst_shape) (ae ST) (af ST) ;;
  '(s1, d1) <- axis_overlap (snd src_shape) (snd dst_shape) (aa ST) (ac ST) ;;
  Ok ((s0, s1), (d0, d1)).

(** _pick_read_scale *)
Definition pick_read_scale (scale tol : Q) : res Z :=
  if negb (Qltb 0 scale) then Err (EAssert 341)
  else if Qltb scale 1 then Ok 1%Z
  else Ok (Qtrunc (maybe_int scale tol)).

(** constants of the code that are not arguments *)
Record consts := mkConsts {
  c_st : Q;     (* is_affine_st tol = 1e-10 *)
  c_snap : Q;   (* snap_affine tol = 1e-8 *)
  c_rs : Q      (* _pick_read_scale tol = 1e-3 *)
}.

(** _can_paste -> reason code: 0 = (True, None), 1 = rotation or shear,
    2 = non-integer scale, 3 = "sx!=sy, probably", 4 = sub-pixel translation *)
Definition can_paste_code (c : consts) (A : affine) (stol ttol : Q) : res Z :=
  if negb (is_affine_st A (c_st c)) then Ok 1%Z
  else
    '(sx, sy) <- scale2 A ;;
    let scale := Qminq sx sy in
    if negb (is_almost_int scale stol) then Ok 2%Z
    else
      read_scale <- pick_read_scale scale (c_rs c) ;;
      let A_ := aff_scale_left (1 / inject_Z read_scale) A in
      if Qle_bool stol (Qabs (Qabs (aa A_) - 1)) || Qle_bool stol (Qabs (Qabs (ae A_) - 1)) then Ok 3%Z
      else if negb (is_almost_int (ac A_) ttol && is_almost_int (af A_) ttol) then Ok 4%Z
      else Ok 0%Z.

Definition can_paste (c : consts) (A : affine) (stol ttol : Q) : res bool :=
  code <- can_paste_code c A stol ttol ;; Ok (code =? 0)%Z.

(** numpy.linspace(a, b, n): end points exact, interior a + i*step *)
Definition linspace (a b : Z) (n : nat) : list Q :=
  match n with
  | O => []
  | S O => [inject_Z a]
  | S (S m) =>
      let step := inject_Z (b - a) / inject_Z (Z.of_nat (S m)) in
      inject_Z a :: map (fun i => inject_Z (Z.of_nat i) * step + inject_Z a) (seq 1 m) ++ [inject_Z b]
  end.

(** roi.roi_boundary (polygon_path(xx, yy, closed=False)): X,Y points, top row,
    right column, bottom row reversed, left column reversed *)
Definition boundary_pts (roi : roi2) (n : nat) : list (Q * Q) :=
  let '((y0, y1), (x0, x1)) := roi in
  let xs := linspace x0 x1 n in
  let ys := linspace y0 y1 n in
  let xf := hd 0 xs in let xl := last xs 0 in
  let yf := hd 0 ys in let yl := last ys 0 in
  map (fun x => (x, yf)) xs
  ++ map (fun y => (xl, y)) (tl ys)
  ++ map (fun x => (x, yl)) (tl (rev xs))
  ++ map (fun y => (xf, y)) (removelast (tl (rev ys))).

Definition roi_empty (r : roi2) : bool :=
  let '((y0, y1), (x0, x1)) := r in ((y1 - y0 <=? 0) || (x1 - x0 <=? 0))%Z.

(** A point transform: [None] = a non-finite result. *)
Definition ptrans : Type := Q * Q -> option (Q * Q).

(** _relative_rois: [back] maps dst pixels to src pixels, [fwd] the other way. *)
Definition relative_rois (back fwd : ptrans) (src_shape dst_shape : shape2)
           (n : nat) (padding : Z) (align : option Z) : roi2 * roi2 :=
  let pts := map back (boundary_pts ((0%Z, fst dst_shape), (0%Z, snd dst_shape)) n) in
  (* without alignment first; aligned only when the padded envelope meets the image (repair of the
     "alignment re-enters a disjoint image" defect) *)
  let roi_0 := roi_from_points pts (fst src_shape) (snd src_shape) padding None in
  let roi_s := match align with
               | Some _ => if roi_empty roi_0 then roi_0
                           else roi_from_points pts (fst src_shape) (snd src_shape) padding align
               | None => roi_0
               end in
  if roi_empty roi_s then (roi_s, ((0%Z, 0%Z), (0%Z, 0%Z)))
  else
    let pts2 := map fwd (boundary_pts roi_s n) in
    (roi_s, roi_from_points pts2 (fst dst_shape) (snd dst_shape) 0 None).

Record rinfo := mkInfo {
  roi_src : roi2;
  roi_dst : roi2;
  paste_ok : bool;
  read_shrink : Z;
  scale : Q;
  scale_xy : Q * Q
}.

Definition opt_in0 (x : option Z) : bool :=      (* x in (None, 0) *)
  match x with None => true | Some v => (v =? 0)%Z end.

Definition norm_align (align : option Z) : option Z :=
  match align with Some 0%Z => None | other => other end.

(** GeoBox.compute_zoom_out(factor).shape for an integer factor *)
Definition zoom_out_dim (n k : Z) : Z := Z.max 1 (Qceiling (inject_Z n / inject_Z k)).

Definition aff_pt (A : affine) : ptrans := fun p => Some (aff_apply A p).

(** the transform handed to box_overlap on the paste path (exposed for the theorems) *)
Definition paste_affine (c : consts) (A : affine) (ttol stol : Q) (k : Z) : affine :=
  if (k =? 1)%Z then snap_affine A ttol stol (c_snap c)
  else snap_affine (aff_scale_left (1 / inject_Z k) A) ttol stol (c_snap c).

(** compute_reproject_roi, same CRS: [A] = tr.back.linear (dst -> src),
    [F] = tr.linear (src -> dst). *)
Definition reproject_linear (c : consts) (src_shape dst_shape : shape2) (A F : affine)
           (ttol stol : Q) (padding align : option Z) : res rinfo :=
  let align := norm_align align in
  '(sx, sy) <- scale2 A ;;
  let scale := Qminq sx sy in
  k <- pick_read_scale scale (c_rs c) ;;
  let tight_ok := opt_in0 align && opt_in0 padding in
  ok <- (if tight_ok then can_paste c A stol ttol else Ok false) ;;
  if ok then
    if (k =? 1)%Z then
      '(rs, rd) <- box_overlap src_shape dst_shape (paste_affine c A ttol stol k) ;;
      Ok (mkInfo rs rd true k scale (sx, sy))
    else
      let shp := (zoom_out_dim (fst src_shape) k, zoom_out_dim (snd src_shape) k) in
      '(rs, rd) <- box_overlap shp dst_shape (paste_affine c A ttol stol k) ;;
      Ok (mkInfo (scaled_up_slice (fst rs) k None, scaled_up_slice (snd rs) k None) rd true k scale (sx, sy))
  else
    let padding := match padding with None => 1%Z | Some p => p end in
    let '(rs, rd) := relative_rois (aff_pt A) (aff_pt F) src_shape dst_shape 2 padding align in
    Ok (mkInfo rs rd false k scale (sx, sy)).

(** compute_reproject_roi, different CRS: the point transform and the local
    scale estimate ([get_scale_at_point], a least-squares fit through PROJ) are
    oracles. *)
Definition reproject_nonlinear (c : consts) (back fwd : ptrans) (scale_at : Q * Q -> res (Q * Q))
           (src_shape dst_shape : shape2) (padding align : option Z) : res rinfo :=
  let align := norm_align align in
  let padding := match padding with None => 1%Z | Some p => p end in
  let '(rs, rd) := relative_rois back fwd src_shape dst_shape 5 padding align in
  if negb (roi_empty rd) then
    let '((y0, y1), (x0, x1)) := rd in
    let center := (inject_Z (x0 + x1) * half, inject_Z (y0 + y1) * half) in
    '(sx, sy) <- scale_at center ;;
    let scale := Qminq sx sy in
    k <- pick_read_scale scale (c_rs c) ;;
    Ok (mkInfo rs rd false k scale (sx, sy))
  else Ok (mkInfo rs rd false 1%Z 0 (0, 0)).

(** index of the source element that [dst[dst_sl] = src[src_sl]] (reversed when
    the axis is mirrored) copies to destination position [d] *)
Definition paste_index (src dst : Z * Z) (flip : bool) (d : Z) : Z :=
  if flip then (snd src - 1 - (d - fst dst))%Z else (fst src + (d - fst dst))%Z.
