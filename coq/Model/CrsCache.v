(** Model of the module-level caches of odc/geo/crs.py and of the CRS value
    built on them (C19, part a).

    Anchors: crs.py:40-87 ([_crs_cache], [_make_crs_key], [_make_crs] under
    [cachetools.cached] with a plain dict, the transformer cache keyed by
    [(id, id, always_xy)]), CRS.__init__ (100-122), __getstate__/__setstate__
    (124-128), to_epsg (147-153), __eq__ (252-271, after the repair of the
    lazily identified EPSG short-cut), transformer_to_crs (303-336).

    What is modelled, statement by statement:
    - a heap of live pyproj CRS objects [id |-> srs].  A pyproj CRS object is
      immutable and fully determined by its [srs] string (pyproj/crs/crs.py,
      CRS.__init__: the C object is built from [self.srs]); ids (CPython
      addresses) are handed out by an allocator the model does not choose: an
      operation that creates an object carries the observed id [nid], and the
      only requirement is that [nid] is not the id of a live object.  An
      object dies as soon as nothing references it (reference counting; the
      pyproj objects are not part of cycles), after which its id may be reused.
    - [_crs_cache] as an association list in insertion order (newest first)
      with CPython's dict key equivalence: equal hash and ([is] or [==]).  Keys
      are Python strings or pyproj CRS objects; a pyproj CRS hashes as its
      default WKT text and compares equal to any user input that parses to an
      equal CRS.
    - the transformer cache, keyed by object identities.
    - texts are interned integers; CPython string operations and pyproj are
      oracles (record [oracle], a [Section] variable). *)
From Coq Require Import ZArith List Bool Lia.
From OG Require Import Base.Result.
Import ListNotations.
Open Scope Z_scope.

Definition text := Z.

(** Oracles: CPython [str] methods used by the code and the pyproj library. *)
Record oracle := mkOracle {
  o_upper : text -> text;            (* str.upper() *)
  o_is_epsg : text -> bool;          (* s.startswith("EPSG:") *)
  o_code : text -> Z;                (* int(s[5:]) when s[5:].isdigit(), else 0: a compound "EPSG:h+v" string is not a
                                        single code and the code leaves [_epsg] as it was (0 is EPSG_UNSET anyway) *)
  o_epsg_text : Z -> text;           (* f"EPSG:{n}" *)
  o_prep : text -> option text;      (* pyproj.CRS.from_user_input(s).srs; None = CRSError *)
  o_wkt : text -> text;              (* obj.to_wkt() (default version): what hash(obj) hashes *)
  o_peq : text -> text -> bool;      (* pyproj [==] of two CRS objects given by their srs *)
  o_to_epsg : text -> option Z       (* obj.to_epsg() *)
}.

(** dict keys of [_crs_cache] *)
Inductive key := KStr (t : text) | KObj (id : Z) (srs : text).

(** cached tuple [(crs, crs_str, epsg)]; [e_srs] is the content of the pyproj object [e_id] *)
Record entry := mkEntry { e_id : Z; e_srs : text; e_str : text; e_epsg : Z }.

(** a [CRS] instance: slots [_crs] (object id + its content), [_str], [_epsg]
    ([Some 0] = EPSG_UNSET, [None] = Python None, [Some n] = code) *)
Record crsv := mkCrs { c_id : Z; c_srs : text; c_str : text; c_epsg : option Z }.

Definition tkey := (Z * Z * bool)%type.
(** what a cached pyproj Transformer converts: (source srs, target srs, always_xy) *)
Definition tdesc := (text * text * bool)%type.

Record state := mkState {
  heap : list (Z * text);              (* live pyproj CRS objects *)
  cache : list (key * entry);          (* _crs_cache, newest first *)
  tcache : list (tkey * tdesc);        (* cache of _make_crs_transform, newest first *)
  vars : list (option crsv);           (* CRS instances held by the user, by variable index *)
  pys : list (option (Z * text))       (* pyproj CRS objects held by the user *)
}.

Definition init : state := mkState [] [] [] [] [].

Definition with_heap st h := mkState h (cache st) (tcache st) (vars st) (pys st).
Definition with_cache st c := mkState (heap st) c (tcache st) (vars st) (pys st).
Definition with_tcache st t := mkState (heap st) (cache st) t (vars st) (pys st).
Definition with_vars st v := mkState (heap st) (cache st) (tcache st) v (pys st).
Definition with_pys st p := mkState (heap st) (cache st) (tcache st) (vars st) p.

(** argument of [_make_crs] *)
Inductive mspec := MStr (t : text) | MInt (n : Z) | MObj (id : Z) (srs : text).

(** argument of [CRS(...)] *)
Inductive spec :=
| SpInt (n : Z)            (* CRS(4326) *)
| SpStr (t : text)         (* CRS("epsg:4326"), CRS(wkt), ... *)
| SpDict (j : text)        (* CRS(projjson_dict); j = json.dumps(dict) *)
| SpPyNew (t : text)       (* CRS(pyproj.CRS.from_user_input(t)), temporary pyproj object *)
| SpPy (i : nat)           (* CRS(p) for a pyproj object the user holds *)
| SpCrs (i : nat)          (* CRS(c) for a CRS instance the user holds *)
| SpPickle (i : nat).      (* pickle.loads(pickle.dumps(c)) *)

Inductive op :=
| OpNewPy (t : text) (nid : Z)       (* p = pyproj.CRS.from_user_input(t); id(p) = nid *)
| OpCRS (s : spec) (nid : Z)         (* v = CRS(spec); a pyproj object created on the way gets id nid *)
| OpToEpsg (i : nat)                 (* vars[i].to_epsg() *)
| OpEq (i j : nat)                   (* vars[i] == vars[j] *)
| OpDropCrs (i : nat)                (* del vars[i] *)
| OpDropPy (i : nat)                 (* del pys[i] *)
| OpGc                               (* gc.collect() *)
| OpTransformer (i j : nat) (xy : bool).   (* vars[i].transformer_to_crs(vars[j], always_xy=xy) *)

Inductive out :=
| OCrs (v : crsv) | OId (id : Z) | OEpsg (e : option Z) | OBool (b : bool) | OTr (d : tdesc) | ONone.

Definition crs_of_entry (e : entry) : crsv := mkCrs (e_id e) (e_srs e) (e_str e) (Some (e_epsg e)).

Definition truthy (e : option Z) : bool := match e with Some n => negb (n =? 0) | None => false end.
Definition oz_eqb (a b : option Z) : bool :=
  match a, b with Some x, Some y => x =? y | None, None => true | _, _ => false end.

Section Model.
  Variable W : oracle.

  (** crs.py:43-54 [_make_crs_key] (the [to_wkt()] fall-back for unhashable CRS-like objects is out of scope) *)
  Definition make_key (sp : mspec) : key :=
    match sp with
    | MStr t => let u := o_upper W t in if o_is_epsg W u then KStr u else KStr t
    | MInt n => KStr (o_epsg_text W n)
    | MObj id srs => KObj id srs
    end.

  (** CPython dict key matching: [hash(stored) == hash(probe) and (stored is probe or stored == probe)] *)
  Definition key_hash (k : key) : text := match k with KStr t => t | KObj _ s => o_wkt W s end.
  Definition obj_eq_str (srs t : text) : bool :=
    match o_prep W t with Some s' => o_peq W srs s' | None => false end.
  Definition key_eqb (stored probe : key) : bool :=
    (key_hash stored =? key_hash probe) &&
    match stored, probe with
    | KStr a, KStr b => a =? b
    | KStr a, KObj _ s => obj_eq_str s a
    | KObj _ s, KStr b => obj_eq_str s b
    | KObj i s, KObj j s' => (i =? j) || o_peq W s s'
    end.

  Fixpoint cache_get (c : list (key * entry)) (k : key) : option entry :=
    match c with
    | [] => None
    | (k', e) :: r => if key_eqb k' k then Some e else cache_get r k
    end.

  (** crs.py:72-80: [crs_str = str(crs)] is the srs; EPSG-like strings are upper-cased, and give the code when
      what follows "EPSG:" is all digits *)
  Definition norm_entry (id : Z) (srs : text) (epsg0 : Z) : entry :=
    let u := o_upper W srs in
    if o_is_epsg W u then mkEntry id srs u (if o_code W u =? 0 then epsg0 else o_code W u)
    else mkEntry id srs srs epsg0.

  Definition heap_has (h : list (Z * text)) (id : Z) : bool := existsb (fun p => fst p =? id) h.

  (** the allocator may hand out any id that is not the id of a live object *)
  Definition alloc (st : state) (id : Z) (srs : text) : res state :=
    if heap_has (heap st) id then Err (EAssert 1) else Ok (with_heap st ((id, srs) :: heap st)).

  (** crs.py:57-78 under cachetools.cached (no lock): look up, else compute and store *)
  Definition make_crs (st : state) (sp : mspec) (nid : Z) : res (state * entry) :=
    let k := make_key sp in
    match cache_get (cache st) k with
    | Some e => Ok (st, e)
    | None =>
        match sp with
        | MStr t =>
            match o_prep W t with
            | None => Err ERuntime
            | Some srs =>
                st1 <- alloc st nid srs ;;
                let e := norm_entry nid srs 0 in
                Ok (with_cache st1 ((k, e) :: cache st1), e)
            end
        | MInt n =>
            match o_prep W (o_epsg_text W n) with
            | None => Err ERuntime
            | Some srs =>
                st1 <- alloc st nid srs ;;
                let e := norm_entry nid srs n in
                Ok (with_cache st1 ((k, e) :: cache st1), e)
            end
        | MObj id srs =>
            let e := norm_entry id srs 0 in
            Ok (with_cache st ((k, e) :: cache st), e)
        end
    end.

  (** reference counting: everything not reachable from the caches or the user's variables dies *)
  Definition key_ids (k : key) : list Z := match k with KStr _ => [] | KObj i _ => [i] end.
  Definition cache_ids (c : list (key * entry)) : list Z :=
    flat_map (fun ke => e_id (snd ke) :: key_ids (fst ke)) c.
  Definition var_ids (vs : list (option crsv)) : list Z :=
    flat_map (fun o => match o with Some v => [c_id v] | None => [] end) vs.
  Definition py_ids (ps : list (option (Z * text))) : list Z :=
    flat_map (fun o => match o with Some p => [fst p] | None => [] end) ps.
  Definition roots (st : state) : list Z := cache_ids (cache st) ++ var_ids (vars st) ++ py_ids (pys st).
  Definition is_root (st : state) (id : Z) : bool := existsb (Z.eqb id) (roots st).
  Definition sweep (st : state) : state :=
    with_heap st (filter (fun p => is_root st (fst p)) (heap st)).

  Definition get_var (st : state) (i : nat) : res crsv :=
    match nth_error (vars st) i with Some (Some v) => Ok v | _ => Err EIndex end.
  Definition get_py (st : state) (i : nat) : res (Z * text) :=
    match nth_error (pys st) i with Some (Some p) => Ok p | _ => Err EIndex end.

  Fixpoint set_nth {A} (l : list A) (i : nat) (x : A) : list A :=
    match l with
    | [] => []
    | a :: r => match i with O => x :: r | S i' => a :: set_nth r i' x end
    end.

  (** crs.py:100-128 CRS.__init__ / __setstate__ *)
  Definition crs_new (st : state) (s : spec) (nid : Z) : res (state * crsv) :=
    match s with
    | SpInt n => r <- make_crs st (MInt n) nid ;; Ok (fst r, crs_of_entry (snd r))
    | SpStr t => r <- make_crs st (MStr t) nid ;; Ok (fst r, crs_of_entry (snd r))
    | SpDict t | SpPyNew t =>
        match o_prep W t with
        | None => Err ERuntime
        | Some srs =>
            st1 <- alloc st nid srs ;;
            r <- make_crs st1 (MObj nid srs) nid ;;
            Ok (fst r, crs_of_entry (snd r))
        end
    | SpPy i =>
        p <- get_py st i ;;
        r <- make_crs st (MObj (fst p) (snd p)) nid ;;
        Ok (fst r, crs_of_entry (snd r))
    | SpCrs i => v <- get_var st i ;; Ok (st, v)
    | SpPickle i =>
        v <- get_var st i ;;
        r <- make_crs st (MStr (c_str v)) nid ;;
        Ok (fst r, crs_of_entry (snd r))
    end.

  (** crs.py:252-271 CRS.__eq__ between two CRS instances (repaired: known codes only decide a mismatch) *)
  Definition crs_eq (a b : crsv) : bool :=
    if c_id a =? c_id b then true
    else if truthy (c_epsg a) && truthy (c_epsg b) && negb (oz_eqb (c_epsg a) (c_epsg b)) then false
    else if c_str a =? c_str b then true
    else o_peq W (c_srs a) (c_srs b).

  (** crs.py:252-271 as it was before the repair (kept for the refutation theorem) *)
  Definition crs_eq_v0 (a b : crsv) : bool :=
    if c_id a =? c_id b then true
    else if truthy (c_epsg a) && truthy (c_epsg b) then oz_eqb (c_epsg a) (c_epsg b)
    else if c_str a =? c_str b then true
    else o_peq W (c_srs a) (c_srs b).

  (** crs.py:147-153 *)
  Definition to_epsg (v : crsv) : crsv :=
    if oz_eqb (c_epsg v) (Some 0) then mkCrs (c_id v) (c_srs v) (c_str v) (o_to_epsg W (c_srs v)) else v.

  Definition tk_eqb (a b : tkey) : bool :=
    (fst (fst a) =? fst (fst b)) && (snd (fst a) =? snd (fst b)) && Bool.eqb (snd a) (snd b).
  Fixpoint tc_get (c : list (tkey * tdesc)) (k : tkey) : option tdesc :=
    match c with
    | [] => None
    | (k', d) :: r => if tk_eqb k' k then Some d else tc_get r k
    end.

  Definition step (st : state) (o : op) : res (state * out) :=
    match o with
    | OpNewPy t nid =>
        match o_prep W t with
        | None => Err ERuntime
        | Some srs => st1 <- alloc st nid srs ;; Ok (with_pys st1 (pys st1 ++ [Some (nid, srs)]), OId nid)
        end
    | OpCRS s nid =>
        r <- crs_new st s nid ;;
        Ok (sweep (with_vars (fst r) (vars (fst r) ++ [Some (snd r)])), OCrs (snd r))
    | OpToEpsg i =>
        v <- get_var st i ;;
        let v' := to_epsg v in
        Ok (with_vars st (set_nth (vars st) i (Some v')), OEpsg (c_epsg v'))
    | OpEq i j =>
        a <- get_var st i ;; b <- get_var st j ;; Ok (st, OBool (crs_eq a b))
    | OpDropCrs i => _ <- get_var st i ;; Ok (sweep (with_vars st (set_nth (vars st) i None)), ONone)
    | OpDropPy i => _ <- get_py st i ;; Ok (sweep (with_pys st (set_nth (pys st) i None)), ONone)
    | OpGc => Ok (sweep st, ONone)
    | OpTransformer i j xy =>
        a <- get_var st i ;; b <- get_var st j ;;
        let k := (c_id a, c_id b, xy) in
        match tc_get (tcache st) k with
        | Some d => Ok (st, OTr d)
        | None =>
            (* Transformer.from_crs(a._crs, b._crs, always_xy): built from the two objects passed *)
            let d := (c_srs a, c_srs b, xy) in
            Ok (with_tcache st ((k, d) :: tcache st), OTr d)
        end
    end.

  (** a history: operations that raise leave the state unchanged and are skipped *)
  Fixpoint run (st : state) (h : list op) : state :=
    match h with
    | [] => st
    | o :: r => match step st o with Ok (st', _) => run st' r | Err _ => run st r end
    end.

  (** observable string form / hash / dask token of a CRS instance all derive from [_str]
      (crs.py:243-247, 338-339: [hash(self._str)], [("odc.geo.crs.CRS", str(self))]) *)
  Definition crs_hashkey (v : crsv) : text := c_str v.
  Definition crs_token (v : crsv) : text := c_str v.

  (** what [CRS(spec)] gives when nothing was cached before *)
  Definition fresh_str (srs : text) : text :=
    let u := o_upper W srs in if o_is_epsg W u then u else srs.
End Model.

(** * Oracle contracts assumed by the theorems (each validated on the run's texts by tools/props/c19.py) *)
Record contracts (W : oracle) : Prop := mkContracts {
  k_refl : forall a, o_peq W a a = true;
  k_sym : forall a b, o_peq W a b = true -> o_peq W b a = true;
  k_trans : forall a b c, o_peq W a b = true -> o_peq W b c = true -> o_peq W a c = true;
  k_upper_idem : forall t, o_upper W (o_upper W t) = o_upper W t;
  (* "EPSG:x".upper() still starts with "EPSG:" *)
  k_epsg_upper : forall t, o_is_epsg W t = true -> o_is_epsg W (o_upper W t) = true;
  (* f"EPSG:{n}" is upper case, starts with "EPSG:" and int() of its tail is n *)
  k_etext : forall n r, o_prep W (o_epsg_text W n) = Some r ->
                      o_is_epsg W (o_epsg_text W n) = true /\ o_upper W (o_epsg_text W n) = o_epsg_text W n /\
                      o_code W (o_epsg_text W n) = n;
  (* pyproj keeps an authority string as its srs ... *)
  k_prep_epsg : forall t r, o_is_epsg W (o_upper W t) = true -> o_prep W t = Some r -> r = t;
  (* ... and reads it case-insensitively *)
  k_prep_upper : forall t, o_is_epsg W (o_upper W t) = true -> o_prep W t = Some t ->
                           o_prep W (o_upper W t) = Some (o_upper W t) /\ o_peq W t (o_upper W t) = true;
  (* from_user_input(obj.srs).srs == obj.srs *)
  k_prep_idem : forall t r, o_prep W t = Some r -> o_prep W r = Some r;
  (* to_epsg of "EPSG:n" is n *)
  k_toepsg_code : forall s, o_is_epsg W (o_upper W s) = true -> o_code W (o_upper W s) <> 0 -> o_prep W s = Some s ->
                            o_to_epsg W s = Some (o_code W (o_upper W s));
  (* an accepted single-code authority string is spelled f"EPSG:{code}" up to letter case *)
  k_code_text : forall s, o_is_epsg W (o_upper W s) = true -> o_code W (o_upper W s) <> 0 -> o_prep W s = Some s ->
                          o_upper W s = o_epsg_text W (o_code W (o_upper W s));
  (* pyproj-equal objects are not identified with two different EPSG codes *)
  k_toepsg_peq : forall a b n m, o_peq W a b = true -> o_to_epsg W a = Some n -> o_to_epsg W b = Some m ->
                                 n <> 0 -> m <> 0 -> n = m
}.

Section Specs.
  Variable W : oracle.

  (** specifications that do not refer to objects made earlier in the history *)
  Definition closed (s : spec) : bool :=
    match s with SpInt _ | SpStr _ | SpDict _ | SpPyNew _ => true | _ => false end.

  (** the srs of the pyproj object pyproj builds for a closed specification *)
  Definition spec_srs (s : spec) : option text :=
    match s with
    | SpInt n => o_prep W (o_epsg_text W n)
    | SpStr t | SpDict t | SpPyNew t => o_prep W t
    | _ => None
    end.

  (** what [_make_crs] is called with *)
  Definition spec_mspec (s : spec) (nid : Z) (srs : text) : mspec :=
    match s with SpInt n => MInt n | SpStr t => MStr t | _ => MObj nid srs end.

  (** operations whose cache key is a string *)
  Definition strkey_op (o : op) : bool :=
    match o with
    | OpCRS (SpDict _) _ | OpCRS (SpPyNew _) _ | OpCRS (SpPy _) _ => false
    | _ => true
    end.

  (** the [_str] every entry stored under the string key [t] has *)
  Definition str_of_key (t : text) : text :=
    if o_is_epsg W t then t else match o_prep W t with Some r => fresh_str W r | None => t end.

  (** [_epsg] is unset or what pyproj reports for the object *)
  Definition epsg_ok (v : crsv) : Prop := c_epsg v = Some 0 \/ c_epsg v = o_to_epsg W (c_srs v).
End Specs.
