(** Correspondence cases for the C07 model: each constructor carries the inputs
    given to the real function and the canonicalised result it returned (floats as
    exact rationals); [check] compares with the model. *)
From Coq Require Import ZArith QArith List Bool.
From OG Require Import Base.Result Base.Eqb Model.Densify.
Import ListNotations.
Open Scope Q_scope.

Definition pt_eqb (p q : pt) : bool := Qeq_bool (fst p) (fst q) && Qeq_bool (snd p) (snd q).

Definition mkind_eqb (a b : mkind) : bool :=
  match a, b with
  | MLine, MLine | MPolygon, MPolygon | MCollection, MCollection => true
  | _, _ => false
  end.

Fixpoint geom_eqb (a b : geom) {struct a} : bool :=
  match a, b with
  | Point p, Point q => pt_eqb p q
  | MultiPoint x, MultiPoint y => list_eqb pt_eqb x y
  | Line x, Line y => list_eqb pt_eqb x y
  | Ring x, Ring y => list_eqb pt_eqb x y
  | Polygon e hs, Polygon e' hs' => list_eqb pt_eqb e e' && list_eqb (list_eqb pt_eqb) hs hs'
  | Multi k ps, Multi k' qs =>
      mkind_eqb k k' &&
      (fix go (l1 l2 : list geom) {struct l1} : bool :=
         match l1, l2 with
         | [], [] => true
         | x :: l1', y :: l2' => geom_eqb x y && go l1' l2'
         | _, _ => false
         end) ps qs
  | _, _ => false
  end.

(** pyproj's outputs, point by point, as a finite table; a vertex that is not in
    the table maps to a sentinel, which can never equal an observed result *)
Definition sentinel : pt := ((-987654321987654321 # 7), (123456789123456789 # 11)).
Fixpoint lookup (tab : list (pt * pt)) (p : pt) : pt :=
  match tab with
  | [] => sentinel
  | (k, v) :: tab' => if pt_eqb k p then v else lookup tab' p
  end.

Inductive case :=
(* oracle contracts: shapely LineString([p1,p2]).length and .interpolate(d) *)
| CLength (p1 p2 : pt) (expect : Q)
| CInterp (p1 p2 : pt) (d : Q) (expect : pt)
(* densify(coords, resolution), Geometry.segmented(resolution) *)
| CDensify (cs : list pt) (r : Q) (expect : res (list pt))
| CSegmented (g : geom) (r : Q) (expect : res geom)
(* shapely .area, .length and _auto_resolution *)
| CArea (g : geom) (expect : Q)
| CAuto (g : geom) (expect : Q)
| CGeomLength (g : geom) (expect : Q)
(* Geometry.to_crs: CRS objects as equivalence-class numbers of CRS.__eq__, pyproj as a table,
   [geo] = target.geographic, [valid] = is_valid of the projected geometry;
   expected: None = returned self, Some (g, crs) otherwise *)
| CToCrs (src : option Z) (g : geom) (dst : option Z) (rs : resolution) (wrap cf geo valid : bool)
         (tab : list (pt * pt)) (expect : res (option (geom * Z))).

Definition tc_eqb (a : tc_result Z) (b : option (geom * Z)) : bool :=
  match a, b with
  | Same, None => true
  | Fresh g c, Some (g', c') => geom_eqb g g' && (c =? c')%Z
  | _, _ => false
  end.

Definition res_eqb2 {A B} (eqb : A -> B -> bool) (x : res A) (y : res B) : bool :=
  match x, y with
  | Ok a, Ok b => eqb a b
  | Err e1, Err e2 => (err_code e1 =? err_code e2)%Z
  | _, _ => false
  end.

Definition check (c : case) : bool :=
  match c with
  | CLength p1 p2 e =>
      match exact_sqrt (sqdist p1 p2) with Some L => Qeq_bool L e | None => false end
  | CInterp p1 p2 d e =>
      match exact_sqrt (sqdist p1 p2) with Some L => pt_eqb (interpolate p1 p2 L d) e | None => false end
  | CDensify cs r e => res_eqb (list_eqb pt_eqb) (densify cs r) e
  | CSegmented g r e => res_eqb geom_eqb (segmented r g) e
  | CArea g e => Qeq_bool (geom_area g) e
  | CAuto g e => res_eqb Qeq_bool (auto_resolution exact_sqrt g) (Ok e)
  | CGeomLength g e => opt_eqb Qeq_bool (geom_length exact_sqrt g) (Some e)
  | CToCrs src g dst rs wrap cf geo valid tab e =>
      res_eqb2 tc_eqb
        (to_crs_gen Z Z.eqb (fun _ => geo) (fun _ _ => lookup tab) (fun _ => valid)
                    (fun x => x) (fun x => x) (fun x => x)
                    repaired exact_sqrt src g dst rs wrap cf) e
  end.
