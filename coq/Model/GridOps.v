(** Model of the GeoBox / BoundingBox set operations (property C16), written
    statement by statement after

      odc/geo/geobox.py  pixel_translation, bounding_box_in_pixel_domain,
                         geobox_union_conservative, geobox_intersection_conservative,
                         GeoBox.overlap_roi, GeoBox.enclosing, GeoBox.snap_to
      odc/geo/geom.py    bbox_union, bbox_intersection (Model/Tagged.v), BoundingBox.round
      odc/geo/math.py    split_float, maybe_zero, is_almost_int

    Floats are exact rationals; [numpy.isclose(a, b)] is written out as
    [|a - b| <= atol + rtol * |b|] with [atol], [rtol] parameters (fed with the
    binary64 values of 1e-8 and 1e-5); the tolerances [tol] of
    [bounding_box_in_pixel_domain] and of [maybe_zero] in [snap_to] are
    parameters too.  Python exceptions: [ValueError] = [EValue],
    [affine.TransformNotInvertibleError] = [EOther]. *)
From Coq Require Import ZArith QArith Qround Qabs Qminmax List Bool.
From OG Require Import Base.Result Base.Aff2 Model.Tagged.
Import ListNotations.
Open Scope Q_scope.

(** ** scalar helpers *)
Definition Qltb (x y : Q) : bool := negb (Qle_bool y x).

(* numpy.isclose(a, b, rtol, atol) for finite values *)
Definition isclose (atol rtol a b : Q) : bool := Qle_bool (Qabs (a - b)) (atol + rtol * Qabs b).

(* math.fmod(x, 1.0) = x - trunc(x): same sign as x *)
Definition Qtrunc (x : Q) : Z := if Qle_bool 0 x then Qfloor x else Qceiling x.
Definition fmod1 (x : Q) : Q := x - inject_Z (Qtrunc x).

(* odc.geo.math.is_almost_int *)
Definition is_almost_int (x tol : Q) : bool :=
  let r := Qabs (fmod1 x) in
  let r := if Qltb (1 # 2) r then 1 - r else r in
  Qltb r tol.

(* Python's round(float) -> int: round half to even *)
Definition py_round (x : Q) : Z :=
  let f := Qfloor x in
  let r := x - inject_Z f in
  if Qltb r (1 # 2) then f
  else if Qltb (1 # 2) r then (f + 1)%Z
  else if Z.even f then f else (f + 1)%Z.

(* odc.geo.math.split_float: (whole, fraction), fraction in [-1/2, 1/2] *)
Definition split_float (x : Q) : Q * Q :=
  let x_part := fmod1 x in
  let x_whole := x - x_part in
  if Qltb (1 # 2) x_part then (x_whole + 1, x_part - 1)
  else if Qltb x_part (- (1 # 2)) then (x_whole - 1, x_part + 1)
  else (x_whole, x_part).

(* odc.geo.math.maybe_zero *)
Definition maybe_zero (x tol : Q) : Q := if Qltb (Qabs x) tol then 0 else x.

Fixpoint mapM {A B} (f : A -> res B) (l : list A) : res (list B) :=
  match l with
  | [] => Ok []
  | a :: l' => b <- f a ;; bs <- mapM f l' ;; Ok (b :: bs)
  end.

(** which repairs of the pinned code are in effect ([fixed] = the current tree) *)
Record fixes := { fx_roi_clamp : bool }.
Definition fixed : fixes := {| fx_roi_clamp := true |}.

Section Grid.
  Variable crs : Type.
  Variable crs_eqb : crs -> crs -> bool.

  (** GeoBox: shape (ny, nx), pixel->world affine, CRS tag *)
  Record geobox := mkGB { gny : Z; gnx : Z; gaff : aff; gcrs : tag crs }.

  Definition zbox := @bbox crs Z.
  Definition qbox := @bbox crs Q.

  (** pixel_translation(a, b): translation part of [~b.affine * a.affine] once its
      linear part is close to the identity *)
  Definition pixel_translation (atol rtol : Q) (a b : geobox) : res (Q * Q) :=
    if tag_ne crs_eqb (gcrs a) (gcrs b) then Err EValue          (* "Geobox CRSs must match" *)
    else if Qeq_bool (aff_det (gaff b)) 0 then Err EOther         (* ~b.affine: not invertible *)
    else
      let m := aff_mul (aff_inv (gaff b)) (gaff a) in
      if isclose atol rtol (aa m) 1 && isclose atol rtol (ab m) 0
         && isclose atol rtol (ad m) 0 && isclose atol rtol (ae m) 1
      then Ok (ac m, af m)
      else Err EValue.                                            (* "Incompatible grids" *)

  (** bounding_box_in_pixel_domain(geobox, reference, tol) *)
  Definition bbox_in_pix (atol rtol tol : Q) (g ref : geobox) : res zbox :=
    t <- pixel_translation atol rtol g ref ;;
    if is_almost_int (fst t) tol && is_almost_int (snd t) tol then
      let tx := py_round (fst t) in
      let ty := py_round (snd t) in
      Ok (mkBB tx ty (tx + gnx g)%Z (ty + gny g)%Z None)
    else Err EValue.

  (* GeoBox(shape=bbox.shape, affine=reference.affine * Affine.translation(left, bottom), crs=reference.crs)
     bbox.shape = (int(top - bottom), int(right - left)) *)
  Definition gbox_of_pix_bbox (ref : geobox) (bb : zbox) : geobox :=
    mkGB (bt bb - bb_ bb)%Z (br bb - bl bb)%Z
         (aff_mul (gaff ref) (aff_tr (inject_Z (bl bb)) (inject_Z (bb_ bb))))
         (gcrs ref).

  (** geobox_union_conservative *)
  Definition geobox_union (atol rtol tol : Q) (gs : list geobox) : res geobox :=
    match gs with
    | [] => Err EValue
    | ref :: _ =>
        bbs <- mapM (fun g => bbox_in_pix atol rtol tol g ref) gs ;;
        bb <- bbox_union crs_eqb Z.min Z.max bbs ;;
        Ok (gbox_of_pix_bbox ref bb)
    end.

  (* "standardise empty geobox representation" *)
  Definition norm_empty (bb : zbox) : zbox :=
    let bb := if (br bb <? bl bb)%Z then mkBB (bl bb) (bb_ bb) (bl bb) (bt bb) (bcrs bb) else bb in
    if (bt bb <? bb_ bb)%Z then mkBB (bl bb) (bb_ bb) (br bb) (bb_ bb) (bcrs bb) else bb.

  (** geobox_intersection_conservative *)
  Definition geobox_intersection (atol rtol tol : Q) (gs : list geobox) : res geobox :=
    match gs with
    | [] => Err EValue
    | ref :: _ =>
        bbs <- mapM (fun g => bbox_in_pix atol rtol tol g ref) gs ;;
        bb <- bbox_intersection crs_eqb Z.min Z.max bbs ;;
        Ok (gbox_of_pix_bbox ref (norm_empty bb))
    end.

  (** GeoBox.overlap_roi(other, tol) -> ((y0, y1), (x0, x1)) for numpy.s_[y0:y1, x0:x1] *)
  Definition overlap_roi (fx : fixes) (atol rtol tol : Q) (self other : geobox)
    : res ((Z * Z) * (Z * Z)) :=
    bb <- bbox_in_pix atol rtol tol other self ;;
    let x0 := Z.max 0 (bl bb) in
    let y0 := Z.max 0 (bb_ bb) in
    let x1 := Z.min (br bb) (gnx self) in
    let y1 := Z.min (bt bb) (gny self) in
    if fx_roi_clamp fx then Ok ((y0, Z.max y0 y1), (x0, Z.max x0 x1))
    else Ok ((y0, y1), (x0, x1)).

  Definition Qminl (x : Q) (l : list Q) : Q := fold_left Qmin l x.
  Definition Qmaxl (x : Q) (l : list Q) : Q := fold_left Qmax l x.

  (** GeoBox.enclosing(region): [pts] are the vertices of the region already in the
      CRS of the GeoBox (the cross-CRS projection is an oracle outside the model);
      [has_crs = false] stands for [region.crs is None] *)
  Definition enclosing (g : geobox) (has_crs : bool) (pts : list (Q * Q)) : res geobox :=
    if negb has_crs then Err EValue
    else if Qeq_bool (aff_det (gaff g)) 0 then Err EOther
    else
      match map (aff_apply (aff_inv (gaff g))) pts with
      | [] => Err EValue                     (* empty geometry: bounds are NaN, math.floor(nan) *)
      | p :: ps =>
          (* .boundingbox.round() *)
          let x0 := Qfloor (Qminl (fst p) (map fst ps)) in
          let y0 := Qfloor (Qminl (snd p) (map snd ps)) in
          let x1 := Qceiling (Qmaxl (fst p) (map fst ps)) in
          let y1 := Qceiling (Qmaxl (snd p) (map snd ps)) in
          let nx := Z.max 1 (x1 - x0) in
          let ny := Z.max 1 (y1 - y0) in
          Ok (mkGB ny nx (aff_mul (gaff g) (aff_tr (inject_Z x0) (inject_Z y0))) (gcrs g))
      end.

  (** GeoBox.snap_to(other) ([ztol] is the 1e-8 of [maybe_zero]) *)
  Definition snap_to (atol rtol ztol : Q) (self other : geobox) : res geobox :=
    t <- pixel_translation atol rtol other self ;;
    let tx := maybe_zero (snd (split_float (fst t))) ztol in
    let ty := maybe_zero (snd (split_float (snd t))) ztol in
    Ok (mkGB (gny self) (gnx self) (aff_mul (gaff self) (aff_tr tx ty)) (gcrs self)).

  (** BoundingBox.__or__ / __and__ on world boxes *)
  Definition qbox_or (a b : qbox) : res qbox := bbox_union crs_eqb Qmin Qmax [a; b].
  Definition qbox_and (a b : qbox) : res qbox := bbox_intersection crs_eqb Qmin Qmax [a; b].

  (** GeoBox.__or__ / __and__ *)
  Definition gbox_or atol rtol tol (a b : geobox) := geobox_union atol rtol tol [a; b].
  Definition gbox_and atol rtol tol (a b : geobox) := geobox_intersection atol rtol tol [a; b].

  (** ** Vocabulary of the C16 theorems (no computation depends on it) *)

  (** a pixel rectangle [px, px+pnx) x [py, py+pny) in the pixel coordinates of a base grid *)
  Record pbox := mkPB { px : Z; py : Z; pnx : Z; pny : Z }.

  (** [g] lies on the pixel grid of [base], shifted by the whole pixels (px, py), with the
      shape of [p]: the "families of GeoBoxes derived from a base grid by integer pixel
      shifts and arbitrary shapes" of the property *)
  Definition on_grid (base : aff) (g : geobox) (p : pbox) : Prop :=
    gny g = pny p /\ gnx g = pnx p /\
    aff_eq (gaff g) (aff_mul base (aff_tr (inject_Z (px p)) (inject_Z (py p)))).

  Definition fam (base : aff) (c : tag crs) (p : pbox) : geobox :=
    mkGB (pny p) (pnx p) (aff_mul base (aff_tr (inject_Z (px p)) (inject_Z (py p)))) c.

  (** rectangle [p] is contained in rectangle [u] (edges compared) *)
  Definition rect_incl (p u : pbox) : Prop :=
    (px u <= px p /\ px p + pnx p <= px u + pnx u /\
     py u <= py p /\ py p + pny p <= py u + pny u)%Z.

  Definition in_cols (p : pbox) (i : Z) : Prop := (px p <= i < px p + pnx p)%Z.
  Definition in_rows (p : pbox) (j : Z) : Prop := (py p <= j < py p + pny p)%Z.
  Definition in_pix (p : pbox) (i j : Z) : Prop := in_cols p i /\ in_rows p j.

  (** all CRS tags compare equal (Python [!=] is False for every ordered pair) *)
  Definition same_crs (gs : list geobox) : Prop :=
    forall a b, In a gs -> In b gs -> tag_ne crs_eqb (gcrs a) (gcrs b) = false.

  (** equality of (shape, affine) *)
  Definition shape_aff_eq (g h : geobox) : Prop :=
    gny g = gny h /\ gnx g = gnx h /\ aff_eq (gaff g) (gaff h).

  (** grids derived from [base] by an arbitrary (sub-pixel) translation of the pixel plane *)
  Definition on_grid_q (base : aff) (g : geobox) (tx ty : Q) : Prop :=
    aff_eq (gaff g) (aff_mul base (aff_tr tx ty)).

  (** the decision rule of the compatibility test, as mathematics *)
  Definition close_to (atol rtol a b : Q) : Prop := Qabs (a - b) <= atol + rtol * Qabs b.
  Definition rel_aff (a ref : geobox) : aff := aff_mul (aff_inv (gaff ref)) (gaff a).
  Definition lin_close (atol rtol : Q) (m : aff) : Prop :=
    close_to atol rtol (aa m) 1 /\ close_to atol rtol (ab m) 0 /\
    close_to atol rtol (ad m) 0 /\ close_to atol rtol (ae m) 1.
  Definition near_int (tol x : Q) : Prop := exists n : Z, Qabs (x - inject_Z n) < tol.
  Definition compatible (atol rtol tol : Q) (a ref : geobox) : Prop :=
    tag_ne crs_eqb (gcrs a) (gcrs ref) = false /\ ~ aff_det (gaff ref) == 0 /\
    lin_close atol rtol (rel_aff a ref) /\
    near_int tol (ac (rel_aff a ref)) /\ near_int tol (af (rel_aff a ref)).

  (** world bounding boxes: coordinate-wise equality and containment *)
  Definition box_eq (u v : qbox) : Prop :=
    bl u == bl v /\ bb_ u == bb_ v /\ br u == br v /\ bt u == bt v.
  Definition box_le (a u : qbox) : Prop :=   (* a is contained in u *)
    bl u <= bl a /\ bb_ u <= bb_ a /\ br a <= br u /\ bt a <= bt u.
End Grid.

Arguments mkGB {crs} _ _ _ _.
Arguments gny {crs} _.
Arguments gnx {crs} _.
Arguments gaff {crs} _.
Arguments gcrs {crs} _.
Arguments on_grid {crs} _ _ _.
Arguments pixel_translation {crs} _ _ _ _ _.
Arguments bbox_in_pix {crs} _ _ _ _ _ _.
Arguments gbox_of_pix_bbox {crs} _ _.
Arguments geobox_union {crs} _ _ _ _ _.
Arguments geobox_intersection {crs} _ _ _ _ _.
Arguments norm_empty {crs} _.
Arguments overlap_roi {crs} _ _ _ _ _ _ _.
Arguments enclosing {crs} _ _ _.
Arguments snap_to {crs} _ _ _ _ _ _.
Arguments qbox_or {crs} _ _ _.
Arguments qbox_and {crs} _ _ _.
Arguments gbox_or {crs} _ _ _ _ _ _.
Arguments gbox_and {crs} _ _ _ _ _ _.
Arguments same_crs {crs} _ _.
Arguments on_grid_q {crs} _ _ _ _.
Arguments rel_aff {crs} _ _.
Arguments compatible {crs} _ _ _ _ _ _.
Arguments box_eq {crs} _ _.
Arguments box_le {crs} _ _.
Arguments shape_aff_eq {crs} _ _.
Arguments fam {crs} _ _ _.
