(** Model of GeoBox.from_bbox / from_geopolygon / zoom_to(resolution=)
    (odc/geo/geobox.py:83-101, 496-652, 346-366) composing the per-axis
    [snap_grid] of Model/MathH.v exactly as the code does (property C08).
    Floats are exact rationals; the CRS of the box plays no role in the
    arithmetic and is not modelled; polygon reprojection and shapely's bounds
    are oracles outside this model (the model starts from the bounding box).
    Tied to the code by tools/props/c08.py. *)
From Coq Require Import ZArith QArith Qround Qabs List Bool Lia.
From OG Require Import Base.Result Model.Roi Model.MathH.
Import ListNotations.
Open Scope Q_scope.

(** what a caller may pass as [anchor=]: an AnchorEnum / its string spelling,
    a number, or an XY *)
Inductive anchor_in :=
| AnDefault | AnEdge | AnCenter | AnFloating
| AnNum (a : Q)
| AnXY (x y : Q).

Inductive anchor_n := NEdge | NCenter | NFloating | NXY (x y : Q).

(** geobox._norm_anchor *)
Definition norm_anchor (a : anchor_in) : anchor_n :=
  match a with
  | AnDefault => NEdge
  | AnEdge => NEdge
  | AnCenter => NCenter
  | AnFloating => NFloating
  | AnNum a => if Qeq_bool a 0 then NEdge else if Qeq_bool a (1#2) then NCenter else NXY a a
  | AnXY x y => NXY x y
  end.

(** the [_snap] local of from_bbox: [None] = floating (no snapping) *)
Definition snap_of (tight : bool) (anchor : anchor_in) : option (Q * Q) :=
  let anchor := norm_anchor anchor in
  let anchor := if tight then NFloating else anchor in
  match anchor with
  | NXY x y => Some (x, y)
  | NEdge => Some (0, 0)
  | NCenter => Some (1#2, 1#2)
  | NFloating => None
  end.

(** [shape=]: nothing, a single number, or (ny, nx) *)
Inductive shape_in := ShNone | ShScalar (n : Q) | ShYX (ny nx : Z).

Record bbox := mkBBox { bl : Q; bb : Q; br : Q; bt : Q }.
Definition span_x (b : bbox) : Q := br b - bl b.
Definition span_y (b : bbox) : Q := bt b - bb b.

(** result: shape (ny, nx) and affine *)
Definition gbox := ((Z * Z) * aff)%type.

(** GeoBox.from_bbox *)
Definition from_bbox (b : bbox) (tight : bool) (shape : shape_in) (resolution : option some_res)
           (anchor : anchor_in) (tol : Q) : res gbox :=
  let _snap := snap_of tight anchor in
  rs <- match shape with
        | ShScalar n =>
            if Qeq_bool (span_y b) 0 then Err EZeroDiv          (* bbox.aspect *)
            else if Qeq_bool n 0 then Err EZeroDiv
            else if Qltb 1 (span_x b / span_y b) then Ok (Some (RScalar (span_x b / n)), ShNone)
            else Ok (Some (RScalar (span_y b / n)), ShNone)
        | _ => Ok (resolution, shape)
        end ;;
  let '(resolution, shape) := rs in
  match resolution with
  | Some rr =>
      let '(rx, ry) := res_xy rr in
      '(offx, nx) <- snap_grid (bl b) (br b) rx (option_map fst _snap) tol ;;
      '(offy, ny) <- snap_grid (bb b) (bt b) ry (option_map snd _snap) tol ;;
      Ok ((ny, nx), aff_mul (aff_translation offx offy) (aff_scale rx ry))
  | None =>
      match shape with
      | ShYX ny nx =>
          if (nx =? 0)%Z then Err EZeroDiv
          else if (ny =? 0)%Z then Err EZeroDiv
          else
            let rx := span_x b / inject_Z nx in
            let ry := - span_y b / inject_Z ny in
            off <- match _snap with
                   | None => Ok (bl b, bt b)
                   | Some (sx, sy) =>
                       '(offx, _) <- snap_grid (bl b) (br b) rx (Some sx) tol ;;
                       '(offy, _) <- snap_grid (bb b) (bt b) ry (Some sy) tol ;;
                       Ok (offx, offy)
                   end ;;
            Ok ((ny, nx), aff_mul (aff_translation (fst off) (snd off)) (aff_scale rx ry))
      | _ => Err EValue
      end
  end.

(** GeoBox.from_geopolygon from the polygon's bounding box on: the legacy
    [align] (in CRS units) is turned into an anchor (in pixel fractions) *)
Definition from_geopolygon_bbox (b : bbox) (resolution : option some_res) (align : option (Q * Q))
           (shape : shape_in) (tight : bool) (anchor : anchor_in) (tol : Q) : res gbox :=
  ra <- match align with
        | None => Ok (resolution, anchor)
        | Some (ax, ay) =>
            if Qeq_bool ax 0 && Qeq_bool ay 0 then Ok (resolution, AnEdge)
            else
              match resolution with
              | None => Err (EAssert 631)
              | Some rr =>
                  let '(rx, ry) := res_xy rr in
                  if Qeq_bool rx 0 then Err EZeroDiv
                  else if Qeq_bool ry 0 then Err EZeroDiv
                  else Ok (Some (RXY rx ry), AnXY (ax / Qabs rx) (ay / Qabs ry))
              end
        end ;;
  from_bbox b tight shape (fst ra) (snd ra) tol.

(** bounding box of a non-empty list of vertices (what shapely's [bounds] of a
    polygon's exterior returns) *)
Definition Qmin2 (a b : Q) : Q := if Qle_bool a b then a else b.
Definition Qmax2 (a b : Q) : Q := if Qle_bool a b then b else a.
Definition bbox_of_points (p0 : Q * Q) (pts : list (Q * Q)) : bbox :=
  fold_left (fun acc p => mkBBox (Qmin2 (bl acc) (fst p)) (Qmin2 (bb acc) (snd p))
                                 (Qmax2 (br acc) (fst p)) (Qmax2 (bt acc) (snd p)))
            pts (mkBBox (fst p0) (snd p0) (fst p0) (snd p0)).

(** BoundingBox.from_transform (four corners, repo commit 47ca684) *)
Definition bbox_from_transform (shape : Z * Z) (A : aff) : bbox :=
  let '(ny, nx) := shape in
  let p0 := aff_apply A (0, 0) in
  bbox_of_points p0 [aff_apply A (inject_Z nx, 0); aff_apply A (inject_Z nx, inject_Z ny);
                     aff_apply A (0, inject_Z ny)].

(** GeoBox.zoom_to(resolution=...) = compute_zoom_to with shape None:
    from_bbox(self.boundingbox, resolution=resolution, tight=True), [tol] being
    from_bbox's default 0.01 (passed in as the exact binary64 value) *)
Definition zoom_to_resolution (g : gbox) (resolution : some_res) (tol01 : Q) : res gbox :=
  from_bbox (bbox_from_transform (fst g) (snd g)) true ShNone (Some resolution) AnDefault tol01.
