(** Correspondence cases for the C05 model: each constructor carries the inputs
    given to the real function (odc/geo/cog/_shared.py, _tifffile.py) and the
    canonicalised result it returned; [check] compares with the model. *)
From Coq Require Import ZArith List Bool.
From OG Require Import Base.Result Base.ListSel Base.Eqb Model.Roi Model.CogLayout.
Import ListNotations.
Open Scope Z_scope.

Definition axis_code (a : axis) : Z := match a with YX => 0 | YXS => 1 | SYX => 2 end.

Definition z3_eqb (a b : Z * Z * Z) : bool :=
  let '(a1, a2, a3) := a in let '(b1, b2, b3) := b in (a1 =? b1) && (a2 =? b2) && (a3 =? b3).
Definition z4_eqb (a b : Z * Z * Z * Z) : bool :=
  let '(a1, a2, a3, a4) := a in let '(b1, b2, b3, b4) := b in
  (a1 =? b1) && (a2 =? b2) && (a3 =? b3) && (a4 =? b4).

(** what the harness records per CogMeta of [meta.flatten()]:
    (axis code, shape, tile, nsamples, chunked, num_tiles, num_planes) *)
Definition meta_obs := (Z * (Z * Z) * (Z * Z) * Z * (Z * Z) * Z * Z)%type.

Definition observe_meta (m : meta) : meta_obs :=
  (axis_code (m_axis m), m_shape m, m_tile m, m_nsamples m, chunked m, num_tiles m, num_planes m).

Definition meta_obs_eqb (a b : meta_obs) : bool :=
  let '(a1, a2, a3, a4, a5, a6, a7) := a in
  let '(b1, b2, b3, b4, b5, b6, b7) := b in
  (a1 =? b1) && zz_eqb a2 b2 && zz_eqb a3 b3 && (a4 =? b4) && zz_eqb a5 b5 && (a6 =? b6) && (a7 =? b7).

Definition info_eqb (a b : tile_info) : bool :=
  list_eqb (pair_eqb (list_eqb Z.eqb) (list_eqb Z.eqb)) a b.

Inductive case :=
| CAdjust (block dim expect : Z)
| CNormBlk (b : blk) (expect : Z * Z)
| CNumOvr (block dim expect : Z)
| CPow2 (x up down : Z)
| CSpec (shape tile : Z * Z) (max_pad : option Z) (expect : (Z * Z) * (Z * Z) * Z)
| CYaxis (shape : list Z) (gshape : option (Z * Z)) (yaxis : option Z) (expect : res (Z * Z))
| CMetas (shape : list Z) (gshape : option (Z * Z)) (yaxis : option Z) (bs : list blk)
         (expect : res (list meta_obs))
| CMetasDefault (shape : list Z) (gshape : option (Z * Z)) (yaxis : option Z) (chunks : Z * Z)
         (expect : res (list meta_obs))
| CFlat (m : meta) (idx : Z * Z * Z) (expect : res Z)
| CTidx (m : meta) (expect : list (Z * Z * Z))
| CTidxOf (m : meta) (s : Z) (expect : res (list (Z * Z * Z)))
| CCogTidx (mm : list meta) (expect : list (Z * Z * Z * Z))
| CExtract (mm : list meta) (tiles : list obs) (start : Z) (expect : res tile_info)
| CWriteOrder (mm : list meta) (expect : list (Z * Z * Z * Z))
| CPatch (mm : list meta) (tiles : list obs) (hdr_sz : Z) (expect : res tile_info).

Definition check (c : case) : bool :=
  match c with
  | CAdjust b d e => adjust_blocksize b d =? e
  | CNormBlk b e => zz_eqb (norm_blocksize b) e
  | CNumOvr b d e => res_eqb Z.eqb (num_overviews b d) (Ok e)
  | CPow2 x u d => (align_up_pow2 x =? u) && (align_down_pow2 x =? d)
  | CSpec s t mp e =>
      res_eqb (pair_eqb (pair_eqb zz_eqb zz_eqb) Z.eqb) (compute_cog_spec s t mp) (Ok e)
  | CYaxis s g ya e =>
      res_eqb zz_eqb (match yaxis_from_shape s g ya with
                      | Ok (a, y) => Ok (axis_code a, y)
                      | Err er => Err er
                      end) e
  | CMetas s g ya bs e =>
      res_eqb (list_eqb meta_obs_eqb)
              (match make_metas s g ya bs with Ok mm => Ok (map observe_meta mm) | Err er => Err er end) e
  | CMetasDefault s g ya ch e =>
      res_eqb (list_eqb meta_obs_eqb)
              (match make_metas s g ya (default_blocksize ch) with
               | Ok mm => Ok (map observe_meta mm) | Err er => Err er end) e
  | CFlat m idx e => res_eqb Z.eqb (flat_tile_idx m idx) e
  | CTidx m e => list_eqb z3_eqb (tidx m) e
  | CTidxOf m s e => res_eqb (list_eqb z3_eqb) (tidx_of m s) e
  | CCogTidx mm e => list_eqb z4_eqb (cog_tidx mm) e
  | CExtract mm tiles start e => res_eqb info_eqb (extract_tile_info mm tiles start) e
  | CWriteOrder mm e => list_eqb z4_eqb (writer_order mm) e
  | CPatch mm tiles h e => res_eqb info_eqb (patch_hdr_tags mm tiles h) e
  end.
