(** Model of tile lookup and tile-to-tile dependency graphs:
    odc/geo/roi.py  Tiles.{__init__, __getitem__, tile_shape, locate},
                    VariableSizedTiles.{__init__, __getitem__, locate}
    odc/geo/geobox.py:1397-1520  GeoboxTiles.{range_from_bbox, _tiles_from_pix_bbox,
                    tiles, _grid_intersect_linear, grid_intersect}
    odc/geo/geom.py BoundingBox.{transform, round}
    Hand-written, statement by statement, floats as exact rationals; tied to the
    code by the C12 correspondence harness (tools/props/c12.py).  The model
    follows the code AFTER the repairs of F11 (destination tiles that fall
    outside the source raster get no source tiles) and F14 (empty common
    footprint gives an empty graph); [linear_deps_tile_prefix] keeps the F11
    behaviour of the unrepaired code for the refutation theorem.
    Oracles (shapely / pyproj / GeoBox.project) are function parameters. *)
From Coq Require Import ZArith QArith Qround List Bool.
From OG Require Import Base.Result Base.QMinMax Base.ZRange.
Import ListNotations.
Open Scope Z_scope.

(** * one axis of a tiling *)
Inductive axis :=
| AReg (N n : Z)           (* roi.Tiles: base size N, tile size n *)
| AVar (chunks : list Z).  (* roi.VariableSizedTiles: chunk sizes *)

(** [np.asarray([0, *chunks]).cumsum()]  (int32 overflow is outside the model) *)
Fixpoint cumsum (acc : Z) (l : list Z) : list Z :=
  match l with [] => [] | c :: r => (acc + c) :: cumsum (acc + c) r end.
Definition offsets (chunks : list Z) : list Z := 0 :: cumsum 0 chunks.
Definition znth (l : list Z) (k : Z) : Z := nth (Z.to_nat k) l 0.

(** number of tiles: Tiles.__init__ [int(math.ceil(float(N)/n))], VariableSizedTiles.shape *)
Definition ax_count (a : axis) : Z :=
  match a with
  | AReg N n => - ((- N) / n)
  | AVar ch => Z.of_nat (length ch)
  end.

(** base size: Tiles._base_shape, VariableSizedTiles.base [int(idx[-1])] *)
Definition ax_base (a : axis) : Z :=
  match a with
  | AReg N _ => N
  | AVar ch => last (offsets ch) 0
  end.

(** pixel range of tile [i] ([__getitem__] with an int index: roi_normalise wraps
    negative indices, then Tiles._slice / offsets lookup) *)
Definition ax_range (a : axis) (i : Z) : res (Z * Z) :=
  let cnt := ax_count a in
  let i := if i <? 0 then cnt + i else i in
  match a with
  | AReg N n =>
      let _in := i * n in
      let _out := (i + 1) * n in
      if (0 <=? _in) && (_in <? N) && (_out <? N + n) then Ok (_in, Z.min _out N) else Err EIndex
  | AVar ch =>
      if (0 <=? i) && (i <? cnt) then Ok (znth (offsets ch) i, znth (offsets ch) (i + 1)) else Err EIndex
  end.

(** Tiles.tile_shape((0,0)) on one axis: [_sz(0, n_tiles, tile_sz, total_sz)] *)
Definition ax_tile0 (N n : Z) : res Z :=
  let cnt := ax_count (AReg N n) in
  if (0 <? cnt - 1) then Ok n
  else if (0 =? cnt - 1) then Ok (N - 0 * n)
  else Err EIndex.

(** locate on one axis *)
Definition ax_locate (a : axis) (p : Z) : res Z :=
  if (p <? 0) || (p >=? ax_base a) then Err EIndex
  else
    match a with
    | AReg N n => t0 <- ax_tile0 N n ;; Ok (p / t0)
    | AVar ch =>
        (* np.searchsorted(bins[1:], pix, "right") *)
        Ok (Z.of_nat (length (filter (fun o => o <=? p) (tl (offsets ch)))))
    end.

(** * 2-d tiling of a GeoBox of shape (NY, NX) *)
Record tiling := mkTiling { t_y : axis; t_x : axis }.

(** Tiles.locate / VariableSizedTiles.locate: IndexError if either coordinate is outside *)
Definition locate (t : tiling) (y x : Z) : res (Z * Z) :=
  if (y <? 0) || (y >=? ax_base (t_y t)) || (x <? 0) || (x >=? ax_base (t_x t)) then Err EIndex
  else iy <- ax_locate (t_y t) y ;; ix <- ax_locate (t_x t) x ;; Ok (iy, ix).

(** math.clamp *)
Definition clamp (x lo up : Z) : res Z :=
  if up <? lo then Err (EAssert 150)
  else Ok (if x <? lo then lo else if x >? up then up else x).

(** GeoboxTiles.range_from_bbox._clamp *)
Definition clamp_span (a1 a2 : Q) (N : Z) : res (Z * Z) :=
  c1 <- clamp (Qfloor a1) 0 (N - 1) ;;
  c2 <- clamp (Qceiling a2) 1 N ;;
  Ok (c1, c2 - 1).

Definition q4 := (Q * Q * Q * Q)%type.   (* left, bottom, right, top *)
Definition z4 := (Z * Z * Z * Z)%type.

(** GeoboxTiles.range_from_bbox for a bounding box in pixel space; the result
    is the pair of Python ranges (rows, cols) as (start, stop) *)
Definition range_from_pix_bbox (t : tiling) (NY NX : Z) (b : q4) : res ((Z * Z) * (Z * Z)) :=
  let '(bx1, by1, bx2, by2) := b in
  '(x1, x2) <- clamp_span bx1 bx2 NX ;;
  '(y1, y2) <- clamp_span by1 by2 NY ;;
  '(iy1, ix1) <- locate t y1 x1 ;;
  '(iy2, ix2) <- locate t y2 x2 ;;
  Ok ((iy1, iy2 + 1), (ix1, ix2 + 1)).

(** GeoboxTiles._tiles_from_pix_bbox: itertools.product(rows, cols) *)
Definition tiles_from_pix_bbox (t : tiling) (NY NX : Z) (b : q4) : res (list (Z * Z)) :=
  '(yy, xx) <- range_from_pix_bbox t NY NX b ;;
  Ok (zproduct (zrange (fst yy) (snd yy)) (zrange (fst xx) (snd xx))).

(** GeoboxTiles.tiles for a geometry (or a bounding box with a CRS).  Oracles:
    [pix_bbox_of q] = the query converted to the raster CRS, its bounding box
    projected into pixel space ([GeoBox.project(bbox.polygon).boundingbox]);
    [disjoint q idx] = shapely's [poly.disjoint(self[idx].extent)]. *)
Definition tiles_query {P : Type} (pix_bbox_of : P -> res q4) (disjoint : P -> Z * Z -> bool)
           (t : tiling) (NY NX : Z) (q : P) : res (list (Z * Z)) :=
  b <- pix_bbox_of q ;;
  cand <- tiles_from_pix_bbox t NY NX b ;;
  Ok (filter (fun idx => negb (disjoint q idx)) cand).

(** * linear dependency graph *)
(** scale + translation affine  [src_pix = A * dst_pix] *)
Record st_affine := mkST { a_sx : Q; a_tx : Q; a_sy : Q; a_ty : Q }.

(** GeoboxTiles.pix_bbox(idx) -> BoundingBox(rx.start, ry.start, rx.stop, ry.stop) *)
Definition pix_bbox (t : tiling) (idx : Z * Z) : res z4 :=
  let '(iy, ix) := idx in
  '(y0, y1) <- ax_range (t_y t) iy ;;
  '(x0, x1) <- ax_range (t_x t) ix ;;
  Ok (x0, y0, x1, y1).

(** BoundingBox.transform(A) for a diagonal A: corners in the order of
    itertools.product((x0, x1), (y0, y1)), then min/max *)
Definition bbox_transform (A : st_affine) (b : z4) : q4 :=
  let '(x0, y0, x1, y1) := b in
  let fx (x : Z) := (a_sx A * inject_Z x + a_tx A)%Q in
  let fy (y : Z) := (a_sy A * inject_Z y + a_ty A)%Q in
  (min4 (fx x0) (fx x0) (fx x1) (fx x1), min4 (fy y0) (fy y1) (fy y0) (fy y1),
   max4 (fx x0) (fx x0) (fx x1) (fx x1), max4 (fy y0) (fy y1) (fy y0) (fy y1)).

(** BoundingBox.round() *)
Definition bbox_round (b : q4) : z4 :=
  let '(x0, y0, x1, y1) := b in (Qfloor x0, Qfloor y0, Qceiling x1, Qceiling y1).

Definition z4_to_q4 (b : z4) : q4 :=
  let '(x0, y0, x1, y1) := b in (inject_Z x0, inject_Z y0, inject_Z x1, inject_Z y1).

(** body of the loop of _grid_intersect_linear (after the F11 repair) *)
Definition linear_deps_tile (dst src : tiling) (NYs NXs : Z) (A : st_affine) (idx : Z * Z)
  : res (list (Z * Z)) :=
  pb <- pix_bbox dst idx ;;
  let '(bl, bb, br, bt) := bbox_round (bbox_transform A pb) in
  if (br <=? 0) || (bl >=? NXs) || (bt <=? 0) || (bb >=? NYs) then Ok []
  else tiles_from_pix_bbox src NYs NXs (z4_to_q4 (bl, bb, br, bt)).

(** the same loop body before the repair (kept for the F11 refutation) *)
Definition linear_deps_tile_prefix (dst src : tiling) (NYs NXs : Z) (A : st_affine) (idx : Z * Z)
  : res (list (Z * Z)) :=
  pb <- pix_bbox dst idx ;;
  tiles_from_pix_bbox src NYs NXs (z4_to_q4 (bbox_round (bbox_transform A pb))).

Fixpoint res_map {A B} (f : A -> res B) (l : list A) : res (list B) :=
  match l with
  | [] => Ok []
  | a :: r => b <- f a ;; bs <- res_map f r ;; Ok (b :: bs)
  end.

(** GeoboxTiles._all_tiles: numpy.ndindex(shape) *)
Definition all_tiles (t : tiling) : list (Z * Z) :=
  zproduct (zrange 0 (ax_count (t_y t))) (zrange 0 (ax_count (t_x t))).

Definition graph := list ((Z * Z) * list (Z * Z)).   (* dict in insertion order *)

Definition grid_intersect_linear (dst src : tiling) (NYs NXs : Z) (A : st_affine) : res graph :=
  res_map (fun idx => s <- linear_deps_tile dst src NYs NXs A idx ;; Ok (idx, s)) (all_tiles dst).

Definition grid_intersect_linear_prefix (dst src : tiling) (NYs NXs : Z) (A : st_affine) : res graph :=
  res_map (fun idx => s <- linear_deps_tile_prefix dst src NYs NXs A idx ;; Ok (idx, s)) (all_tiles dst).

(** * general path of grid_intersect (after the F14 repair).  Oracles:
    [footprint] = [None] when the common footprint is empty (different CRS),
    otherwise the source footprint in the destination CRS;
    [dst_bbox], [dst_disjoint]: the geometry query of the destination tiling;
    [src_bbox d], [src_disjoint d]: the query of the source tiling with the
    extent of destination tile [d]. *)
Definition grid_intersect_general {P : Type} (footprint : option P)
           (dst_bbox : P -> res q4) (dst_disjoint : P -> Z * Z -> bool)
           (src_bbox : Z * Z -> res q4) (src_disjoint : Z * Z -> Z * Z -> bool)
           (dst src : tiling) (NYd NXd NYs NXs : Z) : res graph :=
  match footprint with
  | None => Ok []
  | Some fp =>
      chunks <- tiles_query dst_bbox dst_disjoint dst NYd NXd fp ;;
      res_map (fun d => s <- tiles_query src_bbox src_disjoint src NYs NXs d ;; Ok (d, s)) chunks
  end.

(** GeoboxTiles.grid_intersect: [lin] is the result of _check_linear *)
Definition grid_intersect {P : Type} (lin : option st_affine) (footprint : option P)
           (dst_bbox : P -> res q4) (dst_disjoint : P -> Z * Z -> bool)
           (src_bbox : Z * Z -> res q4) (src_disjoint : Z * Z -> Z * Z -> bool)
           (dst src : tiling) (NYd NXd NYs NXs : Z) : res graph :=
  match lin with
  | Some A => grid_intersect_linear dst src NYs NXs A
  | None => grid_intersect_general footprint dst_bbox dst_disjoint src_bbox src_disjoint
                                   dst src NYd NXd NYs NXs
  end.

(** edges of a graph *)
Definition edge (g : graph) (d s : Z * Z) : Prop := exists l, In (d, l) g /\ In s l.
