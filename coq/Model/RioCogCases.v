(** Correspondence cases for the C15 model: inputs given to the real functions
    of odc/geo/cog/_rio.py and the canonicalised observation; [check] compares
    with the model. *)
From Coq Require Import ZArith List Bool.
From OG Require Import Base.Result Base.ListSel Base.Eqb Model.Roi Model.CogLayout Model.RioCog.
Import ListNotations.
Open Scope Z_scope.

Definition z3_eqb (a b : Z * Z * Z) : bool :=
  let '(a1, a2, a3) := a in let '(b1, b2, b3) := b in (a1 =? b1) && (a2 =? b2) && (a3 =? b3).

(** a file system observation: sorted list of (path id, content id) *)
Fixpoint fs_observe (s : fs) (paths : list Z) : list (Z * Z) :=
  match paths with
  | [] => []
  | p :: r => match fs_lookup s p with
              | Some c => (p, c) :: fs_observe s r
              | None => fs_observe s r
              end
  end.

Inductive case :=
(* pix = arange(prod shape).reshape(shape) written by _write_cog and read back with
   rasterio: (count, height, width) and all samples band-major, or the error kind *)
| CLayout (shape : list Z) (gshape : Z * Z) (yaxis : option Z) (expect : res ((Z * Z * Z) * list Z))
| CRavel (shape idx : list Z) (expect : Z)
(* _default_cog_opts(blocksize, shape=wh_(w, h)) -> (blockxsize, blockysize) *)
| CBlock (blocksize : option Z) (w h : Z) (expect : Z * Z)
(* (height, width) of every overview found in the written file *)
| COvr (req : option (list Z)) (w h : Z) (expect : list (Z * Z))
| CNodata (kw attr : option Z) (expect : option Z)
(* check_write_path on a scratch directory; paths observed afterwards *)
| CCheckPath (s : fs) (p : Z) (overwrite : bool) (paths : list Z) (expect_fs : list (Z * Z)) (expect : res unit)
(* write_cog to a path: content id [c] stands for "a new valid GeoTIFF" *)
| CWriteFs (s : fs) (shape : list Z) (gshape : Z * Z) (yaxis : option Z) (dest : option Z) (overwrite : bool)
           (c : Z) (paths : list Z) (expect_fs : list (Z * Z)) (expect : res unit)
| CLayersFs (s : fs) (nlayers : Z) (dest : option Z) (overwrite : bool) (c : Z) (paths : list Z)
            (expect_fs : list (Z * Z)) (expect : res unit).

Definition check (c : case) : bool :=
  match c with
  | CLayout s g ya e => res_eqb (pair_eqb z3_eqb (list_eqb Z.eqb)) (write_layout s g ya) e
  | CRavel s i e => ravel s i =? e
  | CBlock b w h e => zz_eqb (default_cog_block b w h) e
  | COvr r w h e => list_eqb zz_eqb (overview_shapes r w h) e
  | CNodata k a e => opt_eqb Z.eqb (nodata_of k a) e
  | CCheckPath s p ow paths efs e =>
      let '(s', r) := check_write_path s p ow in
      list_eqb zz_eqb (fs_observe s' paths) efs && res_eqb unit_eqb r e
  | CWriteFs s sh g ya d ow c paths efs e =>
      let '(s', r) := write_cog_fs s sh g ya d ow c in
      list_eqb zz_eqb (fs_observe s' paths) efs && res_eqb unit_eqb r e
  | CLayersFs s n d ow c paths efs e =>
      let '(s', r) := write_cog_layers_fs s n true d ow c in
      list_eqb zz_eqb (fs_observe s' paths) efs && res_eqb unit_eqb r e
  end.
