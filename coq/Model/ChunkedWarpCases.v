(** Correspondence cases for the C13 model (Model/ChunkedWarp.v) on a concrete instance:
    pixel values and nodata numbers are integers or NaN, dtypes are an enumeration, the
    warp oracle is [warp_local] driven by a nearest-neighbour table that the harness
    measured on the real whole-array warp, with GDAL's nodata matching as [sample].
    Each constructor carries the inputs given to the real code and what it was
    observed to do. *)
From Coq Require Import ZArith List Bool.
From OG Require Import Base.Result Base.Eqb Model.ChunkedWarp.
Import ListNotations.
Open Scope Z_scope.

Inductive val := VNum (z : Z) | VNaN.
Inductive dt := DBool | DU8 | DI8 | DU16 | DI16 | DI32 | DF32 | DF64.

Definition val_eqb (a b : val) : bool :=
  match a, b with
  | VNum x, VNum y => x =? y
  | VNaN, VNaN => true
  | _, _ => false
  end.

Definition dt_is_float (d : dt) : bool := match d with DF32 | DF64 => true | _ => false end.

(** dtype.type(x) for the values the harness uses (in range; no NaN into integer types) *)
Definition cast_c (d : dt) (n : val) : val :=
  match d, n with
  | DBool, VNum z => VNum (if z =? 0 then 0 else 1)
  | DBool, VNaN => VNum 1
  | _, _ => n
  end.
Definition vnan_c (_ : dt) : val := VNaN.
Definition vzero_c (_ : dt) : val := VNum 0.

Definition init_c := gdal_init cast_c vzero_c.

(** GDAL nodata matching: a source pixel equal to the source nodata is not written *)
Definition sample_c (dn sn : option val) (d : dt) (v : val) : val :=
  match sn with
  | Some s => if val_eqb v (cast_c d s) then init_c dn sn d else v
  | None => v
  end.

Definition tab_plane (tab : list (list val)) : plane val :=
  fun y x => nth (Z.to_nat x) (nth (Z.to_nat y) tab []) (VNum (-1)).
Definition tab_nn (tab : list (list (Z * Z))) : Z -> Z -> Z * Z :=
  fun y x => nth (Z.to_nat x) (nth (Z.to_nat y) tab []) (-1, -1).

Definition lookup (m : list (idx * list idx)) (j : idx) : list idx :=
  match find (fun e => zz_eqb (fst e) j) m with
  | Some e => snd e
  | None => []
  end.

Definition zrange (n : Z) : list Z := map Z.of_nat (seq 0 (Z.to_nat n)).
Definition render (h w : Z) (p : plane val) : list (list val) :=
  map (fun y => map (fun x => p y x) (zrange w)) (zrange h).

Definition all_idx (t : tiling) : list idx :=
  flat_map (fun y => map (fun x => (y, x)) (zrange (ntx t))) (zrange (nty t)).

Definition warp_c (nn : list (list (Z * Z))) : @warp_t dt val val :=
  warp_local (tab_nn nn) sample_c init_c.

(** every chunk of the dask result, rendered *)
Fixpoint collect {A} (l : list (idx * res A)) : res (list (idx * A)) :=
  match l with
  | [] => Ok []
  | (j, r) :: tl => a <- r ;; rest <- collect tl ;; Ok ((j, a) :: rest)
  end.

Definition model_chunks (fixed : bool) (chy chx dchy dchx : list Z) (d2s : list (idx * list idx))
           (nn : list (list (Z * Z))) (src : list (list (list val))) (dn sn : option val) (d : dt)
  : res (list (idx * list (list (list val)))) :=
  let st := tiling_of chy chx in
  let dtl := tiling_of dchy dchx in
  collect (map (fun j =>
                  (j, match dask_chunk dt_is_float cast_c vnan_c vzero_c VNaN (warp_c nn) fixed (lookup d2s)
                              st dtl (map tab_plane src) dn sn d j with
                      | Ok ps => Ok (map (render (vh (tile_view dtl j)) (vw (tile_view dtl j))) ps)
                      | Err e => Err e
                      end))
               (all_idx dtl)).

Definition model_whole (chy chx dchy dchx : list Z) (nn : list (list (Z * Z))) (src : list (list (list val)))
           (dn sn : option val) (d : dt) : list (list (list val)) :=
  let st := tiling_of chy chx in
  let dtl := tiling_of dchy dchx in
  map (render (vh (base_view dtl)) (vw (base_view dtl)))
      (rio_reproject dt_is_float VNaN (warp_c nn) st dtl (map tab_plane src) dn sn d).

(** graph nodes in a comparable form *)
Inductive cnode := CTask (srcs : list idx) | CConst (shape : Z * Z) (fill : val).
Definition cnode_eqb (a b : cnode) : bool :=
  match a, b with
  | CTask x, CTask y => list_eqb zz_eqb x y
  | CConst s f, CConst s' f' => zz_eqb s s' && val_eqb f f'
  | _, _ => false
  end.
Definition model_graph (dchy dchx : list Z) (d2s : list (idx * list idx)) (dn sn : option val) (d : dt)
  : list (idx * cnode) :=
  let dtl := tiling_of dchy dchx in
  map (fun j => (j, match graph_node dt_is_float cast_c vnan_c vzero_c (lookup d2s) dtl dn sn d j with
                    | NTask _ srcs => CTask srcs
                    | NConst sh f => CConst sh f
                    end)) (all_idx dtl).

Definition view_eqb (a b : view) : bool :=
  (vy0 a =? vy0 b) && (vx0 a =? vx0 b) && (vh a =? vh b) && (vw a =? vw b).

(** the clip result in a comparable form: window, re-based selection, cropped chunk sizes *)
Definition model_clip (chy chx : list Z) (sel : list idx) : option (view * list idx * (list Z * list Z)) :=
  match clip (tiling_of chy chx) sel with
  | None => None
  | Some (ct, wv, ni) =>
      Some (wv, ni, (map (fun i => offy ct (i + 1) - offy ct i) (zrange (nty ct)),
                     map (fun i => offx ct (i + 1) - offx ct i) (zrange (ntx ct))))
  end.

Definition tab3_eqb := list_eqb (list_eqb (list_eqb val_eqb)).
Definition ov_eqb := opt_eqb val_eqb.

Inductive case :=
(* resolve_fill_value; dst_nodata handed to the warp by rio_reproject and by the (repaired)
   _do_chunked_reproject; fill used by BlockAssembler.extract for missing blocks *)
| CFill (dn sn : option val) (d : dt) (fill : val) (rio_dn chunk_dn : option val) (efill : val)
(* nodata defaulting of _xr_reproject_da: (src_nodata, dst_nodata) passed down *)
| CXr (dn kw attr : option val) (sn' dn' : option val)
(* what the warp leaves in unwritten pixels (contract of the oracle's init value) *)
| CInit (dn sn : option val) (d : dt) (v : val)
(* graph construction: task or constant block per destination chunk *)
| CGraph (dchy dchx : list Z) (d2s : list (idx * list idx)) (dn sn : option val) (d : dt)
         (expect : list (idx * cnode))
(* GeoboxTiles.clip: window in source pixels, re-based indices, cropped chunks *)
| CClip (chy chx : list Z) (sel : list idx) (expect : option (view * list idx * (list Z * list Z)))
(* whole run: every chunk of the computed dask array and the in-memory result *)
| CRun (fixed : bool) (chy chx dchy dchx : list Z) (d2s : list (idx * list idx)) (nn : list (list (Z * Z)))
       (src : list (list (list val))) (dn sn : option val) (d : dt)
       (chunks : res (list (idx * list (list (list val))))) (whole : option (list (list (list val)))).

Definition check (c : case) : bool :=
  match c with
  | CFill dn sn d fill rio_dn chunk_dn efill =>
      val_eqb (resolve_fill_value dt_is_float cast_c vnan_c vzero_c dn sn d) fill
      && ov_eqb (rio_dst_nodata dt_is_float VNaN dn d) rio_dn
      && ov_eqb (chunk_dst_nodata dt_is_float VNaN true dn sn d) chunk_dn
      && val_eqb (extract_fill dt_is_float cast_c vnan_c vzero_c sn d) efill
  | CXr dn kw attr sn' dn' =>
      pair_eqb ov_eqb ov_eqb (xr_nodata dn kw attr) (sn', dn')
  | CInit dn sn d v => val_eqb (init_c dn sn d) v
  | CGraph dchy dchx d2s dn sn d e =>
      list_eqb (pair_eqb zz_eqb cnode_eqb) (model_graph dchy dchx d2s dn sn d) e
  | CClip chy chx sel e =>
      opt_eqb (pair_eqb (pair_eqb view_eqb (list_eqb zz_eqb)) (pair_eqb (list_eqb Z.eqb) (list_eqb Z.eqb)))
              (model_clip chy chx sel) e
  | CRun fixed chy chx dchy dchx d2s nn src dn sn d chunks whole =>
      res_eqb (list_eqb (pair_eqb zz_eqb tab3_eqb))
              (model_chunks fixed chy chx dchy dchx d2s nn src dn sn d) chunks
      && match whole with
         | Some w => tab3_eqb (model_whole chy chx dchy dchx nn src dn sn d) w
         | None => true
         end
  end.
