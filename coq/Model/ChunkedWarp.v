(** Model of chunked (dask) reprojection and of the in-memory reference path.

    Anchors (odc-geo):
      odc/geo/_dask.py       resolve_fill_value, _do_chunked_reproject, _dask_rio_reproject
      odc/geo/_blocks.py     BlockAssembler (extract, planes_yx)
      odc/geo/roi.py         clip_tiles, VariableSizedTiles.crop / __getitem__
      odc/geo/geobox.py      GeoboxTiles.clip / __getitem__   (crop of a GeoBox = re-based view)
      odc/geo/warp.py        rio_reproject (dst_nodata defaulting, per-plane loop)
      odc/geo/_xr_interop.py _xr_reproject_da (nodata defaulting)

    Rasters are lists of planes (the leading, e.g. time, axes flattened in
    np.ndindex order); a plane is a total function [Z -> Z -> V] (row, column) read
    only inside its shape.  A GeoBox cropped out of a base grid is a [view]: origin
    and size in base-grid pixel coordinates.  The GDAL warp ([_rio_reproject]) is NOT
    modelled: it is a parameter ([warp]) of the functions below; [warp_local] is the
    nearest-neighbour reference semantics used as its contract.  No proofs here. *)
From Coq Require Import ZArith List Bool.
From OG Require Import Base.Result.
Import ListNotations.
Open Scope Z_scope.

Definition idx := (Z * Z)%type.             (* (row, col) tile index *)
Definition plane (V : Type) := Z -> Z -> V. (* row -> col -> value *)

(** window of a base grid: rows [vy0, vy0+vh), columns [vx0, vx0+vw) *)
Record view := { vy0 : Z; vx0 : Z; vh : Z; vw : Z }.

Definition in_view (v : view) (y x : Z) : bool :=
  (vy0 v <=? y) && (y <? vy0 v + vh v) && (vx0 v <=? x) && (x <? vx0 v + vw v).

(** A 2-d tiling: number of tiles per axis and the offset of every tile boundary
    ([VariableSizedTiles._offsets]: cumulative sums of the chunk sizes starting at 0). *)
Record tiling := { nty : Z; ntx : Z; offy : Z -> Z; offx : Z -> Z }.

Definition offs (chunks : list Z) (i : Z) : Z := fold_right Z.add 0 (firstn (Z.to_nat i) chunks).
Definition tiling_of (chy chx : list Z) : tiling :=
  {| nty := Z.of_nat (length chy); ntx := Z.of_nat (length chx); offy := offs chy; offx := offs chx |}.

Definition base_view (t : tiling) : view :=
  {| vy0 := 0; vx0 := 0; vh := offy t (nty t); vw := offx t (ntx t) |}.

(** [tiles[idx]] / [gbt[idx]]: the pixel rectangle of one tile *)
Definition tile_view (t : tiling) (i : idx) : view :=
  {| vy0 := offy t (fst i); vx0 := offx t (snd i);
     vh := offy t (fst i + 1) - offy t (fst i); vw := offx t (snd i + 1) - offx t (snd i) |}.

Definition idx_in_range (t : tiling) (i : idx) : bool :=
  (0 <=? fst i) && (fst i <? nty t) && (0 <=? snd i) && (snd i <? ntx t).

Definition lmin (a : Z) (l : list Z) : Z := fold_left Z.min l a.
Definition lmax (a : Z) (l : list Z) : Z := fold_left Z.max l a.

(** [clip_tiles] + [GeoboxTiles.clip]: bounding index range of the selection, the
    cropped tiling (offsets restart at 0), the window it covers in the base grid and
    the selection re-based to the cropped index space.  numpy's [min] of an empty
    selection raises ValueError: [None]. *)
Definition clip (t : tiling) (sel : list idx) : option (tiling * view * list idx) :=
  match sel with
  | [] => None
  | (y0, x0) :: rest =>
      let y1 := lmin y0 (map fst rest) in
      let y2 := lmax y0 (map fst rest) in
      let x1 := lmin x0 (map snd rest) in
      let x2 := lmax x0 (map snd rest) in
      let ct := {| nty := y2 + 1 - y1; ntx := x2 + 1 - x1;
                   offy := fun i => offy t (i + y1) - offy t y1;
                   offx := fun i => offx t (i + x1) - offx t x1 |} in
      let wv := {| vy0 := offy t y1; vx0 := offx t x1;
                   vh := offy t (y2 + 1) - offy t y1; vw := offx t (x2 + 1) - offx t x1 |} in
      Some (ct, wv, map (fun i => (fst i - y1, snd i - x1)) sel)
  end.

Section Fill.
  (** dtype, caller-supplied nodata numbers (Python int/float) and pixel values stay abstract *)
  Context {dtype N V : Type}.
  Variable is_float : dtype -> bool.       (* np.issubdtype(dtype, np.floating) / dtype.kind == "f" *)
  Variable cast : dtype -> N -> V.         (* dtype.type(x) *)
  Variable vnan vzero : dtype -> V.        (* dtype.type("nan"), dtype.type(0) *)
  Variable nanN : N.                       (* np.nan *)

  (** _dask.py resolve_fill_value *)
  Definition resolve_fill_value (dst_nodata src_nodata : option N) (dt : dtype) : V :=
    match dst_nodata with
    | Some d => cast dt d
    | None =>
        match src_nodata with
        | Some s => cast dt s
        | None => if is_float dt then vnan dt else vzero dt
        end
    end.

  (** warp.py rio_reproject, lines 131-135: [dst_nodata] handed to the warp *)
  Definition rio_dst_nodata (dst_nodata : option N) (dt : dtype) : option N :=
    match dst_nodata with
    | Some d => Some d
    | None => if is_float dt then Some nanN else None
    end.

  (** _dask.py _do_chunked_reproject: [dst_nodata] handed to the warp.  [fixed = false]
      is the code before the F10 repair (value passed through unchanged). *)
  Definition chunk_dst_nodata (fixed : bool) (dst_nodata src_nodata : option N) (dt : dtype) : option N :=
    if fixed then
      match dst_nodata, src_nodata with
      | None, None => if is_float dt then Some nanN else None
      | _, _ => dst_nodata
      end
    else dst_nodata.

  (** BlockAssembler.extract(fill_value=src_nodata, dtype=dtype): value of missing blocks *)
  Definition extract_fill (src_nodata : option N) (dt : dtype) : V :=
    match src_nodata with
    | Some s => cast dt s
    | None => if is_float dt then vnan dt else vzero dt
    end.

  (** _xr_reproject_da: (src_nodata, dst_nodata) after defaulting from the keyword and
      the array's nodata attribute *)
  Definition xr_nodata (dst_nodata kw_src_nodata attr_nodata : option N) : option N * option N :=
    let sn := match kw_src_nodata with Some s => Some s | None => attr_nodata end in
    let dn := match dst_nodata with Some d => Some d | None => sn end in
    (sn, dn).

  (** What rasterio/GDAL leave in destination pixels that nothing is written to
      (INIT_DEST=NO_DATA; rasterio defaults dst_nodata to src_nodata): the contract
      assumed of the oracle's initial value. *)
  Definition gdal_init (dst_nodata src_nodata : option N) (dt : dtype) : V :=
    match dst_nodata with
    | Some d => cast dt d
    | None => match src_nodata with Some s => cast dt s | None => vzero dt end
    end.
End Fill.

Section Warp.
  Context {dtype N V : Type}.
  Variable is_float : dtype -> bool.
  Variable cast : dtype -> N -> V.
  Variable vnan vzero : dtype -> V.
  Variable nanN : N.

  (** The warp oracle ([_rio_reproject] on one 2-d plane): destination nodata, source
      nodata, dtype, source GeoBox (as a view of the source base grid), source pixels in
      view-local coordinates, destination GeoBox (view of the destination base grid);
      result in destination-view-local coordinates.  The previous content of the
      destination array is not an input: rasterio initialises it (init_dest_nodata). *)
  Definition warp_t := option N -> option N -> dtype -> view -> plane V -> view -> plane V.
  Variable warp : warp_t.

  (** Reference semantics of a nearest-neighbour warp between two fixed base grids:
      [nn] maps a destination base-grid pixel to the source base-grid pixel whose value
      it takes (anything outside the source shape = not reached), [sample] is the
      per-pixel transfer (nodata matching, dtype work-arounds), [init] the value of
      pixels that are not written. *)
  Definition warp_local (nn : Z -> Z -> Z * Z) (sample : option N -> option N -> dtype -> V -> V)
             (init : option N -> option N -> dtype -> V) : warp_t :=
    fun dn sn dt sv s dv y x =>
      let p := nn (y + vy0 dv) (x + vx0 dv) in
      if in_view sv (fst p) (snd p)
      then sample dn sn dt (s (fst p - vy0 sv) (snd p - vx0 sv))
      else init dn sn dt.

  (** BlockAssembler.extract for plane [k]: np.full(window, fill) then every block copied
      to its rectangle of the cropped tiling, in dict order *)
  Definition paste (acc : plane V) (r : view) (b : plane V) : plane V :=
    fun y x => if in_view r y x then b (y - vy0 r) (x - vx0 r) else acc y x.

  Definition ba_extract (ct : tiling) (fill : V) (blocks : list (idx * list (plane V))) (k : nat) : plane V :=
    fold_left (fun acc ib => paste acc (tile_view ct (fst ib)) (nth k (snd ib) (fun _ _ => fill)))
              blocks (fun _ _ => fill).

  (** number of leading-axis planes: shape prefix of the first block (an assembler
      without blocks has a bare (ny, nx) shape: one plane) *)
  Definition nplanes (blocks : list (idx * list (plane V))) : nat :=
    match blocks with
    | [] => 1%nat
    | ib :: _ => length (snd ib)
    end.

  (** _do_chunked_reproject(d2s, src_gbt, dst_gbt, dst_idx, *blocks) *)
  Definition do_chunked_reproject (fixed : bool) (d2s : idx -> list idx) (st dtl : tiling) (didx : idx)
             (blocks : list (list (plane V))) (dn sn : option N) (dt : dtype) : res (list (plane V)) :=
    match clip st (d2s didx) with
    | None => Err EValue
    | Some (ct, wv, new_idx) =>
        let dv := tile_view dtl didx in
        let ba := combine new_idx blocks in
        let dn' := chunk_dst_nodata is_float nanN fixed dn sn dt in
        let fill := extract_fill is_float cast vnan vzero sn dt in
        Ok (map (fun k => warp dn' sn dt wv (ba_extract ct fill ba k) dv) (seq 0 (nplanes ba)))
    end.

  (** graph construction in _dask_rio_reproject: one node per destination chunk *)
  Inductive node :=
  | NTask (didx : idx) (srcs : list idx)
  | NConst (shape : Z * Z) (fill : V).

  Definition graph_node (d2s : idx -> list idx) (dtl : tiling) (dn sn : option N) (dt : dtype) (j : idx) : node :=
    match d2s j with
    | [] => NConst (vh (tile_view dtl j), vw (tile_view dtl j))
                   (resolve_fill_value is_float cast vnan vzero dn sn dt)
    | srcs => NTask j srcs
    end.

  (** dask block [i] of the source array, in block-local coordinates *)
  Definition src_block (st : tiling) (src : list (plane V)) (i : idx) : list (plane V) :=
    map (fun p => fun y x => p (y + offy st (fst i)) (x + offx st (snd i))) src.

  (** executing one node (tasks are pure functions of their source blocks) *)
  Definition run_node (fixed : bool) (d2s : idx -> list idx) (st dtl : tiling) (src : list (plane V))
             (dn sn : option N) (dt : dtype) (nd : node) : res (list (plane V)) :=
    match nd with
    | NTask j srcs =>
        if forallb (idx_in_range st) srcs
        then do_chunked_reproject fixed d2s st dtl j (map (src_block st src) srcs) dn sn dt
        else Err EIndex
    | NConst _ fill => Ok (repeat (fun _ _ => fill) (length src))
    end.

  Definition dask_chunk (fixed : bool) (d2s : idx -> list idx) (st dtl : tiling) (src : list (plane V))
             (dn sn : option N) (dt : dtype) (j : idx) : res (list (plane V)) :=
    run_node fixed d2s st dtl src dn sn dt (graph_node d2s dtl dn sn dt j).

  (** tile index holding pixel coordinate [y] (how dask lays blocks out in the result) *)
  Fixpoint locate_from (off : Z -> Z) (fuel : nat) (i y : Z) : Z :=
    match fuel with
    | O => i
    | S f => if y <? off (i + 1) then i else locate_from off f (i + 1) y
    end.
  Definition locate (off : Z -> Z) (n : Z) (y : Z) : Z := locate_from off (Z.to_nat n) 0 y.

  (** value of the computed dask array at plane [k], destination pixel [(y, x)] *)
  Definition dask_pixel (fixed : bool) (d2s : idx -> list idx) (st dtl : tiling) (src : list (plane V))
             (dn sn : option N) (dt : dtype) (dflt : plane V) (k : nat) (y x : Z) : res V :=
    let jy := locate (offy dtl) (nty dtl) y in
    let jx := locate (offx dtl) (ntx dtl) x in
    match dask_chunk fixed d2s st dtl src dn sn dt (jy, jx) with
    | Ok ps => Ok (nth k ps dflt (y - offy dtl jy) (x - offx dtl jx))
    | Err e => Err e
    end.

  (** in-memory path: rio_reproject over the whole arrays, plane by plane *)
  Definition rio_reproject (st dtl : tiling) (src : list (plane V)) (dn sn : option N) (dt : dtype)
    : list (plane V) :=
    map (fun p => warp (rio_dst_nodata is_float nanN dn dt) sn dt (base_view st) p (base_view dtl)) src.
End Warp.

Arguments NTask {V}.
Arguments NConst {V}.
