(** Model of the numeric helpers of odc/geo/math.py (property C20; reused by
    C08).  Hand-written, statement by statement.  Floats are exact rationals
    [Q]; Python ints are [Z]; Python exceptions are [Err kind].  The model says
    what the code DOES: assertion failures and ZeroDivisionError are results.
    Non-finite floats do not exist in [Q]: the [isfinite] guards of the code are
    pass-throughs that the correspondence harness checks separately.

    Tied to the code by tools/props/c20.py (exact differential execution). *)
From Coq Require Import ZArith QArith Qround Qabs List Bool Lia.
From OG Require Import Base.Result Model.Roi.
Import ListNotations.
Open Scope Q_scope.

(** strict comparison on Q as a boolean *)
Definition Qltb (x y : Q) : bool := negb (Qle_bool y x).

(** ZeroDivisionError *)
Definition EZeroDiv : err := EOther.

(** Python [int(x)] on a float: truncation towards zero. *)
Definition Qtrunc (x : Q) : Z := if Qle_bool 0 x then Qfloor x else Qceiling x.

(** C [fmod(x, 1.0)]: keeps the sign of the dividend. *)
Definition fmod1 (x : Q) : Q := x - inject_Z (Qtrunc x).

(** math.maybe_zero *)
Definition maybe_zero (x tol : Q) : Q := if Qltb (Qabs x) tol then 0 else x.

(** math.split_float *)
Definition split_float (x : Q) : Q * Q :=
  let x_part := fmod1 x in
  let x_whole := x - x_part in
  if Qltb (1#2) x_part then (x_whole + 1, x_part - 1)
  else if Qltb x_part (-(1#2)) then (x_whole - 1, x_part + 1)
  else (x_whole, x_part).

(** math.maybe_int.  The code returns either the *same object* [x] or a Python
    [int]; [snap_scale] distinguishes the two with [is], so the model keeps the
    distinction: [Some n] = snapped to the int [n], [None] = passed through. *)
Definition maybe_int_z (x tol : Q) : option Z :=
  let '(x_whole, x_part) := split_float x in
  if Qltb (Qabs x_part) tol then Some (Qtrunc x_whole) else None.

Definition maybe_int (x tol : Q) : Q :=
  match maybe_int_z x tol with Some n => inject_Z n | None => x end.

(** math.snap_scale *)
Definition snap_scale (s tol : Q) : res Q :=
  if Qle_bool (1 - tol) (Qabs s) then Ok (maybe_int s tol)
  else if Qltb (Qabs s) tol then Ok s
  else if Qeq_bool s 0 then Err EZeroDiv
  else
    let s_inv := 1 / s in
    match maybe_int_z s_inv tol with
    | None => Ok s                             (* s_inv_snapped is s_inv *)
    | Some n => if (n =? 0)%Z then Err EZeroDiv else Ok (1 / inject_Z n)
    end.

(** math.align_down / align_up are [Model.Roi.align_down] / [align_up]. *)

(** Python [int.bit_length] *)
Definition bit_length (n : Z) : Z :=
  if (n =? 0)%Z then 0%Z else (Z.log2 (Z.abs n) + 1)%Z.

(** math.align_up_pow2 (integer-exact version, repo commit 4acfa59) *)
Definition align_up_pow2 (x : Z) : Z :=
  if (x <=? 0)%Z then 1%Z else Z.shiftl 1 (bit_length (x - 1)).

(** math.align_down_pow2 *)
Definition align_down_pow2 (x : Z) : Z :=
  let y := align_up_pow2 x in
  if (y >? x)%Z then (y / 2)%Z else y.

(** math.clamp *)
Definition clamp (x lo up : Q) : res Q :=
  if negb (Qle_bool lo up) then Err (EAssert 152)
  else Ok (if Qltb x lo then lo else if Qltb up x then up else x).

Definition clampZ (x lo up : Z) : res Z :=
  if negb (lo <=? up)%Z then Err (EAssert 152)
  else Ok (if (x <? lo)%Z then lo else if (up <? x)%Z then up else x).

(** math.is_almost_int *)
Definition is_almost_int (x tol : Q) : bool :=
  let f := Qabs (fmod1 x) in
  let f := if Qltb (1#2) f then 1 - f else f in
  Qltb f tol.

(** math._snap_edge_pos *)
Definition snap_edge_pos (x0 x1 rs tol : Q) : res (Q * Z) :=
  if negb (Qltb 0 rs) then Err (EAssert 173)
  else if negb (Qle_bool x0 x1) then Err (EAssert 174)
  else
    let _x0 := Qfloor (maybe_int (x0 / rs) tol) in
    let _x1 := Qceiling (maybe_int (x1 / rs) tol) in
    let nx := Z.max 1 (_x1 - _x0) in
    Ok (inject_Z _x0 * rs, nx).

(** math._snap_edge *)
Definition snap_edge (x0 x1 rs tol : Q) : res (Q * Z) :=
  if negb (Qle_bool x0 x1) then Err (EAssert 182)
  else if Qltb 0 rs then snap_edge_pos x0 x1 rs tol
  else
    '(_tx, nx) <- snap_edge_pos x0 x1 (- rs) tol ;;
    Ok (_tx + inject_Z nx * (- rs), nx).

(** math.snap_grid; [off_pix = None] is Python's [None]. *)
Definition snap_grid (x0 x1 rs : Q) (off_pix : option Q) (tol : Q) : res (Q * Z) :=
  match off_pix with
  | None =>
      if Qltb 0 rs then
        let nx := Qceiling (maybe_int ((x1 - x0) / rs) tol) in
        Ok (x0, Z.max 1 nx)
      else if Qeq_bool rs 0 then Err EZeroDiv
      else
        let nx := Qceiling (maybe_int ((x1 - x0) / (- rs)) tol) in
        Ok (x1, Z.max nx 1)
  | Some o =>
      if negb (Qle_bool 0 o && Qltb o 1) then Err (EAssert 207)
      else
        let off := o * Qabs rs in
        '(_tx, nx) <- snap_edge (x0 - off) (x1 - off) rs tol ;;
        Ok (_tx + off, nx)
  end.

(** Affine matrices as the six coefficients [a b c d e f] of
    [[a b c] [d e f] [0 0 1]] (the order the [affine] package iterates in). *)
Record aff := mkAff { aa : Q; ab : Q; ac : Q; ad : Q; ae : Q; af : Q }.

Definition aff_translation (x y : Q) : aff := mkAff 1 0 x 0 1 y.
Definition aff_scale (sx sy : Q) : aff := mkAff sx 0 0 0 sy 0.
Definition aff_mul (m n : aff) : aff :=
  mkAff (aa m * aa n + ab m * ad n) (aa m * ab n + ab m * ae n) (aa m * ac n + ab m * af n + ac m)
        (ad m * aa n + ae m * ad n) (ad m * ab n + ae m * ae n) (ad m * ac n + ae m * af n + af m).
Definition aff_apply (m : aff) (p : Q * Q) : Q * Q :=
  (aa m * fst p + ab m * snd p + ac m, ad m * fst p + ae m * snd p + af m).
Definition aff_eq (m n : aff) : Prop :=
  aa m == aa n /\ ab m == ab n /\ ac m == ac n /\ ad m == ad n /\ ae m == ae n /\ af m == af n.

(** math.is_affine_st *)
Definition is_affine_st (A : aff) (tol : Q) : bool :=
  Qltb (Qabs (ab A)) tol && Qltb (Qabs (ad A)) tol.

(** math.snap_affine *)
Definition snap_affine (A : aff) (ttol stol tol : Q) : res aff :=
  if Qltb tol (Qabs (ab A)) || Qltb tol (Qabs (ad A)) then Ok A
  else
    sx_ <- snap_scale (aa A) stol ;;
    sy_ <- snap_scale (ae A) stol ;;
    let tx_ := maybe_int (ac A) ttol in
    let ty_ := maybe_int (af A) ttol in
    Ok (mkAff sx_ 0 tx_ 0 sy_ ty_).

(** types.res_: a scalar resolution [r] means [(r, -r)]. *)
Inductive some_res := RScalar (r : Q) | RXY (rx ry : Q).
Definition res_xy (r : some_res) : Q * Q :=
  match r with RScalar r => (r, - r) | RXY rx ry => (rx, ry) end.

(** math.data_resolution_and_offset on a 1-d array given as the list of its values *)
Definition data_resolution_and_offset (data : list Q) (fallback : option Q) : res (Q * Q) :=
  let size := Z.of_nat (length data) in
  rs <- (if (size <? 2)%Z then
           if (size <? 1)%Z then Err EValue
           else match fallback with None => Err EValue | Some r => Ok r end
         else Ok ((nth (length data - 1) data 0 - nth 0 data 0) / (inject_Z size - 1))) ;;
  Ok (rs, nth 0 data 0 - (1#2) * rs).

(** math.affine_from_axis *)
Definition affine_from_axis (xx yy : list Q) (fallback : option some_res) : res aff :=
  let '(frx, fry) := match fallback with
                     | None => (None, None)
                     | Some r => (Some (fst (res_xy r)), Some (snd (res_xy r)))
                     end in
  '(xres, xoff) <- data_resolution_and_offset xx frx ;;
  '(yres, yoff) <- data_resolution_and_offset yy fry ;;
  Ok (aff_mul (aff_translation xoff yoff) (aff_scale xres yres)).

(** math.Bin1D *)
Record bin1d := mkBin { bsz : Q; borigin : Q; bdir : Z }.

Definition bin1d_new (sz origin : Q) (direction : Z) : res bin1d :=
  if negb ((direction =? -1)%Z || (direction =? 1)%Z) then Err (EAssert 592)
  else if negb (Qltb 0 sz) then Err (EAssert 593)
  else Ok (mkBin sz origin direction).

Definition bin1d_getitem (b : bin1d) (idx : Z) : Q * Q :=
  let _x := inject_Z idx * bsz b * inject_Z (bdir b) + borigin b in
  (_x, _x + bsz b).

Definition bin1d_bin (b : bin1d) (x : Q) : Z :=
  let ix := Qfloor ((x - borigin b) / bsz b) in
  (bdir b * ix)%Z.

Definition bin1d_from_sample_bin (idx : Z) (bn : Q * Q) (direction : Z) : res bin1d :=
  let '(x0, x1) := bn in
  if negb (Qltb x0 x1) then Err (EAssert 633)
  else
    let sz := x1 - x0 in
    let origin := x0 - sz * inject_Z idx * inject_Z direction in
    bin1d_new sz origin direction.

(** Exact square root on Q ([None] when the argument is not the square of a
    rational); stands for [sqrt] on the inputs where binary64 [sqrt] is exact. *)
Definition exact_sqrt (x : Q) : option Q :=
  let x := Qred x in
  let n := Qnum x in
  let d := Zpos (Qden x) in
  if (n <? 0)%Z then None
  else
    let rn := Z.sqrt n in
    let rd := Z.sqrt d in
    if ((rn * rn =? n) && (rd * rd =? d))%Z then Some (rn # Z.to_pos rd) else None.

(** 2x2 matrices [[m00 m01] [m10 m11]] *)
Record mat2 := mkM { m00 : Q; m01 : Q; m10 : Q; m11 : Q }.
Definition m2mul (x y : mat2) : mat2 :=
  mkM (m00 x * m00 y + m01 x * m10 y) (m00 x * m01 y + m01 x * m11 y)
      (m10 x * m00 y + m11 x * m10 y) (m10 x * m01 y + m11 x * m11 y).
Definition m2T (x : mat2) : mat2 := mkM (m00 x) (m10 x) (m01 x) (m11 x).
Definition m2det (x : mat2) : Q := m00 x * m11 x - m01 x * m10 x.
Definition m2eq (x y : mat2) : Prop :=
  m00 x == m00 y /\ m01 x == m01 y /\ m10 x == m10 y /\ m11 x == m11 y.
Definition m2I : mat2 := mkM 1 0 0 1.

(** math.decompose_rws on a 2x2 ndarray, the two square roots of the Cholesky
    factorisation being supplied ([l11] = sqrt of (AtA)00, [l22] = sqrt of the
    Schur complement): WS = cholesky(A.T @ A).T, R = A @ inv(WS), sign fix,
    S = diag(diag WS), W = WS @ diag(1/ss). *)
Definition decompose_rws_with (l11 l22 : Q) (A : mat2) : mat2 * mat2 * mat2 :=
  let M := m2mul (m2T A) A in
  let l21 := m01 M / l11 in
  let WS := mkM l11 l21 0 l22 in
  let iWS := mkM (1 / l11) (- l21 / (l11 * l22)) 0 (1 / l22) in
  let R := m2mul A iWS in
  let '(R, WS) := if Qltb (m2det R) 0
                  then (mkM (m00 R) (- m01 R) (m10 R) (- m11 R), mkM (m00 WS) (m01 WS) (- m10 WS) (- m11 WS))
                  else (R, WS) in
  let Sm := mkM (m00 WS) 0 0 (m11 WS) in
  let Wm := m2mul WS (mkM (1 / m00 WS) 0 0 (1 / m11 WS)) in
  (R, Wm, Sm).

(** executable version: [Err EOther] stands for LinAlgError (matrix not positive
    definite) or an irrational root (outside the exact model). *)
Definition decompose_rws (A : mat2) : res (mat2 * mat2 * mat2) :=
  let M := m2mul (m2T A) A in
  match exact_sqrt (m00 M) with
  | None => Err EOther
  | Some l11 =>
      if Qeq_bool l11 0 then Err EOther
      else
        let l21 := m01 M / l11 in
        match exact_sqrt (m11 M - l21 * l21) with
        | None => Err EOther
        | Some l22 => if Qeq_bool l22 0 then Err EOther else Ok (decompose_rws_with l11 l22 A)
        end
  end.

(** math.resolution_from_affine; [tol] is is_affine_st's default 1e-10, passed in
    as the exact value of that binary64 constant *)
Definition resolution_from_affine (A : aff) (tol : Q) : res (Q * Q) :=
  if is_affine_st A tol then Ok (aa A, ae A)
  else
    '(_, _, Sm) <- decompose_rws (mkM (aa A) (ab A) (ad A) (ae A)) ;;
    Ok (m00 Sm, m11 Sm).

(** math.affine_from_pts as the solution of the normal equations of the
    least-squares problem  [x y 1] * mm = Y  (3x3 Cramer over Q).  numpy's
    [lstsq] itself is an oracle: for a full-rank system its exact answer is this
    solution. *)
Definition det3 (a b c d e f g h i : Q) : Q :=
  a * (e * i - f * h) - b * (d * i - f * g) + c * (d * h - e * g).

Definition sumQ (l : list Q) : Q := fold_right Qplus 0 l.

(** moments of the source points and the determinant of the normal matrix *)
Definition moments (X : list (Q * Q)) : Q * Q * Q * Q * Q * Q :=
  (sumQ (map (fun p => fst p * fst p) X), sumQ (map (fun p => fst p * snd p) X),
   sumQ (map (fun p => snd p * snd p) X), sumQ (map fst X), sumQ (map snd X),
   inject_Z (Z.of_nat (length X))).

Definition normal_det (X : list (Q * Q)) : Q :=
  let '(sxx, sxy, syy, sx, sy, n) := moments X in det3 sxx sxy sx sxy syy sy sx sy n.

(** right-hand side of the normal equations for one output coordinate *)
Definition normal_rhs (XY : list ((Q * Q) * (Q * Q))) (sel : Q * Q -> Q) : Q * Q * Q :=
  (sumQ (map (fun p => fst (fst p) * sel (snd p)) XY),
   sumQ (map (fun p => snd (fst p) * sel (snd p)) XY),
   sumQ (map (fun p => sel (snd p)) XY)).

Definition cramer3 (X : list (Q * Q)) (rhs : Q * Q * Q) : Q * Q * Q :=
  let '(sxx, sxy, syy, sx, sy, n) := moments X in
  let '(r0, r1, r2) := rhs in
  let D := normal_det X in
  (det3 r0 sxy sx r1 syy sy r2 sy n / D,
   det3 sxx r0 sx sxy r1 sy sx r2 n / D,
   det3 sxx sxy r0 sxy syy r1 sx sy r2 / D).

Definition affine_from_pts (X Y : list (Q * Q)) : res aff :=
  if negb (Nat.eqb (length X) (length Y)) then Err (EAssert 478)
  else if negb (3 <=? Z.of_nat (length X))%Z then Err (EAssert 479)
  else if Qeq_bool (normal_det X) 0 then Err EOther   (* rank deficient: outside the contract *)
  else
    let XY := combine X Y in
    let '(a, b, c) := cramer3 X (normal_rhs XY fst) in
    let '(d, e, f) := cramer3 X (normal_rhs XY snd) in
    Ok (mkAff a b c d e f).
