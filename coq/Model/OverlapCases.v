(** Correspondence cases for Model/Overlap.v: each constructor carries the inputs
    given to the real function and the canonicalised result it returned;
    [check] compares with the model (rationals with [Qeq_bool], i.e. exactly). *)
From Coq Require Import ZArith QArith List Bool.
From OG Require Import Base.Result Base.Eqb Model.Roi Model.Overlap.
Import ListNotations.
Open Scope Z_scope.

Definition qq_eqb := pair_eqb Qeqb Qeqb.
Definition roi_eqb : roi2 -> roi2 -> bool := pair_eqb zz_eqb zz_eqb.
Definition aff_eqb (x y : affine) : bool :=
  Qeqb (aa x) (aa y) && Qeqb (ab x) (ab y) && Qeqb (ac x) (ac y) &&
  Qeqb (ad x) (ad y) && Qeqb (ae x) (ae y) && Qeqb (af x) (af y).

Definition info_eqb (cmp_scale : bool) (x y : rinfo) : bool :=
  roi_eqb (roi_src x) (roi_src y) && roi_eqb (roi_dst x) (roi_dst y) &&
  Bool.eqb (paste_ok x) (paste_ok y) && (read_shrink x =? read_shrink y) &&
  (negb cmp_scale || (Qeqb (scale x) (scale y) && qq_eqb (scale_xy x) (scale_xy y))).

(** a recorded point transform: table of (argument, result) pairs *)
Definition ptab : Type := list ((Q * Q) * option (Q * Q)).
Definition tab_fn (tab : ptab) : ptrans :=
  fun p => match find (fun e => qq_eqb (fst e) p) tab with
           | Some e => snd e
           | None => None
           end.

Inductive case :=
| CAxis (Ns Nd : Z) (s t : Q) (expect : res ((Z * Z) * (Z * Z)))
| CBox (ss ds : shape2) (A : affine) (expect : res (roi2 * roi2))
| CSplit (x : Q) (expect : Q * Q)
| CMaybeInt (x tol : Q) (expect : Q)
| CAlmost (x tol : Q) (expect : bool)
| CSnapScale (s tol : Q) (expect : Q)
| CSnapAffine (A : affine) (ttol stol tol : Q) (expect : affine)
| CIsSt (A : affine) (tol : Q) (expect : bool)
| CScale2 (A : affine) (expect : res (Q * Q))
| CPick (scale tol : Q) (expect : res Z)
| CCanPaste (c : consts) (A : affine) (stol ttol : Q) (expect : res Z)
| CBoundary (roi : roi2) (n : nat) (expect : list (Q * Q))
| CReproj (c : consts) (ss ds : shape2) (A F : affine) (ttol stol : Q)
          (padding align : option Z) (cmp_scale : bool) (expect : res rinfo)
(** [sc_at]: the destination point at which the implementation sampled the local scale
    (get_scale_at_point), [sc] the value it obtained there; the oracle answers only at that point *)
| CReprojNL (c : consts) (back fwd : ptab) (sc_at : Q * Q) (sc : res (Q * Q)) (ss ds : shape2)
            (padding align : option Z) (expect : res rinfo).

Definition check (c : case) : bool :=
  match c with
  | CAxis Ns Nd s t e => res_eqb (pair_eqb zz_eqb zz_eqb) (axis_overlap Ns Nd s t) e
  | CBox ss ds A e => res_eqb (pair_eqb roi_eqb roi_eqb) (box_overlap ss ds A) e
  | CSplit x e => qq_eqb (split_float x) e
  | CMaybeInt x tol e => Qeqb (maybe_int x tol) e
  | CAlmost x tol e => Bool.eqb (is_almost_int x tol) e
  | CSnapScale s tol e => Qeqb (snap_scale s tol) e
  | CSnapAffine A ttol stol tol e => aff_eqb (snap_affine A ttol stol tol) e
  | CIsSt A tol e => Bool.eqb (is_affine_st A tol) e
  | CScale2 A e => res_eqb qq_eqb (scale2 A) e
  | CPick s tol e => res_eqb Z.eqb (pick_read_scale s tol) e
  | CCanPaste c A stol ttol e => res_eqb Z.eqb (can_paste_code c A stol ttol) e
  | CBoundary roi n e => list_eqb qq_eqb (boundary_pts roi n) e
  | CReproj c ss ds A F ttol stol p al cmp e =>
      res_eqb (info_eqb cmp) (reproject_linear c ss ds A F ttol stol p al) e
  | CReprojNL c back fwd sc_at sc ss ds p al e =>
      let r := reproject_nonlinear c (tab_fn back) (tab_fn fwd)
                                   (fun pt => if qq_eqb pt sc_at then sc else Err EOther) ss ds p al in
      res_eqb (info_eqb true) r e &&
      (* the tables are the implementation's calls in order: it must have handed exactly the model's
         sampled boundaries (5 points per side, same order) to the point transforms *)
      list_eqb qq_eqb (map fst back) (boundary_pts ((0, fst ds), (0, snd ds)) 5) &&
      match r with
      | Ok i => if roi_empty (roi_src i) then match fwd with [] => true | _ => false end
                else list_eqb qq_eqb (map fst fwd) (boundary_pts (roi_src i) 5)
      | Err _ => true
      end
  end.
