(** Model of [odc.geo.overlap.compute_output_geobox] and of what it calls
    (property C11).  Floats are exact rationals (DESIGN.md section 3).

    Followed statement by statement:
      odc/geo/math.py    split_float, maybe_int, _snap_edge_pos, _snap_edge, snap_grid
      odc/geo/geobox.py  _norm_anchor, GeoBox.from_bbox (BoundingBox input with a CRS)
      odc/geo/overlap.py compute_output_geobox
      odc/geo/crs.py     norm_crs 'utm' / 'utm-n' / 'utm-s' branch, _pick_best_crs

    Oracles (inputs of the model, quantified in the theorems):
      [B]     bounding box of gbox.footprint(crs, buffer=0.9, npoints=100)
      [dst]   the CRS that bounding box carries (identity of a CRS is an
              integer; equal integers <-> pyproj says the CRSs are equal),
              [s_units]/[dunits] the unit tuples of the two CRSs (as integers)
      [fit]   avg_res computed from the centre pixel in the fit branch
      the round_resolution callable; the UTM candidates returned by pyproj's
      database query with their overlap fraction; the zone letter of a CRS. *)
From Coq Require Import ZArith QArith Qround Qabs List Bool.
From OG Require Import Base.Result.
Import ListNotations.
Open Scope Q_scope.

Definition Qltb (x y : Q) : bool := negb (Qle_bool y x).
Definition qmin (x y : Q) : Q := if Qle_bool x y then x else y.
Definition qmax (x y : Q) : Q := if Qle_bool x y then y else x.

(** * odc/geo/math.py *)

(** C [fmod(x, 1.0)] keeps the sign of [x]: [x - trunc x]. *)
Definition Qtrunc (x : Q) : Z := if Qle_bool 0 x then Qfloor x else Qceiling x.
Definition fmod1 (x : Q) : Q := x - inject_Z (Qtrunc x).

(** [split_float]: (whole, part) *)
Definition split_float (x : Q) : Q * Q :=
  let x_part := fmod1 x in
  let x_whole := x - x_part in
  if Qltb (1 # 2) x_part then (x_whole + 1, x_part - 1)
  else if Qltb x_part (- (1 # 2)) then (x_whole - 1, x_part + 1)
  else (x_whole, x_part).

(** [maybe_int]: [int(x_whole)] of an integral value, or [x] itself *)
Definition maybe_int (x tol : Q) : Q :=
  let '(x_whole, x_part) := split_float x in
  if Qltb (Qabs x_part) tol then inject_Z (Qtrunc x_whole) else x.

Definition A_SNAP_POS_RES := 172%Z.
Definition A_SNAP_POS_ORDER := 173%Z.
Definition A_SNAP_ORDER := 181%Z.
Definition A_SNAP_OFF := 205%Z.

Definition snap_edge_pos (x0 x1 rs tol : Q) : res (Q * Z) :=
  _ <- guard (Qltb 0 rs) (EAssert A_SNAP_POS_RES) ;;
  _ <- guard (Qle_bool x0 x1) (EAssert A_SNAP_POS_ORDER) ;;
  let _x0 := Qfloor (maybe_int (x0 / rs) tol) in
  let _x1 := Qceiling (maybe_int (x1 / rs) tol) in
  let nx := Z.max 1 (_x1 - _x0) in
  Ok (inject_Z _x0 * rs, nx).

Definition snap_edge (x0 x1 rs tol : Q) : res (Q * Z) :=
  _ <- guard (Qle_bool x0 x1) (EAssert A_SNAP_ORDER) ;;
  if Qltb 0 rs then snap_edge_pos x0 x1 rs tol
  else
    '(_tx, nx) <- snap_edge_pos x0 x1 (- rs) tol ;;
    Ok (_tx + inject_Z nx * (- rs), nx).

(** [snap_grid(x0, x1, rs, off_pix, tol)]; [off_pix = None] is "don't snap" *)
Definition snap_grid (x0 x1 rs : Q) (off_pix : option Q) (tol : Q) : res (Q * Z) :=
  match off_pix with
  | None =>
      if Qltb 0 rs then
        let nx := Qceiling (maybe_int ((x1 - x0) / rs) tol) in
        Ok (x0, Z.max 1 nx)
      else
        _ <- guard (negb (Qeq_bool rs 0)) EOther ;;      (* ZeroDivisionError *)
        let nx := Qceiling (maybe_int ((x1 - x0) / (- rs)) tol) in
        Ok (x1, Z.max nx 1)
  | Some o =>
      _ <- guard (Qle_bool 0 o && Qltb o 1) (EAssert A_SNAP_OFF) ;;
      let off := o * Qabs rs in
      '(_tx, nx) <- snap_edge (x0 - off) (x1 - off) rs tol ;;
      Ok (_tx + off, nx)
  end.

(** Python [round(x, 0)] / [round(x)] on a float: round half to even *)
Definition round_half_even (x : Q) : Z :=
  let f := Qfloor x in
  let d := x - inject_Z f in
  if Qltb d (1 # 2) then f
  else if Qltb (1 # 2) d then (f + 1)%Z
  else if Z.even f then f else (f + 1)%Z.

(** * Affine (the six coefficients a b c / d e f) *)
Record affine := mkAff { aa : Q; ab : Q; ac : Q; ad : Q; ae : Q; af : Q }.
Definition aff_translation (x y : Q) := mkAff 1 0 x 0 1 y.
Definition aff_scale (sx sy : Q) := mkAff sx 0 0 0 sy 0.
Definition aff_mul (m n : affine) : affine :=
  mkAff (aa m * aa n + ab m * ad n) (aa m * ab n + ab m * ae n) (aa m * ac n + ab m * af n + ac m)
        (ad m * aa n + ae m * ad n) (ad m * ab n + ae m * ae n) (ad m * ac n + ae m * af n + af m).

(** * odc/geo/geobox.py *)
Record bbox := mkBox { bl : Q; bb : Q; br : Q; bt : Q }.
Definition span_x (B : bbox) := br B - bl B.
Definition span_y (B : bbox) := bt B - bb B.

Record gbox := mkG { g_ny : Z; g_nx : Z; g_aff : affine; g_crs : Z }.

Inductive anchor_str := SCenter | SCentre | SEdge | SFloating | SDefault | SOther.
Inductive anchor :=
| AEnumEdge | AEnumCenter | AEnumFloating      (* AnchorEnum members *)
| ANum (q : Q)                                 (* float / int *)
| AXY (x y : Q)                                (* XY[float] *)
| AStr (s : anchor_str).

Inductive nanchor := NEdge | NCenter | NFloating | NXY (x y : Q).

Definition norm_anchor (a : anchor) : res nanchor :=
  match a with
  | AEnumEdge => Ok NEdge
  | AEnumCenter => Ok NCenter
  | AEnumFloating => Ok NFloating
  | ANum q => if Qeq_bool q 0 then Ok NEdge
              else if Qeq_bool q (1 # 2) then Ok NCenter
              else Ok (NXY q q)
  | AXY x y => Ok (NXY x y)
  | AStr SCenter | AStr SCentre => Ok NCenter
  | AStr SEdge | AStr SDefault => Ok NEdge
  | AStr SFloating => Ok NFloating
  | AStr SOther => Err EOther                   (* KeyError *)
  end.

Inductive shape_req :=
| ShapeN (n : Z)            (* a single number: pixels along the longest side *)
| ShapeYX (ny nx : Z).      (* (ny, nx) *)

Definition snap_of (tight : bool) (a : nanchor) : option (Q * Q) :=
  let a := if tight then NFloating else a in
  match a with
  | NXY x y => Some (x, y)
  | NEdge => Some (0, 0)
  | NCenter => Some (1 # 2, 1 # 2)
  | NFloating => None
  end.

Definition from_bbox (B : bbox) (crs : Z) (tight : bool) (shape : option shape_req)
           (resolution : option (Q * Q)) (anc : anchor) (tol : Q) : res gbox :=
  a <- norm_anchor anc ;;
  let _snap := snap_of tight a in
  (* isinstance(shape, (int, float)) *)
  sr <- match shape with
        | Some (ShapeN n) =>
            _ <- guard (negb (Qeq_bool (span_y B) 0)) EOther ;;       (* bbox.aspect *)
            _ <- guard (negb (Z.eqb n 0)) EOther ;;
            let r := if Qltb 1 (span_x B / span_y B) then span_x B / inject_Z n
                     else span_y B / inject_Z n in
            Ok (None, Some (r, - r))                                  (* res_(resolution) *)
        | _ => Ok (shape, resolution)
        end ;;
  let '(shape, resolution) := sr in
  match resolution with
  | Some (rx, ry) =>
      '(offx, nx) <- snap_grid (bl B) (br B) rx (option_map fst _snap) tol ;;
      '(offy, ny) <- snap_grid (bb B) (bt B) ry (option_map snd _snap) tol ;;
      Ok (mkG ny nx (aff_mul (aff_translation offx offy) (aff_scale rx ry)) crs)
  | None =>
      match shape with
      | Some (ShapeYX ny nx) =>
          _ <- guard (negb (Z.eqb nx 0)) EOther ;;
          let rx := span_x B / inject_Z nx in
          _ <- guard (negb (Z.eqb ny 0)) EOther ;;
          let ry := - span_y B / inject_Z ny in
          off <- match _snap with
                 | None => Ok (bl B, bt B)
                 | Some (sx, sy) =>
                     '(offx, _) <- snap_grid (bl B) (br B) rx (Some sx) tol ;;
                     '(offy, _) <- snap_grid (bb B) (bt B) ry (Some sy) tol ;;
                     Ok (offx, offy)
                 end ;;
          let '(offx, offy) := off in
          Ok (mkG ny nx (aff_mul (aff_translation offx offy) (aff_scale rx ry)) crs)
      | _ => Err EValue                         (* "Must supply shape or resolution" *)
      end
  end.

(** * The footprint request that produces the oracle box [B]
    [GeoBoxBase.footprint(crs, buffer, npoints)]: the extent is grown by
    [buffer] source pixels — a distance of [buffer * max(|rx|, |ry|)] — and
    compute_output_geobox asks for [buffer = 0.9] and one boundary point per
    256 pixels (at least 100, at most 10000 per side). *)
Definition footprint_buffer (buffer : Q) (rs : Q * Q) : Q :=
  buffer * qmax (Qabs (fst rs)) (Qabs (snd rs)).

(** the expression before repair b8c684a: max of the signed components *)
Definition footprint_buffer_unrepaired (buffer : Q) (rs : Q * Q) : Q :=
  buffer * qmax (fst rs) (snd rs).

Definition footprint_npoints (ny nx : Z) : Z :=
  Z.max 100 (Z.min (Z.max ny nx / 256) 10000).

(** * odc/geo/overlap.py compute_output_geobox *)
Record src := mkSrc {
  s_isgeobox : bool;      (* isinstance(gbox, GeoBox) (False for GCPGeoBox) *)
  s_crs : Z;
  s_units : Z;
  s_res : Q * Q           (* gbox.resolution (x, y) *)
}.

Inductive res_req :=
| RSame | RAuto | RFit
| RStr                     (* any other string *)
| RNum (q : Q)             (* int / float *)
| RXY (x y : Q).           (* a Resolution object *)

Inductive rr_mode :=
| RRNone | RRBool (b : bool) | RRFun (f : Q -> Q).

Inductive outcome :=
| OSame                    (* the input object itself is returned *)
| ONew (g : gbox).

Definition res_ (q : Q) : Q * Q := (q, - q).

Definition is_auto_or_same (r : res_req) : bool :=
  match r with RSame | RAuto => true | _ => false end.
Definition is_default_anchor (a : anchor) : bool :=
  match a with AStr SDefault => true | _ => false end.
Definition is_none {A} (o : option A) : bool := match o with None => true | _ => false end.

(** the resolution handed to from_bbox ([None] when a shape is requested) *)
Definition choose_resolution (s : src) (dunits : Z) (fit : Q) (rq : res_req)
           (shape : option shape_req) (rr : rr_mode) : res (option (Q * Q)) :=
  let same_units := Z.eqb (s_units s) dunits in
  if negb (is_none shape) then Ok None
  else match rq with
       | RSame => Ok (Some (s_res s))
       | RAuto | RFit =>
           if (match rq with RAuto => same_units | _ => false end) then Ok (Some (s_res s))
           else
             let avg_res := fit in
             let avg_res := match rr with
                            | RRNone => avg_res
                            | RRBool true => inject_Z (round_half_even avg_res)
                            | RRBool false => avg_res
                            | RRFun f => f avg_res
                            end in
             Ok (Some (res_ avg_res))
       | RStr => Err EValue
       | RNum q => Ok (Some (res_ q))
       | RXY x y => Ok (Some (x, y))
       end.

Definition compute_output_geobox (s : src) (dst dunits : Z) (B : bbox) (fit : Q)
           (rq : res_req) (shape : option shape_req) (tight : bool) (anc : anchor)
           (tol : Q) (rr : rr_mode) : res outcome :=
  if Z.eqb dst (s_crs s) && is_auto_or_same rq && is_none shape && is_default_anchor anc
     && s_isgeobox s
  then Ok OSame
  else
    r <- choose_resolution s dunits fit rq shape rr ;;
    g <- from_bbox B dst tight shape r anc tol ;;
    Ok (ONew g).

(** * odc/geo/crs.py: 'utm' / 'utm-n' / 'utm-s' *)
Inductive utm_req := Utm | UtmN | UtmS.
Inductive zone_letter := ZN | ZS | ZOther.

(** first candidate with the largest key: [sorted(.., key=overlap_pct, reverse=True)[0]]
    (Python's sort is stable also with reverse=True) *)
Fixpoint first_max (best : Z * Q) (l : list (Z * Q)) : Z * Q :=
  match l with
  | [] => best
  | c :: l' => first_max (if Qltb (snd best) (snd c) then c else best) l'
  end.

(** [_pick_best_crs]: candidates as (epsg, overlap fraction); [area_big] is [poly.area > 1e-9] *)
Definition pick_best_crs (cands : list (Z * Q)) (area_big : bool) : res Z :=
  match cands with
  | [] => Err EValue
  | c :: rest =>
      if (1 <? Z.of_nat (length cands))%Z && area_big then Ok (fst (first_max c rest))
      else Ok (fst c)
  end.

Definition norm_crs_utm (rq : utm_req) (cands : list (Z * Q)) (area_big : bool)
           (letter : Z -> zone_letter) : res Z :=
  epsg <- pick_best_crs cands area_big ;;
  match rq with
  | Utm => Ok epsg
  | UtmN => match letter epsg with ZS => Ok (epsg - 100)%Z | _ => Ok epsg end
  | UtmS => match letter epsg with ZN => Ok (epsg + 100)%Z | _ => Ok epsg end
  end.

(** * Derived geometry of a result (used by statements and by the case checker) *)
Definition g_x0 (g : gbox) : Q := ac (g_aff g).
Definition g_x1 (g : gbox) : Q := ac (g_aff g) + inject_Z (g_nx g) * aa (g_aff g).
Definition g_y0 (g : gbox) : Q := af (g_aff g).
Definition g_y1 (g : gbox) : Q := af (g_aff g) + inject_Z (g_ny g) * ae (g_aff g).
Definition g_left (g : gbox) : Q := qmin (g_x0 g) (g_x1 g).
Definition g_right (g : gbox) : Q := qmax (g_x0 g) (g_x1 g).
Definition g_bottom (g : gbox) : Q := qmin (g_y0 g) (g_y1 g).
Definition g_top (g : gbox) : Q := qmax (g_y0 g) (g_y1 g).
