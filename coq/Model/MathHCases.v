(** Correspondence cases for the C20 model (Model/MathH.v): each constructor
    carries the inputs given to the real function in odc/geo/math.py and the
    canonicalised result it returned; [check] compares with the model (rationals
    with [Qeq_bool], everything else exactly). *)
From Coq Require Import ZArith QArith List Bool.
From OG Require Import Base.Result Base.Eqb Model.Roi Model.MathH.
Import ListNotations.
Open Scope Z_scope.

Definition qz_eqb := pair_eqb Qeqb Z.eqb.
Definition qq_eqb := pair_eqb Qeqb Qeqb.
Definition aff_eqb (m n : aff) : bool :=
  Qeqb (aa m) (aa n) && Qeqb (ab m) (ab n) && Qeqb (ac m) (ac n) &&
  Qeqb (ad m) (ad n) && Qeqb (ae m) (ae n) && Qeqb (af m) (af n).
Definition mat2_eqb (x y : mat2) : bool :=
  Qeqb (m00 x) (m00 y) && Qeqb (m01 x) (m01 y) && Qeqb (m10 x) (m10 y) && Qeqb (m11 x) (m11 y).
Definition bin_eqb (x y : bin1d) : bool :=
  Qeqb (bsz x) (bsz y) && Qeqb (borigin x) (borigin y) && (bdir x =? bdir y).

Inductive case :=
| CSplit (x w p : Q)
| CMaybeZero (x tol r : Q)
| CMaybeInt (x tol : Q) (snapped : option Z)      (* Some n: returned the int n; None: returned x itself *)
| CAlmostInt (x tol : Q) (r : bool)
| CSnapScale (s tol : Q) (r : res Q)
| CAlignDU (x a down up : Z)
| CPow2 (x up down : Z)
| CClamp (x lo up : Q) (r : res Q)
| CClampZ (x lo up : Z) (r : res Z)
| CSnapEdgePos (x0 x1 rs tol : Q) (r : res (Q * Z))
| CSnapEdge (x0 x1 rs tol : Q) (r : res (Q * Z))
| CSnapGrid (x0 x1 rs : Q) (off : option Q) (tol : Q) (r : res (Q * Z))
| CIsSt (A : aff) (tol : Q) (r : bool)
| CSnapAffine (A : aff) (ttol stol tol : Q) (r : res aff)
| CDataRes (data : list Q) (fb : option Q) (r : res (Q * Q))
| CAxis (xx yy : list Q) (fb : option some_res) (r : res aff)
| CBinNew (sz origin : Q) (dir : Z) (r : res bin1d)
| CBinGet (sz origin : Q) (dir idx : Z) (r : Q * Q)
| CBinBin (sz origin : Q) (dir : Z) (x : Q) (r : Z)
| CBinSample (idx : Z) (x0 x1 : Q) (dir : Z) (r : res bin1d)
| CRws (A : mat2) (r : res (mat2 * mat2 * mat2))
| CResAff (A : aff) (tol : Q) (r : res (Q * Q)).

Definition check (c : case) : bool :=
  match c with
  | CSplit x w p => qq_eqb (split_float x) (w, p)
  | CMaybeZero x tol r => Qeqb (maybe_zero x tol) r
  | CMaybeInt x tol s =>
      opt_eqb Z.eqb (maybe_int_z x tol) s &&
      Qeqb (maybe_int x tol) (match s with Some n => inject_Z n | None => x end)
  | CAlmostInt x tol r => Bool.eqb (is_almost_int x tol) r
  | CSnapScale s tol r => res_eqb Qeqb (snap_scale s tol) r
  | CAlignDU x a d u => (align_down x a =? d) && (align_up x a =? u)
  | CPow2 x u d => (align_up_pow2 x =? u) && (align_down_pow2 x =? d)
  | CClamp x lo up r => res_eqb Qeqb (clamp x lo up) r
  | CClampZ x lo up r => res_eqb Z.eqb (clampZ x lo up) r
  | CSnapEdgePos x0 x1 rs tol r => res_eqb qz_eqb (snap_edge_pos x0 x1 rs tol) r
  | CSnapEdge x0 x1 rs tol r => res_eqb qz_eqb (snap_edge x0 x1 rs tol) r
  | CSnapGrid x0 x1 rs off tol r => res_eqb qz_eqb (snap_grid x0 x1 rs off tol) r
  | CIsSt A tol r => Bool.eqb (is_affine_st A tol) r
  | CSnapAffine A ttol stol tol r => res_eqb aff_eqb (snap_affine A ttol stol tol) r
  | CDataRes data fb r => res_eqb qq_eqb (data_resolution_and_offset data fb) r
  | CAxis xx yy fb r => res_eqb aff_eqb (affine_from_axis xx yy fb) r
  | CBinNew sz o d r => res_eqb bin_eqb (bin1d_new sz o d) r
  | CBinGet sz o d i r => qq_eqb (bin1d_getitem (mkBin sz o d) i) r
  | CBinBin sz o d x r => bin1d_bin (mkBin sz o d) x =? r
  | CBinSample i x0 x1 d r => res_eqb bin_eqb (bin1d_from_sample_bin i (x0, x1) d) r
  | CRws A r => res_eqb (pair_eqb (pair_eqb mat2_eqb mat2_eqb) mat2_eqb) (decompose_rws A) r
  | CResAff A tol r => res_eqb qq_eqb (resolution_from_affine A tol) r
  end.
