(** Model of odc/geo/cog/_mpu.py: [MPUChunk] (append, merge, flush_rhs, flush,
    maybe_write, gen_bunch) and the dask graph operators
    (_mpu_append_chunks_op, _merge_and_spill_op, _mpu_collate_op,
    _finalizer_dask_op, mpu_write's part-id allocation), statement by statement.

    Bytes are [list A] for an arbitrary [A]; chunk ids are [option CI].  The
    writer is a pure log: every operation returns the new chunk together with
    the list of parts it handed to the writer.  A schedule is a binary [tree]
    over adjacent partitions (dask's fold/collate shapes are instances).

    [fixes] selects between the code as it was at the pinned commit and the
    repaired code (three independent repairs, see Props/C06.v); the model of the
    current code is [fixed]. *)
From Coq Require Import ZArith List Bool Lia.
From OG Require Import Base.Result Base.ListSel.
Import ListNotations.
Open Scope Z_scope.

Record fixes := { fx_final_loop : bool; fx_spill_min : bool; fx_left_id : bool }.
Definition fixed := {| fx_final_loop := true; fx_spill_min := true; fx_left_id := true |}.
Definition unfixed := {| fx_final_loop := false; fx_spill_min := false; fx_left_id := false |}.

Record writer := { minw : Z; minp : Z; maxp : Z }.

Definition isnil {X} (l : list X) : bool := match l with [] => true | _ => false end.

Section Mpu.
Context {A CI : Type}.

Definition part := (Z * list A)%type.

Record chunk := mk {
  next : Z; credits : Z; data : list A; left : list A;
  parts : list part; observed : list (Z * option CI); final : bool; keep : Z }.

Definition started (c : chunk) : bool := negb (isnil (parts c)).

Definition fresh (pid wc : Z) (fin : bool) (k : Z) : chunk := mk pid wc [] [] [] [] fin k.

Definition set_final (c : chunk) (f : bool) : chunk :=
  mk (next c) (credits c) (data c) (left c) (parts c) (observed c) f (keep c).

(* MPUChunk.append *)
Definition append (c : chunk) (d : list A) (id : option CI) : chunk :=
  mk (next c) (credits c) (data c ++ d) (left c) (parts c) (observed c ++ [(len d, id)])
     (final c) (keep c).

(* closure can_flush of flush_rhs; [d] is self.data + extra_data *)
Definition can_flush (pw : writer) (c : chunk) (d : list A) : bool :=
  if credits c <? 1 then false
  else if started c then final c || (minw pw <=? len d)
  else if final c then keep c <? len d
  else minw pw <=? len d - keep c.

(* closure _flush_data of flush_rhs *)
Definition flush_data (pw : writer) (c : chunk) (d : list A) : res (chunk * list part) :=
  _ <- guard ((minp pw <=? next c) && (next c <=? maxp pw)) (EAssert 175) ;;
  let ld := if negb (started c) && (0 <? keep c)
            then (take (keep c) d, drop (keep c) d) else (left c, d) in
  let p := (next c, snd ld) in
  Ok (mk (next c + 1) (credits c - 1) [] (fst ld) (parts c ++ [p]) (observed c) (final c) (keep c),
      [p]).

Definition moved (c : chunk) (d : list A) : chunk :=
  mk (next c) (credits c) [] (left c ++ d) (parts c) (observed c) (final c) (keep c).

(* MPUChunk.flush_rhs *)
Definition flush_rhs (w : option writer) (c : chunk) (extra : list A) : res (chunk * list part) :=
  let d := data c ++ extra in
  if started c then
    match w with
    | None => Err ERuntime
    | Some pw => _ <- guard (can_flush pw c d) (EAssert 207) ;; flush_data pw c d
    end
  else
    match w with
    | Some pw => if can_flush pw c d then flush_data pw c d else Ok (moved c d, [])
    | None => Ok (moved c d, [])
    end.

(* MPUChunk.merge (the constructor's assertion of line 93 included) *)
Definition merge (w : option writer) (l r : chunk) : res (chunk * list part) :=
  if negb (started r) then
    _ <- guard (isnil (left r)) (EAssert 138) ;;
    _ <- guard (negb (isnil (observed l ++ observed r))) (EAssert 93) ;;
    Ok (mk (next l) (credits l + credits r) (data l ++ data r) (left l) (parts l)
           (observed l ++ observed r) (final r) (keep l), [])
  else
    lw <- flush_rhs w l (left r) ;;
    _ <- guard (negb (isnil (observed l ++ observed r))) (EAssert 93) ;;
    Ok (mk (next r) (credits r) (data r) (left (fst lw)) (parts (fst lw) ++ parts r)
           (observed l ++ observed r) (final r) (keep l), snd lw).

(* MPUChunk.maybe_write *)
Definition maybe_write (fx : fixes) (pw : writer) (spill : Z) (c : chunk) : res (chunk * list part) :=
  let rhs_keep := if final c then 0 else minw pw in
  let ptk := if final c then 0 else 1 in
  let lk := if started c then 0 else keep c in
  if credits c - 1 <? ptk then Ok (c, []) else
  let btw := len (data c) - rhs_keep - lk in
  if btw <? (if fx_spill_min fx then Z.max spill (minw pw) else spill) then Ok (c, []) else
  if lk =? 0 then
    let sp := take btw (data c) in
    _ <- guard (len sp =? btw) (EAssert 277) ;;
    Ok (mk (next c + 1) (credits c - 1) (drop btw (data c)) (left c)
           (parts c ++ [(next c, sp)]) (observed c) (final c) (keep c), [(next c, sp)])
  else
    let sp := take btw (drop lk (data c)) in
    _ <- guard (isnil (left c)) (EAssert 273) ;;
    _ <- guard (len sp =? btw) (EAssert 277) ;;
    Ok (mk (next c + 1) (credits c - 1) (drop (btw + lk) (data c)) (take lk (data c))
           (parts c ++ [(next c, sp)]) (observed c) (final c) (keep c), [(next c, sp)]).

(* loop body of _mpu_append_chunks_op *)
Fixpoint append_loop (fx : fixes) (w : option writer) (spill : Z) (c : chunk)
         (chunks : list (list A * option CI)) : res (chunk * list part) :=
  match chunks with
  | [] => Ok (c, [])
  | (d, id) :: rest =>
      let c1 := append c d id in
      c2 <- match w with
            | Some pw => if 0 <? spill then maybe_write fx pw spill c1 else Ok (c1, [])
            | None => Ok (c1, [])
            end ;;
      c3 <- append_loop fx w spill (fst c2) rest ;;
      Ok (fst c3, snd c2 ++ snd c3)
  end.

(* _mpu_append_chunks_op: with the repair the end-of-stream flag takes effect
   only after the partition's last chunk has been appended *)
Definition append_chunks (fx : fixes) (w : option writer) (spill : Z) (c : chunk)
           (chunks : list (list A * option CI)) : res (chunk * list part) :=
  if fx_final_loop fx then
    r <- append_loop fx w spill (set_final c false) chunks ;;
    Ok (set_final (fst r) (final c), snd r)
  else append_loop fx w spill c chunks.

(* _merge_and_spill_op and the loop body of _mpu_collate_op *)
Definition merge_and_spill (fx : fixes) (w : option writer) (spill : Z) (l r : chunk)
  : res (chunk * list part) :=
  m <- merge w l r ;;
  match w with
  | None => Ok m
  | Some pw =>
      if spill =? 0 then Ok m
      else m' <- maybe_write fx pw spill (fst m) ;; Ok (fst m', snd m ++ snd m')
  end.

(** schedules: any bracketing of adjacent partitions *)
Inductive tree :=
| Leaf (chunks : list (list A * option CI))
| Node (l r : tree).

Fixpoint nleaves (t : tree) : Z :=
  match t with Leaf _ => 1 | Node l r => nleaves l + nleaves r end.

Fixpoint tree_chunks (t : tree) : list (list A * option CI) :=
  match t with Leaf cs => cs | Node l r => tree_chunks l ++ tree_chunks r end.

Definition bytes_of (cs : list (list A * option CI)) : list A := concat (map fst cs).
Definition obs_of (cs : list (list A * option CI)) : list (Z * option CI) :=
  map (fun c => (len (fst c), snd c)) cs.

(* every partition holds at least one chunk *)
Fixpoint tree_ok (t : tree) : Prop :=
  match t with Leaf cs => cs <> [] | Node l r => tree_ok l /\ tree_ok r end.

Fixpoint tree_okb (t : tree) : bool :=
  match t with Leaf cs => negb (isnil cs) | Node l r => tree_okb l && tree_okb r end.

(* MPUChunk.gen_bunch + from_dask_bag + mpu_write's part-id allocation: partition
   number [j] (counted over all sub-streams) starts at id [p0 + j*wpc]; the last
   partition overall is marked final when there is no footer callback *)
Fixpoint run (fx : fixes) (w : option writer) (spill p0 wpc kp n : Z) (mark_final : bool)
         (t : tree) (j : Z) : res (chunk * list part) :=
  match t with
  | Leaf cs =>
      append_chunks fx w spill
        (fresh (p0 + j * wpc) wpc (mark_final && (j =? n - 1)) kp) cs
  | Node l r =>
      a <- run fx w spill p0 wpc kp n mark_final l j ;;
      b <- run fx w spill p0 wpc kp n mark_final r (j + nleaves l) ;;
      m <- merge_and_spill fx w spill (fst a) (fst b) ;;
      Ok (fst m, snd a ++ snd b ++ snd m)
  end.

(* MPUChunk.flush(write, leftPartId, finalise=True): returns the list given to
   write.finalise and the parts written by this call *)
Definition flush (pw : writer) (c : chunk) (leftid : Z) : res (list part * list part) :=
  if negb (started c) then
    _ <- guard (isnil (left c)) (EAssert 227) ;;
    let p := (leftid, data c) in
    Ok (parts c ++ [p], [p])
  else
    cw <- (if isnil (data c) then Ok (c, [])
           else flush_rhs (Some pw) (set_final c true) []) ;;
    let c' := fst cw in
    if isnil (left c') then Ok (parts c', snd cw)
    else
      _ <- guard (minw pw <=? len (left c')) (EAssert 245) ;;
      let p := (leftid, left c') in
      Ok (p :: parts c', snd cw ++ [p]).

(* _finalizer_dask_op with a writer *)
Definition finalizer (fx : fixes) (pw : writer) (c : chunk) (hdr footer : list A)
  : res (list part * list part) :=
  let c1 := if isnil footer then c else append c footer None in
  let leftid := if fx_left_id fx then minp pw else 1 in
  c2 <- (if isnil hdr then Ok (c1, [])
         else merge None (append (fresh leftid 1 false 0) hdr None) c1) ;;
  r <- flush pw (fst c2) leftid ;;
  Ok (fst r, snd c2 ++ snd r).

(* mpu_write(...).compute(): the list passed to finalise, every part handed to
   the writer (in one sequential order), and the (size, id) list shown to the
   header/footer callbacks *)
Definition mpu_write (fx : fixes) (pw : writer) (wpc spill : Z) (hdr : list A)
           (has_footer : bool) (footer : list A) (t : tree)
  : res (list part * list part * list (Z * option CI)) :=
  a <- run fx (Some pw) spill (minp pw + 1) wpc (minw pw) (nleaves t) (negb has_footer) t 0 ;;
  let obs := observed (fst a) in
  r <- finalizer fx pw (fst a) hdr (if has_footer then footer else []) ;;
  Ok (fst r, snd a ++ snd r, obs).

(** lock-step trace: the chunk produced by every leaf and every merge, in post-order *)
Fixpoint run_trace (fx : fixes) (w : option writer) (spill p0 wpc kp n : Z) (mark_final : bool)
         (t : tree) (j : Z) : res (chunk * list chunk) :=
  match t with
  | Leaf cs =>
      a <- append_chunks fx w spill (fresh (p0 + j * wpc) wpc (mark_final && (j =? n - 1)) kp) cs ;;
      Ok (fst a, [fst a])
  | Node l r =>
      a <- run_trace fx w spill p0 wpc kp n mark_final l j ;;
      b <- run_trace fx w spill p0 wpc kp n mark_final r (j + nleaves l) ;;
      m <- merge_and_spill fx w spill (fst a) (fst b) ;;
      Ok (fst m, snd a ++ snd b ++ [fst m])
  end.

End Mpu.

Arguments chunk : clear implicits.
Arguments tree : clear implicits.
Arguments part : clear implicits.
