(** Model of the GeoBox "view" operations of odc/geo/geobox.py (GeoBoxBase,
    GeoBox), BoundingBox.from_transform / polygon_from_transform of
    odc/geo/geom.py, resolution_from_affine / is_affine_st of odc/geo/math.py and
    of the affine bookkeeping of GCPGeoBox (odc/geo/gcp.py).

    A GeoBox is the triple (shape, affine, crs); every view is derived from it.
    Floats are exact rationals (DESIGN.md section 3); the CRS is an opaque tag.
    Hand-written, statement by statement; tied to the code by the C02
    correspondence harness (tools/props/c02.py).  The float constants of the
    code (1e-10 in is_affine_st, 0.1 in _round_to_res, tol=0.01 of from_bbox) are
    the fields of [cfg], fed with their exact binary64 values by the harness. *)
From Coq Require Import ZArith QArith Qround Qabs List Bool Lia.
From OG Require Import Base.Result Base.Affine Model.Roi.
Import ListNotations.
Open Scope Q_scope.

Record geobox := mkG { g_ny : Z; g_nx : Z; g_A : affine; g_crs : Z }.

Record cfg := mkCfg { tol_st : Q; tenth : Q; tol_snap : Q }.

Definition Zq (z : Z) : Q := inject_Z z.
Definition Qltb (x y : Q) : bool := negb (Qle_bool y x).
Definition qmin (a b : Q) : Q := if Qle_bool a b then a else b.
Definition qmax (a b : Q) : Q := if Qle_bool a b then b else a.

(** GeoBoxBase.pix2wld / wld2pix *)
Definition pix2wld (g : geobox) (p : pt) : pt := apply (g_A g) p.
Definition wld2pix (g : geobox) (w : pt) : pt := apply (ainv (g_A g)) w.

(** * Indexing: GeoBoxBase.compute_crop for int / slice / tuple arguments
    (Geometry, BoundingBox and GeoBox arguments go through shapely and are not
    modelled here). *)
Inductive roiarg :=
| RInt (i : Z)                       (* gbox[i] *)
| ROne (a b st : option Z)           (* gbox[a:b:st] *)
| RTup (l : list someslice).         (* gbox[s0, s1, ...] *)

Definition full_slice : someslice := SSl None None None.

(** a normalised slice as (start, stop, step); [norm_slice] always yields
    [SSl (Some _) (Some _) _] *)
Definition norm_bounds (s : someslice) (n : Z) : Z * Z * option Z :=
  match norm_slice s n with
  | SSl (Some a) (Some b) st => (a, b, st)
  | _ => (0%Z, 0%Z, None)
  end.

Definition step_supported (st : option Z) : bool :=
  match st with None => true | Some k => (k =? 1)%Z end.

Fixpoint zip_norm (l : list someslice) (shape : list Z) : list (Z * Z * option Z) :=
  match l, shape with
  | s :: l', n :: sh' => norm_bounds s n :: zip_norm l' sh'
  | _, _ => []
  end.

Definition compute_crop (g : geobox) (roi : roiarg) : res (Z * Z * affine) :=
  let l := match roi with
           | RInt i => [SInt i; full_slice]          (* after the F18 repair the int is kept *)
           | ROne a b st => [SSl a b st; full_slice]
           | RTup l => l
           end in
  if (2 <? Z.of_nat (length l))%Z then Err EValue            (* "Expect 2d slice" *)
  else
    let nl := zip_norm l [g_ny g; g_nx g] in                   (* roi_normalise *)
    if negb (forallb (fun t => step_supported (snd t)) nl) then Err EOther   (* NotImplementedError *)
    else match nl with
         | [(y0, y1, _); (x0, x1, _)] =>
             Ok ((y1 - y0)%Z, (x1 - x0)%Z, amul (g_A g) (atrans (Zq x0) (Zq y0)))
         | _ => Err EValue                                     (* tuple unpacking fails *)
         end.

Definition getitem (g : geobox) (roi : roiarg) : res geobox :=
  '(ny, nx, A) <- compute_crop g roi ;; Ok (mkG ny nx A (g_crs g)).

(** * Pixel-side and world-side composition *)
Definition gmul (g : geobox) (T : affine) : geobox := mkG (g_ny g) (g_nx g) (amul (g_A g) T) (g_crs g).
Definition grmul (T : affine) (g : geobox) : geobox := mkG (g_ny g) (g_nx g) (amul T (g_A g)) (g_crs g).

Definition pad (g : geobox) (padx : Z) (pady : option Z) : geobox :=
  let pady := fill pady padx in
  mkG (g_ny g + pady * 2) (g_nx g + padx * 2)
      (amul (g_A g) (atrans (Zq (- padx)) (Zq (- pady)))) (g_crs g).

Definition pad_wh (g : geobox) (alignx : Z) (aligny : option Z) : geobox :=
  let aligny := fill aligny alignx in
  mkG (align_up (g_ny g) aligny) (align_up (g_nx g) alignx) (g_A g) (g_crs g).

Definition crop (g : geobox) (ny nx : Z) : geobox := mkG ny nx (g_A g) (g_crs g).

Definition translate_pix (g : geobox) (tx ty : Q) : geobox := gmul g (atrans tx ty).

Definition flipy (g : geobox) : geobox := gmul g (amul (atrans 0 (Zq (g_ny g))) (ascale 1 (-1))).
Definition flipx (g : geobox) : geobox := gmul g (amul (atrans (Zq (g_nx g)) 0) (ascale (-1) 1)).

Definition gleft (g : geobox) : geobox := translate_pix g (Zq (- g_nx g)) 0.
Definition gright (g : geobox) : geobox := translate_pix g (Zq (g_nx g)) 0.
Definition gtop (g : geobox) : geobox := translate_pix g 0 (Zq (- g_ny g)).
Definition gbottom (g : geobox) : geobox := translate_pix g 0 (Zq (g_ny g)).

(** GeoBox.rotate with (c, s) = (cos deg, sin deg) *)
Definition center_world (g : geobox) : pt := apply (g_A g) (Zq (g_nx g) * (1 # 2), Zq (g_ny g) * (1 # 2)).
Definition rotate (g : geobox) (c s : Q) : geobox := grmul (arot_about c s (center_world g)) g.

(** * Zooming *)
Definition zoom_dim (n : Z) (factor : Q) : Z := Z.max 1 (Qceiling (Zq n / factor)).

Definition zoom_out (g : geobox) (factor : Q) : res geobox :=
  if Qeq_bool factor 0 then Err EOther                          (* ZeroDivisionError *)
  else Ok (mkG (zoom_dim (g_ny g) factor) (zoom_dim (g_nx g) factor)
               (amul (g_A g) (ascale factor factor)) (g_crs g)).

Definition zoom_to_shape (g : geobox) (ny nx : Z) : res geobox :=
  if (ny =? 0)%Z || (nx =? 0)%Z then Err EOther                 (* ZeroDivisionError *)
  else
    let sy := Zq (g_ny g) / Zq ny in
    let sx := Zq (g_nx g) / Zq nx in
    Ok (mkG ny nx (amul (g_A g) (ascale sx sy)) (g_crs g)).

(** zoom_to(<number>): scale the longest side to [n] pixels *)
Definition zoom_to_n (g : geobox) (n : Q) : res geobox :=
  if Qeq_bool n 0 then Err EOther
  else zoom_out g (Zq (Z.max (g_ny g) (g_nx g)) / n).

(** scaled_down_geobox *)
Definition scaled_dim (n s : Z) : Z := (n / s + (if n mod s =? 0 then 0 else 1))%Z.
Definition scaled_down_geobox (g : geobox) (s : Z) : res geobox :=
  if (s >? 1)%Z then
    Ok (mkG (scaled_dim (g_ny g) s) (scaled_dim (g_nx g) s) (amul (g_A g) (ascale (Zq s) (Zq s))) (g_crs g))
  else Err (EAssert 0).

(** * Footprint, bounding box *)
Definition corners_extent (g : geobox) : list pt :=
  let x1 := Zq (g_nx g) in let y1 := Zq (g_ny g) in
  [(0, 0); (0, y1); (x1, y1); (x1, 0); (0, 0)].

(** geom.polygon_from_transform: the exterior ring of GeoBox.extent *)
Definition extent (g : geobox) : list pt := map (apply (g_A g)) (corners_extent g).

Definition corners_bbox (g : geobox) : list pt :=
  let nx := Zq (g_nx g) in let ny := Zq (g_ny g) in
  [(0, 0); (nx, 0); (nx, ny); (0, ny)].

Definition qmin_list (d : Q) (l : list Q) : Q := fold_left qmin l d.
Definition qmax_list (d : Q) (l : list Q) : Q := fold_left qmax l d.

(** BoundingBox.from_transform (after fix 47ca684: all four corners);
    result is (left, bottom, right, top) *)
Definition boundingbox (g : geobox) : Q * Q * Q * Q :=
  match map (apply (g_A g)) (corners_bbox g) with
  | p :: ps =>
      let xx := map fst ps in let yy := map snd ps in
      (qmin_list (fst p) xx, qmin_list (snd p) yy, qmax_list (fst p) xx, qmax_list (snd p) yy)
  | [] => (0, 0, 0, 0)
  end.

(** * Resolution, coordinates *)
Definition is_affine_st (c : cfg) (A : affine) : bool :=
  Qltb (Qabs (ab A)) (tol_st c) && Qltb (Qabs (ad A)) (tol_st c).

(** square root when it is rational *)
Definition exact_sqrt (q : Q) : option Q :=
  let q' := Qred q in
  let n := Qnum q' in
  let d := Zpos (Qden q') in
  let rn := Z.sqrt n in
  let rd := Z.sqrt d in
  if ((rn * rn =? n) && (rd * rd =? d) && (0 <=? n))%Z then Some (rn # Z.to_pos rd) else None.

(** math.resolution_from_affine.  Rotated case: decompose_rws takes the
    Cholesky factor of A^T A; its diagonal is (l, det A / l) with
    l = sqrt(a^2 + d^2) (the sign of the second entry follows det A because R
    is forced to be a proper rotation). *)
Definition resolution_with_root (A : affine) (l : Q) : Q * Q := (l, adet A / l).

Definition resolution (c : cfg) (g : geobox) : res (Q * Q) :=
  let A := g_A g in
  if is_affine_st c A then Ok (aa A, ae A)
  else match exact_sqrt (aa A * aa A + ad A * ad A) with
       | Some l => if Qeq_bool l 0 then Err EOther else Ok (resolution_with_root A l)
       | None => Err EOther                                      (* irrational: outside the Q model *)
       end.

Definition iota (n : Z) : list Z := map Z.of_nat (seq 0 (Z.to_nat n)).

(** GeoBox.coordinates: (x labels, y labels) *)
Definition coordinates (c : cfg) (g : geobox) : res (list Q * list Q) :=
  let A := g_A g in
  if is_affine_st c A then
    let rx := aa A in let tx := ac A in let ry := ae A in let ty := af A in
    Ok (map (fun i => Zq i * rx + (tx + rx / 2)) (iota (g_nx g)),
        map (fun j => Zq j * ry + (ty + ry / 2)) (iota (g_ny g)))
  else Err EValue.

(** * Buffering: geobox._round_to_res, GeoBox.buffered *)
Definition round_to_res (c : cfg) (value r : Q) : Z :=
  let r := Qabs r in Qceiling ((value - tenth c * r) / r).

Definition buffered (c : cfg) (g : geobox) (xbuff : Q) (ybuff : option Q) : res geobox :=
  let ybuff := match ybuff with None => xbuff | Some v => v end in
  '(rx, ry) <- resolution c g ;;
  if Qeq_bool rx 0 || Qeq_bool ry 0 then Err EOther             (* ZeroDivisionError *)
  else
    let by_ := round_to_res c ybuff ry in
    let bx := round_to_res c xbuff rx in
    Ok (mkG (g_ny g + 2 * by_) (g_nx g + 2 * bx)
            (amul (g_A g) (atrans (Zq (- bx)) (Zq (- by_)))) (g_crs g)).

(** center_pixel *)
Definition center_pixel (g : geobox) : res geobox :=
  getitem g (RTup [SInt (g_ny g / 2); SInt (g_nx g / 2)]).

(** * zoom_to(resolution=...) = GeoBox.from_bbox(self.boundingbox, resolution, tight=True):
    math.split_float / maybe_int / snap_grid(off_pix=None) *)
Definition Qtrunc (x : Q) : Z := if Qle_bool 0 x then Qfloor x else Qceiling x.

Definition split_float (x : Q) : Q * Q :=
  let part := x - Zq (Qtrunc x) in          (* fmod(x, 1.0) *)
  let whole := x - part in
  if Qltb (1 # 2) part then (whole + 1, part - 1)
  else if Qltb part (- (1 # 2)) then (whole - 1, part + 1)
  else (whole, part).

Definition maybe_int (x tol : Q) : Q :=
  let '(whole, part) := split_float x in
  if Qltb (Qabs part) tol then whole else x.

Definition snap_tight (x0 x1 r tol : Q) : res (Q * Z) :=
  if Qltb 0 r then Ok (x0, Z.max 1 (Qceiling (maybe_int ((x1 - x0) / r) tol)))
  else if Qeq_bool r 0 then Err EOther                            (* ZeroDivisionError *)
  else Ok (x1, Z.max (Qceiling (maybe_int ((x1 - x0) / (- r)) tol)) 1).

Definition zoom_to_res (c : cfg) (g : geobox) (rx ry : Q) : res geobox :=
  let '(l, b, r, t) := boundingbox g in
  '(offx, nx) <- snap_tight l r rx (tol_snap c) ;;
  '(offy, ny) <- snap_tight b t ry (tol_snap c) ;;
  Ok (mkG ny nx (amul (atrans offx offy) (ascale rx ry)) (g_crs g)).

(** * Operations as data (for operation chains) *)
Inductive op :=
| OGet (r : roiarg)
| OPad (px : Z) (py : option Z)
| OPadWh (ax : Z) (ay : option Z)
| OCrop (ny nx : Z)
| OTrans (tx ty : Q)
| OFlipX | OFlipY | OLeft | ORight | OTop | OBottom
| OMul (T : affine)
| ORmul (T : affine)
| ORot (c s : Q)
| OZoomOut (f : Q)
| OZoomToShape (ny nx : Z)
| OZoomToN (n : Q)
| OZoomToRes (rx ry : Q)
| OScaledDown (s : Z)
| OBuffered (xb : Q) (yb : option Q)
| OCenter.

Definition run_op (c : cfg) (g : geobox) (o : op) : res geobox :=
  match o with
  | OGet r => getitem g r
  | OPad px py => Ok (pad g px py)
  | OPadWh ax ay => Ok (pad_wh g ax ay)
  | OCrop ny nx => Ok (crop g ny nx)
  | OTrans tx ty => Ok (translate_pix g tx ty)
  | OFlipX => Ok (flipx g)
  | OFlipY => Ok (flipy g)
  | OLeft => Ok (gleft g)
  | ORight => Ok (gright g)
  | OTop => Ok (gtop g)
  | OBottom => Ok (gbottom g)
  | OMul T => Ok (gmul g T)
  | ORmul T => Ok (grmul T g)
  | ORot co si => Ok (rotate g co si)
  | OZoomOut f => zoom_out g f
  | OZoomToShape ny nx => zoom_to_shape g ny nx
  | OZoomToN n => zoom_to_n g n
  | OZoomToRes rx ry => zoom_to_res c g rx ry
  | OScaledDown s => scaled_down_geobox g s
  | OBuffered xb yb => buffered c g xb yb
  | OCenter => center_pixel g
  end.

(** * GCP based geoboxes (odc/geo/gcp.py).  A GCPGeoBox is (shape, _affine, crs)
    plus a mapping; the mapping's polynomial fit [p2w]/[w2p] is an oracle.  Its
    view operations (__getitem__, pad, pad_wh, zoom_out, zoom_to) perform the
    same computation on (shape, _affine) as the GeoBox ones above, so the record
    [geobox] is reused for the (shape, _affine, crs) part. *)
Definition gcp_pix2wld (p2w : pt -> pt) (g : geobox) (p : pt) : pt := p2w (apply (g_A g) p).
Definition gcp_wld2pix (w2p : pt -> pt) (g : geobox) (w : pt) : pt := apply (ainv (g_A g)) (w2p w).
(** GCPGeoBox.approx with [M] = mapping.approx *)
Definition gcp_approx (M : affine) (g : geobox) : geobox := grmul M g.
