(** Correspondence cases for the C08 model (Model/FromBbox.v): inputs given to
    the real GeoBox constructors and the canonicalised result (shape + affine
    coefficients as exact rationals, or the exception kind). *)
From Coq Require Import ZArith QArith List Bool.
From OG Require Import Base.Result Base.Eqb Model.Roi Model.MathH Model.MathHCases Model.FromBbox.
Import ListNotations.
Open Scope Z_scope.

Definition gbox_eqb (x y : gbox) : bool := zz_eqb (fst x) (fst y) && aff_eqb (snd x) (snd y).
Definition bbox_eqb (x y : bbox) : bool :=
  Qeqb (bl x) (bl y) && Qeqb (bb x) (bb y) && Qeqb (br x) (br y) && Qeqb (bt x) (bt y).
Definition anchor_n_eqb (x y : anchor_n) : bool :=
  match x, y with
  | NEdge, NEdge | NCenter, NCenter | NFloating, NFloating => true
  | NXY a b, NXY c d => Qeqb a c && Qeqb b d
  | _, _ => false
  end.

Inductive case :=
| CNormAnchor (a : anchor_in) (r : anchor_n)
| CFromBbox (b : bbox) (tight : bool) (shape : shape_in) (resolution : option some_res)
            (anchor : anchor_in) (tol : Q) (r : res gbox)
| CFromPoly (b : bbox) (resolution : option some_res) (align : option (Q * Q)) (shape : shape_in)
            (tight : bool) (anchor : anchor_in) (tol : Q) (r : res gbox)
| CPolyBounds (p0 : Q * Q) (pts : list (Q * Q)) (r : bbox)
| CBoxFromTransform (shape : Z * Z) (A : aff) (r : bbox)
| CZoomRes (shape : Z * Z) (A : aff) (resolution : some_res) (tol01 : Q) (r : res gbox).

Definition check (c : case) : bool :=
  match c with
  | CNormAnchor a r => anchor_n_eqb (norm_anchor a) r
  | CFromBbox b tight shape resolution anchor tol r =>
      res_eqb gbox_eqb (from_bbox b tight shape resolution anchor tol) r
  | CFromPoly b resolution align shape tight anchor tol r =>
      res_eqb gbox_eqb (from_geopolygon_bbox b resolution align shape tight anchor tol) r
  | CPolyBounds p0 pts r => bbox_eqb (bbox_of_points p0 pts) r
  | CBoxFromTransform shape A r => bbox_eqb (bbox_from_transform shape A) r
  | CZoomRes shape A resolution tol01 r => res_eqb gbox_eqb (zoom_to_resolution (shape, A) resolution tol01) r
  end.
