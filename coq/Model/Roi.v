(** Model of the 1-d slice helpers of odc/geo/roi.py (N-d versions are the
    axis-wise [map]/[Forall2] of these) and of odc.geo.math.align_down/align_up.
    Hand-written, statement by statement; tied to the code by the C17
    correspondence harness (tools/props/c17.py). *)
From Coq Require Import ZArith QArith Qround List Bool Lia.
From OG Require Import Base.Result Base.ListSel.
Import ListNotations.
Open Scope Z_scope.

(** A Python index expression on one axis: an [int] or a [slice]. *)
Inductive someslice :=
| SInt (i : Z)
| SSl (start stop step : option Z).

Definition fill (x : option Z) (d : Z) : Z := match x with None => d | Some v => v end.

(** math.align_down / align_up : Python [%] is Coq's floor [mod]. *)
Definition align_down (x a : Z) : Z := x - (x mod a).
Definition align_up (x a : Z) : Z := align_down (x + (a - 1)) a.

(** roi._norm_slice_or_error *)
Definition norm_slice_or_error (s : someslice) : res (Z * Z * option Z) :=
  match s with
  | SInt i => if (i + 1 <? 0) || (i <? 0) then Err EValue else Ok (i, i + 1, None)
  | SSl a b st =>
      match b with
      | None => Err EValue
      | Some stop =>
          let start := fill a 0 in
          if (stop <? 0) || (start <? 0) then Err EValue else Ok (start, stop, st)
      end
  end.

(** roi._norm_slice (after the F13 repair: negative offsets are clamped at 0). *)
Definition wrap_neg (n x : Z) : Z := if x >=? 0 then x else Z.max 0 (n + x).

Definition norm_slice (s : someslice) (n : Z) : someslice :=
  match s with
  | SInt i => let i' := if i <? 0 then n + i else i in SSl (Some i') (Some (i' + 1)) None
  | SSl a b st => SSl (Some (wrap_neg n (fill a 0))) (Some (wrap_neg n (fill b n))) st
  end.

(** roi.slice_intersect3: a', b', ab' each as (start, stop). *)
Definition slice_intersect3 (a b : someslice) : res ((Z * Z) * (Z * Z) * (Z * Z)) :=
  '(a0, a1, _) <- norm_slice_or_error a ;;
  '(b0, b1, _) <- norm_slice_or_error b ;;
  let na := a1 - a0 in
  let nb := b1 - b0 in
  if a1 <? b0 then Ok ((na, na), (0, 0), (a1, a1))
  else if a0 >? b1 then Ok ((0, 0), (nb, nb), (a0, a0))
  else
    let _in := Z.max a0 b0 in
    let _out := Z.min a1 b1 in
    Ok ((_in - a0, _out - a0), (_in - b0, _out - b0), (_in, _out)).

(** roi.roi_intersect.slice_intersect *)
Definition slice_intersect (a b : someslice) : res (Z * Z) :=
  '(a0, a1, _) <- norm_slice_or_error a ;;
  '(b0, b1, _) <- norm_slice_or_error b ;;
  if a1 <? b0 then Ok (a1, a1)
  else if a0 >? b1 then Ok (a0, a0)
  else Ok (Z.max a0 b0, Z.min a1 b1).

(** roi.roi_shape.slice_dim *)
Definition slice_dim (s : someslice) : res Z :=
  match s with
  | SInt _ => Ok 1
  | SSl a b _ =>
      match b with
      | None => Err EValue
      | Some o => match a with None => Ok o | Some i => Ok (o - i) end
      end
  end.

Fixpoint mapM {A B} (f : A -> res B) (l : list A) : res (list B) :=
  match l with
  | [] => Ok []
  | x :: xs => y <- f x ;; ys <- mapM f xs ;; Ok (y :: ys)
  end.

Definition roi_shape (roi : list someslice) : res (list Z) := mapM slice_dim roi.
Definition roi_is_empty (roi : list someslice) : res bool :=
  d <- roi_shape roi ;; Ok (existsb (fun x => x <=? 0) d).

(** roi.roi_is_full.slice_full *)
Definition in_opt (x : option Z) (v : Z) : bool :=
  match x with None => true | Some y => y =? v end.
Definition slice_full (s : someslice) (n : Z) : bool :=
  match s with
  | SInt _ => n =? 1
  | SSl a b _ => in_opt a 0 && in_opt b n
  end.
Fixpoint roi_is_full (roi : list someslice) (shape : list Z) : bool :=
  match roi, shape with
  | s :: r, n :: sh => slice_full s n && roi_is_full r sh
  | _, _ => true            (* zip stops at the shorter one; all([]) = True *)
  end.

(** roi.roi_pad.pad_slice *)
Definition pad_slice (pad : Z) (s : someslice) (n : Z) : someslice :=
  match norm_slice s n with
  | SSl (Some a) (Some b) _ => SSl (Some (Z.max 0 (a - pad))) (Some (Z.min n (b + pad))) None
  | other => other  (* unreachable: norm_slice always yields Some/Some *)
  end.

(** roi.roi_center.slice_center, value doubled to stay in Z: returns start+stop
    (the code returns (start+stop)*0.5). *)
Definition slice_center2 (s : someslice) : res Z :=
  '(a0, a1, _) <- norm_slice_or_error s ;; Ok (a0 + a1).

(** roi.scaled_down_roi / scaled_up_roi / scaled_down_shape, per axis. *)
Definition scaled_down_slice (s : Z * Z) (scale : Z) : Z * Z :=
  (fst s / scale, align_up (snd s) scale / scale).
Definition scaled_up_slice (s : Z * Z) (scale : Z) (dim : option Z) : Z * Z :=
  let s1 := (fst s * scale, snd s * scale) in
  match dim with
  | None => s1
  | Some d => (Z.min d (fst s1), Z.min d (snd s1))
  end.
Definition scaled_down_dim (n scale : Z) : Z := align_up n scale / scale.

(** numpy / CPython semantics of indexing a 1-d array with a [slice] whose step
    is None or positive ([slice.indices] clamping), used as the reference. *)
Definition py_clamp (n : Z) (x : option Z) (dflt : Z) : Z :=
  match x with
  | None => dflt
  | Some v => if v <? 0 then Z.max 0 (v + n) else Z.min v n
  end.

Fixpoint stride_aux {A} (k : nat) (skip : nat) (l : list A) : list A :=
  match l with
  | [] => []
  | x :: xs => match skip with
               | O => x :: stride_aux k (k - 1) xs
               | S m => stride_aux k m xs
               end
  end.
Definition stride {A} (step : option Z) (l : list A) : list A :=
  match step with
  | None => l
  | Some k => stride_aux (Z.to_nat k) 0 l
  end.

(** [np_get X s]: the elements [X[s]] selects; [None] when numpy raises IndexError. *)
Definition np_get {A} (X : list A) (s : someslice) : option (list A) :=
  let n := len X in
  match s with
  | SInt i =>
      if (- n <=? i) && (i <? n) then
        let j := if i <? 0 then i + n else i in Some (sel X j (j + 1))
      else None
  | SSl a b st => Some (stride st (sel X (py_clamp n a 0) (py_clamp n b n)))
  end.

(** roi_from_points on exact rationals (after the F12 repair).  [pts]: finite
    points only survive the filter, so a non-finite point is [None] here. *)
Definition Qmin_list (d : Q) (l : list Q) : Q := fold_left (fun a b => if Qle_bool a b then a else b) l d.
Definition Qmax_list (d : Q) (l : list Q) : Q := fold_left (fun a b => if Qle_bool a b then b else a) l d.
Definition clipZ (x lo hi : Z) : Z := Z.min (Z.max x lo) hi.
Definition Qclip_floor (x : Q) (lim : Z) : Z := clipZ (Qfloor x) (- lim) lim.
Definition Qclip_ceil (x : Q) (lim : Z) : Z := clipZ (Qceiling x) (- lim) lim.

Definition axis_from_points (vals : list Q) (n padding : Z) (align : option Z) (lim : Z) : Z * Z :=
  match vals with
  | [] => (0, 0)
  | v :: vs =>
      let lo := Qclip_floor (Qmin_list v vs) lim - padding in
      let hi := Qclip_ceil (Qmax_list v vs) lim + padding in
      let '(lo, hi) := match align with
                       | None => (lo, hi)
                       | Some a => (align_down lo a, align_up hi a)
                       end in
      (clipZ lo 0 n, clipZ hi 0 n)
  end.

Definition keep_finite (pts : list (option (Q * Q))) : list (Q * Q) :=
  flat_map (fun p => match p with Some xy => [xy] | None => [] end) pts.

(** returns ((y0,y1),(x0,x1)) like the code's (row slice, col slice). *)
Definition roi_from_points (pts : list (option (Q * Q))) (ny nx padding : Z) (align : option Z)
  : (Z * Z) * (Z * Z) :=
  let fin := keep_finite pts in
  let lim := Z.max nx ny + padding + (match align with None => 1 | Some a => a end) + 1 in
  (axis_from_points (map snd fin) ny padding align lim,
   axis_from_points (map fst fin) nx padding align lim).
