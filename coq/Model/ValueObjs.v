(** Model of [__eq__] / [__hash__] / dask token / pickling of odc-geo's value
    types (C19, part b).  One record per type and, following the code
    statement by statement, what [==] compares ([*_eqb]), what goes into
    [hash()] ([*_hashkey]), what determines the dask token ([*_token]) and what
    an unpickled clone looks like ([*_pickle]).

    Anchors: geom.py:79-85 (BoundingBox), 896-917 (Geometry); geobox.py:720-721,
    867-875, 1094-1100 (GeoBox), 1509-1524 (GeoboxTiles); gcp.py GCPMapping /
    GCPGeoBox __eq__/__hash__/__dask_tokenize__ (after the repair: the mapping
    is compared by value); roi.py:209-231 (Tiles), 303-327 (VariableSizedTiles);
    types.py:59-71, 217-220 (XY family); gridspec.py:79-88 + math.py Bin1D.__eq__.

    Conventions.  Python numbers are [num] (an [int] or a finite [float], the
    float as an exact rational): [==] and [hash] see only the value, pickling
    (and therefore the dask token of the types without [__dask_tokenize__])
    also the type.  hash keys and tokens are lists of [atom]s: Python's
    [hash]/dask's [tokenize] are functions of them (trusted), so equal keys
    give equal hashes/tokens, and the theorems say when keys are equal.
    CRS components are [crsv] values of Model/CrsCache.v; shapely geometries
    are an abstract type with an equality oracle. *)
From Coq Require Import ZArith QArith Qabs List Bool.
From OG Require Import Base.Result Base.Eqb Model.CrsCache.
Import ListNotations.
Open Scope Z_scope.

Inductive num := NI (z : Z) | NF (q : Q).
Definition nval (n : num) : Q := match n with NI z => inject_Z z | NF q => q end.
Definition num_eqb (a b : num) : bool := Qeq_bool (nval a) (nval b).
Definition num_key (a : num) : Q := Qred (nval a).
Definition num_tok (a : num) : Z * Q := match a with NI z => (0, inject_Z z) | NF q => (1, Qred q) end.

Inductive atom :=
| AStr (s : option text)        (* str(crs) / None *)
| AInt (z : Z)
| AFlt (q : Q)                  (* a number by value (reduced fraction) *)
| ANum (t : Z * Q)              (* a number by type and value *)
| AArr (dtype : Z) (l : list Q) (* numpy array: dtype + data *)
| AArrZ (l : list Z)
| ABool (b : bool)
| ATag (z : Z)                  (* class *)
| AJson (j : Z).                (* interned GeoJSON text *)

Definition Qeqb_exact (a b : Q) : bool := (Qnum a =? Qnum b) && (Qden a =? Qden b)%positive.
Definition pair_zq_eqb (a b : Z * Q) : bool := (fst a =? fst b) && Qeqb_exact (snd a) (snd b).

Definition atom_eqb (a b : atom) : bool :=
  match a, b with
  | AStr x, AStr y => opt_eqb Z.eqb x y
  | AInt x, AInt y => x =? y
  | AFlt x, AFlt y => Qeqb_exact x y
  | ANum x, ANum y => pair_zq_eqb x y
  | AArr d x, AArr e y => (d =? e) && list_eqb Qeqb_exact x y
  | AArrZ x, AArrZ y => list_eqb Z.eqb x y
  | ABool x, ABool y => Bool.eqb x y
  | ATag x, ATag y => x =? y
  | AJson x, AJson y => x =? y
  | _, _ => false
  end.
Definition atoms_eqb (a b : list atom) : bool := list_eqb atom_eqb a b.

Definition aff := (Q * Q * Q * Q * Q * Q)%type.
Definition aff_list (A : aff) : list Q := let '(a, b, c, d, e, f) := A in [a; b; c; d; e; f].
Definition aff_eqb (A B : aff) : bool := list_eqb Qeq_bool (aff_list A) (aff_list B).
Definition aff_atoms (A : aff) : list atom := map (fun q => AFlt (Qred q)) (aff_list A).

Definition zz_eqb (a b : Z * Z) : bool := (fst a =? fst b) && (snd a =? snd b).
Definition qlist_eqb (a b : list Q) : bool := list_eqb Qeq_bool a b.

Record bbox := mkBBox { bb_box : list num; bb_crs : option crsv }.
Record geobox := mkGeoBox { gb_shape : Z * Z; gb_aff : aff; gb_crs : option crsv }.
Record gcpmap := mkGcpMap { gm_crs : option crsv; gm_pix_dtype : Z; gm_pix : list Q; gm_wld_dtype : Z; gm_wld : list Q }.
Record gcpbox := mkGcpBox { gc_shape : Z * Z; gc_aff : aff; gc_map : gcpmap }.
Record tiles := mkTiles { t_base : Z * Z; t_tile : Z * Z }.
Record vtiles := mkVTiles { v_offy : list Z; v_offx : list Z }.
Inductive anybox := BGeo (g : geobox) | BGcp (g : gcpbox).
Inductive anytiles := TReg (t : tiles) | TVar (t : vtiles).
Record gbtiles := mkGbTiles { gt_box : anybox; gt_tiles : anytiles }.
(** class: 0 XY, 1 Resolution, 2 Index2d, 3 Shape2d *)
Record xy := mkXY { xy_cls : Z; xy_x : num; xy_y : num }.
Record gridspec := mkGridSpec { gs_crs : crsv; gs_shape : Z * Z; gs_res : Q * Q; gs_origin : num * num;
                                gs_flipx : bool; gs_flipy : bool }.

Section Values.
  Variable W : oracle.
  (** what unpickling a CRS instance gives (CRS(state["crs_str"]), through the cache) *)
  Variable reload : crsv -> crsv.
  (** shapely: geometry type, [==], GeoJSON text of a geometry and its parser *)
  Variable G : Type.
  Variable geq : G -> G -> bool.
  Variable gjson : G -> Z.
  Variable gload : Z -> G.

  Definition ocrs_eqb (a b : option crsv) : bool :=
    match a, b with
    | None, None => true
    | Some x, Some y => crs_eq W x y
    | _, _ => false
    end.
  Definition ocrs_str (a : option crsv) : option text := option_map c_str a.
  Definition ocrs_reload (a : option crsv) : option crsv := option_map reload a.

  (** ** BoundingBox (geom.py:79-85; no __dask_tokenize__: token = pickle of the two slots) *)
  Definition bbox_eqb (a b : bbox) : bool := ocrs_eqb (bb_crs a) (bb_crs b) && list_eqb num_eqb (bb_box a) (bb_box b).
  Definition bbox_hashkey (a : bbox) : list atom := AStr (ocrs_str (bb_crs a)) :: map (fun n => AFlt (num_key n)) (bb_box a).
  Definition bbox_token (a : bbox) : list atom := AStr (ocrs_str (bb_crs a)) :: map (fun n => ANum (num_tok n)) (bb_box a).
  Definition bbox_pickle (a : bbox) : bbox := mkBBox (bb_box a) (ocrs_reload (bb_crs a)).

  (** ** Geometry (geom.py:896-917; unhashable; state = GeoJSON + crs) *)
  Record geometry := mkGeom { g_geom : G; g_crs : option crsv }.
  Definition geom_eqb (a b : geometry) : bool := ocrs_eqb (g_crs a) (g_crs b) && geq (g_geom a) (g_geom b).
  Definition geom_token (a : geometry) : list atom := [AJson (gjson (g_geom a)); AStr (ocrs_str (g_crs a))].
  Definition geom_pickle (a : geometry) : geometry := mkGeom (gload (gjson (g_geom a))) (ocrs_reload (g_crs a)).

  (** ** GeoBox (geobox.py:720-721, 867-875, 1094-1100) *)
  Definition geobox_eqb (a b : geobox) : bool :=
    zz_eqb (gb_shape a) (gb_shape b) && aff_eqb (gb_aff a) (gb_aff b) && ocrs_eqb (gb_crs a) (gb_crs b).
  Definition geobox_hashkey (a : geobox) : list atom :=
    AInt (fst (gb_shape a)) :: AInt (snd (gb_shape a)) :: AStr (ocrs_str (gb_crs a)) :: aff_atoms (gb_aff a).
  Definition geobox_token (a : geobox) : list atom :=
    AStr (ocrs_str (gb_crs a)) :: AInt (fst (gb_shape a)) :: AInt (snd (gb_shape a)) :: aff_atoms (gb_aff a).
  Definition geobox_pickle (a : geobox) : geobox := mkGeoBox (gb_shape a) (gb_aff a) (ocrs_reload (gb_crs a)).

  (** ** GCPMapping / GCPGeoBox (gcp.py, repaired: value comparison of the mapping) *)
  Definition gcpmap_eqb (a b : gcpmap) : bool :=
    ocrs_eqb (gm_crs a) (gm_crs b) && qlist_eqb (gm_pix a) (gm_pix b) && qlist_eqb (gm_wld a) (gm_wld b).
  Definition gcpmap_hashkey (a : gcpmap) : list atom :=
    AStr (ocrs_str (gm_crs a)) :: map (fun q => AFlt (Qred q)) (gm_pix a ++ gm_wld a).
  Definition gcpmap_token (a : gcpmap) : list atom :=
    [AStr (ocrs_str (gm_crs a)); AArr (gm_wld_dtype a) (map Qred (gm_wld a)); AArr (gm_pix_dtype a) (map Qred (gm_pix a))].
  Definition gcpmap_pickle (a : gcpmap) : gcpmap :=
    mkGcpMap (ocrs_reload (gm_crs a)) (gm_pix_dtype a) (gm_pix a) (gm_wld_dtype a) (gm_wld a).

  Definition gcpbox_eqb (a b : gcpbox) : bool :=
    zz_eqb (gc_shape a) (gc_shape b) && gcpmap_eqb (gc_map a) (gc_map b) && aff_eqb (gc_aff a) (gc_aff b).
  Definition gcpbox_hashkey (a : gcpbox) : list atom :=
    AInt (fst (gc_shape a)) :: AInt (snd (gc_shape a)) :: aff_atoms (gc_aff a) ++
    AStr (ocrs_str (gm_crs (gc_map a))) :: gcpmap_hashkey (gc_map a).
  Definition gcpbox_token (a : gcpbox) : list atom :=
    gcpmap_token (gc_map a) ++ AInt (fst (gc_shape a)) :: AInt (snd (gc_shape a)) :: aff_atoms (gc_aff a).
  Definition gcpbox_pickle (a : gcpbox) : gcpbox := mkGcpBox (gc_shape a) (gc_aff a) (gcpmap_pickle (gc_map a)).

  (** gcp.py before the repair: the mapping compared by identity ([mid] = id of the mapping object) *)
  Definition gcpbox_eqb_v0 (mid_a mid_b : Z) (a b : gcpbox) : bool :=
    zz_eqb (gc_shape a) (gc_shape b) && (mid_a =? mid_b) && aff_eqb (gc_aff a) (gc_aff b).

  (** ** Tiles / VariableSizedTiles (roi.py; unhashable) *)
  Definition tiles_eqb (a b : tiles) : bool := zz_eqb (t_base a) (t_base b) && zz_eqb (t_tile a) (t_tile b).
  Definition tiles_token (a : tiles) : list atom :=
    [AInt (fst (t_base a)); AInt (snd (t_base a)); AInt (fst (t_tile a)); AInt (snd (t_tile a))].
  (** roi.py before e4d4a4b: the token was built from the tile counts and the tile shape only *)
  Definition cdiv (a b : Z) : Z := - ((- a) / b).
  Definition tiles_token_v0 (a : tiles) : list atom :=
    [AInt (cdiv (fst (t_base a)) (fst (t_tile a))); AInt (cdiv (snd (t_base a)) (snd (t_tile a)));
     AInt (fst (t_tile a)); AInt (snd (t_tile a))].

  Definition vtiles_eqb (a b : vtiles) : bool :=
    list_eqb Z.eqb (v_offy a) (v_offy b) && list_eqb Z.eqb (v_offx a) (v_offx b).
  Definition vtiles_token (a : vtiles) : list atom := [AArrZ (v_offy a); AArrZ (v_offx a)].

  (** ** GeoboxTiles (geobox.py:1509-1524): the token concatenates the two sub-tokens without their class tags *)
  Definition anybox_eqb (a b : anybox) : bool :=
    match a, b with
    | BGeo x, BGeo y => geobox_eqb x y
    | BGcp x, BGcp y => gcpbox_eqb x y
    | _, _ => false
    end.
  Definition anytiles_eqb (a b : anytiles) : bool :=
    match a, b with
    | TReg x, TReg y => tiles_eqb x y
    | TVar x, TVar y => vtiles_eqb x y
    | _, _ => false
    end.
  Definition anybox_token (a : anybox) : list atom := match a with BGeo x => geobox_token x | BGcp x => gcpbox_token x end.
  Definition anytiles_token (a : anytiles) : list atom := match a with TReg x => tiles_token x | TVar x => vtiles_token x end.
  Definition anybox_pickle (a : anybox) : anybox := match a with BGeo x => BGeo (geobox_pickle x) | BGcp x => BGcp (gcpbox_pickle x) end.
  Definition gbtiles_eqb (a b : gbtiles) : bool := anytiles_eqb (gt_tiles a) (gt_tiles b) && anybox_eqb (gt_box a) (gt_box b).
  Definition gbtiles_token (a : gbtiles) : list atom := anybox_token (gt_box a) ++ anytiles_token (gt_tiles a).
  Definition gbtiles_pickle (a : gbtiles) : gbtiles := mkGbTiles (anybox_pickle (gt_box a)) (gt_tiles a).

  (** ** XY family (types.py:59-71, 217-220): [==] and [hash] ignore the class; Shape2d is unhashable *)
  Definition xy_eqb (a b : xy) : bool := num_eqb (xy_x a) (xy_x b) && num_eqb (xy_y a) (xy_y b).
  Definition xy_hashkey (a : xy) : list atom := [AFlt (num_key (xy_x a)); AFlt (num_key (xy_y a))].
  Definition xy_token (a : xy) : list atom := [ATag (xy_cls a); ANum (num_tok (xy_x a)); ANum (num_tok (xy_y a))].

  (** ** GridSpec (gridspec.py:46-88, math.py Bin1D.__eq__; unhashable; token = pickle of __dict__) *)
  Definition bin1d := (Q * num * Z)%type.
  Definition bin_eqb (a b : bin1d) : bool :=
    Qeq_bool (fst (fst a)) (fst (fst b)) && num_eqb (snd (fst a)) (snd (fst b)) && (snd a =? snd b).
  Definition gs_ybin (g : gridspec) : bin1d :=
    ((inject_Z (fst (gs_shape g)) * Qabs (snd (gs_res g)))%Q, snd (gs_origin g), if gs_flipy g then -1 else 1).
  Definition gs_xbin (g : gridspec) : bin1d :=
    ((inject_Z (snd (gs_shape g)) * Qabs (fst (gs_res g)))%Q, fst (gs_origin g), if gs_flipx g then -1 else 1).
  Definition gridspec_eqb (a b : gridspec) : bool :=
    zz_eqb (gs_shape a) (gs_shape b) && bin_eqb (gs_ybin a) (gs_ybin b) && bin_eqb (gs_xbin a) (gs_xbin b)
    && crs_eq W (gs_crs a) (gs_crs b).
  Definition gridspec_token (a : gridspec) : list atom :=
    [AStr (Some (c_str (gs_crs a))); AInt (fst (gs_shape a)); AInt (snd (gs_shape a));
     AFlt (Qred (fst (gs_res a))); AFlt (Qred (snd (gs_res a)));
     ANum (num_tok (fst (gs_origin a))); ANum (num_tok (snd (gs_origin a)));
     ABool (gs_flipx a); ABool (gs_flipy a)].
  Definition gridspec_pickle (a : gridspec) : gridspec :=
    mkGridSpec (reload (gs_crs a)) (gs_shape a) (gs_res a) (gs_origin a) (gs_flipx a) (gs_flipy a).
End Values.

(** * What the theorems assume about CRS instances (established in Proofs/CrsHistoryProofs.v
      for the instances of one reachable state) *)
Record crs_laws (W : oracle) (D : crsv -> Prop) (reload : crsv -> crsv) : Prop := mkCrsLaws {
  cl_refl : forall a, D a -> crs_eq W a a = true;
  cl_sym : forall a b, D a -> D b -> crs_eq W a b = true -> crs_eq W b a = true;
  cl_trans : forall a b c, D a -> D b -> D c -> crs_eq W a b = true -> crs_eq W b c = true -> crs_eq W a c = true;
  cl_tok : forall a b, D a -> D b -> c_str a = c_str b -> crs_eq W a b = true;
  cl_reload_D : forall a, D a -> D (reload a);
  cl_reload_str : forall a, D a -> c_str (reload a) = c_str a
}.

(** a class of CRS instances on which [==] implies equal [_str] (what [hash] uses):
    the open finding crs-eq-hash:epsg-vs-wkt is that not all instances form such a class *)
Definition hash_dom (W : oracle) (Dh : crsv -> Prop) : Prop :=
  forall a b, Dh a -> Dh b -> crs_eq W a b = true -> c_str a = c_str b.

(** shapely oracle contract *)
Record geom_laws {G : Type} (geq : G -> G -> bool) (gjson : G -> Z) (gload : Z -> G) : Prop := mkGeomLaws {
  gl_refl : forall a, geq a a = true;
  gl_sym : forall a b, geq a b = true -> geq b a = true;
  gl_trans : forall a b c, geq a b = true -> geq b c = true -> geq a c = true;
  (* loading the GeoJSON of a geometry gives an equal geometry with the same GeoJSON *)
  gl_load : forall a, geq (gload (gjson a)) a = true;
  gl_json : forall a, gjson (gload (gjson a)) = gjson a
}.
