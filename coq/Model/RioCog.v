(** Model of the decision logic of odc/geo/cog/_rio.py (_write_cog, write_cog,
    write_cog_layers, _default_cog_opts, check_write_path): band-layout
    normalisation, block sizes, default overview levels, nodata precedence and
    the overwrite guard as a file-system state machine.  GDAL itself (encode /
    decode) is an oracle.  Hand-written, statement by statement; tied to the
    code by the C15 correspondence harness (tools/props/c15.py). *)
From Coq Require Import ZArith List Bool Lia.
From OG Require Import Base.Result Base.ListSel Model.Roi Model.CogLayout.
Import ListNotations.
Open Scope Z_scope.

(** * 1. numpy row-major indexing: position of element [idx] in the flat data
    of an array of shape [shape] (validated against numpy by the harness) *)
Fixpoint ravel_from (acc : Z) (shape idx : list Z) : Z :=
  match shape, idx with
  | d :: shape', i :: idx' => ravel_from (acc * d + i) shape' idx'
  | _, _ => acc
  end.
Definition ravel (shape idx : list Z) : Z := ravel_from 0 shape idx.

(** * 2. band layout of _write_cog *)
Inductive layout := L2d | L2dT | LBandFirst | LBandLast.

Definition layout_code (l : layout) : Z := match l with L2d => 0 | LBandFirst => 1 | LBandLast => 2 | L2dT => 3 end.

(** [gshape] = geobox.shape; [yaxis] = position of Y when the caller knows it
    (write_cog / write_cog_layers pass the DataArray's ydim since fix 1cabe7b).
    Result: layout and (nbands, h, w) of the band-first array handed to GDAL.

      if pix.ndim == 2:
          if yaxis == 1: pix = pix.transpose([1, 0])      (dims (x, y), since fix 22d302d)
          h, w = pix.shape; nbands = 1
      elif pix.ndim == 3:
          band_last = (pix.shape[:2] == geobox.shape) if yaxis is None else (yaxis == 0)
          if band_last: pix = pix.transpose([2, 0, 1])
          elif pix.shape[-2:] != geobox.shape: raise ValueError
          nbands, h, w = pix.shape
      else: raise ValueError
      assert geobox.shape == (h, w)                                        *)
Definition norm_layout (shape : list Z) (gshape : Z * Z) (yaxis : option Z) : res (layout * (Z * Z * Z)) :=
  match shape with
  | [d0; d1] =>
      let xy := match yaxis with Some ya => ya =? 1 | None => false end in
      if xy then (if zz_eq gshape (d1, d0) then Ok (L2dT, (1, d1, d0)) else Err (EAssert 124))
      else if zz_eq gshape (d0, d1) then Ok (L2d, (1, d0, d1)) else Err (EAssert 124)
  | [d0; d1; d2] =>
      let band_last := match yaxis with
                       | None => zz_eq (d0, d1) gshape
                       | Some ya => ya =? 0
                       end in
      if band_last then
        if zz_eq gshape (d0, d1) then Ok (LBandLast, (d2, d0, d1)) else Err (EAssert 124)
      else if negb (zz_eq (d1, d2) gshape) then Err EValue
      else Ok (LBandFirst, (d0, d1, d2))
  | _ => Err EValue
  end.

(** flat position, in the caller's array, of the sample that ends up in output
    band [b] (0-based), row [y], column [x] *)
Definition src_index (l : layout) (dims : Z * Z * Z) (b y x : Z) : Z :=
  let '(nb, h, w) := dims in
  match l with
  | L2d => y * w + x
  | L2dT => x * h + y
  | LBandFirst => (b * h + y) * w + x
  | LBandLast => (y * w + x) * nb + b
  end.

(** all output samples in band-major, row-major order, as input positions
    (what a reader returns when the caller's array is [arange(N).reshape(shape)]) *)
Definition readback_indices (l : layout) (dims : Z * Z * Z) : list Z :=
  let '(nb, h, w) := dims in
  flat_map (fun b => flat_map (fun y => map (fun x => src_index l dims b y x) (zrange w)) (zrange h))
           (zrange nb).

Definition write_layout (shape : list Z) (gshape : Z * Z) (yaxis : option Z) : res ((Z * Z * Z) * list Z) :=
  '(l, dims) <- norm_layout shape gshape yaxis ;;
  Ok (dims, readback_indices l dims).

(** * 3. block sizes, overview levels, nodata *)

(** blocksize=None -> 512; _default_cog_opts: (blockxsize, blockysize) *)
Definition cog_blocksize (blocksize : option Z) : Z := match blocksize with None => 512 | Some b => b end.

Definition default_cog_block (blocksize : option Z) (w h : Z) : Z * Z :=
  let b := cog_blocksize blocksize in (adjust_blocksize b w, adjust_blocksize b h).

Definition ovr_blocksize (blocksize ovr : option Z) : Z :=
  match ovr with None => cog_blocksize blocksize | Some o => o end.

(** overview_levels=None -> [] if min(w, h) < 512 else [2, 4, 8, 16, 32] *)
Definition overview_levels (req : option (list Z)) (w h : Z) : list Z :=
  match req with
  | Some l => l
  | None => if Z.min w h <? 512 then [] else [2; 4; 8; 16; 32]
  end.

(** oracle contract (GDAL, validated by the harness): an overview of factor [k]
    of a [h] x [w] image has ceil(h/k) x ceil(w/k) pixels; used to recognise the
    requested levels in a written file *)
Definition gdal_overview_shape (h w k : Z) : Z * Z := ((h + k - 1) / k, (w + k - 1) / k).
Definition overview_shapes (req : option (list Z)) (w h : Z) : list (Z * Z) :=
  map (gdal_overview_shape h w) (overview_levels req w h).

(** write_cog: nodata keyword, else the array's attrs['nodata'] *)
Definition nodata_of {A} (kw attr : option A) : option A :=
  match kw with Some v => Some v | None => attr end.

(** * 4. check_write_path and the destination file *)

(** a file system: association list path -> content (first entry wins) *)
Definition fs := list (Z * Z).

Definition fs_lookup (s : fs) (p : Z) : option Z :=
  match find (fun e => fst e =? p) s with Some e => Some (snd e) | None => None end.
Definition fs_exists (s : fs) (p : Z) : bool := match fs_lookup s p with Some _ => true | None => false end.
Definition fs_unlink (s : fs) (p : Z) : fs := filter (fun e => negb (fst e =? p)) s.
Definition fs_write (s : fs) (p c : Z) : fs := (p, c) :: fs_unlink s p.

(** check_write_path(fname, overwrite) *)
Definition check_write_path (s : fs) (p : Z) (overwrite : bool) : fs * res unit :=
  if fs_exists s p then
    if overwrite then (fs_unlink s p, Ok tt) else (s, Err EIO)
  else (s, Ok tt).

(** _write_cog seen from the file system: [dest = None] is ":mem:", [content] the
    bytes GDAL produces.  The layout checks come first, then the overwrite
    guard, then the write. *)
Definition write_cog_fs (s : fs) (shape : list Z) (gshape : Z * Z) (yaxis : option Z)
           (dest : option Z) (overwrite : bool) (content : Z) : fs * res unit :=
  match norm_layout shape gshape yaxis with
  | Err e => (s, Err e)
  | Ok _ =>
      match dest with
      | None => (s, Ok tt)
      | Some p =>
          match check_write_path s p overwrite with
          | (s', Err e) => (s', Err e)
          | (s', Ok _) => (fs_write s' p content, Ok tt)
          end
      end
  end.

(** write_cog_layers: nothing happens for an empty layer list; otherwise the
    guard runs before any layer is looked at *)
Definition write_cog_layers_fs (s : fs) (nlayers : Z) (layouts_ok : bool)
           (dest : option Z) (overwrite : bool) (content : Z) : fs * res unit :=
  if nlayers =? 0 then (s, Ok tt)
  else
    match dest with
    | None => if layouts_ok then (s, Ok tt) else (s, Err EValue)
    | Some p =>
        match check_write_path s p overwrite with
        | (s', Err e) => (s', Err e)
        | (s', Ok _) => if layouts_ok then (fs_write s' p content, Ok tt) else (s', Err EValue)
        end
    end.
