(** Correspondence cases for the C17 model: each constructor carries the inputs
    given to the real function and the canonicalised result it returned;
    [check] compares with the model. *)
From Coq Require Import ZArith QArith List Bool.
From OG Require Import Base.Result Base.ListSel Base.Eqb Model.Roi.
Import ListNotations.
Open Scope Z_scope.

Definition ss_eqb (x y : someslice) : bool :=
  match x, y with
  | SInt a, SInt b => a =? b
  | SSl a b c, SSl a' b' c' => opt_eqb Z.eqb a a' && opt_eqb Z.eqb b b' && opt_eqb Z.eqb c c'
  | _, _ => false
  end.

Inductive case :=
| CNorm (s : someslice) (n : Z) (expect : someslice)
| CNormErr (s : someslice) (expect : res (Z * Z * option Z))
| CInter3 (a b : someslice) (expect : res ((Z * Z) * (Z * Z) * (Z * Z)))
| CInter (a b : someslice) (expect : res (Z * Z))
| CDim (s : someslice) (expect : res Z)
| CEmpty (roi : list someslice) (expect : res bool)
| CFull (roi : list someslice) (shape : list Z) (expect : bool)
| CPad (pad : Z) (s : someslice) (n : Z) (expect : someslice)
| CCenter2 (s : someslice) (expect : res Z)
| CDown (a b k : Z) (expect : Z * Z)
| CUp (a b k : Z) (dim : option Z) (expect : Z * Z)
| CDownDim (n k : Z) (expect : Z)
| CAlign (x a : Z) (down up : Z)
| CNpGet (n : Z) (s : someslice) (expect : option (list Z))
| CPoints (pts : list (option (Q * Q))) (ny nx padding : Z) (align : option Z) (expect : (Z * Z) * (Z * Z)).

Definition iota (n : Z) : list Z := map Z.of_nat (seq 0 (Z.to_nat n)).

Definition check (c : case) : bool :=
  match c with
  | CNorm s n e => ss_eqb (norm_slice s n) e
  | CNormErr s e => res_eqb (pair_eqb zz_eqb (opt_eqb Z.eqb)) (norm_slice_or_error s) e
  | CInter3 a b e => res_eqb (pair_eqb (pair_eqb zz_eqb zz_eqb) zz_eqb) (slice_intersect3 a b) e
  | CInter a b e => res_eqb zz_eqb (slice_intersect a b) e
  | CDim s e => res_eqb Z.eqb (slice_dim s) e
  | CEmpty r e => res_eqb Bool.eqb (roi_is_empty r) e
  | CFull r sh e => Bool.eqb (roi_is_full r sh) e
  | CPad p s n e => ss_eqb (pad_slice p s n) e
  | CCenter2 s e => res_eqb Z.eqb (slice_center2 s) e
  | CDown a b k e => zz_eqb (scaled_down_slice (a, b) k) e
  | CUp a b k d e => zz_eqb (scaled_up_slice (a, b) k d) e
  | CDownDim n k e => scaled_down_dim n k =? e
  | CAlign x a d u => (align_down x a =? d) && (align_up x a =? u)
  | CNpGet n s e => opt_eqb (list_eqb Z.eqb) (np_get (iota n) s) e
  | CPoints pts ny nx p al e => pair_eqb zz_eqb zz_eqb (roi_from_points pts ny nx p al) e
  end.
