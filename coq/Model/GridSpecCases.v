(** Correspondence cases for the C14 model: inputs given to the real
    Bin1D/GridSpec and the canonicalised result; [check] compares with the model
    (rationals with [Qeq_bool], never approximately). *)
From Coq Require Import ZArith QArith List Bool.
From OG Require Import Base.Result Base.Eqb Model.GridSpec.
Import ListNotations.
Open Scope Z_scope.

Definition qq_eqb := pair_eqb Qeqb Qeqb.
Definition bin_sum (b : bin1d) : Q * Q * Z := (b_sz b, b_origin b, b_dir b).
Definition bin_sum_eqb (x y : Q * Q * Z) : bool :=
  let '(a, b, c) := x in let '(a', b', c') := y in Qeqb a a' && Qeqb b b' && (c =? c').

(** grid parameters as passed to GridSpec(...) *)
Definition gparams := (Z * Z * Q * Q * Q * Q * bool * bool)%type.
Definition mk (p : gparams) : res gridspec :=
  let '(ny, nx, ry, rx, ox, oy, fx, fy) := p in gs_new ny nx ry rx ox oy fx fy.

(** what the harness reads off a GridSpec object *)
Definition gsum := (Z * Z * (Q * Q) * (Q * Q) * (Q * Q) * (Q * Q * Z) * (Q * Q * Z))%type.
Definition gs_sum (g : gridspec) : gsum :=
  (g_ny g, g_nx g, (g_ry g, g_rx g), (g_ox g, g_oy g), (g_tsx g, g_tsy g),
   bin_sum (g_xbin g), bin_sum (g_ybin g)).
Definition gsum_eqb (x y : gsum) : bool :=
  let '(a1, a2, a3, a4, a5, a6, a7) := x in
  let '(b1, b2, b3, b4, b5, b6, b7) := y in
  (a1 =? b1) && (a2 =? b2) && qq_eqb a3 b3 && qq_eqb a4 b4 && qq_eqb a5 b5 &&
  bin_sum_eqb a6 b6 && bin_sum_eqb a7 b7.

Definition q4 := (Q * Q * Q * Q)%type.
Definition q4_eqb (x y : q4) : bool :=
  let '(a, b, c, d) := x in let '(a', b', c', d') := y in Qeqb a a' && Qeqb b b' && Qeqb c c' && Qeqb d d'.
Definition z4_eqb (x y : Z * Z * Z * Z) : bool :=
  let '(a, b, c, d) := x in let '(a', b', c', d') := y in (a =? a') && (b =? b') && (c =? c') && (d =? d').

Definition gbsum := (Z * Z * Q * Q * Q * Q)%type.
Definition gb_sum (b : gbox) : gbsum := (gb_ny b, gb_nx b, gb_sx b, gb_tx b, gb_sy b, gb_ty b).
Definition gbsum_eqb (x y : gbsum) : bool :=
  let '(a1, a2, a3, a4, a5, a6) := x in let '(b1, b2, b3, b4, b5, b6) := y in
  (a1 =? b1) && (a2 =? b2) && Qeqb a3 b3 && Qeqb a4 b4 && Qeqb a5 b5 && Qeqb a6 b6.

Inductive case :=
| CBinNew (sz o : Q) (d : Z) (expect : res (Q * Q * Z))
| CBinGet (sz o : Q) (d idx : Z) (expect : Q * Q)
| CBinBin (sz o : Q) (d : Z) (x : Q) (expect : Z)
| CBinSample (idx : Z) (x0 x1 : Q) (d : Z) (expect : res (Q * Q * Z))
| CGsNew (p : gparams) (expect : res gsum)
| CPt (p : gparams) (x y : Q) (expect : Z * Z)
| CGeobox (p : gparams) (ix iy : Z) (expect : gbsum) (bbox : q4)
| CIdxBounds (p : gparams) (tol : Q) (b : q4) (expect : Z * Z * Z * Z)
| CTiles (p : gparams) (tol : Q) (b : q4) (expect : list (Z * Z))
| CPoly (p : gparams) (tol : Q) (b : q4) (disj : list (Z * Z * bool)) (expect : list (Z * Z))
| CSample (b : q4) (ny nx ix iy : Z) (fx fy : bool) (expect : res gsum)
| CWeb (h : Q) (z npix : Z) (expect : res gsum).

Definition with_grid {A} (p : gparams) (f : gridspec -> A) (dflt : A) : A :=
  match mk p with Ok g => f g | Err _ => dflt end.

(** the oracle [disjoint] replayed from the table observed on the real shapely calls *)
Definition table_disjoint (g : gridspec) (tab : list (Z * Z * bool)) (_ : unit) (b : gbox) : bool :=
  existsb (fun e => let '(ix, iy, d) := e in d && gbsum_eqb (gb_sum (tile_geobox g (ix, iy))) (gb_sum b)) tab.

Definition check (c : case) : bool :=
  match c with
  | CBinNew sz o d e => res_eqb bin_sum_eqb (bind (bin_new sz o d) (fun b => Ok (bin_sum b))) e
  | CBinGet sz o d i e => qq_eqb (bin_getitem (mkBin sz o d) i) e
  | CBinBin sz o d x e => bin_bin (mkBin sz o d) x =? e
  | CBinSample i x0 x1 d e =>
      res_eqb bin_sum_eqb (bind (bin_from_sample i x0 x1 d) (fun b => Ok (bin_sum b))) e
  | CGsNew p e => res_eqb gsum_eqb (bind (mk p) (fun g => Ok (gs_sum g))) e
  | CPt p x y e => with_grid p (fun g => zz_eqb (pt2idx g x y) e) false
  | CGeobox p ix iy e bb =>
      with_grid p (fun g => let b := tile_geobox g (ix, iy) in
                            gbsum_eqb (gb_sum b) e && q4_eqb (gbox_bbox b) bb) false
  | CIdxBounds p tol b e => with_grid p (fun g => z4_eqb (idx_bounds g tol b) e) false
  | CTiles p tol b e => with_grid p (fun g => list_eqb zz_eqb (tiles g tol b) e) false
  | CPoly p tol b tab e =>
      with_grid p (fun g => list_eqb zz_eqb
                              (tiles_from_geopolygon (fun _ : unit => b) (table_disjoint g tab) g tol tt) e) false
  | CSample b ny nx ix iy fx fy e =>
      res_eqb gsum_eqb (bind (from_sample_tile b ny nx ix iy fx fy) (fun g => Ok (gs_sum g))) e
  | CWeb h z npix e => res_eqb gsum_eqb (bind (web_tiles h z npix) (fun g => Ok (gs_sum g))) e
  end.
