(** Correspondence cases for Model/Paste.v. *)
From Coq Require Import ZArith QArith List Bool.
From OG Require Import Base.Result Base.Eqb Model.Roi Model.Overlap Model.Paste.
Import ListNotations.
Open Scope Z_scope.

Definition rows_eqb := list_eqb (list_eqb Z.eqb).

Inductive case :=
(** numpy: dst = full(nodata); dst[roi_dst] = src[roi_src][::-1?, ::-1?] *)
| CPaste (src : list (list Z)) (nodata : Z) (rs rd : roi2) (flipy flipx : bool) (ds : shape2)
         (expect : list (list Z))
(** rasterio nearest-neighbour warp of [src] through the dst->src pixel map [T] *)
| CWarp (src : list (list Z)) (nodata : Z) (ss : shape2) (T : affine) (ds : shape2)
        (expect : list (list Z))
(** end to end: plan (model) + paste (model) against the real warp *)
| CPlanPaste (c : consts) (src : list (list Z)) (nodata : Z) (ss ds : shape2) (A F : affine) (ttol stol : Q)
             (expect : list (list Z)).

Definition check (c : case) : bool :=
  match c with
  | CPaste src nd rs rd fy fx ds e => rows_eqb (render (paste_img (img_of_lists src nd) nd rs rd fy fx) ds) e
  | CWarp src nd ss T ds e => rows_eqb (render (warp_nn (img_of_lists src nd) nd ss (pix_loc T)) ds) e
  | CPlanPaste c src nd ss ds A F ttol stol e =>
      match reproject_linear c ss ds A F ttol stol None None with
      | Ok r => paste_ok r && (read_shrink r =? 1) &&
                rows_eqb (render (paste_img (img_of_lists src nd) nd (roi_src r) (roi_dst r)
                                            (Qltb (ae A) 0) (Qltb (aa A) 0)) ds) e
      | Err _ => false
      end
  end.
