(** Correspondence cases for the C06 model (Model/Mpu.v): bytes and chunk ids
    are integers.  [CRun]: the implementation was driven operation by operation
    along [t] (post-order) and every intermediate MPUChunk was recorded —
    lock-step comparison of the whole state.  [CEnd]: end-to-end
    mpu_write(...).compute() through dask; [t] is the merge tree dask actually
    executed; only order-independent observables are compared. *)
From Coq Require Import ZArith List Bool.
From OG Require Import Base.Result Base.ListSel Base.Eqb Model.Mpu.
Import ListNotations.
Open Scope Z_scope.

Definition part_eqb : part Z -> part Z -> bool := pair_eqb Z.eqb (list_eqb Z.eqb).
Definition obs_eqb : (Z * option Z) -> (Z * option Z) -> bool := pair_eqb Z.eqb (opt_eqb Z.eqb).

Definition chunk_eqb (a b : chunk Z Z) : bool :=
  (next a =? next b) && (credits a =? credits b) && list_eqb Z.eqb (data a) (data b)
  && list_eqb Z.eqb (left a) (left b) && list_eqb part_eqb (parts a) (parts b)
  && list_eqb obs_eqb (observed a) (observed b) && Bool.eqb (final a) (final b)
  && (keep a =? keep b).

Record cfg := { c_fx : fixes; c_w : writer; c_wpc : Z; c_spill : Z; c_hdr : list Z;
                c_has_footer : bool; c_footer : list Z }.

Definition outcome := (list (part Z) * list (part Z) * list (Z * option Z))%type.

Definition outcome_eqb (a b : outcome) : bool :=
  list_eqb part_eqb (fst (fst a)) (fst (fst b)) && list_eqb part_eqb (snd (fst a)) (snd (fst b))
  && list_eqb obs_eqb (snd a) (snd b).

Inductive case :=
| CRun (c : cfg) (t : tree Z Z) (trace : res (list (chunk Z Z))) (expect : res outcome)
| CEnd (c : cfg) (t : tree Z Z) (expect : res (list (part Z) * list (Z * option Z))).

Definition model_trace (c : cfg) (t : tree Z Z) : res (list (chunk Z Z)) :=
  let pw := c_w c in
  r <- run_trace (c_fx c) (Some pw) (c_spill c) (minp pw + 1) (c_wpc c) (minw pw) (nleaves t)
         (negb (c_has_footer c)) t 0 ;;
  Ok (snd r).

Definition model_out (c : cfg) (t : tree Z Z) : res outcome :=
  mpu_write (c_fx c) (c_w c) (c_wpc c) (c_spill c) (c_hdr c) (c_has_footer c) (c_footer c) t.

Definition check (x : case) : bool :=
  match x with
  | CRun c t tr e =>
      res_eqb (list_eqb chunk_eqb) (model_trace c t) tr && res_eqb outcome_eqb (model_out c t) e
  | CEnd c t e =>
      res_eqb (pair_eqb (list_eqb part_eqb) (list_eqb obs_eqb))
        (match model_out c t with Ok o => Ok (fst (fst o), snd o) | Err x => Err x end) e
  end.
