(** Model of the tilings of odc/geo/roi.py — [Tiles] (115-231), [VariableSizedTiles]
    (234-327), [roi_tiles], [clip_tiles] (98-112) — and of [GeoboxTiles]
    (odc/geo/geobox.py 1299-1395: __getitem__, chunk_shape, chunks, _crop, clip).
    Hand-written statement by statement, after the three C04 repairs (integer
    ceil division, int64 offsets, validation of negative indices).  Pairs are in
    the code's (y, x) order.  Tied to the code by tools/props/c04.py. *)
From Coq Require Import ZArith List Bool Lia.
From OG Require Import Base.Result Base.ListSel Model.Roi.
Import ListNotations.
Open Scope Z_scope.

(** [norm_slice_2d] / [roi_normalise] on one axis: start and stop of the
    normalised slice ([_norm_slice] always fills both). *)
Definition norm_ss (s : someslice) (n : Z) : Z * Z :=
  match norm_slice s n with
  | SSl (Some a) (Some b) _ => (a, b)
  | _ => (0, 0)    (* unreachable *)
  end.

Definition mk_sl (ab : Z * Z) : someslice := SSl (Some (fst ab)) (Some (snd ab)) None.
Definition mk_roi (r : (Z * Z) * (Z * Z)) : someslice * someslice := (mk_sl (fst r), mk_sl (snd r)).
Definition int_idx (rc : Z * Z) : someslice * someslice := (SInt (fst rc), SInt (snd rc)).

(** Python [sum] *)
Definition sumZ (l : list Z) : Z := fold_left Z.add l 0.

(** * Regular tiles *)

(** [-(-N // n)] *)
Definition cdiv (N n : Z) : Z := - ((- N) / n).

Record tiles := { t_base : Z * Z; t_tile : Z * Z; t_shape : Z * Z }.

(** Tiles.__init__ ; a zero tile size is a ZeroDivisionError *)
Definition tiles_init (base tile : Z * Z) : res tiles :=
  if (fst tile =? 0) || (snd tile =? 0) then Err EOther
  else Ok {| t_base := base; t_tile := tile;
             t_shape := (cdiv (fst base) (fst tile), cdiv (snd base) (snd tile)) |}.

(** Tiles.__getitem__._slice *)
Definition tiles_slice (i : Z * Z) (N n : Z) : res (Z * Z) :=
  let _in := fst i * n in
  let _out := snd i * n in
  if (0 <=? _in) && (_in <? N) && (_out <? N + n) then Ok (_in, Z.min _out N)
  else Err EIndex.

(** Tiles.__getitem__ *)
Definition tiles_getitem (t : tiles) (idx : someslice * someslice) : res ((Z * Z) * (Z * Z)) :=
  let iy := norm_ss (fst idx) (fst (t_shape t)) in
  let ix := norm_ss (snd idx) (snd (t_shape t)) in
  ir <- tiles_slice iy (fst (t_base t)) (fst (t_tile t)) ;;
  ic <- tiles_slice ix (snd (t_base t)) (snd (t_tile t)) ;;
  Ok (ir, ic).

(** Tiles.tile_shape._sz *)
Definition tile_sz (i n tsz total : Z) : res Z :=
  let i := if i <? 0 then n + i else i in
  if (0 <=? i) && (i <? n - 1) then Ok tsz
  else if i =? n - 1 then Ok (total - i * tsz)
  else Err EIndex.

Definition tiles_tile_shape (t : tiles) (idx : Z * Z) : res (Z * Z) :=
  ny <- tile_sz (fst idx) (fst (t_shape t)) (fst (t_tile t)) (fst (t_base t)) ;;
  nx <- tile_sz (snd idx) (snd (t_shape t)) (snd (t_tile t)) (snd (t_base t)) ;;
  Ok (ny, nx).

(** Python [(v,) * k]: empty for k <= 0 *)
Definition repeatZ (v k : Z) : list Z := repeat v (Z.to_nat k).

(** Tiles.chunks *)
Definition tiles_chunks (t : tiles) : res (list Z * list Z) :=
  let NY := fst (t_shape t) in
  let NX := snd (t_shape t) in
  n0 <- tiles_tile_shape t (0, 0) ;;
  n1 <- tiles_tile_shape t (NY - 1, NX - 1) ;;
  Ok (repeatZ (fst n0) (NY - 1) ++ [fst n1], repeatZ (snd n0) (NX - 1) ++ [snd n1]).

(** Tiles.locate *)
Definition tiles_locate (t : tiles) (pix : Z * Z) : res (Z * Z) :=
  let '(NY, NX) := t_base t in
  let '(y, x) := pix in
  if (y <? 0) || (y >=? NY) || (x <? 0) || (x >=? NX) then Err EIndex
  else
    n0 <- tiles_tile_shape t (0, 0) ;;
    Ok (y / fst n0, x / snd n0).

(** roi_shape of a normalised 2-d roi *)
Definition roi_shape2 (r : (Z * Z) * (Z * Z)) : Z * Z :=
  (snd (fst r) - fst (fst r), snd (snd r) - fst (snd r)).

(** Tiles.crop *)
Definition tiles_crop (t : tiles) (roi : someslice * someslice) : res tiles :=
  r <- tiles_getitem t roi ;;
  tiles_init (roi_shape2 r) (t_tile t).

(** * Variable sized tiles *)

Definition two63 : Z := 9223372036854775808.
Definition wrap64 (x : Z) : Z := (x + two63) mod (2 * two63) - two63.
Definition fits64 (x : Z) : bool := (- two63 <=? x) && (x <? two63).

(** ndarray.cumsum(dtype="int64") of the tail, running value [acc] (wraps silently) *)
Fixpoint cumsum (acc : Z) (l : list Z) : list Z :=
  match l with
  | [] => []
  | c :: r => let a := wrap64 (acc + c) in a :: cumsum a r
  end.

(** np.asarray([0, *idx], dtype="int64").cumsum(dtype="int64"); entries outside
    int64 make np.asarray raise OverflowError *)
Definition vt_offsets (ch : list Z) : res (list Z) :=
  if forallb fits64 ch then Ok (0 :: cumsum 0 ch) else Err EOther.

Record vtiles := { v_offy : list Z; v_offx : list Z }.

Definition vt_init (chy chx : list Z) : res vtiles :=
  oy <- vt_offsets chy ;;
  ox <- vt_offsets chx ;;
  Ok {| v_offy := oy; v_offx := ox |}.

Definition nthZ (l : list Z) (i : Z) : Z := nth (Z.to_nat i) l 0.

(** numpy [a[i]] on a 1-d array, int index: wraps negatives once, else IndexError *)
Definition np_at (a : list Z) (i : Z) : res Z :=
  let n := len a in
  if (- n <=? i) && (i <? n) then Ok (nthZ a (if i <? 0 then i + n else i)) else Err EIndex.

Definition vt_shape (v : vtiles) : Z * Z := (len (v_offy v) - 1, len (v_offx v) - 1).

(** VariableSizedTiles.base: int(idx[-1]) *)
Definition vt_base (v : vtiles) : res (Z * Z) :=
  ny <- np_at (v_offy v) (-1) ;;
  nx <- np_at (v_offx v) (-1) ;;
  Ok (ny, nx).

Definition vt_slice (a : list Z) (i : Z * Z) : res (Z * Z) :=
  s <- np_at a (fst i) ;;
  e <- np_at a (snd i) ;;
  Ok (s, e).

(** VariableSizedTiles.__getitem__ *)
Definition vt_getitem (v : vtiles) (idx : someslice * someslice) : res ((Z * Z) * (Z * Z)) :=
  let iy := norm_ss (fst idx) (fst (vt_shape v)) in
  let ix := norm_ss (snd idx) (snd (vt_shape v)) in
  if (fst iy <? 0) || (fst ix <? 0) then Err EIndex
  else
    y <- vt_slice (v_offy v) iy ;;
    x <- vt_slice (v_offx v) ix ;;
    Ok (y, x).

(** VariableSizedTiles.tile_shape._sz *)
Definition vt_sz (a : list Z) (i : Z) : res Z :=
  let n := len a - 1 in
  let i := if i <? 0 then n + i else i in
  if (0 <=? i) && (i <? n) then
    hi <- np_at a (i + 1) ;;
    lo <- np_at a i ;;
    Ok (hi - lo)
  else Err EIndex.

Definition vt_tile_shape (v : vtiles) (idx : Z * Z) : res (Z * Z) :=
  ny <- vt_sz (v_offy v) (fst idx) ;;
  nx <- vt_sz (v_offx v) (snd idx) ;;
  Ok (ny, nx).

(** np.diff *)
Fixpoint diffs (l : list Z) : list Z :=
  match l with
  | a :: ((b :: _) as r) => (b - a) :: diffs r
  | _ => []
  end.

Definition vt_chunks (v : vtiles) : list Z * list Z := (diffs (v_offy v), diffs (v_offx v)).

(** np.searchsorted(bins, v, "right") on a sorted array: number of entries <= v *)
Definition searchsorted_right (bins : list Z) (v : Z) : Z := len (filter (fun b => b <=? v) bins).

(** VariableSizedTiles.locate *)
Definition vt_locate (v : vtiles) (pix : Z * Z) : res (Z * Z) :=
  b <- vt_base v ;;
  let '(NY, NX) := b in
  let '(y, x) := pix in
  if (y <? 0) || (y >=? NY) || (x <? 0) || (x >=? NX) then Err EIndex
  else Ok (searchsorted_right (tl (v_offy v)) y, searchsorted_right (tl (v_offx v)) x).

(** Python tuple slicing [ch[a:b]] *)
Definition py_sel {A} (l : list A) (a b : Z) : list A :=
  sel l (py_clamp (len l) (Some a) 0) (py_clamp (len l) (Some b) (len l)).

(** VariableSizedTiles.crop *)
Definition vt_crop (v : vtiles) (roi : someslice * someslice) : res vtiles :=
  let ry := norm_ss (fst roi) (fst (vt_shape v)) in
  let rx := norm_ss (snd roi) (snd (vt_shape v)) in
  if (fst ry <? 0) || (fst rx <? 0) then Err EIndex
  else
    let '(chy, chx) := vt_chunks v in
    vt_init (py_sel chy (fst ry) (snd ry)) (py_sel chx (fst rx) (snd rx)).

(** * The RoiTiles protocol: either kind *)
Inductive rtiles := RReg (t : tiles) | RVar (v : vtiles).

(** roi_tiles(shape, how) *)
Definition roi_tiles (shape : Z * Z) (how : (Z * Z) + (list Z * list Z)) : res rtiles :=
  match how with
  | inl tile => t <- tiles_init shape tile ;; Ok (RReg t)
  | inr (chy, chx) => v <- vt_init chy chx ;; Ok (RVar v)
  end.

Definition rt_getitem (t : rtiles) idx :=
  match t with RReg t => tiles_getitem t idx | RVar v => vt_getitem v idx end.
Definition rt_crop (t : rtiles) roi : res rtiles :=
  match t with
  | RReg t => t' <- tiles_crop t roi ;; Ok (RReg t')
  | RVar v => v' <- vt_crop v roi ;; Ok (RVar v')
  end.
Definition rt_shape (t : rtiles) : Z * Z :=
  match t with RReg t => t_shape t | RVar v => vt_shape v end.
Definition rt_base (t : rtiles) : res (Z * Z) :=
  match t with RReg t => Ok (t_base t) | RVar v => vt_base v end.
Definition rt_tile_shape (t : rtiles) idx :=
  match t with RReg t => tiles_tile_shape t idx | RVar v => vt_tile_shape v idx end.
Definition rt_chunks (t : rtiles) : res (list Z * list Z) :=
  match t with RReg t => tiles_chunks t | RVar v => Ok (vt_chunks v) end.
Definition rt_locate (t : rtiles) pix :=
  match t with RReg t => tiles_locate t pix | RVar v => vt_locate v pix end.

(** clip_tiles: an empty selection makes numpy's min raise ValueError *)
Definition clip_tiles (t : rtiles) (sel : list (Z * Z))
  : res (rtiles * ((Z * Z) * (Z * Z)) * list (Z * Z)) :=
  match sel with
  | [] => Err EValue
  | p :: r =>
      let y1 := fold_left Z.min (map fst r) (fst p) in
      let x1 := fold_left Z.min (map snd r) (snd p) in
      let y2 := fold_left Z.max (map fst r) (fst p) in
      let x2 := fold_left Z.max (map snd r) (snd p) in
      let roi := ((y1, y2 + 1), (x1, x2 + 1)) in
      t' <- rt_crop t (mk_roi roi) ;;
      Ok (t', roi, map (fun yx => (fst yx - y1, snd yx - x1)) sel)
  end.

(** * GeoboxTiles.  The GeoBox is abstracted to the pixel window it occupies in
    the grid of a root GeoBox: offset (the translation [compute_crop] composes
    onto the affine, which is C02's subject) and shape. *)
Record gbox := { g_oy : Z; g_ox : Z; g_ny : Z; g_nx : Z }.

(** GeoBox.__getitem__ / compute_crop for a 2-tuple of slices (step None) *)
Definition gbox_crop (g : gbox) (roi : someslice * someslice) : gbox :=
  let ry := norm_ss (fst roi) (g_ny g) in
  let rx := norm_ss (snd roi) (g_nx g) in
  {| g_oy := g_oy g + fst ry; g_ox := g_ox g + fst rx;
     g_ny := snd ry - fst ry; g_nx := snd rx - fst rx |}.

Record gbtiles := { gb_box : gbox; gb_tiles : rtiles }.

Definition gbt_init (box : gbox) (how : (Z * Z) + (list Z * list Z)) : res gbtiles :=
  t <- roi_tiles (g_ny box, g_nx box) how ;;
  Ok {| gb_box := box; gb_tiles := t |}.

Definition gbt_getitem (g : gbtiles) idx : res gbox :=
  r <- rt_getitem (gb_tiles g) idx ;;
  Ok (gbox_crop (gb_box g) (mk_roi r)).

Definition gbt_chunk_shape (g : gbtiles) idx := rt_tile_shape (gb_tiles g) idx.
Definition gbt_chunks (g : gbtiles) := rt_chunks (gb_tiles g).
Definition gbt_shape (g : gbtiles) := rt_shape (gb_tiles g).

(** GeoboxTiles._crop *)
Definition gbt_crop (g : gbtiles) roi : res gbtiles :=
  r <- rt_getitem (gb_tiles g) roi ;;
  t' <- rt_crop (gb_tiles g) roi ;;
  Ok {| gb_box := gbox_crop (gb_box g) (mk_roi r); gb_tiles := t' |}.

(** GeoboxTiles.clip *)
Definition gbt_clip (g : gbtiles) (sel : list (Z * Z)) : res (gbtiles * list (Z * Z)) :=
  '(t', roi, new_idx) <- clip_tiles (gb_tiles g) sel ;;
  gb <- gbt_getitem g (mk_roi roi) ;;
  Ok ({| gb_box := gb; gb_tiles := t' |}, new_idx).
