(** Model of the layout / tile-enumeration / offset bookkeeping of the parallel
    COG writer: odc/geo/cog/_shared.py (adjust_blocksize, norm_blocksize,
    num_overviews, compute_cog_spec, yaxis_from_shape, CogMeta.{num_planes,
    chunked, num_tiles, tidx, flat_tile_idx, cog_tidx}) and
    odc/geo/cog/_tifffile.py (_make_empty_cog's per-level shape/tile sequence,
    save_cog_with_dask's write order, _extract_tile_info, _patch_hdr's offset
    arithmetic).  Hand-written, statement by statement; tied to the code by the
    C05 correspondence harness (tools/props/c05.py).

    Shapes and tiles are pairs [(ny, nx)] (Python's [Shape2d.yx]).  Python [//]
    and [%] are Coq's floor [/] and [mod].  A Python loop that does not
    terminate is rendered as [Err EOther] (only [num_overviews] with a negative
    block size). *)
From Coq Require Import ZArith List Bool Lia.
From OG Require Import Base.Result Base.ListSel Model.Roi.
Import ListNotations.
Open Scope Z_scope.

(** * 1. _shared.py: block sizes, overview count, layout rule *)

(** adjust_blocksize(block, dim=0) *)
Definition adjust_blocksize (block dim : Z) : Z :=
  if (0 <? dim) && (dim <? block) then align_up dim 16 else align_up block 16.

(** a blocksize entry: [int] or [(int, int)] *)
Inductive blk := BInt (b : Z) | BPair (b1 b2 : Z).

(** norm_blocksize(block) *)
Definition norm_blocksize (b : blk) : Z * Z :=
  match b with
  | BInt b => let b' := adjust_blocksize b 0 in (b', b')
  | BPair b1 b2 => (adjust_blocksize b1 0, adjust_blocksize b2 0)
  end.

(** num_overviews(block, dim):
      c = 0
      while block < dim: dim = dim // 2; c += 1
    For [dim = Zpos p] the halving [dim // 2] drops the lowest bit of [p], so the
    loop is a structural recursion on [p]; once [dim] reached 0 the loop stops
    iff [block >= 0] and spins forever otherwise. *)
Fixpoint novr_pos (block : Z) (p : positive) : Z :=
  if block <? Zpos p then
    1 + match p with
        | xH => 0
        | xO q => novr_pos block q
        | xI q => novr_pos block q
        end
  else 0.

Definition num_overviews (block dim : Z) : res Z :=
  match dim with
  | Zpos p => if block <? 0 then Err EOther else Ok (novr_pos block p)
  | _ => if block <? dim then Err EOther else Ok 0
  end.

(** math.align_up_pow2 / align_down_pow2 (after fix 4acfa59: integer bit length) *)
Definition bit_length (n : Z) : Z := if n =? 0 then 0 else Z.log2 (Z.abs n) + 1.
Definition align_up_pow2 (x : Z) : Z := if x <=? 0 then 1 else Z.shiftl 1 (bit_length (x - 1)).
Definition align_down_pow2 (x : Z) : Z :=
  let y := align_up_pow2 x in if y >? x then y / 2 else y.

(** compute_cog_spec(data_shape, tile_shape, max_pad=None) -> (shape, tile, n) *)
Definition compute_cog_spec (shape tile : Z * Z) (max_pad : option Z) : res ((Z * Z) * (Z * Z) * Z) :=
  let '(H, W) := shape in
  let '(th0, tw0) := tile in
  let th := adjust_blocksize th0 0 in
  let tw := adjust_blocksize tw0 0 in
  n1 <- num_overviews tw W ;;
  n2 <- num_overviews th H ;;
  let n := Z.max n1 n2 in
  let pad := 2 ^ n in
  let pad := match max_pad with
             | Some m => if m <? pad then (if m =? 0 then 0 else align_down_pow2 m) else pad
             | None => pad
             end in
  let shape' := if 0 <? pad then (align_up H pad, align_up W pad) else (H, W) in
  Ok (shape', (th, tw), n).

(** * 2. CogMeta *)

Inductive axis := YX | YXS | SYX.

Record meta := Meta { m_axis : axis; m_shape : Z * Z; m_tile : Z * Z; m_nsamples : Z }.

Definition num_planes (m : meta) : Z :=
  match m_axis m with SYX => m_nsamples m | _ => 1 end.

(** CogMeta.chunked: ((N + n - 1) // n per axis).  A zero tile raises
    ZeroDivisionError in Python; the model is only used with positive tiles
    (every theorem carries that hypothesis, and _make_empty_cog produces them). *)
Definition chunked (m : meta) : Z * Z :=
  let '(H, W) := m_shape m in
  let '(th, tw) := m_tile m in
  ((H + th - 1) / th, (W + tw - 1) / tw).

Definition num_tiles (m : meta) : Z :=
  let '(cy, cx) := chunked m in num_planes m * cy * cx.

(** CogMeta.flat_tile_idx((sample, y, x)) *)
Definition flat_tile_idx (m : meta) (idx : Z * Z * Z) : res Z :=
  let '(s, y, x) := idx in
  let ns := num_planes m in
  let '(ny, nx) := chunked m in
  if (s <? 0) || (s >=? ns) then Err EIndex
  else if (y <? 0) || (y >=? ny) then Err EIndex
  else if (x <? 0) || (x >=? nx) then Err EIndex
  else Ok (s * (ny * nx) + y * nx + x).

(** inverse used in the bijection theorem (not part of the code) *)
Definition unflat (m : meta) (t : Z) : Z * Z * Z :=
  let '(ny, nx) := chunked m in
  (t / (ny * nx), (t / nx) mod ny, t mod nx).

Definition zrange (n : Z) : list Z := map Z.of_nat (seq 0 (Z.to_nat n)).

(** np.ndindex((ny, nx)) with a fixed plane *)
Definition tidx_plane (m : meta) (s : Z) : list (Z * Z * Z) :=
  let '(cy, cx) := chunked m in
  flat_map (fun y => map (fun x => (s, y, x)) (zrange cx)) (zrange cy).

(** CogMeta.tidx(sample_idx=None) = np.ndindex((num_planes, ny, nx)) *)
Definition tidx (m : meta) : list (Z * Z * Z) :=
  flat_map (tidx_plane m) (zrange (num_planes m)).

(** CogMeta.tidx(sample_idx): [assert sample_idx < self.num_planes] *)
Definition tidx_of (m : meta) (s : Z) : res (list (Z * Z * Z)) :=
  if s <? num_planes m then Ok (tidx_plane m s) else Err (EAssert 108).

Fixpoint enum_from {A} (k : Z) (l : list A) : list (Z * A) :=
  match l with
  | [] => []
  | a :: r => (k, a) :: enum_from (k + 1) r
  end.

Definition tag_level (i : Z) (l : list (Z * Z * Z)) : list (Z * Z * Z * Z) :=
  map (fun '(p, y, x) => (i, p, y, x)) l.

(** CogMeta.cog_tidx() on [flatten() = mm]: levels reversed, each in tidx order *)
Definition cog_tidx (mm : list meta) : list (Z * Z * Z * Z) :=
  flat_map (fun im => tag_level (fst im) (tidx (snd im))) (rev (enum_from 0 mm)).

(** * 3. _tifffile.py *)

(** yaxis_from_shape(shape, gbox, yaxis): [gshape] is [gbox.shape] when a GeoBox
    is given; [yaxis] is the Y axis position when the caller knows it
    (save_cog_with_dask passes the DataArray's ydim since fix 7466ef3) *)
Definition zz_eq (a b : Z * Z) : bool := (fst a =? fst b) && (snd a =? snd b).

Definition yaxis_from_shape (shape : list Z) (gshape : option (Z * Z)) (yaxis : option Z) : res (axis * Z) :=
  match shape with
  | [_; _] => Ok (YX, 0)
  | [d0; d1; d2] =>
      match yaxis with
      | Some ya => if ya =? 0 then Ok (YXS, 0) else Ok (SYX, 1)
      | None =>
          if (d2 =? 3) || (d2 =? 4) then Ok (YXS, 0)
          else match gshape with
               | None => Ok (SYX, 1)
               | Some g =>
                   if zz_eq g (d0, d1) then Ok (YXS, 0)
                   else if zz_eq g (d1, d2) then Ok (SYX, 1)
                   else Err EValue
               end
      end
  | _ => Err EValue
  end.

Definition shrink2 (s : Z * Z) : Z * Z := (fst s / 2, snd s / 2).

Record level := Level { l_shape : Z * Z; l_tile : Z * Z }.

(** itertools.chain(iter(blocksize), itertools.repeat(blocksize[-1])) at position k *)
Definition nth_block (bs : list blk) (k : nat) : blk := nth k bs (last bs (BInt 0)).

(** the loop [for tsz, idx in zip(_blocks, range(nlevels + 1))] of _make_empty_cog *)
Fixpoint gen_levels (k cnt : nat) (bs : list blk) (shape : Z * Z) : list level :=
  match cnt with
  | O => []
  | S c => Level shape (norm_blocksize (nth_block bs k)) :: gen_levels (S k) c bs (shrink2 shape)
  end.

(** the layout part of _make_empty_cog: image shape -> levels *)
Definition make_levels (bs : list blk) (im_shape : Z * Z) : res (list level * Z) :=
  match bs with
  | [] => Err EIndex                                   (* blocksize[-1] of an empty list *)
  | _ =>
      let tsz := norm_blocksize (last bs (BInt 0)) in
      '(shape', _, n) <- compute_cog_spec im_shape tsz None ;;
      Ok (gen_levels 0 (S (Z.to_nat n)) bs shape', n)
  end.

(** _make_empty_cog: array shape (2 or 3 dims) -> CogMeta.flatten() *)
Definition make_metas (shape : list Z) (gshape : option (Z * Z)) (yaxis : option Z) (bs : list blk)
  : res (list meta) :=
  '(ax, yaxis) <- yaxis_from_shape shape gshape yaxis ;;
  let im := match shape, ax with
            | [h; w], _ => (h, w)
            | [h; w; _], YXS => (h, w)
            | [_; h; w], _ => (h, w)
            | _, _ => (0, 0)
            end in
  let ns := match shape, ax with
            | [_; _; s], YXS => s
            | [s; _; _], SYX => s
            | _, _ => 1
            end in
  '(lv, _) <- make_levels bs im ;;
  Ok (map (fun l => Meta ax (l_shape l) (l_tile l) ns) lv).

(** save_cog_with_dask, blocksize not given:
    [[data_chunks, max(1, max(data_chunks) // 2)]] (the [max(1, ..)] since fix 9739bc3) *)
Definition default_blocksize (chunks : Z * Z) : list blk :=
  [BPair (fst chunks) (snd chunks); BInt (Z.max 1 (Z.max (fst chunks) (snd chunks) / 2))].

(** _compress_tiles (since fix 2735edd): the source array (unpadded, rechunked to
    the tile size) has [nblocks dim tile] blocks along an axis; a tile beyond
    that is compressed from an empty block, i.e. consists of fill values only *)
Definition nblocks (dim tile : Z) : Z := (dim + tile - 1) / tile.
Definition has_source_block (src_shape tile : Z * Z) (y x : Z) : bool :=
  (y <? nblocks (fst src_shape) (fst tile)) && (x <? nblocks (snd src_shape) (snd tile)).

(** write order of save_cog_with_dask: one bag per (level, plane) in that
    nesting, the list of bags reversed ([_tiles[::-1]]), each bag in
    tidx(sample_idx) order; repartition / concat keep that order.  The plane
    count is the one of the full-resolution level ([meta.num_planes]). *)
Definition bags (mm : list meta) : list (list (Z * Z * Z * Z)) :=
  match mm with
  | [] => []
  | m0 :: _ =>
      flat_map (fun im => map (fun s => tag_level (fst im) (tidx_plane (snd im) s))
                              (zrange (num_planes m0)))
               (enum_from 0 mm)
  end.

Definition writer_order (mm : list meta) : list (Z * Z * Z * Z) := concat (rev (bags mm)).

(** Python list indexing [l[i]] with negative wrap-around *)
Definition py_norm_index (n i : Z) : res Z :=
  let j := if i <? 0 then i + n else i in
  if (0 <=? j) && (j <? n) then Ok j else Err EIndex.

Definition py_index {A} (l : list A) (i : Z) : res (nat * A) :=
  j <- py_norm_index (len l) i ;;
  match nth_error l (Z.to_nat j) with
  | Some a => Ok (Z.to_nat j, a)
  | None => Err EIndex
  end.

Fixpoint upd {A} (l : list A) (i : nat) (v : A) : list A :=
  match l, i with
  | [], _ => []
  | _ :: r, O => v :: r
  | a :: r, S j => a :: upd r j v
  end.

Definition zeros (n : Z) : list Z := repeat 0 (Z.to_nat n).

Definition tile_info := list (list Z * list Z).

(** one observed stream element [(scale_idx, p, y, x, sz)] *)
Definition obs := (Z * Z * Z * Z * Z)%type.

Definition extract_step (mm : list meta) (st : tile_info * Z) (o : obs) : res (tile_info * Z) :=
  let '(info, byte_offset) := st in
  let '(scale_idx, p, y, x, sz) := o in
  '(_, m) <- py_index mm scale_idx ;;
  '(j, (b_offsets, b_lengths)) <- py_index info scale_idx ;;
  t <- flat_tile_idx m (p, y, x) ;;
  if sz =? 0 then Ok (info, byte_offset)
  else Ok (upd info j (upd b_offsets (Z.to_nat t) byte_offset, upd b_lengths (Z.to_nat t) sz),
           byte_offset + sz).

Fixpoint extract_loop (mm : list meta) (st : tile_info * Z) (tiles : list obs) : res (tile_info * Z) :=
  match tiles with
  | [] => Ok st
  | o :: r => st' <- extract_step mm st o ;; extract_loop mm st' r
  end.

(** _extract_tile_info(meta, tiles, start_offset) with [mm = meta.flatten()] *)
Definition extract_tile_info (mm : list meta) (tiles : list obs) (start : Z) : res tile_info :=
  let info0 := map (fun m => (zeros (num_tiles m), zeros (num_tiles m))) mm in
  st <- extract_loop mm (info0, start) tiles ;;
  Ok (fst st).

(** _patch_hdr: tags 324 / 325 of every IFD, [hdr_sz] = length of the header buffer *)
Definition patch_entries (hdr_sz : Z) (info : tile_info) : tile_info :=
  map (fun ol => (map (fun off => off + hdr_sz) (fst ol), snd ol)) info.

Definition patch_hdr_tags (mm : list meta) (tiles : list obs) (hdr_sz : Z) : res tile_info :=
  info <- extract_tile_info mm tiles 0 ;;
  if Nat.eqb (length info) (length mm) then Ok (patch_entries hdr_sz info) else Err (EAssert 482).

(** lookup used by the theorems: entry (offset, bytecount) of tile [t] of level [lvl] *)
Definition entry_at (info : tile_info) (lvl t : nat) : Z * Z :=
  let ol := nth lvl info ([], []) in (nth t (fst ol) 0, nth t (snd ol) 0).
