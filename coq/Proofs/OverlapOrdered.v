(** The regions returned on the sampled path of compute_reproject_roi (same CRS with
    rotation/fractional scale, and every cross-CRS call) are well-formed slices:
    start <= stop on both axes of both regions (so a region is empty only as
    [k:k], never as a "negative" slice that numpy would read from the far end).
    Until session 5 only the bounds 0 <= . <= n were proved. *)
From Coq Require Import ZArith QArith Qround List Bool Lia.
From OG Require Import Base.Result Base.QZ Model.Roi Model.Overlap
  Proofs.RoiProofs Proofs.RoiPointsProofs Proofs.OverlapProofs.
Import ListNotations.
Open Scope Z_scope.

Lemma Qfloor_le_Qceiling_mono x y : (x <= y)%Q -> Qfloor x <= Qceiling y.
Proof.
  intros H. apply Z.le_trans with (Qfloor y).
  - apply Qfloor_resp_le; exact H.
  - rewrite Zle_Qle. apply Qle_floor_ceiling.
Qed.

Lemma axis_from_points_ordered vals n padding align lim :
  0 <= n -> 0 <= padding -> align_ok align ->
  let r := axis_from_points vals n padding align lim in fst r <= snd r.
Proof.
  intros Hn Hp Ha. destruct vals as [|v vs]; cbn [axis_from_points fst snd]; [lia|].
  assert (Hq : (Qmin_list v vs <= Qmax_list v vs)%Q).
  { eapply Qle_trans; [apply Qmin_list_le_d | apply Qmax_list_ge_d]. }
  apply Qfloor_le_Qceiling_mono in Hq.
  unfold Qclip_floor, Qclip_ceil.
  set (f := Qfloor (Qmin_list v vs)) in *. set (c := Qceiling (Qmax_list v vs)) in *.
  clearbody f c.
  destruct align as [a|]; cbn [fst snd].
  - cbn in Ha.
    set (lo := clipZ f (- lim) lim - padding). set (hi := clipZ c (- lim) lim + padding).
    assert (Hlh : lo <= hi) by (unfold lo, hi, clipZ; lia).
    clearbody lo hi.
    assert (Hd : align_down lo a <= lo).
    { unfold align_down. pose proof (Z.mod_pos_bound lo a Ha). lia. }
    assert (Hu : hi <= align_up hi a).
    { unfold align_up, align_down. pose proof (Z.mod_pos_bound (hi + (a - 1)) a Ha). lia. }
    unfold clipZ. lia.
  - unfold clipZ. lia.
Qed.

Lemma roi_from_points_ordered pts ny nx padding align :
  0 <= ny -> 0 <= nx -> 0 <= padding -> align_ok align ->
  let r := roi_from_points pts ny nx padding align in
  fst (fst r) <= snd (fst r) /\ fst (snd r) <= snd (snd r).
Proof.
  intros Hy Hx Hp Ha. unfold roi_from_points. cbn [fst snd]. split.
  - apply (axis_from_points_ordered _ ny padding align _ Hy Hp Ha).
  - apply (axis_from_points_ordered _ nx padding align _ Hx Hp Ha).
Qed.

Definition roi_ordered (r : roi2) : Prop :=
  fst (fst r) <= snd (fst r) /\ fst (snd r) <= snd (snd r).

Lemma relative_rois_ordered back fwd ss ds n padding align :
  0 <= fst ss -> 0 <= snd ss -> 0 <= fst ds -> 0 <= snd ds ->
  0 <= padding -> align_ok align ->
  let r := relative_rois back fwd ss ds n padding align in
  roi_ordered (fst r) /\ roi_ordered (snd r).
Proof.
  intros S1 S2 D1 D2 Hp Ha. rewrite relative_rois_eq. cbv zeta.
  set (pts1 := map back _).
  assert (W1 : roi_ordered (src_region pts1 (fst ss) (snd ss) padding align)).
  { destruct (src_region_cases pts1 (fst ss) (snd ss) padding align) as [[_ C] | [_ C]]; rewrite C;
      apply roi_from_points_ordered; cbn; auto. }
  set (roi_s := src_region pts1 _ _ _ _) in *.
  destruct (roi_empty roi_s); cbn [fst snd].
  - split; [exact W1 | unfold roi_ordered; cbn; lia].
  - split; [exact W1|]. apply roi_from_points_ordered; cbn; auto; lia.
Qed.

Lemma sampled_ordered c ss ds A F ttol stol padding align r :
  reproject_linear c ss ds A F ttol stol padding align = Ok r -> paste_ok r = false ->
  0 <= fst ss -> 0 <= snd ss -> 0 <= fst ds -> 0 <= snd ds ->
  0 <= pad_default padding -> align_ok (norm_align align) ->
  roi_ordered (roi_src r) /\ roi_ordered (roi_dst r).
Proof.
  intros Hr Hpk S1 S2 D1 D2 Hp Ha.
  destruct (reproject_linear_cases _ _ _ _ _ _ _ _ _ _ Hr)
    as (sx & sy & _ & _ & _ & _ & [[_ Hroi] | [Hp' _]]); [|congruence].
  pose proof (relative_rois_ordered (aff_pt A) (aff_pt F) ss ds 2 (pad_default padding)
                (norm_align align) S1 S2 D1 D2 Hp Ha) as W.
  cbv zeta in W. rewrite <- Hroi in W. exact W.
Qed.

Lemma nonlinear_ordered c back fwd scale_at ss ds padding align r :
  reproject_nonlinear c back fwd scale_at ss ds padding align = Ok r ->
  0 <= fst ss -> 0 <= snd ss -> 0 <= fst ds -> 0 <= snd ds ->
  0 <= pad_default padding -> align_ok (norm_align align) ->
  roi_ordered (roi_src r) /\ roi_ordered (roi_dst r).
Proof.
  intros Hr S1 S2 D1 D2 Hp Ha.
  destruct (reproject_nonlinear_cases _ _ _ _ _ _ _ _ _ Hr) as (_ & Hroi & _).
  pose proof (relative_rois_ordered back fwd ss ds 5 (pad_default padding)
                (norm_align align) S1 S2 D1 D2 Hp Ha) as W.
  cbv zeta in W. rewrite <- Hroi in W. exact W.
Qed.
