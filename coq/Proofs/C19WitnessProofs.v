(** A small concrete oracle satisfying all contracts (non-vacuity of the C19
    theorems) and the witnesses of the refuted statements. *)
From Coq Require Import ZArith QArith List Bool Lia.
From OG Require Import Base.Result Model.CrsCache Model.ValueObjs Proofs.CrsCacheProofs Proofs.CrsHistoryProofs Proofs.ValueObjsProofs.
Import ListNotations.
Open Scope Z_scope.

(** texts: 1 "EPSG:4326", 2 "epsg:4326", 3 its WKT, 4 the upper-cased WKT (not a CRS),
    5 and 6 two PROJ strings of a lon/lat WGS84 system (pyproj-equal to each other, identified
    as EPSG:4326 by to_epsg(), not pyproj-equal to EPSG:4326 because of the axis order) *)
Definition toy_valid (t : Z) : bool := (t =? 1) || (t =? 2) || (t =? 3) || (t =? 5) || (t =? 6).
Definition toy_cls (t : Z) : Z := if (t =? 1) || (t =? 2) || (t =? 3) then 1 else if t =? 6 then 5 else t.
Definition toy : oracle := mkOracle
  (fun t => if t =? 2 then 1 else if t =? 3 then 4 else t)
  (fun t => t =? 1)
  (fun _ => 4326)
  (fun n => if n =? 4326 then 1 else 0)
  (fun t => if toy_valid t then Some t else None)
  (fun s => if (s =? 1) || (s =? 2) || (s =? 3) then 3 else - s - 10)
  (fun a b => toy_cls a =? toy_cls b)
  (fun s => if toy_valid s then Some 4326 else None).

Lemma toy_contracts : contracts toy.
Proof.
  constructor; unfold toy; simpl.
  - intros a. apply Z.eqb_refl.
  - intros a b H. rewrite Z.eqb_sym. exact H.
  - intros a b c H1 H2. apply Z.eqb_eq in H1, H2. apply Z.eqb_eq. congruence.
  - intros t. destruct (Z.eqb_spec t 2) as [->|N2]; [reflexivity|].
    destruct (Z.eqb_spec t 3) as [->|N3]; [reflexivity|].
    destruct (Z.eqb_spec t 2); [contradiction|]. destruct (Z.eqb_spec t 3); [contradiction|]. reflexivity.
  - intros t H. apply Z.eqb_eq in H. subst. reflexivity.
  - intros n r. destruct (Z.eqb_spec n 4326) as [->|N]; [intros _; repeat split|]. simpl. discriminate.
  - intros t r _. destruct (toy_valid t); intros H; inversion H; reflexivity.
  - intros t H _. apply Z.eqb_eq in H. rewrite H. split; [reflexivity|].
    destruct (Z.eqb_spec t 2) as [E2|N2]; [subst; reflexivity|].
    destruct (Z.eqb_spec t 3) as [E3|N3]; [subst; discriminate|]. subst. reflexivity.
  - intros t r. destruct (toy_valid t) eqn:V; intros H; inversion H; subst. rewrite V. reflexivity.
  - intros s _ _ H. destruct (toy_valid s); [reflexivity|discriminate].
  - intros s H _ _. apply Z.eqb_eq in H. rewrite H. reflexivity.
  - intros a b n m _. destruct (toy_valid a); [|discriminate]. destruct (toy_valid b); [|discriminate].
    intros H1 H2 _ _. inversion H1; inversion H2; congruence.
Qed.

(** F15 (open, key crs-history:pyproj-vs-wkt-key): CRS(<pyproj object of EPSG:4326>) after CRS(<its WKT>)
    is the instance cached for the WKT string *)
Theorem history_dependence_witness :
  exists W, contracts W /\ exists h s n n' st st' v v',
    closed s = true /\ crs_new W (run W init h) s n = Ok (st, v) /\ crs_new W init s n' = Ok (st', v') /\
    c_str v <> c_str v'.
Proof.
  exists toy. split; [exact toy_contracts|].
  exists [OpCRS (SpStr 3) 100], (SpPyNew 1), 101, 102. do 4 eexists.
  split; [reflexivity|]. split; [vm_compute; reflexivity|]. split; [vm_compute; reflexivity|].
  vm_compute. discriminate.
Qed.

(** F16 (open, key crs-eq-hash:epsg-vs-wkt) *)
Theorem eq_hash_witness :
  exists W, contracts W /\ exists h a b,
    get_var (run W init h) 0 = Ok a /\ get_var (run W init h) 1 = Ok b /\
    crs_eq W a b = true /\ crs_hashkey a <> crs_hashkey b /\
    (forall shape A, geobox_eqb W (mkGeoBox shape A (Some a)) (mkGeoBox shape A (Some b)) = true /\
                     geobox_hashkey (mkGeoBox shape A (Some a)) <> geobox_hashkey (mkGeoBox shape A (Some b))) /\
    (forall box, bbox_eqb W (mkBBox box (Some a)) (mkBBox box (Some b)) = true /\
                 bbox_hashkey (mkBBox box (Some a)) <> bbox_hashkey (mkBBox box (Some b))).
Proof.
  exists toy. split; [exact toy_contracts|].
  exists [OpCRS (SpStr 1) 100; OpCRS (SpStr 3) 101]. do 2 eexists.
  split; [vm_compute; reflexivity|]. split; [vm_compute; reflexivity|].
  split; [vm_compute; reflexivity|]. split; [vm_compute; discriminate|]. split.
  - intros shape A. split.
    + unfold geobox_eqb; simpl. rewrite (proj2 (zz_eqb_spec shape shape) eq_refl).
      rewrite (proj2 (aff_eqb_spec A A) eq_refl). reflexivity.
    + unfold geobox_hashkey; simpl. intros H. inversion H.
  - intros box. split.
    + unfold bbox_eqb; simpl. apply (list_eqb_key num_eqb num_key num_eqb_spec). reflexivity.
    + unfold bbox_hashkey; simpl. intros H. inversion H.
Qed.

(** the [==] of the unrepaired code was not transitive and changed when to_epsg() was called *)
Theorem eq_v0_witness :
  exists W, contracts W /\ exists h a a0 b c,
    get_var (run W init h) 0 = Ok a0 /\ get_var (run W init (h ++ [OpToEpsg 0%nat])) 0 = Ok a /\
    get_var (run W init h) 1 = Ok b /\ get_var (run W init h) 2 = Ok c /\
    crs_eq_v0 W a0 b = false /\ crs_eq_v0 W a b = true /\
    crs_eq_v0 W c a = true /\ crs_eq_v0 W c b = false /\
    crs_eq W a0 b = false /\ crs_eq W a b = false.
Proof.
  exists toy. split; [exact toy_contracts|].
  exists [OpCRS (SpStr 5) 100; OpCRS (SpStr 1) 101; OpCRS (SpStr 6) 102]. do 4 eexists.
  repeat split; vm_compute; reflexivity.
Qed.

(** F19 as it was: with the mapping compared by identity, an unpickled clone (new mapping object) is unequal *)
Theorem gcp_identity_witness :
  exists (g : gcpbox) (mid mid' : Z), mid <> mid' /\ gcpbox_eqb_v0 mid mid' g g = false /\ gcpbox_token g = gcpbox_token g.
Proof.
  exists (mkGcpBox (10, 10) (1, 0, 0, 0, 1, 0)%Q (mkGcpMap None 0 [0%Q] 0 [1%Q])), 1, 2.
  split; [discriminate|]. split; reflexivity.
Qed.

(** non-vacuity: a reachable state with a cached transformer, and instances satisfying the CRS laws *)
Definition demo_history : list op :=
  [OpCRS (SpStr 1) 100; OpCRS (SpStr 3) 101; OpNewPy 5 102; OpCRS (SpPy 0) 0; OpTransformer 0 1 true; OpDropPy 0; OpGc].

Lemma demo_state :
  tcache (run toy init demo_history) = [((100, 101, true), (1, 3, true))] /\
  map fst (heap (run toy init demo_history)) = [102; 101; 100].
Proof. split; vm_compute; reflexivity. Qed.

Lemma demo_laws :
  exists Hp reload v, Dcrs toy Hp v /\ crs_laws toy (Dcrs toy Hp) reload.
Proof.
  exists (fun i => if i =? 100 then Some 1 else None), (fun v => v), (mkCrs 100 1 1 (Some 4326)).
  split.
  - split; [split|split]; try reflexivity. right; reflexivity.
  - apply (crs_laws_from_contracts toy toy_contracts). intros v Dv; auto.
Qed.
