(** Basic facts about the scalar helpers of Model/MathH.v: truncation, fmod,
    split_float, maybe_int, is_almost_int. *)
From Coq Require Import ZArith QArith Qround Qabs List Bool Lia Lqa.
From OG Require Import Base.Result Base.QZ Model.Roi Model.MathH.
Open Scope Q_scope.

Lemma Qltb_true x y : Qltb x y = true <-> x < y.
Proof.
  unfold Qltb. rewrite negb_true_iff. apply Qle_bool_false.
Qed.

Lemma Qltb_false x y : Qltb x y = false <-> y <= x.
Proof.
  unfold Qltb. rewrite negb_false_iff. apply Qle_bool_iff.
Qed.

Lemma Qltb_comp x x' y y' : x == x' -> y == y' -> Qltb x y = Qltb x' y'.
Proof.
  intros Hx Hy. destruct (Qltb x' y') eqn:E.
  - apply Qltb_true in E. apply Qltb_true. rewrite Hx, Hy. exact E.
  - apply Qltb_false in E. apply Qltb_false. rewrite Hx, Hy. exact E.
Qed.

Lemma Qle_bool_comp x x' y y' : x == x' -> y == y' -> Qle_bool x y = Qle_bool x' y'.
Proof.
  intros Hx Hy. destruct (Qle_bool x' y') eqn:E.
  - apply Qle_bool_iff in E. apply Qle_bool_iff. rewrite Hx, Hy. exact E.
  - apply Qle_bool_false in E. apply Qle_bool_false. rewrite Hx, Hy. exact E.
Qed.

(** absolute value, in the case form that lra can use *)
Lemma Qabs_case_lra x : (0 <= x /\ Qabs x == x) \/ (x < 0 /\ Qabs x == - x).
Proof.
  destruct (Qlt_le_dec x 0) as [H|H].
  - right. split; [exact H|]. apply Qabs_neg. lra.
  - left. split; [exact H|]. apply Qabs_pos. exact H.
Qed.

(** truncation towards zero *)
Lemma Qtrunc_spec x :
  exists t, t = inject_Z (Qtrunc x) /\
            ((0 <= x /\ t <= x /\ x < t + 1) \/ (x < 0 /\ t - 1 < x /\ x <= t)).
Proof.
  unfold Qtrunc. destruct (Qle_bool 0 x) eqn:E.
  - apply Qle_bool_iff in E. destruct (Qfloor_spec x) as (f & Ef & H1 & H2).
    exists f. split; [exact Ef|]. left. auto.
  - apply Qle_bool_false in E. destruct (Qceiling_spec x) as (c & Ec & H1 & H2).
    exists c. split; [exact Ec|]. right. auto.
Qed.

Lemma Qtrunc_comp x y : x == y -> Qtrunc x = Qtrunc y.
Proof.
  intros H. unfold Qtrunc. rewrite (Qle_bool_comp 0 0 x y (Qeq_refl 0) H).
  destruct (Qle_bool 0 y); [apply Qfloor_comp | apply Qceiling_comp]; exact H.
Qed.

Lemma Qtrunc_Z z : Qtrunc (inject_Z z) = z.
Proof.
  unfold Qtrunc. destruct (Qle_bool 0 (inject_Z z)); [apply Qfloor_Z | apply Qceiling_Z].
Qed.

(** two integers closer than 1 are equal *)
Lemma inject_Z_close a b : inject_Z a - inject_Z b < 1 -> inject_Z b - inject_Z a < 1 -> a = b.
Proof.
  intros H1 H2.
  assert (A : inject_Z a < inject_Z (b + 1)) by (rewrite inject_Z_plus; rewrite inj1; lra).
  assert (B : inject_Z b < inject_Z (a + 1)) by (rewrite inject_Z_plus; rewrite inj1; lra).
  rewrite <- Zlt_Qlt in A, B. lia.
Qed.

Lemma inject_Z_apart a b : a <> b -> 1 <= inject_Z a - inject_Z b \/ 1 <= inject_Z b - inject_Z a.
Proof.
  intros N. destruct (Z_lt_le_dec a b) as [L|L].
  - right. assert (H : (a + 1 <= b)%Z) by lia. rewrite Zle_Qle, inject_Z_plus, inj1 in H. lra.
  - left. assert (H : (b + 1 <= a)%Z) by lia. rewrite Zle_Qle, inject_Z_plus, inj1 in H. lra.
Qed.

(** fmod(x, 1) *)
Lemma fmod1_spec x :
  exists t, t = inject_Z (Qtrunc x) /\ fmod1 x == x - t /\
            ((0 <= x /\ 0 <= x - t /\ x - t < 1) \/ (x < 0 /\ -(1) < x - t /\ x - t <= 0)).
Proof.
  destruct (Qtrunc_spec x) as (t & Et & H). exists t. split; [exact Et|]. split.
  - unfold fmod1. rewrite <- Et. reflexivity.
  - destruct H as [(H0 & H1 & H2)|(H0 & H1 & H2)]; [left | right]; repeat split; lra.
Qed.

(** split_float: the characterisation everything else uses.  [z] is the
    integer the code calls [x_whole]. *)
Lemma split_float_char x :
  exists z : Z,
    fst (split_float x) == inject_Z z /\
    snd (split_float x) == x - inject_Z z /\
    -(1#2) <= x - inject_Z z /\ x - inject_Z z <= 1#2.
Proof.
  destruct (fmod1_spec x) as (t & Et & Ep & Hr).
  unfold split_float.
  destruct (Qltb (1#2) (fmod1 x)) eqn:E1.
  - apply Qltb_true in E1. exists (Qtrunc x + 1)%Z. simpl.
    rewrite inject_Z_plus, inj1, <- Et. rewrite Ep in *.
    repeat split; destruct Hr as [(?&?&?)|(?&?&?)]; lra.
  - apply Qltb_false in E1.
    destruct (Qltb (fmod1 x) (-(1#2))) eqn:E2.
    + apply Qltb_true in E2. exists (Qtrunc x - 1)%Z. simpl.
      unfold Z.sub. rewrite inject_Z_plus, inject_Z_opp, inj1, <- Et. rewrite Ep in *.
      repeat split; destruct Hr as [(?&?&?)|(?&?&?)]; lra.
    + apply Qltb_false in E2. exists (Qtrunc x). simpl.
      rewrite <- Et. rewrite Ep in *.
      repeat split; lra.
Qed.

Lemma split_float_spec x :
  let '(w, p) := split_float x in
  w + p == x /\ -(1#2) <= p /\ p <= 1#2 /\ exists z : Z, w == inject_Z z.
Proof.
  destruct (split_float_char x) as (z & Hw & Hp & H1 & H2).
  destruct (split_float x) as [w p]. simpl in *.
  repeat split; try (rewrite ?Hw, ?Hp; lra). exists z. exact Hw.
Qed.

(** the whole part is a nearest integer: no integer is strictly closer *)
Lemma split_float_nearest x (k : Z) :
  Qabs (snd (split_float x)) <= Qabs (x - inject_Z k).
Proof.
  destruct (split_float_char x) as (z & Hw & Hp & H1 & H2).
  rewrite Hp.
  destruct (Z.eq_dec z k) as [->|N]; [apply Qle_refl|].
  destruct (inject_Z_apart z k N) as [A|A];
    destruct (Qabs_case_lra (x - inject_Z z)) as [(?&->)|(?&->)];
    destruct (Qabs_case_lra (x - inject_Z k)) as [(?&->)|(?&->)]; lra.
Qed.

(** maybe_int *)
Lemma maybe_int_z_some x tol n :
  maybe_int_z x tol = Some n ->
  Qabs (x - inject_Z n) < tol /\ -(1#2) <= x - inject_Z n /\ x - inject_Z n <= 1#2.
Proof.
  unfold maybe_int_z. destruct (split_float_char x) as (z & Hw & Hp & H1 & H2).
  destruct (split_float x) as [w p]. simpl in *.
  destruct (Qltb (Qabs p) tol) eqn:E; [|discriminate].
  intros H. injection H as <-. apply Qltb_true in E.
  rewrite (Qtrunc_comp _ _ Hw), Qtrunc_Z. rewrite Hp in E. auto.
Qed.

Lemma maybe_int_z_none x tol :
  maybe_int_z x tol = None -> forall k : Z, tol <= Qabs (x - inject_Z k).
Proof.
  unfold maybe_int_z. intros H k. pose proof (split_float_nearest x k) as N.
  destruct (split_float x) as [w p]. simpl in *.
  destruct (Qltb (Qabs p) tol) eqn:E; [discriminate|].
  apply Qltb_false in E. lra.
Qed.

Lemma maybe_int_z_complete x tol (k : Z) :
  Qabs (x - inject_Z k) < tol -> exists n, maybe_int_z x tol = Some n.
Proof.
  intros H. destruct (maybe_int_z x tol) eqn:E; [eauto|].
  pose proof (maybe_int_z_none x tol E k). lra.
Qed.

Lemma maybe_int_z_of_Z (n : Z) tol : 0 < tol -> maybe_int_z (inject_Z n) tol = Some n.
Proof.
  intros Ht. destruct (maybe_int_z_complete (inject_Z n) tol n) as (m & Hm).
  - setoid_replace (inject_Z n - inject_Z n) with 0 by ring. simpl. exact Ht.
  - rewrite Hm. f_equal. apply maybe_int_z_some in Hm. destruct Hm as (_ & H1 & H2).
    symmetry. apply inject_Z_close; lra.
Qed.

Lemma fmod1_comp x y : x == y -> fmod1 x == fmod1 y.
Proof. intros H. unfold fmod1. rewrite (Qtrunc_comp _ _ H), H. reflexivity. Qed.

Lemma split_float_comp x y : x == y ->
  fst (split_float x) == fst (split_float y) /\ snd (split_float x) == snd (split_float y).
Proof.
  intros H. pose proof (fmod1_comp x y H) as F. unfold split_float.
  rewrite (Qltb_comp (1#2) (1#2) (fmod1 x) (fmod1 y) (Qeq_refl _) F).
  rewrite (Qltb_comp (fmod1 x) (fmod1 y) (-(1#2)) (-(1#2)) F (Qeq_refl _)).
  destruct (Qltb (1#2) (fmod1 y)); [|destruct (Qltb (fmod1 y) (-(1#2)))];
    simpl; split; rewrite ?F, ?H; reflexivity.
Qed.

Lemma maybe_int_z_comp x y tol tol' : x == y -> tol == tol' -> maybe_int_z x tol = maybe_int_z y tol'.
Proof.
  intros H Ht. destruct (split_float_comp x y H) as [Hw Hp]. unfold maybe_int_z.
  destruct (split_float x) as [w p]. destruct (split_float y) as [w' p']. simpl in *.
  rewrite (Qltb_comp (Qabs p) (Qabs p') tol tol') by (rewrite ?Hp; auto; reflexivity).
  destruct (Qltb (Qabs p') tol'); [|reflexivity]. f_equal. apply Qtrunc_comp. exact Hw.
Qed.

Lemma maybe_int_comp x y tol tol' : x == y -> tol == tol' -> maybe_int x tol == maybe_int y tol'.
Proof.
  intros H Ht. unfold maybe_int. rewrite (maybe_int_z_comp x y tol tol' H Ht).
  destruct (maybe_int_z y tol'); [reflexivity | exact H].
Qed.

(** maybe_int moves its argument by less than [tol], to an integer *)
Lemma maybe_int_cases x tol :
  (exists n : Z, maybe_int_z x tol = Some n /\ maybe_int x tol = inject_Z n /\ Qabs (x - inject_Z n) < tol /\ -(1#2) <= x - inject_Z n /\ x - inject_Z n <= 1#2) \/
  (maybe_int_z x tol = None /\ maybe_int x tol = x /\ forall k : Z, tol <= Qabs (x - inject_Z k)).
Proof.
  unfold maybe_int. destruct (maybe_int_z x tol) as [n|] eqn:E.
  - left. exists n. pose proof (maybe_int_z_some x tol n E). tauto.
  - right. pose proof (maybe_int_z_none x tol E). auto.
Qed.

(** is_almost_int *)
Lemma is_almost_int_dist x :
  exists z : Z,
    (let f := Qabs (fmod1 x) in if Qltb (1#2) f then 1 - f else f) == Qabs (snd (split_float x)).
Proof.
  exists 0%Z.
  destruct (fmod1_spec x) as (t & Et & Ep & Hr).
  unfold split_float. cbv zeta.
  destruct (Qabs_case_lra (fmod1 x)) as [(P0 & Pa)|(P0 & Pa)].
  - rewrite (Qltb_comp (1#2) (1#2) (Qabs (fmod1 x)) (fmod1 x) (Qeq_refl _) Pa).
    destruct (Qltb (1#2) (fmod1 x)) eqn:E1;  cbn [snd].
    + apply Qltb_true in E1. rewrite Pa.
      assert (fmod1 x - 1 < 0) by (rewrite Ep in *; destruct Hr as [(?&?&?)|(?&?&?)]; lra).
      rewrite Qabs_neg by lra. ring.
    + apply Qltb_false in E1.
      destruct (Qltb (fmod1 x) (-(1#2))) eqn:E2.
      * apply Qltb_true in E2. lra.
      * cbn [snd]. reflexivity.
  - assert (N : Qltb (1#2) (fmod1 x) = false) by (apply Qltb_false; lra). rewrite N.
    rewrite (Qltb_comp (1#2) (1#2) (Qabs (fmod1 x)) (- fmod1 x) (Qeq_refl _) Pa).
    destruct (Qltb (fmod1 x) (-(1#2))) eqn:E2;  cbn [snd].
    + apply Qltb_true in E2.
      assert (T : Qltb (1#2) (- fmod1 x) = true) by (apply Qltb_true; lra). rewrite T.
      assert (0 <= fmod1 x + 1) by (rewrite Ep in *; destruct Hr as [(?&?&?)|(?&?&?)]; lra).
      rewrite Pa. rewrite Qabs_pos by lra. ring.
    + apply Qltb_false in E2.
      assert (T : Qltb (1#2) (- fmod1 x) = false) by (apply Qltb_false; lra). rewrite T.
      reflexivity.
Qed.

Lemma is_almost_int_eq x tol :
  is_almost_int x tol = Qltb (Qabs (snd (split_float x))) tol.
Proof.
  destruct (is_almost_int_dist x) as (_ & H). unfold is_almost_int.
  apply Qltb_comp; [exact H | reflexivity].
Qed.

Lemma is_almost_int_maybe_int x tol :
  is_almost_int x tol = true <-> exists n, maybe_int_z x tol = Some n.
Proof.
  rewrite is_almost_int_eq. unfold maybe_int_z. destruct (split_float x) as [w p]. simpl.
  destruct (Qltb (Qabs p) tol); split; intros H; eauto; try discriminate.
  destruct H as (n & H). discriminate.
Qed.

Lemma is_almost_int_iff x tol :
  is_almost_int x tol = true <-> exists k : Z, Qabs (x - inject_Z k) < tol.
Proof.
  rewrite is_almost_int_maybe_int. split.
  - intros (n & H). exists n. apply maybe_int_z_some in H. tauto.
  - intros (k & H). eapply maybe_int_z_complete; eauto.
Qed.
