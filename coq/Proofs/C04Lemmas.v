(** Property-level statements of C04 whose proofs combine several lemmas of
    TilesProofs / BlocksProofs; Props/C04.v restates them and closes each by [exact]. *)
From Coq Require Import ZArith List Bool Lia.
From OG Require Import Base.Result Base.ListSel Model.Roi Model.Tiles Model.Blocks
     Proofs.TilesProofs Proofs.BlocksProofs.
Import ListNotations.
Open Scope Z_scope.

Lemma c04_tiles_init :
  forall base tile t,
    0 < fst tile -> 0 < snd tile -> 0 <= fst base -> 0 <= snd base ->
    tiles_init base tile = Ok t ->
    rt_wf (RReg t) /\ t_base t = base /\ t_tile t = tile /\
    t_shape t = (cdiv (fst base) (fst tile), cdiv (snd base) (snd tile)) /\
    (fst (t_shape t) - 1) * fst tile < fst base <= fst (t_shape t) * fst tile /\
    (snd (t_shape t) - 1) * snd tile < snd base <= snd (t_shape t) * snd tile.
Proof.
  intros base tile t H1 H2 H3 H4 E.
  destruct (tiles_init_inv base tile t H1 H2 H3 H4 E) as (W & Eb & Et & Es).
  rewrite Es. cbn [fst snd].
  split; [exact W|]. split; [exact Eb|]. split; [exact Et|]. split; [reflexivity|].
  split; apply cdiv_spec; assumption.
Qed.

Lemma c04_tiles_init_total :
  forall base tile,
    (0 < fst tile -> 0 < snd tile -> 0 <= fst base -> 0 <= snd base -> exists t, tiles_init base tile = Ok t) /\
    (tiles_init base tile = Err EOther <-> fst tile = 0 \/ snd tile = 0).
Proof.
  intros base tile. split; [|apply tiles_init_err].
  intros H1 H2 H3 H4. destruct (tiles_init_wf base tile H1 H2 H3 H4) as (t & E & _). eauto.
Qed.

Lemma c04_vtiles_init :
  forall chy chx,
    nonneg chy -> nonneg chx -> sumZ chy < two63 -> sumZ chx < two63 ->
    exists v, vt_init chy chx = Ok v /\
      rt_wf (RVar v) /\ rt_shape (RVar v) = (len chy, len chx) /\
      rt_base (RVar v) = Ok (sumZ chy, sumZ chx) /\ rt_chunks (RVar v) = Ok (chy, chx) /\
      (forall i, 0 <= i <= len chy -> By (RVar v) i = sumZ (firstn (Z.to_nat i) chy)) /\
      (forall j, 0 <= j <= len chx -> Bx (RVar v) j = sumZ (firstn (Z.to_nat j) chx)).
Proof.
  intros chy chx Ny Nx Ty Tx.
  assert (Ty' := Ty). assert (Tx' := Tx). rewrite sumZ_tot in Ty', Tx'.
  destruct (vt_init_wf chy chx Ny Nx Ty' Tx') as (v & E & _).
  exists v. split; [exact E|]. exact (vt_init_inv chy chx v Ny Nx Ty Tx E).
Qed.

Lemma c04_regular_boundaries :
  forall t i, By (RReg t) i = Z.min (i * fst (t_tile t)) (fst (t_base t)) /\
              Bx (RReg t) i = Z.min (i * snd (t_tile t)) (snd (t_base t)).
Proof. intros; split; reflexivity. Qed.

Lemma c04_partition :
  forall t NY NX y x, rt_wf t -> rt_base t = Ok (NY, NX) -> 0 <= y < NY -> 0 <= x < NX ->
    exists rc, rt_locate t (y, x) = Ok rc /\ in_grid t rc /\
               rt_getitem t (int_idx rc) = Ok (tile_region t rc) /\
               in_roi (tile_region t rc) (y, x) /\
               forall rc', in_grid t rc' -> in_roi (tile_region t rc') (y, x) -> rc' = rc.
Proof.
  intros t NY NX y x W B Hy Hx. destruct (rt_base_inv t NY NX W B) as (<- & <-).
  destruct (rt_partition t y x W Hy Hx) as (rc & E & G & P & U).
  exists rc. split; [exact E|]. split; [exact G|]. split; [apply rt_index_grid; assumption|].
  split; [exact P | exact U].
Qed.

Lemma c04_locate_inverse :
  forall t rc y x, rt_wf t -> in_grid t rc -> in_roi (tile_region t rc) (y, x) ->
    rt_locate t (y, x) = Ok rc.
Proof.
  intros t rc y x W G P.
  pose proof (rt_region_inside t rc W G) as RI. cbv zeta in RI.
  assert (Hy : 0 <= y < ax_N (rt_y t)) by (destruct P as (P1 & _); cbn [fst snd] in *; lia).
  assert (Hx : 0 <= x < ax_N (rt_x t)) by (destruct P as (_ & P2); cbn [fst snd] in *; lia).
  destruct (rt_partition t y x W Hy Hx) as (r0 & E & _ & _ & U).
  rewrite (U rc G P). exact E.
Qed.

Lemma c04_locate_outside :
  forall t NY NX y x, rt_wf t -> rt_base t = Ok (NY, NX) -> ~ (0 <= y < NY /\ 0 <= x < NX) ->
    rt_locate t (y, x) = Err EIndex.
Proof.
  intros t NY NX y x W B H. destruct (rt_base_inv t NY NX W B) as (<- & <-).
  apply rt_locate_outside; assumption.
Qed.

Lemma c04_chunks :
  forall t NY NX, rt_wf t -> rt_base t = Ok (NY, NX) -> 0 < fst (rt_shape t) -> 0 < snd (rt_shape t) ->
    exists chy chx, rt_chunks t = Ok (chy, chx) /\
      len chy = fst (rt_shape t) /\ len chx = snd (rt_shape t) /\
      (forall r, 0 <= r < fst (rt_shape t) -> nthZ chy r = By t (r + 1) - By t r) /\
      (forall c, 0 <= c < snd (rt_shape t) -> nthZ chx c = Bx t (c + 1) - Bx t c) /\
      sumZ chy = NY /\ sumZ chx = NX.
Proof.
  intros t NY NX W B Sy Sx. destruct (rt_base_inv t NY NX W B) as (<- & <-).
  destruct (rt_chunks_spec t W Sy Sx) as (chy & chx & E & Ey & Ex).
  pose proof W as (Wy & Wx). rewrite rt_shape_axes in *. cbn [fst snd] in *.
  destruct (ax_chunks_spec _ Wy Sy) as (chy' & Ey' & Ly & Ny & Ty). rewrite Ey in Ey'. inversion Ey'; subst chy'.
  destruct (ax_chunks_spec _ Wx Sx) as (chx' & Ex' & Lx & Nx & Tx). rewrite Ex in Ex'. inversion Ex'; subst chx'.
  exists chy, chx. rewrite !sumZ_tot. repeat split; auto.
Qed.

Lemma c04_crop :
  forall t blk, rt_wf t -> valid_block t blk ->
    exists t', rt_crop t (mk_roi blk) = Ok t' /\ rt_wf t' /\
      rt_shape t' = (snd (fst blk) - fst (fst blk), snd (snd blk) - fst (snd blk)) /\
      rt_base t' = Ok (roi_shape2 (block_region t blk)) /\
      forall i j, in_grid t' (i, j) ->
        in_grid t (fst (fst blk) + i, fst (snd blk) + j) /\
        exists r', rt_getitem t' (int_idx (i, j)) = Ok r' /\
                   rt_getitem t (int_idx (fst (fst blk) + i, fst (snd blk) + j)) =
                     Ok (shift_roi r' (By t (fst (fst blk)), Bx t (fst (snd blk)))).
Proof.
  intros t blk W V. destruct (rt_crop_spec t blk W V) as (t' & E & W' & S & _).
  exists t'. split; [exact E|]. split; [exact W'|]. split; [exact S|].
  split; [apply (rt_crop_base t blk t' W V E)|].
  intros i j G. split; [apply (rt_crop_tiles t blk t' i j W V E G) | apply (rt_crop_getitem t blk t' i j W V E G)].
Qed.

Lemma c04_clip_total :
  forall t p r, rt_wf t -> Forall (in_grid t) (p :: r) ->
    (exists res, clip_tiles t (p :: r) = Ok res) /\ clip_tiles t [] = Err EValue.
Proof.
  intros t p r W G. split; [|reflexivity].
  destruct (clip_tiles_spec t p r W G) as (t' & y1 & y2 & x1 & x2 & E & _). eauto.
Qed.

Lemma c04_geoboxtiles_tile :
  forall g, rt_wf (gb_tiles g) ->
    (forall rc, in_grid (gb_tiles g) rc ->
       gbt_getitem g (int_idx rc) = Ok (window_of (gb_box g) (tile_region (gb_tiles g) rc)) /\
       gbt_chunk_shape g rc = Ok (roi_shape2 (tile_region (gb_tiles g) rc))) /\
    (forall r c, in_range (fst (rt_shape (gb_tiles g))) r && in_range (snd (rt_shape (gb_tiles g))) c = false ->
       gbt_getitem g (int_idx (r, c)) = Err EIndex) /\
    gbt_chunks g = rt_chunks (gb_tiles g) /\ gbt_shape g = rt_shape (gb_tiles g).
Proof.
  intros g W. split; [|split; [|split; reflexivity]].
  - intros rc G. split; [apply gbt_tile; assumption|].
    rewrite (gbt_chunk_shape_spec g rc _ W G (gbt_tile g rc W G)). reflexivity.
  - intros r c H. apply gbt_tile_err; assumption.
Qed.

Lemma c04_geoboxtiles_crop :
  forall g blk, rt_wf (gb_tiles g) -> valid_block (gb_tiles g) blk ->
    exists g', gbt_crop g (mk_roi blk) = Ok g' /\
      gb_box g' = window_of (gb_box g) (block_region (gb_tiles g) blk) /\
      rt_crop (gb_tiles g) (mk_roi blk) = Ok (gb_tiles g') /\ rt_wf (gb_tiles g') /\
      forall i j, in_grid (gb_tiles g') (i, j) ->
        gbt_getitem g' (int_idx (i, j)) = gbt_getitem g (int_idx (fst (fst blk) + i, fst (snd blk) + j)).
Proof.
  intros g blk W V. destruct (gbt_crop_spec g blk W V) as (g' & E & B & C & W').
  exists g'. split; [exact E|]. split; [exact B|]. split; [exact C|]. split; [exact W'|].
  intros i j G. apply (gbt_crop_tiles g blk g' i j W V E G).
Qed.

Lemma c04_geoboxtiles_clip :
  forall g p r, rt_wf (gb_tiles g) -> Forall (in_grid (gb_tiles g)) (p :: r) ->
    exists g' new o, gbt_clip g (p :: r) = Ok (g', new) /\
      new = map (fun yx => (fst yx - fst o, snd yx - snd o)) (p :: r) /\
      Forall (fun yx => let n := (fst yx - fst o, snd yx - snd o) in
                        in_grid (gb_tiles g') n /\
                        gbt_getitem g' (int_idx n) = gbt_getitem g (int_idx yx)) (p :: r).
Proof.
  intros g p r W G. destruct (gbt_clip_spec g p r W G) as (g' & y1 & y2 & x1 & x2 & E & _).
  destruct (gbt_clip_tiles g p r g' _ W G E) as (o & En & F).
  exists g', (map (fun yx => (fst yx - y1, snd yx - x1)) (p :: r)), o. auto.
Qed.
